(* Proofs about the partial-cognate model (Partial.v) and the specifications of
   the boolean checkers of PartialExec.v. *)
From Coq Require Import QArith ZArith List Bool Arith Lia Relations Permutation.
From LV Require Import Common.Cases Cluster.Flat Cluster.FlatProofs Cluster.FlatQ
  Cognates.Components Cognates.ComponentsProofs Cognates.Partial Cognates.PartialExec.
Import ListNotations.
Local Open Scope nat_scope.

(* ------------------------------------------------------------------ *)
(* the clauses of the property as predicates on an id assignment *)

(* the word is there under its key and has one id per morpheme *)
Definition word_ok (w : word) (wo : nat * list nat) : Prop :=
  fst w = fst wo /\ length (snd wo) = nmorph (snd w).

Definition one_id_per_morpheme (wl : list concept) (out : pids) : Prop :=
  Forall2 (Forall2 word_ok) wl out.

Definition disj (a b : list nat) : Prop := forall x, In x a -> ~ In x b.

Fixpoint pairwise {A} (R : A -> A -> Prop) (l : list A) : Prop :=
  match l with
  | [] => True
  | a :: tl => Forall (R a) tl /\ pairwise R tl
  end.

(* no identifier occurs in two concepts *)
Definition concept_disjoint (out : pids) : Prop := pairwise disj (map ids_of out).

(* no word has the same identifier twice *)
Definition unique_in_word (out : pids) : Prop :=
  Forall (Forall (fun wo : nat * list nat => NoDup (snd wo))) out.

(* strict ids: equal exactly for equal source sequences *)
Definition strict_exact (srcs : list (list nat)) (out : list nat) : Prop :=
  length out = length srcs /\
  forall p q, p < length srcs -> q < length srcs ->
    (nth p out 0 = nth q out 0 <-> nth p srcs [] = nth q srcs []).

(* words p, q of a concept (numbered by position) share a source id *)
Definition share_rel (srcs : list (list nat)) : nat -> nat -> Prop :=
  E (share_edge srcs) (seq 0 (length srcs)).

Definition loose_concept_exact (srcs : list (list nat)) (o : list nat) : Prop :=
  length o = length srcs /\
  forall p q, p < length srcs -> q < length srcs ->
    (nth p o 0 = nth q o 0 <-> clos_refl_sym_trans nat (share_rel srcs) p q).

(* loose ids: per concept the connected components of share_rel; no id in two concepts *)
Definition loose_exact (cs : list (list (list nat))) (out : list (list nat)) : Prop :=
  Forall2 loose_concept_exact cs out /\ pairwise disj out.

(* ------------------------------------------------------------------ *)
(* generic list facts *)

Lemma nth_map_seq {A} (f : nat -> A) n : forall s x d, x < n -> nth x (map f (seq s n)) d = f (s + x).
Proof.
  induction n as [|n IH]; intros s x d L; [lia|].
  cbn [seq map]. destruct x as [|x]; cbn [nth].
  - f_equal. lia.
  - rewrite IH by lia. f_equal. lia.
Qed.

Lemma pairwise_nth {A} (R : A -> A -> Prop) (l : list A) d :
  pairwise R l -> forall i j, i < j -> j < length l -> R (nth i l d) (nth j l d).
Proof.
  induction l as [|a tl IH]; intros P i j Lij Lj; cbn [length] in Lj; [lia|].
  destruct P as [P1 P2]. destruct j as [|j]; [lia|]. destruct i as [|i]; cbn [nth].
  - rewrite Forall_forall in P1. apply P1. apply nth_In. lia.
  - apply IH; [exact P2|lia|lia].
Qed.

Lemma forall2b_spec {A B} (f : A -> B -> bool) (R : A -> B -> Prop) :
  (forall x y, f x y = true <-> R x y) ->
  forall l1 l2, forall2b f l1 l2 = true <-> Forall2 R l1 l2.
Proof.
  intros H. induction l1 as [|x t1 IH]; destruct l2 as [|y t2]; cbn [forall2b].
  - split; [constructor|reflexivity].
  - split; [discriminate|intros F; inversion F].
  - split; [discriminate|intros F; inversion F].
  - rewrite andb_true_iff, H, IH. split.
    + intros [H1 H2]. constructor; assumption.
    + intros F. inversion F; subst. split; assumption.
Qed.

Lemma pairwiseb_spec {A} (r : A -> A -> bool) (R : A -> A -> Prop) :
  (forall x y, r x y = true <-> R x y) ->
  forall l, pairwiseb r l = true <-> pairwise R l.
Proof.
  intros H. induction l as [|a tl IH]; cbn [pairwiseb pairwise].
  - split; [intros _; exact I|reflexivity].
  - rewrite andb_true_iff, IH, forallb_forall, Forall_forall. split.
    + intros [H1 H2]. split; [|exact H2]. intros x Hx. apply H. apply H1. exact Hx.
    + intros [H1 H2]. split; [|exact H2]. intros x Hx. apply H. apply H1. exact Hx.
Qed.

Lemma seq_eqb_spec a b : seq_eqb a b = true <-> a = b.
Proof. unfold seq_eqb. apply list_eqb_spec. intros x y. apply Nat.eqb_eq. Qed.

Lemma eqb_iff (a b : bool) : Bool.eqb a b = true <-> (a = true <-> b = true).
Proof. destruct a, b; cbn; split; try tauto; try congruence; intros [H1 H2]; try (symmetry; auto; fail); auto. Qed.

Lemma forallb_seq (f : nat -> bool) n : forallb f (seq 0 n) = true <-> forall p, p < n -> f p = true.
Proof.
  rewrite forallb_forall. split.
  - intros H p L. apply H. apply in_seq. lia.
  - intros H p Hp. apply in_seq in Hp. apply H. lia.
Qed.

(* ------------------------------------------------------------------ *)
(* checker specifications *)

Lemma disjb_spec a b : disjb a b = true <-> disj a b.
Proof.
  unfold disjb, disj. rewrite forallb_forall. split.
  - intros H x Hx Hb. apply H in Hx. apply negb_true_iff in Hx. apply memb_false in Hx. contradiction.
  - intros H x Hx. apply negb_true_iff. apply memb_false. apply H. exact Hx.
Qed.

Lemma nodupb_spec l : nodupb l = true <-> NoDup l.
Proof.
  induction l as [|x tl IH]; cbn [nodupb].
  - split; [constructor|reflexivity].
  - rewrite andb_true_iff, negb_true_iff, memb_false, IH. split.
    + intros [H1 H2]. constructor; assumption.
    + intros N. inversion N; subst. split; assumption.
Qed.

Lemma word_okb_spec w wo : word_okb w wo = true <-> word_ok w wo.
Proof. unfold word_okb, word_ok. rewrite andb_true_iff, !Nat.eqb_eq. tauto. Qed.

Theorem one_idb_spec wl out : one_idb wl out = true <-> one_id_per_morpheme wl out.
Proof.
  unfold one_idb, one_id_per_morpheme. apply forall2b_spec. intros c o.
  apply forall2b_spec. apply word_okb_spec.
Qed.

Theorem concept_disjointb_spec out : concept_disjointb out = true <-> concept_disjoint out.
Proof. unfold concept_disjointb, concept_disjoint. apply pairwiseb_spec. apply disjb_spec. Qed.

Theorem unique_in_wordb_spec out : unique_in_wordb out = true <-> unique_in_word out.
Proof.
  unfold unique_in_wordb, unique_in_word. rewrite forallb_forall, Forall_forall. split.
  - intros H o Ho. apply Forall_forall. intros wo Hwo. apply nodupb_spec.
    specialize (H o Ho). rewrite forallb_forall in H. apply H. exact Hwo.
  - intros H o Ho. apply forallb_forall. intros wo Hwo. apply nodupb_spec.
    specialize (H o Ho). rewrite Forall_forall in H. apply H. exact Hwo.
Qed.

Theorem strict_exactb_spec srcs out : strict_exactb srcs out = true <-> strict_exact srcs out.
Proof.
  unfold strict_exactb, strict_exact. rewrite andb_true_iff, Nat.eqb_eq, forallb_seq. split.
  - intros [L H]. split; [exact L|]. intros p q Lp Lq. specialize (H p Lp). rewrite forallb_seq in H.
    specialize (H q Lq). apply eqb_iff in H. rewrite Nat.eqb_eq, seq_eqb_spec in H. exact H.
  - intros [L H]. split; [exact L|]. intros p Lp. apply forallb_seq. intros q Lq.
    apply eqb_iff. rewrite Nat.eqb_eq, seq_eqb_spec. apply H; assumption.
Qed.

Lemma loose_conceptb_spec srcs o : loose_conceptb srcs o = true <-> loose_concept_exact srcs o.
Proof.
  unfold loose_conceptb, loose_concept_exact. rewrite andb_true_iff, Nat.eqb_eq, forallb_seq.
  assert (S : forall p q, p < length srcs -> q < length srcs ->
            (block_index p (components (share_edge srcs) (seq 0 (length srcs))) =
             block_index q (components (share_edge srcs) (seq 0 (length srcs))) <->
             clos_refl_sym_trans nat (share_rel srcs) p q)).
  { intros p q Lp Lq. apply components_spec; apply in_seq; lia. }
  split.
  - intros [L H]. split; [exact L|]. intros p q Lp Lq. specialize (H p Lp). rewrite forallb_seq in H.
    specialize (H q Lq). apply eqb_iff in H. rewrite !Nat.eqb_eq in H. rewrite H. apply S; assumption.
  - intros [L H]. split; [exact L|]. intros p Lp. apply forallb_seq. intros q Lq.
    apply eqb_iff. rewrite !Nat.eqb_eq. rewrite (H p q Lp Lq). symmetry. apply S; assumption.
Qed.

Theorem loose_exactb_spec cs out : loose_exactb cs out = true <-> loose_exact cs out.
Proof.
  unfold loose_exactb, loose_exact. rewrite andb_true_iff.
  rewrite (forall2b_spec _ _ loose_conceptb_spec), (pairwiseb_spec _ _ disjb_spec). tauto.
Qed.

(* ------------------------------------------------------------------ *)
(* add_cognate_ids, 'strict' *)

Lemma distinct_acc_in l : forall acc s, In s acc \/ In s l -> In s (distinct_acc acc l).
Proof.
  induction l as [|t tl IH]; intros acc s H; cbn [distinct_acc].
  - destruct H as [H|[]]. exact H.
  - destruct (existsb (seq_eqb t) acc) eqn:Ex.
    + apply IH. destruct H as [H|[->|H]]; [left; exact H| |right; exact H].
      left. apply existsb_exists in Ex. destruct Ex as [u [Hu Eu]]. apply seq_eqb_spec in Eu. subst u. exact Hu.
    + apply IH. destruct H as [H|[->|H]]; [left; apply in_or_app; left; exact H| |right; exact H].
      left. apply in_or_app. right. left. reflexivity.
Qed.

Lemma index_of_inj l : forall s t, In s l -> In t l -> index_of s l = index_of t l -> s = t.
Proof.
  induction l as [|u tl IH]; intros s t Hs Ht Eq; [destruct Hs|].
  cbn [index_of] in Eq. destruct (seq_eqb s u) eqn:Es; destruct (seq_eqb t u) eqn:Et; try discriminate.
  - apply seq_eqb_spec in Es. apply seq_eqb_spec in Et. congruence.
  - apply IH; [| |congruence].
    + destruct Hs as [Hu|Hs]; [|exact Hs]. subst u. rewrite (proj2 (seq_eqb_spec s s) eq_refl) in Es. discriminate.
    + destruct Ht as [Hu|Ht]; [|exact Ht]. subst u. rewrite (proj2 (seq_eqb_spec t t) eq_refl) in Et. discriminate.
Qed.

Theorem strict_ids_exact srcs : strict_exact srcs (strict_ids srcs).
Proof.
  unfold strict_exact, strict_ids. split; [apply map_length|].
  intros p q Lp Lq.
  set (keys := distinct_acc [] srcs).
  set (f := fun s => S (index_of s keys)).
  assert (N : forall r, r < length srcs -> nth r (map f srcs) 0 = f (nth r srcs [])).
  { intros r Lr. rewrite (nth_indep _ 0 (f [])) by (rewrite map_length; exact Lr). apply map_nth. }
  rewrite (N p Lp), (N q Lq). unfold f. split.
  - intros Eq. apply (index_of_inj keys).
    + apply distinct_acc_in. right. apply nth_In. exact Lp.
    + apply distinct_acc_in. right. apply nth_In. exact Lq.
    + congruence.
  - intros ->. reflexivity.
Qed.

(* ------------------------------------------------------------------ *)
(* add_cognate_ids, 'loose' *)

Lemma loose_concept_spec srcs idx : loose_concept_exact srcs (fst (loose_concept srcs idx)).
Proof.
  unfold loose_concept_exact, loose_concept. cbn [fst]. split; [rewrite map_length, seq_length; reflexivity|].
  intros p q Lp Lq. rewrite !nth_map_seq by assumption. cbn [plus]. split.
  - intros Eq. apply components_spec; [apply in_seq; lia|apply in_seq; lia|lia].
  - intros C. apply components_spec in C; [|apply in_seq; lia|apply in_seq; lia].
    unfold share_rel in C. rewrite C. reflexivity.
Qed.

Lemma loose_concept_range srcs idx x :
  In x (fst (loose_concept srcs idx)) -> idx <= x < snd (loose_concept srcs idx).
Proof.
  unfold loose_concept. cbn [fst snd]. intros H. apply in_map_iff in H. destruct H as [p [<- Hp]].
  pose proof (components_index_lt (share_edge srcs) (seq 0 (length srcs)) p Hp). lia.
Qed.

Lemma loose_concept_next srcs idx : idx <= snd (loose_concept srcs idx).
Proof. unfold loose_concept. cbn [snd]. lia. Qed.

Lemma loose_loop_lower cs : forall idx, Forall (fun o => forall x, In x o -> idx <= x) (loose_loop cs idx).
Proof.
  induction cs as [|c tl IH]; intros idx; cbn [loose_loop]; constructor.
  - intros x Hx. apply loose_concept_range in Hx. lia.
  - eapply Forall_impl; [|apply IH]. cbn beta. intros o H x Hx. apply H in Hx.
    pose proof (loose_concept_next c idx). lia.
Qed.

Lemma loose_loop_spec cs : forall idx, loose_exact cs (loose_loop cs idx).
Proof.
  induction cs as [|c tl IH]; intros idx; cbn [loose_loop].
  - split; [constructor|exact I].
  - destruct (IH (snd (loose_concept c idx))) as [F P]. split.
    + constructor; [apply loose_concept_spec|exact F].
    + cbn [pairwise]. split; [|exact P].
      eapply Forall_impl; [|apply loose_loop_lower]. cbn beta. intros o H x Hx Ho.
      apply loose_concept_range in Hx. apply H in Ho. lia.
Qed.

Theorem loose_ids_exact cs : loose_exact cs (loose_ids cs).
Proof. apply loose_loop_spec. Qed.

(* ------------------------------------------------------------------ *)
(* enumerate *)

Lemma enum_from_fst {A} (l : list A) : forall i, map fst (enum_from i l) = seq i (length l).
Proof. induction l as [|x tl IH]; intros i; cbn [enum_from map length seq fst]; [reflexivity|]. rewrite IH. reflexivity. Qed.

Lemma enum_from_in {A} (l : list A) d : forall i p x,
  In (p, x) (enum_from i l) -> i <= p < i + length l /\ nth (p - i) l d = x.
Proof.
  induction l as [|y tl IH]; intros i p x H; cbn [enum_from] in H; [destruct H|].
  cbn [length]. destruct H as [H|H].
  - inversion H; subst. split; [lia|]. rewrite Nat.sub_diag. reflexivity.
  - apply IH in H. destruct H as [H1 H2]. split; [lia|].
    replace (p - i) with (S (p - S i)) by lia. exact H2.
Qed.

Lemma enum_from_nodup {A} (l : list A) i : NoDup (enum_from i l).
Proof. apply (NoDup_map_inv fst). rewrite enum_from_fst. apply seq_NoDup. Qed.

Lemma filter_enum_length (l : list nat) idx : forall i,
  length (filter (fun pw : nat * nat => Nat.eqb (snd pw) idx) (enum_from i l)) =
  length (filter (fun w => Nat.eqb w idx) l).
Proof.
  induction l as [|x tl IH]; intros i; cbn [enum_from filter snd]; [reflexivity|].
  destruct (Nat.eqb x idx); cbn [length]; rewrite IH; reflexivity.
Qed.

Lemma NoDup_map_on {A B} (f : A -> B) l :
  NoDup l -> (forall x y, In x l -> In y l -> x <> y -> f x <> f y) -> NoDup (map f l).
Proof.
  induction l as [|a tl IH]; intros N H; cbn [map]; [constructor|].
  inversion N as [|? ? Na Nt]; subst. constructor.
  - intros Hin. apply in_map_iff in Hin. destruct Hin as [y [Ey Hy]].
    apply (H y a); [right; exact Hy|left; reflexivity| |exact Ey].
    intros ->. contradiction.
  - apply IH; [exact Nt|]. intros x y Hx Hy. apply H; right; assumption.
Qed.

(* ------------------------------------------------------------------ *)
(* word_ids *)

Lemma word_ids_length words ids idx :
  length (word_ids words ids idx) = length (filter (fun w => Nat.eqb w idx) words).
Proof. unfold word_ids. rewrite map_length. apply filter_enum_length. Qed.

Lemma word_ids_in words ids idx x : In x (word_ids words ids idx) ->
  exists p, p < length words /\ nth p words 0 = idx /\ x = nth p ids 0.
Proof.
  unfold word_ids. intros H. apply in_map_iff in H. destruct H as [[p w] [<- H]].
  apply filter_In in H. destruct H as [H E]. cbn [fst snd] in *. apply Nat.eqb_eq in E.
  apply (enum_from_in words 0) in H. destruct H as [H1 H2]. rewrite Nat.sub_0_r in H2.
  exists p. repeat split; [lia|congruence].
Qed.

Lemma word_ids_nodup words ids idx :
  (forall p q, p < length words -> q < length words -> p <> q ->
     nth p words 0 = nth q words 0 -> nth p ids 0 <> nth q ids 0) ->
  NoDup (word_ids words ids idx).
Proof.
  intros H. unfold word_ids. apply NoDup_map_on.
  - apply NoDup_filter. apply enum_from_nodup.
  - intros [p wp] [q wq] Hp Hq Ne. cbn [fst].
    apply filter_In in Hp. destruct Hp as [Hp Ep]. apply filter_In in Hq. destruct Hq as [Hq Eq].
    cbn [snd] in *. apply Nat.eqb_eq in Ep. apply Nat.eqb_eq in Eq.
    apply (enum_from_in words 0) in Hp. apply (enum_from_in words 0) in Hq.
    destruct Hp as [Lp Np]. destruct Hq as [Lq Nq]. rewrite Nat.sub_0_r in *.
    apply H; [lia|lia| |congruence].
    intros ->. apply Ne. congruence.
Qed.

(* ------------------------------------------------------------------ *)
(* the tracer: a word contributes one entry per morpheme *)

Lemma slices_from_length ms : forall cur, length (slices_from cur ms) = length ms.
Proof. induction ms as [|m tl IH]; intros cur; cbn [slices_from length]; [reflexivity|]. rewrite IH. reflexivity. Qed.

Lemma enum_from_length {A} (l : list A) i : length (enum_from i l) = length l.
Proof. rewrite <- (map_length fst). rewrite enum_from_fst. apply seq_length. Qed.

Lemma word_entries_length w : length (word_entries w) = nmorph (snd w).
Proof.
  unfold word_entries, get_slices, nmorph. rewrite map_length, enum_from_length. apply slices_from_length.
Qed.

Lemma word_entries_word w e : In e (word_entries w) -> e_word e = fst w.
Proof. unfold word_entries. intros H. apply in_map_iff in H. destruct H as [x [<- _]]. reflexivity. Qed.

Lemma filter_const (l : list nat) a idx : (forall x, In x l -> x = a) ->
  length (filter (fun w => Nat.eqb w idx) l) = if Nat.eqb a idx then length l else 0.
Proof.
  induction l as [|x tl IH]; intros H; cbn [filter length].
  - destruct (Nat.eqb a idx); reflexivity.
  - rewrite (H x (or_introl eq_refl)). specialize (IH (fun y Hy => H y (or_intror Hy))).
    destruct (Nat.eqb a idx); cbn [length]; rewrite IH; reflexivity.
Qed.

Lemma filter_word_entries w idx :
  length (filter (fun x => Nat.eqb x idx) (map e_word (word_entries w))) =
  if Nat.eqb (fst w) idx then nmorph (snd w) else 0.
Proof.
  rewrite (filter_const _ (fst w)).
  - rewrite map_length, word_entries_length. reflexivity.
  - intros x Hx. apply in_map_iff in Hx. destruct Hx as [e [<- He]]. apply word_entries_word. exact He.
Qed.

Lemma tracer_cons w tl : tracer (w :: tl) = word_entries w ++ tracer tl.
Proof. reflexivity. Qed.

Lemma tracer_count_out c idx : ~ In idx (map fst c) ->
  length (filter (fun x => Nat.eqb x idx) (map e_word (tracer c))) = 0.
Proof.
  induction c as [|w tl IH]; intros H; [reflexivity|].
  rewrite tracer_cons, map_app, filter_app, app_length, filter_word_entries.
  cbn [map] in H. destruct (Nat.eqb_spec (fst w) idx) as [E|N]; [exfalso; apply H; left; exact E|].
  rewrite IH; [reflexivity|]. intros Hin. apply H. right. exact Hin.
Qed.

Lemma tracer_count_in c w : NoDup (map fst c) -> In w c ->
  length (filter (fun x => Nat.eqb x (fst w)) (map e_word (tracer c))) = nmorph (snd w).
Proof.
  induction c as [|w' tl IH]; intros N H; [destruct H|].
  cbn [map] in N. inversion N as [|? ? Nh Nt]; subst.
  rewrite tracer_cons, map_app, filter_app, app_length, filter_word_entries.
  destruct H as [->|H].
  - rewrite Nat.eqb_refl. rewrite tracer_count_out by exact Nh. lia.
  - destruct (Nat.eqb_spec (fst w') (fst w)) as [E|Ne].
    + exfalso. apply Nh. rewrite E. apply in_map. exact H.
    + rewrite IH by assumption. reflexivity.
Qed.

Lemma Forall2_map_in {A B} (R : A -> B -> Prop) (g : A -> B) l :
  (forall x, In x l -> R x (g x)) -> Forall2 R l (map g l).
Proof.
  induction l as [|a tl IH]; intros H; cbn [map]; constructor.
  - apply H. left. reflexivity.
  - apply IH. intros x Hx. apply H. right. exact Hx.
Qed.

Lemma concept_out_ok c ids : NoDup (map fst c) ->
  Forall2 word_ok c (concept_out c (map e_word (tracer c)) ids).
Proof.
  intros N. unfold concept_out. apply Forall2_map_in. intros w Hw. unfold word_ok. cbn [fst snd].
  split; [reflexivity|]. rewrite word_ids_length. apply tracer_count_in; assumption.
Qed.

(* ------------------------------------------------------------------ *)
(* every matrix position receives a cluster id: c.get(i) is never None *)

Lemma ward_length m : length (ward_matrix m) = length m.
Proof. unfold ward_matrix. rewrite map_length, seq_length. reflexivity. Qed.

Lemma revert_in cl x c vs : In (c, vs) cl -> In x vs -> In (x, S c) (revert cl).
Proof.
  intros Hc Hx. unfold revert. apply in_flat_map. exists (c, vs). split; [exact Hc|].
  cbn [fst snd]. apply in_map_iff. exists x. split; [reflexivity|exact Hx].
Qed.

Lemma revert_inv cl x v : In (x, v) (revert cl) -> exists c vs, In (c, vs) cl /\ In x vs /\ v = S c.
Proof.
  unfold revert. intros H. apply in_flat_map in H. destruct H as [[c vs] [Hc H]]. cbn [fst snd] in H.
  apply in_map_iff in H. destruct H as [y [E Hy]]. inversion E; subst. exists c, vs. tauto.
Qed.

Lemma count_pos_in x cl : count x cl > 0 -> exists c vs, In (c, vs) cl /\ In x vs.
Proof.
  induction cl as [|[c vs] tl IH]; intros H; [cbn in H; lia|].
  rewrite count_cons in H. cbn [snd] in H.
  destruct (Nat.eq_dec (count_occ Nat.eq_dec vs x) 0) as [Z|NZ].
  - destruct IH as [c' [vs' [H1 H2]]]; [lia|]. exists c', vs'. split; [right; exact H1|exact H2].
  - exists c, vs. split; [left; reflexivity|]. apply (count_occ_In Nat.eq_dec). lia.
Qed.

Lemma assoc_some i l v : In (i, v) l -> exists v', assoc i l = Some v'.
Proof.
  induction l as [|[j w] tl IH]; intros H; [destruct H|]. cbn [assoc].
  destruct (Nat.eqb i j) eqn:E; [eexists; reflexivity|].
  destruct H as [H|H]; [inversion H; subst; rewrite Nat.eqb_refl in E; discriminate|]. apply IH. exact H.
Qed.

Lemma assoc_in i l v : assoc i l = Some v -> In (i, v) l.
Proof.
  induction l as [|[j w] tl IH]; intros H; [discriminate|]. cbn [assoc] in H.
  destruct (Nat.eqb_spec i j) as [E|N].
  - inversion H; subst. left. reflexivity.
  - right. apply IH. exact H.
Qed.

Lemma sequence_some {A B} (f : A -> option B) l :
  (forall x, In x l -> exists y, f x = Some y) -> exists r, sequence (map f l) = Some r.
Proof.
  induction l as [|a tl IH]; intros H; cbn [map sequence]; [eexists; reflexivity|].
  destruct (H a (or_introl eq_refl)) as [y ->].
  destruct IH as [r ->]; [intros x Hx; apply H; right; exact Hx|]. eexists; reflexivity.
Qed.

Lemma sequence_nth {A} (l : list (option A)) : forall r, sequence l = Some r ->
  length r = length l /\ forall p d, p < length l -> nth p l None = Some (nth p r d).
Proof.
  induction l as [|o tl IH]; intros r H; cbn [sequence] in H.
  - inversion H; subst. split; [reflexivity|]. intros p d L. cbn [length] in L. lia.
  - destruct o as [x|]; [|discriminate]. destruct (sequence tl) as [r'|] eqn:S; [|discriminate].
    inversion H; subst. destruct (IH r' eq_refl) as [L N]. split; [cbn [length]; lia|].
    intros p d Lp. destruct p as [|p]; cbn [nth]; [reflexivity|]. apply N. cbn [length] in Lp. lia.
Qed.

Section FlatFacts.
  Variable V : Type.
  Variable leb : V -> V -> bool.
  Variable link : list V -> V.
  Variable d : nat -> nat -> V.

  Lemma keys_merge_incl a b cl : incl (keys (merge a b cl)) (keys cl).
  Proof.
    unfold merge. destruct (lookup b cl) as [vb|]; [|apply incl_refl].
    rewrite keys_remove_key, keys_append_to. intros x Hx. eapply remove_first_incl. exact Hx.
  Qed.

  Lemma keys_run_incl fuel thr : forall cl, incl (keys (run leb link d fuel thr cl)) (keys cl).
  Proof.
    induction fuel as [|f IH]; intros cl; cbn [run]; [apply incl_refl|].
    destruct (step leb link d thr cl) as [cl'|] eqn:E; [|apply incl_refl].
    apply step_some in E. destruct E as [a [b [va [vb [_ [_ [_ [_ [_ ->]]]]]]]]].
    eapply incl_tran; [apply IH|apply keys_merge_incl].
  Qed.

  Lemma keys_init n : keys (init n) = seq 0 n.
  Proof. unfold keys, init. rewrite map_map. cbn [fst]. apply map_id. Qed.

  Lemma flat_keys_lt n thr k : In k (keys (flat leb link d n thr)) -> k < n.
  Proof.
    unfold flat. intros H. apply keys_run_incl in H. rewrite keys_init in H. apply in_seq in H. lia.
  Qed.

  Lemma ids_before_some n thr k : exists ids, ids_before (revert (flat leb link d n thr)) n k = Some ids.
  Proof.
    unfold ids_before. apply sequence_some. intros i Hi. apply in_seq in Hi.
    pose proof (flat_partition V leb link d n thr i) as C.
    destruct (Nat.ltb_spec i n) as [_|L]; [|lia].
    destruct (count_pos_in i (flat leb link d n thr)) as [c [vs [Hc Hx]]]; [lia|].
    destruct (assoc_some i (rev (revert (flat leb link d n thr))) (S c)) as [v' ->].
    - apply -> in_rev. eapply revert_in; eassumption.
    - eexists. reflexivity.
  Qed.

  Lemma ids_before_range n thr k ids : ids_before (revert (flat leb link d n thr)) n k = Some ids ->
    length ids = n /\ forall p, p < n -> k < nth p ids 0 <= k + n.
  Proof.
    unfold ids_before. intros H. apply sequence_nth in H. destruct H as [L N].
    rewrite map_length, seq_length in L, N. split; [exact L|]. intros p Lp.
    specialize (N p 0 Lp). rewrite nth_map_seq in N by exact Lp. cbn [plus] in N.
    destruct (assoc p (rev (revert (flat leb link d n thr)))) as [v|] eqn:A; [|discriminate].
    cbn [option_map] in N. injection N as N'. rewrite <- N'.
    apply assoc_in in A. apply in_rev in A. apply revert_inv in A. destruct A as [c [vs [Hc [_ ->]]]].
    assert (c < n). { apply (flat_keys_lt n thr). eapply in_keys. exact Hc. }
    lia.
  Qed.
End FlatFacts.

Lemma flat_cluster_length_arg cf m :
  length (if c_ward cf then ward_matrix m else m) = length m.
Proof. destruct (c_ward cf); [apply ward_length|reflexivity]. Qed.

Lemma concept_ids_some cf words m k : exists ids, concept_ids cf words m k = Some ids.
Proof.
  unfold concept_ids, flat_cluster. rewrite flat_cluster_length_arg.
  destruct (ids_before_some Q qleb (linkf (c_meth cf)) (dm (if c_ward cf then ward_matrix m else m))
              (length m) (c_thr cf) k) as [ids ->].
  eexists. reflexivity.
Qed.

(* ------------------------------------------------------------------ *)
(* post-processing *)

Section PostFacts.
  Variable le : nat -> nat -> bool.
  Variable words ids : list nat.
  Variable n k : nat.

  Let rem := map (removed le words ids n) (seq 0 n).
  Let U := seq 0 n.

  Lemma nth_post_ids p : p < n ->
    nth p (post_ids le words ids n k) 0 = block_index p (components (pp_edge ids rem) U) + 1 + k.
  Proof. intros L. unfold post_ids. rewrite nth_map_seq by exact L. reflexivity. Qed.

  Lemma post_ids_range p : p < n -> k < nth p (post_ids le words ids n k) 0 <= k + n.
  Proof.
    intros L. rewrite nth_post_ids by exact L.
    assert (Hp : In p U) by (apply in_seq; lia).
    pose proof (components_index_lt (pp_edge ids rem) U p Hp) as B.
    pose proof (components_length (pp_edge ids rem) U) as C. unfold U in C at 2. rewrite seq_length in C. lia.
  Qed.

  (* connected in the graph that is left: identical, or neither removed and equal ids *)
  Definition kept_same (x y : nat) : Prop :=
    x = y \/ (nth x rem true = false /\ nth y rem true = false /\ idof ids x = idof ids y).

  Lemma conn_kept_same x y : conn (pp_edge ids rem) U x y -> kept_same x y.
  Proof.
    intros C. induction C as [a b Hab|a|a b _ IH|a b c _ IH1 _ IH2].
    - destruct Hab as [_ [_ Hab]]. unfold pp_edge in Hab.
      apply andb_true_iff in Hab. destruct Hab as [Hab Rb].
      apply andb_true_iff in Hab. destruct Hab as [Hab Ra].
      apply andb_true_iff in Hab. destruct Hab as [_ I].
      apply negb_true_iff in Ra. apply negb_true_iff in Rb. apply Nat.eqb_eq in I.
      right. repeat split; assumption.
    - left. reflexivity.
    - destruct IH as [->|[H1 [H2 H3]]]; [left; reflexivity|right; repeat split; auto].
    - destruct IH1 as [->|[H1 [H2 H3]]]; [exact IH2|].
      destruct IH2 as [<-|[H4 [H5 H6]]]; [right; repeat split; assumption|].
      right. repeat split; [assumption|assumption|congruence].
  Qed.

  Lemma removed_witness x y : y < n ->
    collide words ids x y = true ->
    ((Nat.ltb y x && le y x) || (Nat.ltb x y && negb (le x y))) = true ->
    removed le words ids n x = true.
  Proof.
    intros Ly C D. unfold removed. apply existsb_exists. exists y. split; [apply in_seq; lia|].
    rewrite C, D. reflexivity.
  Qed.

  Lemma collide_sym x y : collide words ids x y = collide words ids y x.
  Proof. unfold collide. rewrite (Nat.eqb_sym (wordof words x)), (Nat.eqb_sym (idof ids x)). reflexivity. Qed.

  (* the uniqueness clause: two positions of one word never end in the same block *)
  Lemma post_ids_distinct p q : p < n -> q < n -> p <> q -> nth p words 0 = nth q words 0 ->
    nth p (post_ids le words ids n k) 0 <> nth q (post_ids le words ids n k) 0.
  Proof.
    intros Lp Lq Ne W Eq. rewrite !nth_post_ids in Eq by assumption.
    assert (B : block_index p (components (pp_edge ids rem) U) = block_index q (components (pp_edge ids rem) U)) by lia.
    apply components_spec in B; [|apply in_seq; lia|apply in_seq; lia].
    apply conn_kept_same in B. destruct B as [B|[Rp [Rq I]]]; [contradiction|].
    unfold rem in Rp, Rq. rewrite nth_map_seq in Rp, Rq by assumption. cbn [plus] in Rp, Rq.
    assert (C : collide words ids p q = true).
    { unfold collide, wordof. rewrite W, I, !Nat.eqb_refl. reflexivity. }
    destruct (Nat.lt_trichotomy p q) as [L|[L|L]]; [|contradiction|].
    - destruct (le p q) eqn:D.
      + assert (R : removed le words ids n q = true).
        { apply (removed_witness q p Lp); [rewrite collide_sym; exact C|].
          rewrite D. rewrite (proj2 (Nat.ltb_lt p q) L). reflexivity. }
        congruence.
      + assert (R : removed le words ids n p = true).
        { apply (removed_witness p q Lq); [exact C|].
          rewrite D. rewrite (proj2 (Nat.ltb_lt p q) L). cbn. apply orb_true_r. }
        congruence.
    - destruct (le q p) eqn:D.
      + assert (R : removed le words ids n p = true).
        { apply (removed_witness p q Lq); [exact C|].
          rewrite D. rewrite (proj2 (Nat.ltb_lt q p) L). reflexivity. }
        congruence.
      + assert (R : removed le words ids n q = true).
        { apply (removed_witness q p Lp); [rewrite collide_sym; exact C|].
          rewrite D. rewrite (proj2 (Nat.ltb_lt q p) L). cbn. apply orb_true_r. }
        congruence.
  Qed.
End PostFacts.

(* ------------------------------------------------------------------ *)
(* one concept *)

Lemma build_matrix_length n f : length (build_matrix n f) = n.
Proof. unfold build_matrix. rewrite map_length, seq_length. reflexivity. Qed.

Lemma concept_matrix_length dist imap c m : concept_matrix dist imap c = Ok m -> length m = length (tracer c).
Proof.
  unfold concept_matrix. destruct imap.
  - destruct (first_bad _) as [|[|?]]; intros H; inversion H. unfold imap_matrix. apply build_matrix_length.
  - destruct (first_bad _) as [|[|?]]; intros H; inversion H. unfold plain_matrix. apply build_matrix_length.
Qed.

Lemma concept_ids_range cf words m k ids : concept_ids cf words m k = Some ids ->
  forall p, p < length m -> k < nth p ids 0 <= k + length m.
Proof.
  unfold concept_ids, flat_cluster. rewrite flat_cluster_length_arg.
  destruct (ids_before _ _ _) as [ids0|] eqn:B; [|discriminate]. intros H. inversion H; subst ids. clear H.
  apply ids_before_range in B. destruct B as [_ R]. intros p Lp.
  destruct (c_post cf); [apply post_ids_range; exact Lp|apply R; exact Lp].
Qed.

Lemma concept_ids_unique cf words m k ids : c_post cf = true -> concept_ids cf words m k = Some ids ->
  forall p q, p < length m -> q < length m -> p <> q -> nth p words 0 = nth q words 0 ->
    nth p ids 0 <> nth q ids 0.
Proof.
  unfold concept_ids. intros P. rewrite P.
  destruct (ids_before _ _ _) as [ids0|]; [|discriminate]. intros H. inversion H; subst ids.
  intros p q. apply post_ids_distinct.
Qed.

Section Theorems.
  Variable dist : list Z -> list Z -> ores.
  Variable cf : config.

  Lemma cluster_concept_inv c k o : cluster_concept dist cf c k = Ok o ->
    exists m ids, concept_matrix dist (c_imap cf) c = Ok m /\
                  concept_ids cf (map e_word (tracer c)) m k = Some ids /\
                  o = concept_out c (map e_word (tracer c)) ids.
  Proof.
    unfold cluster_concept. destruct (concept_matrix dist (c_imap cf) c) as [m|e|] eqn:M; try discriminate.
    destruct (concept_ids cf (map e_word (tracer c)) m k) as [ids|] eqn:I; [|discriminate].
    intros H. inversion H; subst. exists m, ids. repeat split; [exact I].
  Qed.

  Lemma cluster_concept_ok c k o : NoDup (map fst c) -> cluster_concept dist cf c k = Ok o -> Forall2 word_ok c o.
  Proof.
    intros N H. apply cluster_concept_inv in H. destruct H as [m [ids [_ [_ ->]]]]. apply concept_out_ok. exact N.
  Qed.

  Lemma ids_of_concept_out c words ids x : In x (ids_of (concept_out c words ids)) ->
    exists p, p < length words /\ x = nth p ids 0.
  Proof.
    unfold ids_of, concept_out. intros H. apply in_flat_map in H. destruct H as [wo [Hwo Hx]].
    apply in_map_iff in Hwo. destruct Hwo as [w [<- _]]. cbn [snd] in Hx.
    apply word_ids_in in Hx. destruct Hx as [p [L [_ ->]]]. exists p. split; [exact L|reflexivity].
  Qed.

  Lemma cluster_concept_range c k o : cluster_concept dist cf c k = Ok o ->
    forall x, In x (ids_of o) -> k < x <= k + length (tracer c).
  Proof.
    intros H x Hx. apply cluster_concept_inv in H. destruct H as [m [ids [Hm [Hi ->]]]].
    apply ids_of_concept_out in Hx. destruct Hx as [p [L ->]]. rewrite map_length in L.
    apply concept_matrix_length in Hm. rewrite <- Hm in *. eapply concept_ids_range; eassumption.
  Qed.

  Lemma cluster_concept_unique c k o : c_post cf = true -> cluster_concept dist cf c k = Ok o ->
    Forall (fun wo : nat * list nat => NoDup (snd wo)) o.
  Proof.
    intros P H. apply cluster_concept_inv in H. destruct H as [m [ids [Hm [Hi ->]]]].
    apply concept_matrix_length in Hm. unfold concept_out. apply Forall_forall. intros wo Hwo.
    apply in_map_iff in Hwo. destruct Hwo as [w [<- _]]. cbn [snd]. apply word_ids_nodup.
    rewrite map_length. rewrite <- Hm. eapply concept_ids_unique; eassumption.
  Qed.

  Lemma cluster_loop_inv c tl k out : cluster_loop dist cf (c :: tl) k = Ok out ->
    exists o os, cluster_concept dist cf c k = Ok o /\
                 cluster_loop dist cf tl (k + length (tracer c) + 1) = Ok os /\ out = o :: os.
  Proof.
    cbn [cluster_loop]. destruct (cluster_concept dist cf c k) as [o|e|] eqn:C; try discriminate.
    destruct (cluster_loop dist cf tl (k + length (tracer c) + 1)) as [os|e|] eqn:Lp; try discriminate.
    intros H. inversion H; subst. exists o, os. repeat split.
  Qed.

  (* clause 1: every word gets exactly one identifier per morpheme *)
  Theorem cluster_loop_one_id wl : Forall (fun c => NoDup (map fst c)) wl ->
    forall k out, cluster_loop dist cf wl k = Ok out -> one_id_per_morpheme wl out.
  Proof.
    induction wl as [|c tl IH]; intros N k out H.
    - cbn in H. inversion H. constructor.
    - apply cluster_loop_inv in H. destruct H as [o [os [Hc [Hl ->]]]].
      inversion N as [|? ? Nc Nt]; subst. constructor.
      + eapply cluster_concept_ok; eassumption.
      + eapply IH; eassumption.
  Qed.

  Lemma cluster_loop_lower wl : forall k out, cluster_loop dist cf wl k = Ok out ->
    Forall (fun o => forall x, In x (ids_of o) -> k < x) out.
  Proof.
    induction wl as [|c tl IH]; intros k out H.
    - cbn in H. inversion H. constructor.
    - apply cluster_loop_inv in H. destruct H as [o [os [Hc [Hl ->]]]]. constructor.
      + intros x Hx. eapply cluster_concept_range in Hx; [|exact Hc]. lia.
      + eapply Forall_impl; [|eapply IH; exact Hl]. cbn beta. intros o' H x Hx. apply H in Hx. lia.
  Qed.

  (* clause 2: no identifier is shared between concepts *)
  Theorem cluster_loop_disjoint wl : forall k out, cluster_loop dist cf wl k = Ok out -> concept_disjoint out.
  Proof.
    unfold concept_disjoint. induction wl as [|c tl IH]; intros k out H.
    - cbn in H. inversion H. exact I.
    - apply cluster_loop_inv in H. destruct H as [o [os [Hc [Hl ->]]]]. cbn [map pairwise]. split.
      + apply Forall_forall. intros l Hl'. apply in_map_iff in Hl'. destruct Hl' as [o' [<- Ho']].
        pose proof (cluster_loop_lower tl _ _ Hl) as Low. rewrite Forall_forall in Low.
        intros x Hx Hx'. eapply cluster_concept_range in Hx; [|exact Hc]. apply (Low o' Ho') in Hx'. lia.
      + eapply IH. exact Hl.
  Qed.

  (* clause 3: with post-processing no word has an identifier twice *)
  Theorem cluster_loop_unique wl : c_post cf = true ->
    forall k out, cluster_loop dist cf wl k = Ok out -> unique_in_word out.
  Proof.
    intros P. unfold unique_in_word. induction wl as [|c tl IH]; intros k out H.
    - cbn in H. inversion H. constructor.
    - apply cluster_loop_inv in H. destruct H as [o [os [Hc [Hl ->]]]]. constructor.
      + eapply cluster_concept_unique; eassumption.
      + eapply IH. exact Hl.
  Qed.

  (* the lookup of a cluster id never fails *)
  Lemma cluster_concept_no_type_error c k : cluster_concept dist cf c k <> Raised 3.
  Proof.
    unfold cluster_concept. destruct (concept_matrix dist (c_imap cf) c) as [m|e|] eqn:M; try discriminate.
    - destruct (concept_ids_some cf (map e_word (tracer c)) m k) as [ids ->]. discriminate.
    - unfold concept_matrix in M. destruct (c_imap cf).
      + destruct (first_bad _) as [|[|?]]; inversion M. discriminate.
      + destruct (first_bad _) as [|[|?]]; inversion M. discriminate.
  Qed.

  Theorem cluster_loop_no_type_error wl : forall k, cluster_loop dist cf wl k <> Raised 3.
  Proof.
    induction wl as [|c tl IH]; intros k; cbn [cluster_loop]; [discriminate|].
    pose proof (cluster_concept_no_type_error c k) as H1.
    destruct (cluster_concept dist cf c k) as [o|e|]; [| |discriminate].
    - specialize (IH (k + length (tracer c) + 1)).
      destruct (cluster_loop dist cf tl (k + length (tracer c) + 1)) as [os|e|]; [discriminate|exact IH|discriminate].
    - intros E. apply H1. inversion E. reflexivity.
  Qed.
End Theorems.

(* ------------------------------------------------------------------ *)
(* the run returns whenever the aligner returns distances *)

Lemma first_bad_dist l : Forall (fun o => exists q, o = Dist q) l -> first_bad l = 0.
Proof.
  induction l as [|o tl IH]; intros F; [reflexivity|]. inversion F as [|? ? [q ->] Ft]; subst.
  cbn [first_bad]. apply IH. exact Ft.
Qed.

Lemma concept_matrix_total dist imap c : (forall a b, exists q, dist a b = Dist q) ->
  exists m, concept_matrix dist imap c = Ok m.
Proof.
  intros T. unfold concept_matrix. destruct imap.
  - rewrite first_bad_dist; [eexists; reflexivity|].
    apply Forall_forall. intros o Ho. apply in_map_iff in Ho. destruct Ho as [[o' pos] [<- Ho]].
    apply in_concat in Ho. destruct Ho as [calls [Hc Ho]]. unfold imap_calls in Hc.
    apply in_map_iff in Hc. destruct Hc as [ab [<- _]]. unfold pair_calls in Ho.
    apply in_flat_map in Ho. destruct Ho as [pa [_ Ho]]. apply in_map_iff in Ho.
    destruct Ho as [pb [E _]]. inversion E. cbn [fst]. apply T.
  - rewrite first_bad_dist; [eexists; reflexivity|].
    apply Forall_forall. intros o Ho. unfold plain_calls in Ho. apply in_map_iff in Ho.
    destruct Ho as [ab [<- _]]. unfold plain_call. destruct (Nat.eqb _ _); [eexists; reflexivity|apply T].
Qed.

Theorem cluster_loop_total dist cf wl : (forall a b, exists q, dist a b = Dist q) ->
  forall k, exists out, cluster_loop dist cf wl k = Ok out.
Proof.
  intros T. induction wl as [|c tl IH]; intros k; cbn [cluster_loop]; [eexists; reflexivity|].
  unfold cluster_concept. destruct (concept_matrix_total dist (c_imap cf) c T) as [m ->].
  destruct (concept_ids_some cf (map e_word (tracer c)) m k) as [ids ->].
  destruct (IH (k + length (tracer c) + 1)) as [os ->]. eexists; reflexivity.
Qed.

(* ------------------------------------------------------------------ *)
(* the clauses in elementary form *)

Lemma concept_disjoint_nth out : concept_disjoint out ->
  forall i j, i < j -> j < length out -> forall x,
    In x (ids_of (nth i out [])) -> ~ In x (ids_of (nth j out [])).
Proof.
  intros P i j Lij Lj x. unfold concept_disjoint in P.
  pose proof (pairwise_nth disj (map ids_of out) [] P i j Lij) as H.
  rewrite map_length in H. specialize (H Lj).
  change (@nil nat) with (ids_of []) in H. rewrite !map_nth in H. apply H.
Qed.

Lemma unique_in_word_in out : unique_in_word out ->
  forall o, In o out -> forall wo, In wo o -> NoDup (snd wo).
Proof.
  intros U o Ho wo Hwo. unfold unique_in_word in U. rewrite Forall_forall in U.
  specialize (U o Ho). rewrite Forall_forall in U. apply U. exact Hwo.
Qed.

Lemma pairwise_disj_nth (out : list (list nat)) : pairwise disj out ->
  forall i j, i < j -> j < length out -> forall x, In x (nth i out []) -> ~ In x (nth j out []).
Proof. intros P i j Lij Lj x. apply (pairwise_nth disj out [] P i j Lij Lj). Qed.

(* ------------------------------------------------------------------ *)
(* partial_cluster for any clustering routine *)

(* the contract of a clustering routine: the dictionary it returns has an entry for
   every matrix position ... *)
Definition clus_total (clus : mat -> list (nat * nat)) : Prop :=
  forall m p, p < length m -> exists v, assoc p (rev (clus m)) = Some v.

(* ... and cluster ids lie in 1..n *)
Definition clus_ranged (clus : mat -> list (nat * nat)) : Prop :=
  forall m p v, p < length m -> assoc p (rev (clus m)) = Some v -> 1 <= v <= length m.

Lemma ids_before_nth rv n k ids : ids_before rv n k = Some ids ->
  length ids = n /\ forall p, p < n -> exists v, assoc p (rev rv) = Some v /\ nth p ids 0 = v + k.
Proof.
  unfold ids_before. intros H. apply sequence_nth in H. destruct H as [L N].
  rewrite map_length, seq_length in L, N. split; [exact L|]. intros p Lp.
  specialize (N p 0 Lp). rewrite nth_map_seq in N by exact Lp. cbn [plus] in N.
  destruct (assoc p (rev rv)) as [v|] eqn:A; [|discriminate].
  cbn [option_map] in N. injection N as N'. exists v. split; [reflexivity|]. symmetry. exact N'.
Qed.

Lemma ids_from_some post rv words m k :
  (forall p, p < length m -> exists v, assoc p (rev rv) = Some v) ->
  exists ids, ids_from post rv words m k = Some ids.
Proof.
  intros T. unfold ids_from.
  assert (S : exists ids, ids_before rv (length m) k = Some ids).
  { unfold ids_before. apply sequence_some. intros i Hi. apply in_seq in Hi.
    destruct (T i) as [v ->]; [lia|]. eexists. reflexivity. }
  destruct S as [ids ->]. eexists. reflexivity.
Qed.

Lemma ids_from_range post rv words m k ids : ids_from post rv words m k = Some ids ->
  (post = true \/ forall p v, p < length m -> assoc p (rev rv) = Some v -> 1 <= v <= length m) ->
  forall p, p < length m -> k < nth p ids 0 <= k + length m.
Proof.
  unfold ids_from. destruct (ids_before rv (length m) k) as [ids0|] eqn:B; [|discriminate].
  intros H R p Lp. inversion H; subst ids. clear H. destruct post.
  - apply post_ids_range. exact Lp.
  - destruct R as [R|R]; [discriminate|].
    apply ids_before_nth in B. destruct B as [_ N]. destruct (N p Lp) as [v [A ->]].
    specialize (R p v Lp A). lia.
Qed.

Lemma ids_from_unique rv words m k ids : ids_from true rv words m k = Some ids ->
  forall p q, p < length m -> q < length m -> p <> q -> nth p words 0 = nth q words 0 ->
    nth p ids 0 <> nth q ids 0.
Proof.
  unfold ids_from. destruct (ids_before rv (length m) k) as [ids0|]; [|discriminate].
  intros H. inversion H; subst ids. intros p q. apply post_ids_distinct.
Qed.

(* the flat linkage methods meet the contract *)
Lemma flat_revert_length cf m : length (if c_ward cf then ward_matrix m else m) = length m.
Proof. apply flat_cluster_length_arg. Qed.

Lemma flat_revert_total cf : clus_total (flat_revert cf).
Proof.
  intros m p Lp. unfold flat_revert, flat_cluster. rewrite flat_revert_length.
  destruct (ids_before_some Q qleb (linkf (c_meth cf)) (dm (if c_ward cf then ward_matrix m else m))
              (length m) (c_thr cf) 0) as [ids B].
  apply ids_before_nth in B. destruct B as [_ N]. destruct (N p Lp) as [v [A _]]. exists v. exact A.
Qed.

Lemma flat_revert_ranged cf : clus_ranged (flat_revert cf).
Proof.
  intros m p v Lp A. unfold flat_revert, flat_cluster in A. rewrite flat_revert_length in A.
  apply assoc_in in A. apply in_rev in A. apply revert_inv in A. destruct A as [c [vs [Hc [_ ->]]]].
  assert (c < length m). { eapply flat_keys_lt. eapply in_keys. exact Hc. }
  lia.
Qed.

Section AnyTheorems.
  Variable dist : list Z -> list Z -> ores.
  Variable imap post : bool.
  Variable clus : mat -> list (nat * nat).

  Lemma cluster_concept_any_inv c k o : cluster_concept_any dist imap post clus c k = Ok o ->
    exists m ids, concept_matrix dist imap c = Ok m /\
                  ids_from post (clus m) (map e_word (tracer c)) m k = Some ids /\
                  o = concept_out c (map e_word (tracer c)) ids.
  Proof.
    unfold cluster_concept_any. destruct (concept_matrix dist imap c) as [m|e|] eqn:M; try discriminate.
    destruct (ids_from post (clus m) (map e_word (tracer c)) m k) as [ids|] eqn:I; [|discriminate].
    intros H. inversion H; subst. exists m, ids. repeat split; [exact I].
  Qed.

  Lemma cluster_loop_any_inv c tl k out : cluster_loop_any dist imap post clus (c :: tl) k = Ok out ->
    exists o os, cluster_concept_any dist imap post clus c k = Ok o /\
                 cluster_loop_any dist imap post clus tl (k + length (tracer c) + 1) = Ok os /\ out = o :: os.
  Proof.
    cbn [cluster_loop_any]. destruct (cluster_concept_any dist imap post clus c k) as [o|e|] eqn:C; try discriminate.
    destruct (cluster_loop_any dist imap post clus tl (k + length (tracer c) + 1)) as [os|e|] eqn:Lp; try discriminate.
    intros H. inversion H; subst. exists o, os. repeat split.
  Qed.

  Theorem cluster_loop_any_one_id wl : Forall (fun c => NoDup (map fst c)) wl ->
    forall k out, cluster_loop_any dist imap post clus wl k = Ok out -> one_id_per_morpheme wl out.
  Proof.
    induction wl as [|c tl IH]; intros N k out H.
    - cbn in H. inversion H. constructor.
    - apply cluster_loop_any_inv in H. destruct H as [o [os [Hc [Hl ->]]]].
      inversion N as [|? ? Nc Nt]; subst. constructor.
      + apply cluster_concept_any_inv in Hc. destruct Hc as [m [ids [_ [_ ->]]]]. apply concept_out_ok. exact Nc.
      + eapply IH; eassumption.
  Qed.

  Lemma cluster_concept_any_range c k o : (post = true \/ clus_ranged clus) ->
    cluster_concept_any dist imap post clus c k = Ok o ->
    forall x, In x (ids_of o) -> k < x <= k + length (tracer c).
  Proof.
    intros R H x Hx. apply cluster_concept_any_inv in H. destruct H as [m [ids [Hm [Hi ->]]]].
    apply ids_of_concept_out in Hx. destruct Hx as [p [L ->]]. rewrite map_length in L.
    apply concept_matrix_length in Hm. rewrite <- Hm in *. eapply ids_from_range; [exact Hi| |exact L].
    destruct R as [R|R]; [left; exact R|right]. intros q v Lq A. eapply R; eassumption.
  Qed.

  Lemma cluster_loop_any_lower wl : (post = true \/ clus_ranged clus) ->
    forall k out, cluster_loop_any dist imap post clus wl k = Ok out ->
    Forall (fun o => forall x, In x (ids_of o) -> k < x) out.
  Proof.
    intros R. induction wl as [|c tl IH]; intros k out H.
    - cbn in H. inversion H. constructor.
    - apply cluster_loop_any_inv in H. destruct H as [o [os [Hc [Hl ->]]]]. constructor.
      + intros x Hx. eapply cluster_concept_any_range in Hx; [|exact R|exact Hc]. lia.
      + eapply Forall_impl; [|eapply IH; exact Hl]. cbn beta. intros o' H x Hx. apply H in Hx. lia.
  Qed.

  Theorem cluster_loop_any_disjoint wl : (post = true \/ clus_ranged clus) ->
    forall k out, cluster_loop_any dist imap post clus wl k = Ok out -> concept_disjoint out.
  Proof.
    intros R. unfold concept_disjoint. induction wl as [|c tl IH]; intros k out H.
    - cbn in H. inversion H. exact I.
    - apply cluster_loop_any_inv in H. destruct H as [o [os [Hc [Hl ->]]]]. cbn [map pairwise]. split.
      + apply Forall_forall. intros l Hl'. apply in_map_iff in Hl'. destruct Hl' as [o' [<- Ho']].
        pose proof (cluster_loop_any_lower tl R _ _ Hl) as Low. rewrite Forall_forall in Low.
        intros x Hx Hx'. eapply cluster_concept_any_range in Hx; [|exact R|exact Hc]. apply (Low o' Ho') in Hx'. lia.
      + eapply IH. exact Hl.
  Qed.

  Theorem cluster_loop_any_unique wl : post = true ->
    forall k out, cluster_loop_any dist imap post clus wl k = Ok out -> unique_in_word out.
  Proof.
    intros P. unfold unique_in_word. induction wl as [|c tl IH]; intros k out H.
    - cbn in H. inversion H. constructor.
    - apply cluster_loop_any_inv in H. destruct H as [o [os [Hc [Hl ->]]]]. constructor.
      + apply cluster_concept_any_inv in Hc. destruct Hc as [m [ids [Hm [Hi ->]]]].
        apply concept_matrix_length in Hm. unfold concept_out. apply Forall_forall. intros wo Hwo.
        apply in_map_iff in Hwo. destruct Hwo as [w [<- _]]. cbn [snd]. apply word_ids_nodup.
        rewrite map_length. rewrite <- Hm. rewrite P in Hi. eapply ids_from_unique. exact Hi.
      + eapply IH. exact Hl.
  Qed.

  Theorem cluster_loop_any_total wl : (forall a b, exists q, dist a b = Dist q) -> clus_total clus ->
    forall k, exists out, cluster_loop_any dist imap post clus wl k = Ok out.
  Proof.
    intros T C. induction wl as [|c tl IH]; intros k; cbn [cluster_loop_any]; [eexists; reflexivity|].
    unfold cluster_concept_any. destruct (concept_matrix_total dist imap c T) as [m ->].
    destruct (ids_from_some post (clus m) (map e_word (tracer c)) m k (C m)) as [ids ->].
    destruct (IH (k + length (tracer c) + 1)) as [os ->]. eexists; reflexivity.
  Qed.
End AnyTheorems.

(* the model of the flat linkage methods is the instance [flat_revert] *)
Lemma cluster_loop_flat dist cf cs : forall k,
  cluster_loop dist cf cs k = cluster_loop_any dist (c_imap cf) (c_post cf) (flat_revert cf) cs k.
Proof.
  induction cs as [|c tl IH]; intros k; [reflexivity|].
  cbn [cluster_loop cluster_loop_any]. rewrite IH. reflexivity.
Qed.

(* checker of the contract on a recorded dictionary *)
Lemma clus_okb_spec n rv : clus_okb n rv = true <->
  forall p, p < n -> exists v, assoc p (rev rv) = Some v /\ 1 <= v <= n.
Proof.
  unfold clus_okb. rewrite forallb_seq. split.
  - intros H p Lp. specialize (H p Lp). destruct (assoc p (rev rv)) as [v|]; [|discriminate].
    apply andb_true_iff in H. destruct H as [H1 H2]. apply Nat.leb_le in H1. apply Nat.leb_le in H2.
    exists v. split; [reflexivity|lia].
  - intros H p Lp. destruct (H p Lp) as [v [-> [H1 H2]]].
    apply andb_true_iff. split; apply Nat.leb_le; assumption.
Qed.
