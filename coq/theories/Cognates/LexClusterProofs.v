(* Proofs about the LexStat.cluster model: every word gets exactly one
   identifier, identifiers of different concepts differ, within a concept equal
   identifiers <-> same block of the flat clustering of the concept's matrix, and
   raising the threshold only merges cognate sets (C10). *)
From Coq Require Import List Arith Bool Lia.
From LV Require Import Cluster.Flat Cluster.FlatProofs Cluster.FlatLinkage
  Cognates.LexCluster Cognates.LexIndexProofs Cognates.LexMatrixProofs.
Import ListNotations.

(* ------------------------------------------------------------------ *)
(* dictionaries as assignment lists *)

Lemma dict_get_in i rv c : dict_get i rv = Some c -> In (i, c) rv.
Proof.
  induction rv as [|[j k] tl IH]; cbn [dict_get]; [discriminate|].
  destruct (dict_get i tl) as [k'|].
  - intros E. inversion E; subst. right. apply IH. reflexivity.
  - destruct (Nat.eqb_spec i j) as [->|N]; [|discriminate]. intros E. inversion E; subst. left. reflexivity.
Qed.

Lemma in_dict_get i rv c : In (i, c) rv -> exists c', dict_get i rv = Some c'.
Proof.
  induction rv as [|[j k] tl IH]; [intros []|]. cbn [dict_get]. intros [E|H].
  - inversion E; subst. destruct (dict_get i tl) as [k'|]; [eauto|]. rewrite Nat.eqb_refl. eauto.
  - destruct (IH H) as [c' ->]. eauto.
Qed.

Lemma dict_get_none i rv : dict_get i rv = None -> ~ In i (map fst rv).
Proof.
  intros E H. rewrite in_map_iff in H. destruct H as [[j c] [Ej Hj]]. cbn in Ej. subst j.
  destruct (in_dict_get _ _ _ Hj) as [c' E']. congruence.
Qed.

Lemma dict_get_unique i rv c : NoDup (map fst rv) -> In (i, c) rv -> dict_get i rv = Some c.
Proof.
  intros ND H. destruct (in_dict_get _ _ _ H) as [c' E]. pose proof (dict_get_in _ _ _ E) as H'.
  assert (c = c'); [|congruence].
  clear E. induction rv as [|[j k] tl IH]; [destruct H|]. cbn [map fst] in ND.
  inversion ND as [|? ? NI ND']; subst. destruct H as [E1|H1], H' as [E2|H2].
  - congruence.
  - inversion E1; subst. exfalso. apply NI. change i with (fst (i, c')). apply in_map, H2.
  - inversion E2; subst. exfalso. apply NI. change i with (fst (i, c)). apply in_map, H1.
  - apply IH; assumption.
Qed.

Lemma dict_get_app i l1 l2 :
  dict_get i (l1 ++ l2) = match dict_get i l2 with Some c => Some c | None => dict_get i l1 end.
Proof.
  induction l1 as [|[j k] tl IH]; cbn [app dict_get].
  - destruct (dict_get i l2); reflexivity.
  - rewrite IH. destruct (dict_get i l2); [reflexivity|]. reflexivity.
Qed.

(* ------------------------------------------------------------------ *)
(* the revert=True output of a partition *)

(* the key of the cluster holding item i *)
Definition key_of (cl : clusters) (i : nat) : nat :=
  match find (fun c => existsb (Nat.eqb i) (snd c)) cl with
  | Some c => fst c
  | None => 0
  end.

Lemma in_revert cl i c : In (i, c) (revert cl) <-> exists k v, In (k, v) cl /\ In i v /\ c = S k.
Proof.
  unfold revert. rewrite in_flat_map. split.
  - intros [[k v] [H1 H2]]. cbn [fst snd] in H2. rewrite in_map_iff in H2. destruct H2 as [i' [E H2]].
    inversion E; subst. exists k, v. tauto.
  - intros [k [v [H1 [H2 ->]]]]. exists (k, v). split; [exact H1|]. cbn [fst snd].
    rewrite in_map_iff. exists i. tauto.
Qed.

Lemma key_of_spec cl i k v : wf cl -> count i cl <= 1 -> In (k, v) cl -> In i v -> key_of cl i = k.
Proof.
  intros W C H1 H2. unfold key_of.
  destruct (find (fun c => existsb (Nat.eqb i) (snd c)) cl) as [[k' v']|] eqn:E.
  - apply find_some in E. destruct E as [I E]. cbn [snd] in E. rewrite existsb_exists in E.
    destruct E as [i' [Hi' Ei']]. apply Nat.eqb_eq in Ei'. subst i'. cbn [fst].
    destruct (count_two i cl k' v' k v W I H1 Hi' H2 C) as [-> _]. reflexivity.
  - exfalso. pose proof (find_none _ _ E (k, v) H1) as F. cbn [snd] in F.
    assert (existsb (Nat.eqb i) v = true); [|congruence].
    rewrite existsb_exists. exists i. split; [exact H2|apply Nat.eqb_refl].
Qed.

Lemma dict_get_revert cl i : wf cl -> count i cl = 1 ->
  dict_get i (revert cl) = Some (S (key_of cl i)).
Proof.
  intros W C. destruct (count_pos_in i cl) as [k [v [H1 H2]]]; [lia|].
  assert (I : In (i, S k) (revert cl)) by (rewrite in_revert; eauto).
  destruct (in_dict_get _ _ _ I) as [c' E]. rewrite E. f_equal.
  apply dict_get_in in E. rewrite in_revert in E. destruct E as [k' [v' [H1' [H2' ->]]]].
  rewrite (key_of_spec cl i k' v' W) by (assumption || lia). reflexivity.
Qed.

Lemma key_of_together cl x y : wf cl -> count x cl = 1 -> count y cl = 1 ->
  (key_of cl x = key_of cl y <-> together cl x y).
Proof.
  intros W Cx Cy.
  destruct (count_pos_in x cl) as [kx [vx [Hx1 Hx2]]]; [lia|].
  destruct (count_pos_in y cl) as [ky [vy [Hy1 Hy2]]]; [lia|].
  rewrite (key_of_spec cl x kx vx W) by (assumption || lia).
  rewrite (key_of_spec cl y ky vy W) by (assumption || lia). split.
  - intros ->. assert (vx = vy) as ->.
    { pose proof (in_lookup _ _ _ W Hx1). pose proof (in_lookup _ _ _ W Hy1). congruence. }
    exists ky, vy. tauto.
  - intros [k [v [H [I1 I2]]]].
    assert (Cx' : count x cl <= 1) by lia. assert (Cy' : count y cl <= 1) by lia.
    destruct (count_two x cl kx vx k v W Hx1 H Hx2 I1 Cx') as [-> _].
    destruct (count_two y cl ky vy k v W Hy1 H Hy2 I2 Cy') as [-> _]. reflexivity.
Qed.

(* ------------------------------------------------------------------ *)
Section Loop.
  Variable V : Type.
  Variable leb : V -> V -> bool.
  Variable link : list V -> V.
  Variable zero : V.
  Variable err : V.
  Variable dist : nat -> nat -> option V.

  Notation condensed := (condensed V err dist).
  Notation squareform := (squareform V zero).
  Notation dmv := (dmv V zero).

  (* the flat clustering of the matrix of a concept *)
  Definition concept_flat (thr : V) (idx : list nat) : clusters :=
    flat leb link (dmv (squareform (condensed idx))) (length idx) thr.

  (* the labels LexStat.cluster computes for a concept: 1 + cluster key + offset *)
  Definition lab (thr : V) (k : nat) (idx : list nat) : list nat :=
    map (fun i => S (key_of (concept_flat thr idx) i) + k) (seq 0 (length idx)).

  Lemma labels_map k rv f : forall is,
    (forall i, In i is -> dict_get i rv = Some (f i)) ->
    labels k rv is = Some (map (fun i => f i + k) is).
  Proof.
    induction is as [|i tl IH]; intros H; [reflexivity|]. cbn [labels map].
    rewrite (H i (or_introl eq_refl)), IH; [reflexivity|]. intros j Hj. apply H. right. exact Hj.
  Qed.

  Lemma concept_clusters_lab thr k idx : idx <> [] ->
    concept_clusters V leb link zero err dist thr k idx = Some (lab thr k idx).
  Proof.
    intros NE. unfold concept_clusters. rewrite (squareform_length V zero err dist idx NE).
    unfold lab. apply (labels_map k _ (fun i => S (key_of (concept_flat thr idx) i))).
    intros i Hi. apply in_seq in Hi. unfold concept_flat. apply dict_get_revert.
    - apply flat_keys_nodup.
    - rewrite flat_partition. destruct (Nat.ltb_spec i (length idx)); [reflexivity|lia].
  Qed.

  Lemma lab_length thr k idx : length (lab thr k idx) = length idx.
  Proof. unfold lab. rewrite map_length, seq_length. reflexivity. Qed.

  Lemma lab_gt thr k idx c : In c (lab thr k idx) -> k < c.
  Proof. unfold lab. rewrite in_map_iff. intros [i [<- _]]. lia. Qed.

  Lemma lab_nth thr k idx p : p < length idx ->
    nth p (lab thr k idx) 0 = S (key_of (concept_flat thr idx) p) + k.
  Proof.
    intros Hp. unfold lab.
    rewrite (nth_indep _ 0 (S (key_of (concept_flat thr idx) 0) + k)) by (rewrite map_length, seq_length; exact Hp).
    rewrite (map_nth (fun i => S (key_of (concept_flat thr idx) i) + k)). rewrite seq_nth by exact Hp. reflexivity.
  Qed.

  (* what the loop appends to clr, as a function of the groups and the offset *)
  Fixpoint spec_run (thr : V) (groups : list (list nat)) (k : nat) : list (nat * nat) :=
    match groups with
    | [] => []
    | g :: tl => combine g (lab thr k g) ++ spec_run thr tl (list_max (lab thr k g))
    end.

  Lemma run_concepts_spec thr : forall groups k clr, (forall g, In g groups -> g <> []) ->
    exists k', run_concepts V leb link zero err dist thr groups (k, clr) = Some (k', clr ++ spec_run thr groups k).
  Proof.
    induction groups as [|g tl IH]; intros k clr NE.
    - exists k. cbn [run_concepts spec_run]. rewrite app_nil_r. reflexivity.
    - cbn [run_concepts]. unfold concept_step. cbn [fst snd].
      rewrite (concept_clusters_lab thr k g) by (apply NE; left; reflexivity).
      destruct (IH (list_max (lab thr k g)) (clr ++ combine g (lab thr k g))) as [k' E].
      + intros g0 H0. apply NE. right. exact H0.
      + exists k'. rewrite E. cbn [spec_run]. rewrite app_assoc. reflexivity.
  Qed.

  Lemma combine_fst (l1 l2 : list nat) : length l1 = length l2 -> map fst (combine l1 l2) = l1.
  Proof.
    revert l2; induction l1 as [|a l1 IH]; intros [|b l2] H; cbn in *; try lia; [reflexivity|].
    f_equal. apply IH. lia.
  Qed.

  Lemma spec_run_fst thr : forall groups k, map fst (spec_run thr groups k) = concat groups.
  Proof.
    induction groups as [|g tl IH]; intros k; [reflexivity|]. cbn [spec_run concat].
    rewrite map_app, IH, combine_fst; [reflexivity|]. rewrite lab_length. reflexivity.
  Qed.

  Lemma list_max_ge' l x : In x l -> x <= list_max l.
  Proof. apply list_max_ge. Qed.

  Lemma in_combine_nth (l1 l2 : list nat) x c : length l1 = length l2 ->
    In (x, c) (combine l1 l2) -> exists p, p < length l1 /\ nth p l1 0 = x /\ nth p l2 0 = c.
  Proof.
    revert l2; induction l1 as [|a l1 IH]; intros [|b l2] HL H; cbn in *; try lia; try tauto.
    destruct H as [E|H].
    - inversion E; subst. exists 0. split; [lia|tauto].
    - destruct (IH l2 ltac:(lia) H) as [p [Hp [E1 E2]]]. exists (S p). split; [lia|tauto].
  Qed.

  (* the offset in force when the j-th group is processed *)
  Fixpoint offset (thr : V) (groups : list (list nat)) (k j : nat) : nat :=
    match groups, j with
    | g :: tl, S j' => offset thr tl (list_max (lab thr k g)) j'
    | _, _ => k
    end.

  Lemma lab_max_ge thr k g : g <> [] -> k < list_max (lab thr k g).
  Proof.
    intros NE. destruct g as [|a g']; [congruence|].
    assert (I : In (nth 0 (lab thr k (a :: g')) 0) (lab thr k (a :: g'))).
    { apply nth_In. rewrite lab_length. cbn [length]. lia. }
    pose proof (lab_gt _ _ _ _ I). pose proof (list_max_ge' _ _ I). lia.
  Qed.

  Lemma offset_ge thr : forall groups k j, (forall g, In g groups -> g <> []) -> k <= offset thr groups k j.
  Proof.
    induction groups as [|g tl IH]; intros k j NE; [destruct j; cbn; lia|].
    destruct j as [|j]; [cbn; lia|]. cbn [offset].
    assert (k < list_max (lab thr k g)) by (apply lab_max_ge, NE; left; reflexivity).
    assert (list_max (lab thr k g) <= offset thr tl (list_max (lab thr k g)) j).
    { apply IH. intros g0 H0. apply NE. right. exact H0. }
    lia.
  Qed.

  (* every label of an earlier group is at most the offset of a later group *)
  Lemma offset_mono thr : forall groups k j1 j2, (forall g, In g groups -> g <> []) ->
    j1 < j2 -> j2 < length groups ->
    list_max (lab thr (offset thr groups k j1) (nth j1 groups [])) <= offset thr groups k j2.
  Proof.
    induction groups as [|g tl IH]; intros k j1 j2 NE L1 L2; [cbn in L2; lia|].
    destruct j2 as [|j2]; [lia|]. cbn [length] in L2.
    assert (NE' : forall g0, In g0 tl -> g0 <> []) by (intros g0 H0; apply NE; right; exact H0).
    destruct j1 as [|j1].
    - cbn [offset nth]. apply offset_ge, NE'.
    - cbn [offset nth]. apply IH; [exact NE'|lia|lia].
  Qed.

  Lemma nodup_nth_eq (l : list nat) p q : NoDup l -> p < length l -> q < length l ->
    nth p l 0 = nth q l 0 -> p = q.
  Proof. intros ND Hp Hq E. apply (proj1 (NoDup_nth l 0) ND p q Hp Hq E). Qed.

  Lemma nodup_app_l (l1 l2 : list nat) : NoDup (l1 ++ l2) -> NoDup l1.
  Proof.
    induction l1 as [|a l1 IH]; intros ND; [constructor|]. cbn [app] in ND.
    inversion ND as [|? ? NI ND']; subst. constructor; [|auto]. intros H. apply NI. rewrite in_app_iff. tauto.
  Qed.

  Lemma nodup_app_r (l1 l2 : list nat) : NoDup (l1 ++ l2) -> NoDup l2.
  Proof.
    induction l1 as [|a l1 IH]; intros ND; [exact ND|]. cbn [app] in ND.
    inversion ND as [|? ? NI ND']; subst. auto.
  Qed.

  Lemma nodup_app_disj (l1 l2 : list nat) x : NoDup (l1 ++ l2) -> In x l1 -> In x l2 -> False.
  Proof.
    induction l1 as [|a l1 IH]; intros ND H1 H2; [destruct H1|]. cbn [app] in ND.
    inversion ND as [|? ? NI ND']; subst. destruct H1 as [->|H1].
    - apply NI. rewrite in_app_iff. tauto.
    - apply IH; assumption.
  Qed.

  Lemma in_concat_nth (groups : list (list nat)) j p :
    j < length groups -> p < length (nth j groups []) -> In (nth p (nth j groups []) 0) (concat groups).
  Proof.
    intros Hj Hp. rewrite in_concat. exists (nth j groups []). split; apply nth_In; assumption.
  Qed.

  (* the identifier of the word at position p of group j *)
  Lemma spec_run_label thr : forall groups k x c j p,
    NoDup (concat groups) -> In (x, c) (spec_run thr groups k) ->
    j < length groups -> p < length (nth j groups []) -> nth p (nth j groups []) 0 = x ->
    c = S (key_of (concept_flat thr (nth j groups [])) p) + offset thr groups k j.
  Proof.
    induction groups as [|g tl IH]; intros k x c j p ND H Hj Hp E; [cbn in Hj; lia|].
    cbn [spec_run] in H. cbn [concat] in ND. rewrite in_app_iff in H. destruct j as [|j].
    - cbn [nth] in *. cbn [offset]. destruct H as [H|H].
      + apply in_combine_nth in H; [|rewrite lab_length; reflexivity]. destruct H as [p' [Hp' [E1 E2]]].
        assert (p' = p).
        { apply (nodup_nth_eq g); [eapply nodup_app_l; eauto|exact Hp'|exact Hp|congruence]. }
        subst p'. rewrite lab_nth in E2 by exact Hp. congruence.
      + exfalso. apply (nodup_app_disj g (concat tl) x ND).
        * rewrite <- E. apply nth_In, Hp.
        * rewrite <- (spec_run_fst thr tl (list_max (lab thr k g))). change x with (fst (x, c)). apply in_map, H.
    - cbn [nth] in *. cbn [offset]. cbn [length] in Hj. destruct H as [H|H].
      + exfalso. apply (nodup_app_disj g (concat tl) x ND).
        * apply in_combine_l in H. exact H.
        * rewrite <- E. apply in_concat_nth; [lia|exact Hp].
      + apply (IH _ x c j p); [eapply nodup_app_r; eauto|exact H|lia|exact Hp|exact E].
  Qed.
End Loop.
