(* The matrix of a concept: squareform applied to the distances of
   combinations2(indices) has one line per word, and its entry (i, j), i < j, is
   the distance of word i to word j (mirrored below the diagonal, 0 on it). *)
From Coq Require Import List Arith Bool Lia.
From LV Require Import Cognates.LexCluster.
Import ListNotations.

Lemma combinations2_length {A} (l : list A) :
  2 * length (combinations2 l) = length l * (length l - 1).
Proof.
  induction l as [|a l IH]; [reflexivity|]. cbn [combinations2 length].
  rewrite app_length, map_length. replace (S (length l) - 1) with (length l) by lia.
  destruct (length l) as [|m] eqn:E; [lia|]. replace (S m - 1) with m in IH by lia. nia.
Qed.

Lemma sqrt_pronic n : 1 <= n -> Nat.sqrt (n * (n - 1)) = n - 1.
Proof.
  intros H. apply Nat.sqrt_unique. destruct n as [|m]; [lia|]. replace (S m - 1) with m by lia. nia.
Qed.

Section Matrix.
  Variable V : Type.
  Variable zero : V.
  Variable err : V.
  Variable dist : nat -> nat -> option V.

  Notation D := (D V err dist).
  Notation condensed := (condensed V err dist).
  Notation upper_rows := (upper_rows V).
  Notation squareform := (squareform V zero).
  Notation dmv := (dmv V zero).

  (* the upper triangle, line by line *)
  Fixpoint tri (idx : list nat) : list (list V) :=
    match idx with
    | [] => []
    | a :: tl => map (D a) tl :: tri tl
    end.

  Lemma condensed_cons a tl : condensed (a :: tl) = map (D a) tl ++ condensed tl.
  Proof. unfold LexCluster.condensed. cbn [combinations2]. rewrite map_app, map_map. reflexivity. Qed.

  Lemma upper_rows_tri idx : upper_rows (length idx) (length idx - 1) (condensed idx) = tri idx.
  Proof.
    induction idx as [|a tl IH]; [reflexivity|]. cbn [length tri LexCluster.upper_rows].
    replace (S (length tl) - 1) with (length tl) by lia. rewrite condensed_cons.
    rewrite firstn_app, map_length, Nat.sub_diag. cbn [firstn]. rewrite app_nil_r.
    rewrite firstn_all2 by (rewrite map_length; lia).
    rewrite skipn_app, map_length, Nat.sub_diag. cbn [skipn].
    rewrite skipn_all2 by (rewrite map_length; lia). cbn [app].
    replace (pred (length tl)) with (length tl - 1) by lia. rewrite IH. reflexivity.
  Qed.

  Lemma tri_nth idx : forall i, i < length idx ->
    nth i (tri idx) [] = map (D (nth i idx 0)) (skipn (S i) idx).
  Proof.
    induction idx as [|a tl IH]; intros i Hi; [cbn in Hi; lia|].
    destruct i as [|i]; [reflexivity|]. cbn [tri nth]. cbn [length] in Hi. rewrite IH by lia. reflexivity.
  Qed.

  Lemma nth_skipn (l : list nat) k s : nth k (skipn s l) 0 = nth (s + k) l 0.
  Proof.
    revert l; induction s as [|s IH]; intros l; [reflexivity|]. destruct l as [|a l]; [destruct k; reflexivity|].
    cbn [skipn Nat.add nth]. apply IH.
  Qed.

  Lemma tri_entry idx i j : i < j -> j < length idx ->
    nth (j - i - 1) (nth i (tri idx) []) zero = D (nth i idx 0) (nth j idx 0).
  Proof.
    intros Hij Hj. rewrite tri_nth by lia.
    assert (L : j - i - 1 < length (skipn (S i) idx)) by (rewrite skipn_length; lia).
    rewrite (nth_indep _ zero (D (nth i idx 0) 0)) by (rewrite map_length; exact L).
    rewrite map_nth, nth_skipn. f_equal. f_equal. lia.
  Qed.

  Lemma squareform_length idx : idx <> [] -> length (squareform (condensed idx)) = length idx.
  Proof.
    intros NE. unfold LexCluster.squareform. rewrite map_length, seq_length.
    unfold LexCluster.condensed. rewrite map_length.
    rewrite combinations2_length, sqrt_pronic; destruct idx; [congruence|cbn [length]; lia|congruence|cbn [length]; lia].
  Qed.

  (* what _get_matrices yields for a concept with index list idx *)
  Theorem concept_matrix_entry idx i j : i < length idx -> j < length idx ->
    dmv (squareform (condensed idx)) i j =
      if i <? j then D (nth i idx 0) (nth j idx 0)
      else if j <? i then D (nth j idx 0) (nth i idx 0)
      else zero.
  Proof.
    intros Hi Hj. assert (NE : idx <> []) by (destruct idx; [cbn in Hi; lia|congruence]).
    unfold LexCluster.dmv, LexCluster.squareform.
    assert (S1 : S (Nat.sqrt (2 * length (condensed idx))) = length idx).
    { unfold LexCluster.condensed. rewrite map_length, combinations2_length, sqrt_pronic;
        destruct idx; [congruence|cbn [length]; lia|congruence|cbn [length]; lia]. }
    rewrite S1.
    set (up := upper_rows (length idx) (length idx - 1) (condensed idx)).
    rewrite (nth_indep _ [] (map (fun j0 => sq_entry V zero up 0 j0) (seq 0 (length idx))))
      by (rewrite map_length, seq_length; exact Hi).
    rewrite (map_nth (fun i0 => map (fun j0 => sq_entry V zero up i0 j0) (seq 0 (length idx))) (seq 0 (length idx)) 0 i).
    rewrite seq_nth by exact Hi. cbn [Nat.add].
    rewrite (nth_indep _ zero (sq_entry V zero up i 0)) by (rewrite map_length, seq_length; exact Hj).
    rewrite (map_nth (fun j0 => sq_entry V zero up i j0) (seq 0 (length idx)) 0 j).
    rewrite seq_nth by exact Hj. cbn [Nat.add].
    unfold sq_entry, up. rewrite upper_rows_tri.
    destruct (Nat.ltb_spec i j) as [L|L]; [apply tri_entry; lia|].
    destruct (Nat.ltb_spec j i) as [L'|L']; [apply tri_entry; lia|reflexivity].
  Qed.
End Matrix.
