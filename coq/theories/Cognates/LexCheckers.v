(* Specifications of the boolean checkers that are run on the implementation's
   id column (LexClusterExec.v). *)
From Coq Require Import QArith List Bool Arith Lia.
From LV Require Import Common.Cases Cluster.Flat Cluster.FlatQ
  Cognates.Turchin Cognates.TurchinProofs Cognates.LexCluster Cognates.LexClusterExec.
Import ListNotations.
Local Open Scope nat_scope.

Lemma forallb2_spec {A} (f : A -> A -> bool) (l : list A) :
  forallb (fun a => forallb (fun b => f a b) l) l = true <-> forall a b, In a l -> In b l -> f a b = true.
Proof.
  rewrite forallb_forall. split.
  - intros H a b Ha Hb. specialize (H a Ha). rewrite forallb_forall in H. apply H, Hb.
  - intros H a Ha. rewrite forallb_forall. intros b Hb. apply H; assumption.
Qed.

Theorem totalb_spec wl out :
  totalb wl out = true <-> map fst out = map rid wl /\ forall p, In p out -> 0 < snd p.
Proof.
  unfold totalb. rewrite andb_true_iff, forallb_forall.
  rewrite (list_eqb_spec Nat.eqb Nat.eqb_eq). split; intros [H1 H2]; (split; [exact H1|]);
    intros p Hp; specialize (H2 p Hp); apply Nat.ltb_lt; exact H2.
Qed.

Theorem concept_disjointb_spec wl out :
  concept_disjointb wl out = true <->
  forall r1 r2, In r1 wl -> In r2 wl -> rconcept r1 <> rconcept r2 -> cog out (rid r1) <> cog out (rid r2).
Proof.
  unfold concept_disjointb.
  rewrite (forallb2_spec (fun r1 r2 => Nat.eqb (rconcept r1) (rconcept r2) ||
                                       negb (Nat.eqb (cog out (rid r1)) (cog out (rid r2)))) wl).
  split; intros H r1 r2 H1 H2.
  - intros NC EQ. specialize (H r1 r2 H1 H2). rewrite orb_true_iff, negb_true_iff, Nat.eqb_eq, Nat.eqb_neq in H. tauto.
  - rewrite orb_true_iff, negb_true_iff, Nat.eqb_eq, Nat.eqb_neq.
    destruct (Nat.eq_dec (rconcept r1) (rconcept r2)) as [E|N]; [left; exact E|right; apply H; assumption].
Qed.

Theorem cog_refinesb_spec wl o1 o2 :
  cog_refinesb wl o1 o2 = true <->
  forall r1 r2, In r1 wl -> In r2 wl -> cog o1 (rid r1) = cog o1 (rid r2) -> cog o2 (rid r1) = cog o2 (rid r2).
Proof.
  unfold cog_refinesb.
  rewrite (forallb2_spec (fun r1 r2 => negb (Nat.eqb (cog o1 (rid r1)) (cog o1 (rid r2))) ||
                                       Nat.eqb (cog o2 (rid r1)) (cog o2 (rid r2))) wl).
  split; intros H r1 r2 H1 H2.
  - intros EQ. specialize (H r1 r2 H1 H2). rewrite orb_true_iff, negb_true_iff, Nat.eqb_eq, Nat.eqb_neq in H. tauto.
  - rewrite orb_true_iff, negb_true_iff, Nat.eqb_eq, Nat.eqb_neq.
    destruct (Nat.eq_dec (cog o1 (rid r1)) (cog o1 (rid r2))) as [E|N]; [right; apply H; assumption|left; exact N].
Qed.

Theorem turchin_classesb_spec vowels h w wl out :
  turchin_classesb vowels h w wl out = true <->
  forall r1 r2, In r1 wl -> In r2 wl ->
    (cog out (rid r1) = cog out (rid r2) <->
     rconcept r1 = rconcept r2 /\
     turchin_key vowels h (word_of w (rid r1)) = turchin_key vowels h (word_of w (rid r2))).
Proof.
  unfold turchin_classesb.
  rewrite (forallb2_spec (fun r1 r2 => Bool.eqb (Nat.eqb (cog out (rid r1)) (cog out (rid r2)))
             (Nat.eqb (rconcept r1) (rconcept r2) &&
              negb (turchin_differ vowels h (word_of w (rid r1)) (word_of w (rid r2))))) wl).
  assert (G : forall r1 r2,
    Bool.eqb (Nat.eqb (cog out (rid r1)) (cog out (rid r2)))
             (Nat.eqb (rconcept r1) (rconcept r2) &&
              negb (turchin_differ vowels h (word_of w (rid r1)) (word_of w (rid r2)))) = true <->
    (cog out (rid r1) = cog out (rid r2) <->
     rconcept r1 = rconcept r2 /\
     turchin_key vowels h (word_of w (rid r1)) = turchin_key vowels h (word_of w (rid r2)))).
  { intros r1 r2. rewrite eqb_true_iff. unfold turchin_differ. rewrite negb_involutive.
    rewrite <- Nat.eqb_eq, <- (Nat.eqb_eq (rconcept r1)), <- natlist_eqb_spec, <- andb_true_iff.
    destruct (Nat.eqb (cog out (rid r1)) (cog out (rid r2))),
             (Nat.eqb (rconcept r1) (rconcept r2) &&
              natlist_eqb (turchin_key vowels h (word_of w (rid r1))) (turchin_key vowels h (word_of w (rid r2))));
      split; try tauto; try congruence; intros [A B]; try (specialize (A eq_refl)); try (specialize (B eq_refl)); congruence. }
  split; intros H r1 r2 H1 H2; apply G, H; assumption.
Qed.

(* the terminal checker: no two different blocks are within the threshold *)
Theorem terminalb_sound meth thr m cl : terminalb meth thr m cl = true ->
  length cl <= 1 \/
  forall ca cb, In ca cl -> In cb cl -> fst ca <> fst cb ->
    ~ (linkf meth (cross (dm m) (snd ca) (snd cb)) <= thr)%Q.
Proof.
  unfold terminalb. rewrite orb_true_iff. intros [H|H]; [left; apply Nat.leb_le, H|right].
  rewrite (forallb2_spec (fun ca cb => Nat.eqb (fst ca) (fst cb) ||
             negb (qleb (linkf meth (cross (dm m) (snd ca) (snd cb))) thr)) cl) in H.
  intros ca cb Ha Hb N L. specialize (H ca cb Ha Hb).
  rewrite orb_true_iff, negb_true_iff, Nat.eqb_eq in H. destruct H as [H|H]; [contradiction|].
  unfold qleb in H. apply Qle_bool_iff in L. congruence.
Qed.

(* the complete-linkage checker *)
Theorem diameterb_sound thr m cl : diameterb thr m cl = true ->
  forall c x y, In c cl -> In x (snd c) -> In y (snd c) -> x <> y -> (dm m x y <= thr)%Q.
Proof.
  unfold diameterb. rewrite forallb_forall. intros H c x y Hc Hx Hy N. specialize (H c Hc).
  rewrite (forallb2_spec (fun x y => Nat.eqb x y || qleb (dm m x y) thr) (snd c)) in H.
  specialize (H x y Hx Hy). rewrite orb_true_iff, Nat.eqb_eq in H. destruct H as [H|H]; [contradiction|].
  apply Qle_bool_iff, H.
Qed.
