(* Specifications of the boolean checkers that are run on the implementation's
   id column (LexClusterExec.v). *)
From Coq Require Import QArith List Bool Arith Lia.
From LV Require Import Common.Cases Cluster.Flat Cluster.FlatQ
  Cognates.Turchin Cognates.TurchinProofs Cognates.LexCluster Cognates.LexClusterExec.
Import ListNotations.
Local Open Scope nat_scope.

Lemma forallb2_spec {A} (f : A -> A -> bool) (l : list A) :
  forallb (fun a => forallb (fun b => f a b) l) l = true <-> forall a b, In a l -> In b l -> f a b = true.
Proof.
  rewrite forallb_forall. split.
  - intros H a b Ha Hb. specialize (H a Ha). rewrite forallb_forall in H. apply H, Hb.
  - intros H a Ha. rewrite forallb_forall. intros b Hb. apply H; assumption.
Qed.

Theorem totalb_spec wl out :
  totalb wl out = true <-> map fst out = map rid wl /\ forall p, In p out -> 0 < snd p.
Proof.
  unfold totalb. rewrite andb_true_iff, forallb_forall.
  rewrite (list_eqb_spec Nat.eqb Nat.eqb_eq). split; intros [H1 H2]; (split; [exact H1|]);
    intros p Hp; specialize (H2 p Hp); apply Nat.ltb_lt; exact H2.
Qed.

Theorem concept_disjointb_spec wl out :
  concept_disjointb wl out = true <->
  forall r1 r2, In r1 wl -> In r2 wl -> rconcept r1 <> rconcept r2 -> cog out (rid r1) <> cog out (rid r2).
Proof.
  unfold concept_disjointb.
  rewrite (forallb2_spec (fun r1 r2 => Nat.eqb (rconcept r1) (rconcept r2) ||
                                       negb (Nat.eqb (cog out (rid r1)) (cog out (rid r2)))) wl).
  split; intros H r1 r2 H1 H2.
  - intros NC EQ. specialize (H r1 r2 H1 H2). rewrite orb_true_iff, negb_true_iff, Nat.eqb_eq, Nat.eqb_neq in H. tauto.
  - rewrite orb_true_iff, negb_true_iff, Nat.eqb_eq, Nat.eqb_neq.
    destruct (Nat.eq_dec (rconcept r1) (rconcept r2)) as [E|N]; [left; exact E|right; apply H; assumption].
Qed.

Theorem cog_refinesb_spec wl o1 o2 :
  cog_refinesb wl o1 o2 = true <->
  forall r1 r2, In r1 wl -> In r2 wl -> cog o1 (rid r1) = cog o1 (rid r2) -> cog o2 (rid r1) = cog o2 (rid r2).
Proof.
  unfold cog_refinesb.
  rewrite (forallb2_spec (fun r1 r2 => negb (Nat.eqb (cog o1 (rid r1)) (cog o1 (rid r2))) ||
                                       Nat.eqb (cog o2 (rid r1)) (cog o2 (rid r2))) wl).
  split; intros H r1 r2 H1 H2.
  - intros EQ. specialize (H r1 r2 H1 H2). rewrite orb_true_iff, negb_true_iff, Nat.eqb_eq, Nat.eqb_neq in H. tauto.
  - rewrite orb_true_iff, negb_true_iff, Nat.eqb_eq, Nat.eqb_neq.
    destruct (Nat.eq_dec (cog o1 (rid r1)) (cog o1 (rid r2))) as [E|N]; [right; apply H; assumption|left; exact N].
Qed.

Theorem turchin_classesb_spec vowels h w wl out :
  turchin_classesb vowels h w wl out = true <->
  forall r1 r2, In r1 wl -> In r2 wl ->
    (cog out (rid r1) = cog out (rid r2) <->
     rconcept r1 = rconcept r2 /\
     turchin_key vowels h (word_of w (rid r1)) = turchin_key vowels h (word_of w (rid r2))).
Proof.
  unfold turchin_classesb.
  rewrite (forallb2_spec (fun r1 r2 => Bool.eqb (Nat.eqb (cog out (rid r1)) (cog out (rid r2)))
             (Nat.eqb (rconcept r1) (rconcept r2) &&
              negb (turchin_differ vowels h (word_of w (rid r1)) (word_of w (rid r2))))) wl).
  assert (G : forall r1 r2,
    Bool.eqb (Nat.eqb (cog out (rid r1)) (cog out (rid r2)))
             (Nat.eqb (rconcept r1) (rconcept r2) &&
              negb (turchin_differ vowels h (word_of w (rid r1)) (word_of w (rid r2)))) = true <->
    (cog out (rid r1) = cog out (rid r2) <->
     rconcept r1 = rconcept r2 /\
     turchin_key vowels h (word_of w (rid r1)) = turchin_key vowels h (word_of w (rid r2)))).
  { intros r1 r2. rewrite eqb_true_iff. unfold turchin_differ. rewrite negb_involutive.
    rewrite <- Nat.eqb_eq, <- (Nat.eqb_eq (rconcept r1)), <- natlist_eqb_spec, <- andb_true_iff.
    destruct (Nat.eqb (cog out (rid r1)) (cog out (rid r2))),
             (Nat.eqb (rconcept r1) (rconcept r2) &&
              natlist_eqb (turchin_key vowels h (word_of w (rid r1))) (turchin_key vowels h (word_of w (rid r2))));
      split; try tauto; try congruence; intros [A B]; try (specialize (A eq_refl)); try (specialize (B eq_refl)); congruence. }
  split; intros H r1 r2 H1 H2; apply G, H; assumption.
Qed.

(* the terminal checker: no two different blocks are within the threshold *)
Theorem terminalb_sound meth thr m cl : terminalb meth thr m cl = true ->
  length cl <= 1 \/
  forall ca cb, In ca cl -> In cb cl -> fst ca <> fst cb ->
    ~ (linkf meth (cross (dm m) (snd ca) (snd cb)) <= thr)%Q.
Proof.
  unfold terminalb. rewrite orb_true_iff. intros [H|H]; [left; apply Nat.leb_le, H|right].
  rewrite (forallb2_spec (fun ca cb => Nat.eqb (fst ca) (fst cb) ||
             negb (qleb (linkf meth (cross (dm m) (snd ca) (snd cb))) thr)) cl) in H.
  intros ca cb Ha Hb N L. specialize (H ca cb Ha Hb).
  rewrite orb_true_iff, negb_true_iff, Nat.eqb_eq in H. destruct H as [H|H]; [contradiction|].
  unfold qleb in H. apply Qle_bool_iff in L. congruence.
Qed.

(* the complete-linkage checker *)
Theorem diameterb_sound thr m cl : diameterb thr m cl = true ->
  forall c x y, In c cl -> In x (snd c) -> In y (snd c) -> x <> y -> (dm m x y <= thr)%Q.
Proof.
  unfold diameterb. rewrite forallb_forall. intros H c x y Hc Hx Hy N. specialize (H c Hc).
  rewrite (forallb2_spec (fun x y => Nat.eqb x y || qleb (dm m x y) thr) (snd c)) in H.
  specialize (H x y Hx Hy). rewrite orb_true_iff, Nat.eqb_eq in H. destruct H as [H|H]; [contradiction|].
  apply Qle_bool_iff, H.
Qed.

(* ------------------------------------------------------------------ *)
(* the per-concept checker [flat_validb] (bit 3 of the case code): what its
   acceptance of an id column means *)
From LV Require Import Cognates.LexIndexProofs.

Lemma nodupb_in l x : In x (nodupb l) <-> In x l.
Proof.
  induction l as [|y l IH]; cbn [nodupb]; [tauto|].
  destruct (existsb (Nat.eqb y) l) eqn:E.
  - rewrite IH. split; [intros H; right; exact H|]. intros [->|H]; [|exact H].
    apply existsb_exists in E. destruct E as [z [Hz Ez]]. apply Nat.eqb_eq in Ez. subst. exact Hz.
  - cbn [In]. rewrite IH. tauto.
Qed.

Lemma nodupb_nodup l : NoDup (nodupb l).
Proof.
  induction l as [|y l IH]; cbn [nodupb]; [constructor|].
  destruct (existsb (Nat.eqb y) l) eqn:E; [exact IH|]. constructor; [|exact IH].
  rewrite nodupb_in. intros H. assert (existsb (Nat.eqb y) l = true); [|congruence].
  apply existsb_exists. exists y. split; [exact H|apply Nat.eqb_refl].
Qed.

(* position p of the concept lies in the induced block of its identifier *)
Lemma induced_block out idx p : p < length idx ->
  let g := cog out (nth p idx 0) in
  exists v, In (g, v) (induced out idx) /\ In p v /\
            forall q, In q v <-> q < length idx /\ cog out (nth q idx 0) = g.
Proof.
  intros Hp g. unfold induced. set (cs := map (cog out) idx).
  assert (N : forall q, q < length idx -> nth q cs 0 = cog out (nth q idx 0)).
  { intros q Hq. unfold cs. rewrite (nth_indep _ 0 (cog out 0)) by (rewrite map_length; exact Hq).
    apply (map_nth (cog out)). }
  exists (filter (fun i => Nat.eqb (nth i cs 0) g) (seq 0 (length idx))).
  assert (F : forall q, In q (filter (fun i => Nat.eqb (nth i cs 0) g) (seq 0 (length idx))) <->
                        q < length idx /\ cog out (nth q idx 0) = g).
  { intros q. rewrite filter_In, in_seq, Nat.eqb_eq. split.
    - intros [[_ L] E]. cbn in L. split; [exact L|]. rewrite <- N by exact L. exact E.
    - intros [L E]. split; [cbn; lia|]. rewrite N by exact L. exact E. }
  split; [|split; [apply F; split; [exact Hp|reflexivity]|exact F]].
  rewrite in_map_iff. exists g. split; [reflexivity|]. apply nodupb_in. unfold cs, g.
  apply in_map. apply nth_In, Hp.
Qed.

(* complete linkage: an accepted column puts only words within the threshold of
   each other (entries of the model's matrix of the concept) into one set *)
Theorem flat_validb_complete_sound avg_ok thr s wl out :
  flat_validb avg_ok Complete thr s wl out = true ->
  forall c i j, In c (concepts wl) -> i < length (indices wl c) -> j < length (indices wl c) -> i <> j ->
    cog out (nth i (indices wl c) 0) = cog out (nth j (indices wl c) 0) ->
    (dm (concept_matrix s (indices wl c)) i j <= thr)%Q.
Proof.
  unfold flat_validb. rewrite forallb_forall. intros H c i j Hc Hi Hj N E.
  specialize (H c Hc). cbv zeta in H. rewrite !andb_true_iff in H. destruct H as [_ [_ Hd]].
  cbn [linkageb] in Hd. destruct (induced_block out (indices wl c) i Hi) as [v [Hv [Iv F]]].
  apply (diameterb_sound thr _ _ Hd (cog out (nth i (indices wl c) 0), v) i j Hv Iv); [|exact N].
  cbn [snd]. apply F. split; [exact Hj|]. symmetry. exact E.
Qed.

(* every linkage with an exact comparison: the blocks of two different identifiers
   of a concept have linkage above the threshold *)
Theorem flat_validb_terminal_sound thr meth s wl out :
  flat_validb true meth thr s wl out = true ->
  forall c i j, In c (concepts wl) -> i < length (indices wl c) -> j < length (indices wl c) ->
    cog out (nth i (indices wl c) 0) <> cog out (nth j (indices wl c) 0) ->
    exists va vb,
      (forall q, In q va <-> q < length (indices wl c) /\
                 cog out (nth q (indices wl c) 0) = cog out (nth i (indices wl c) 0)) /\
      (forall q, In q vb <-> q < length (indices wl c) /\
                 cog out (nth q (indices wl c) 0) = cog out (nth j (indices wl c) 0)) /\
      ~ (linkf meth (cross (dm (concept_matrix s (indices wl c))) va vb) <= thr)%Q.
Proof.
  unfold flat_validb. rewrite forallb_forall. intros H c i j Hc Hi Hj N.
  specialize (H c Hc). cbv zeta in H. rewrite andb_true_iff in H. destruct H as [_ Ht].
  assert (T : terminalb meth thr (concept_matrix s (indices wl c)) (induced out (indices wl c)) = true).
  { destruct meth; [exact Ht| |]; rewrite andb_true_iff in Ht; tauto. }
  destruct (induced_block out (indices wl c) i Hi) as [va [Hva [_ Fa]]].
  destruct (induced_block out (indices wl c) j Hj) as [vb [Hvb [_ Fb]]].
  exists va, vb. split; [exact Fa|]. split; [exact Fb|].
  destruct (terminalb_sound meth thr _ _ T) as [L|S].
  - exfalso. destruct (induced out (indices wl c)) as [|x [|y tl]]; [destruct Hva| |cbn in L; lia].
    destruct Hva as [Ea|[]], Hvb as [Eb|[]]. rewrite Ea in Eb. inversion Eb. congruence.
  - apply (S _ _ Hva Hvb). cbn [fst]. exact N.
Qed.
