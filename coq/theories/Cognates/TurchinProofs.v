(* Flat clustering of a two-valued distance whose small value relates exactly the
   items with equal key (the Turchin distance): for every threshold that
   separates the two values and every linkage that maps a constant list to (a
   value comparing like) that constant, the clusters are the key classes. *)
From Coq Require Import List Arith Bool Lia.
From LV Require Import Cluster.Flat Cluster.FlatProofs Cluster.FlatLinkage Cognates.Turchin.
Import ListNotations.

Lemma natlist_eqb_spec a : forall b, natlist_eqb a b = true <-> a = b.
Proof.
  induction a as [|x a IH]; intros [|y b]; cbn [natlist_eqb]; try (split; [discriminate|discriminate]).
  - split; reflexivity.
  - rewrite andb_true_iff, Nat.eqb_eq, IH. split; [intros [-> ->]; reflexivity|intros E; inversion E; auto].
Qed.

Section Classes.
  Variable V : Type.
  Variable leb : V -> V -> bool.
  Variable link : list V -> V.
  Variable d : nat -> nat -> V.
  Variable K : Type.
  Variable K_dec : forall a b : K, {a = b} + {a <> b}.
  Variable key : nat -> K.
  Variable n : nat.
  Variable thr zero one : V.

  Hypothesis leb_total : forall a b, leb a b = true \/ leb b a = true.
  Hypothesis leb_trans : forall a b c, leb a b = true -> leb b c = true -> leb a c = true.
  Hypothesis d_key : forall x y, x < n -> y < n -> x <> y ->
    (key x = key y -> d x y = zero) /\ (key x <> key y -> d x y = one).
  Hypothesis zero_in : leb zero thr = true.
  Hypothesis one_out : leb one thr = false.
  Hypothesis link_const : forall l c, l <> [] -> (forall s, In s l -> s = c) -> leb (link l) thr = leb c thr.

  Notation flat := (flat leb link d).
  Notation step := (step leb link d).

  Definition uniform (cl : clusters) : Prop :=
    items_lt n cl /\ (forall x, count x cl <= 1) /\
    forall k v x y, In (k, v) cl -> In x v -> In y v -> key x = key y.

  Lemma cross_nonempty va vb : va <> [] -> vb <> [] -> cross d va vb <> [].
  Proof.
    destruct va as [|x ta]; [congruence|]. destruct vb as [|y tb]; [congruence|]. intros _ _.
    unfold cross. cbn. discriminate.
  Qed.

  Lemma uniform_step cl cl' : wf cl -> nonempty cl -> uniform cl -> step thr cl = Some cl' -> uniform cl'.
  Proof.
    intros W NE [IL [C U]] H.
    assert (C' : forall x, count x cl' <= 1) by (intros x; rewrite (count_step V leb link d x thr cl cl' H); apply C).
    apply (step_some V leb link d) in H.
    destruct H as [a [b [va [vb [Ha [Hb [N [_ [L ->]]]]]]]]].
    assert (Na : va <> []) by (apply (NE a va Ha)). assert (Nb : vb <> []) by (apply (NE b vb Hb)).
    assert (KK : forall x y, In x va -> In y vb -> key x = key y).
    { intros x0 y0 Hx0 Hy0. destruct (K_dec (key x0) (key y0)) as [E|NK]; [exact E|]. exfalso.
      assert (G : leb (link (cross d va vb)) thr = leb one thr).
      { apply link_const; [apply cross_nonempty; assumption|].
        intros s Hs. apply (in_cross V d) in Hs. destruct Hs as [x [y [Hx [Hy ->]]]].
        apply (d_key x y); [apply (IL a va x Ha Hx)|apply (IL b vb y Hb Hy)| |].
        - intros ->. destruct (count_two y cl a va b vb W Ha Hb Hx Hy (C y)) as [E _]. contradiction.
        - rewrite (U a va x x0 Ha Hx Hx0), (U b vb y y0 Hb Hy Hy0). exact NK. }
      congruence. }
    split; [|split; [exact C'|]].
    - intros k v x Hk Hx. rewrite (in_merge a b cl va vb) in Hk by assumption.
      destruct Hk as [[-> ->]|[_ [_ Hk]]]; [|eapply IL; eauto].
      rewrite in_app_iff in Hx. destruct Hx as [Hx|Hx]; [apply (IL a va x Ha Hx)|apply (IL b vb x Hb Hx)].
    - intros k v x y Hk Hx Hy. rewrite (in_merge a b cl va vb) in Hk by assumption.
      destruct Hk as [[-> ->]|[_ [_ Hk]]]; [|eapply U; eauto].
      rewrite in_app_iff in Hx, Hy. destruct Hx as [Hx|Hx], Hy as [Hy|Hy].
      + apply (U a va x y Ha Hx Hy).
      + apply KK; assumption.
      + symmetry. apply KK; assumption.
      + apply (U b vb x y Hb Hx Hy).
  Qed.

  Lemma uniform_init : uniform (init n).
  Proof.
    split; [|split].
    - intros k v x H Hx. unfold init in H. rewrite in_map_iff in H. destruct H as [i [E Hi]].
      inversion E; subst. destruct Hx as [<-|[]]. apply in_seq in Hi. lia.
    - intros x. rewrite count_init. destruct (x <? n); lia.
    - intros k v x y H Hx Hy. unfold init in H. rewrite in_map_iff in H. destruct H as [i [E _]].
      inversion E; subst. destruct Hx as [<-|[]], Hy as [<-|[]]. reflexivity.
  Qed.

  Lemma uniform_flat : uniform (flat n thr).
  Proof.
    unfold Flat.flat. apply (run_invariant V leb link d uniform thr).
    - intros; eapply uniform_step; eauto.
    - apply wf_init.
    - apply nonempty_init.
    - apply uniform_init.
  Qed.

  (* the clusters are exactly the classes of equal key *)
  Theorem classes_flat x y : x < n -> y < n -> (together (flat n thr) x y <-> key x = key y).
  Proof.
    intros Lx Ly. destruct uniform_flat as [IL [C U]]. split.
    - intros [k [v [H [Hx Hy]]]]. eapply U; eauto.
    - intros EK.
      pose proof (flat_partition V leb link d n thr x) as Cx.
      pose proof (flat_partition V leb link d n thr y) as Cy.
      destruct (Nat.ltb_spec x n); [|lia]. destruct (Nat.ltb_spec y n); [|lia].
      destruct (count_pos_in x (flat n thr)) as [kx [vx [Ikx Ivx]]]; [lia|].
      destruct (count_pos_in y (flat n thr)) as [ky [vy [Iky Ivy]]]; [lia|].
      pose proof (flat_keys_nodup V leb link d n thr) as ND.
      destruct (Nat.eq_dec kx ky) as [->|Nk].
      + assert (vx = vy) as ->.
        { pose proof (in_lookup _ _ _ ND Ikx). pose proof (in_lookup _ _ _ ND Iky). congruence. }
        exists ky, vy. tauto.
      + exfalso. destruct (flat_terminal V leb link d leb_total leb_trans n thr) as [T|T].
        * destruct (flat n thr) as [|c [|c' tl]]; [destruct Ikx| |cbn in T; lia].
          destruct Ikx as [E1|[]], Iky as [E2|[]]. rewrite E1 in E2. inversion E2. congruence.
        * pose proof (T kx ky vx vy Ikx Iky Nk) as F.
          assert (G : leb (link (cross d vx vy)) thr = leb zero thr).
          { apply link_const.
            - intros Z. assert (I : In (d x y) (cross d vx vy)) by (apply (in_cross V d); eauto).
              rewrite Z in I. destruct I.
            - intros s Hs. apply (in_cross V d) in Hs. destruct Hs as [x' [y' [Hx' [Hy' ->]]]].
              apply (d_key x' y'); [apply (IL kx vx x' Ikx Hx')|apply (IL ky vy y' Iky Hy')| |].
              + intros ->. destruct (count_two y' _ kx vx ky vy ND Ikx Iky Hx' Hy' (C y')) as [E _]. contradiction.
              + rewrite (U kx vx x' x Ikx Hx' Ivx), (U ky vy y' y Iky Hy' Ivy). exact EK. }
          congruence.
  Qed.
End Classes.
