(* The rational instance (LexClusterExec.lexq) satisfies the hypotheses of the
   generic theorems; the Turchin and edit-distance corollaries for it. *)
From Coq Require Import QArith List Bool Arith Lia Lqa Relations.
From LV Require Import Cluster.Flat Cluster.FlatProofs Cluster.FlatLinkage Cluster.FlatQ Cluster.FlatQProofs
  Cognates.EditDist Cognates.EditDistProofs Cognates.Turchin Cognates.TurchinProofs
  Cognates.LexCluster Cognates.LexIndexProofs Cognates.LexMatrixProofs Cognates.LexClusterProofs
  Cognates.LexTheorems Cognates.LexConsequences Cognates.LexClusterExec.
Import ListNotations.
Local Open Scope nat_scope.

(* ------------------------------------------------------------------ *)
(* a linkage maps a constant list to a value that compares like the constant *)

Lemma fold_pick_in (f : Q -> Q -> bool) tl : forall x,
  In (fold_left (fun m y => if f m y then m else y) tl x) (x :: tl).
Proof.
  induction tl as [|y tl IH]; intros x; cbn [fold_left]; [left; reflexivity|].
  destruct (f x y).
  - destruct (IH x) as [E|H]; [left; exact E|right; right; exact H].
  - destruct (IH y) as [E|H]; [right; left; exact E|right; right; exact H].
Qed.

Lemma qmin_in l : l <> [] -> In (qmin l) l.
Proof. destruct l as [|x tl]; [congruence|]. intros _. apply (fold_pick_in (fun m y => Qle_bool m y)). Qed.

Lemma qmax_in l : l <> [] -> In (qmax l) l.
Proof. destruct l as [|x tl]; [congruence|]. intros _. apply (fold_pick_in (fun m y => Qle_bool y m)). Qed.

Lemma qsum_const c : forall l a, (forall s, In s l -> s = c) ->
  (fold_left Qplus l a == a + inject_Z (Z.of_nat (length l)) * c)%Q.
Proof.
  induction l as [|s tl IH]; intros a H; cbn [fold_left length].
  - cbn. ring.
  - rewrite IH by (intros s0 H0; apply H; right; exact H0).
    rewrite (H s (or_introl eq_refl)). rewrite Nat2Z.inj_succ, <- Z.add_1_r, inject_Z_plus. ring.
Qed.

Lemma qavg_const c l : l <> [] -> (forall s, In s l -> s = c) -> (qavg l == c)%Q.
Proof.
  intros NE H. unfold qavg, qsum. rewrite (qsum_const c l 0 H).
  destruct l as [|s tl]; [congruence|]. cbn [length].
  assert (N : ~ (inject_Z (Z.of_nat (S (length tl))) == 0)%Q).
  { unfold Qeq. cbn [Qnum Qden inject_Z]. lia. }
  field. exact N.
Qed.

Lemma linkf_const meth thr l c : l <> [] -> (forall s, In s l -> s = c) ->
  qleb (linkf meth l) thr = qleb c thr.
Proof.
  intros NE H. destruct meth; cbn [linkf].
  - unfold qleb. rewrite (qavg_const c l NE H). reflexivity.
  - rewrite (H _ (qmin_in l NE)). reflexivity.
  - rewrite (H _ (qmax_in l NE)). reflexivity.
Qed.

(* ------------------------------------------------------------------ *)
(* Turchin *)

Theorem turchin_classes meth vowels h w thr wl out :
  (0 <= thr)%Q -> (thr < 1)%Q -> NoDup (map rid wl) ->
  lexq meth thr (DTurchin vowels h w) wl = Some out ->
  forall r1 r2 c1 c2, In r1 wl -> In r2 wl -> In (rid r1, c1) out -> In (rid r2, c2) out ->
    (c1 = c2 <-> rconcept r1 = rconcept r2 /\
                 turchin_key vowels h (word_of w (rid r1)) = turchin_key vowels h (word_of w (rid r2))).
Proof.
  intros T0 T1 ND E.
  apply (key_classes Q qleb (linkf meth) 0%Q hundred (dist_of (DTurchin vowels h w)) thr qleb_total qleb_trans
           (list nat) (list_eq_dec Nat.eq_dec) (fun a => turchin_key vowels h (word_of w a)) 1%Q); try assumption.
  - intros a b. unfold D. cbn [dist_of]. unfold turchin_dist, turchin_differ.
    destruct (natlist_eqb (turchin_key vowels h (word_of w a)) (turchin_key vowels h (word_of w b))) eqn:EQ; cbn [negb].
    + apply natlist_eqb_spec in EQ. split; [reflexivity|contradiction].
    + split; [|reflexivity]. intros K. apply natlist_eqb_spec in K. congruence.
  - unfold qleb. apply Qle_bool_iff. exact T0.
  - unfold qleb. destruct (Qle_bool 1 thr) eqn:B; [|reflexivity]. apply Qle_bool_iff in B. lra.
  - intros l c. apply linkf_const.
Qed.

(* ------------------------------------------------------------------ *)
(* normalised edit distance, single linkage *)

(* d / max(len a, len b) <= thr; (100 <= thr for two empty words, which LexStat rejects) *)
Definition lev_within (d : nat) (sa sb : list nat) (thr : Q) : Prop :=
  match Nat.max (length sa) (length sb) with
  | O => (hundred <= thr)%Q
  | S m => (Z.of_nat d # Pos.of_succ_nat m <= thr)%Q
  end.

(* word a precedes word b in the index list and their normalised Levenshtein
   distance - the least cost of an edit script - is within the threshold *)
Definition lev_near (w : words) (thr : Q) (idx : list nat) (a b : nat) : Prop :=
  exists i j, i < j /\ j < length idx /\ nth i idx 0 = a /\ nth j idx 0 = b /\
    exists d, is_lev nat Nat.eqb (word_of w a) (word_of w b) d /\ lev_within d (word_of w a) (word_of w b) thr.

Lemma edit_within w thr a b :
  qleb (D Q hundred (edit_dist_q w) a b) thr = true <->
  exists d, is_lev nat Nat.eqb (word_of w a) (word_of w b) d /\ lev_within d (word_of w a) (word_of w b) thr.
Proof.
  unfold D, edit_dist_q, edit_norm, lev_within, qleb.
  set (sa := word_of w a). set (sb := word_of w b).
  pose proof (edit_dist_is_lev nat Nat.eqb sa sb) as L.
  destruct (Nat.max (length sa) (length sb)) as [|m]; rewrite Qle_bool_iff; split.
  - intros H. exists (edit_dist nat Nat.eqb sa sb). tauto.
  - intros [d [_ H]]. exact H.
  - intros H. exists (edit_dist nat Nat.eqb sa sb). tauto.
  - intros [d [Hd H]]. rewrite <- (edit_dist_unique nat Nat.eqb sa sb d Hd). exact H.
Qed.

Lemma clos_rst_ext (R R' : nat -> nat -> Prop) : (forall a b, R a b -> R' a b) ->
  forall a b, clos_refl_sym_trans nat R a b -> clos_refl_sym_trans nat R' a b.
Proof.
  intros H a b C. induction C as [x y E|x|x y C IH|x y z C1 IH1 C2 IH2].
  - apply rst_step, H, E.
  - apply rst_refl.
  - apply rst_sym, IH.
  - eapply rst_trans; eauto.
Qed.

Theorem editdist_single_components w thr wl out :
  NoDup (map rid wl) -> lexq Single thr (DEdit w) wl = Some out ->
  forall r1 r2 c1 c2, In r1 wl -> In r2 wl -> In (rid r1, c1) out -> In (rid r2, c2) out ->
    (c1 = c2 <-> rconcept r1 = rconcept r2 /\
                 clos_refl_sym_trans nat (lev_near w thr (indices wl (rconcept r1))) (rid r1) (rid r2)).
Proof.
  intros ND E r1 r2 c1 c2 H1 H2 I1 I2.
  rewrite (single_linkage_components Q qleb (linkf Single) 0%Q hundred (dist_of (DEdit w)) thr qleb_total qleb_trans
             qmin_spec wl out ND E r1 r2 c1 c2 H1 H2 I1 I2).
  assert (G : forall idx a b, near Q qleb hundred (dist_of (DEdit w)) thr idx a b <-> lev_near w thr idx a b).
  { intros idx a b. unfold near, lev_near. cbn [dist_of].
    split; intros [i [j [L [Hj [Ei [Ej H]]]]]]; exists i, j; (split; [exact L|]); (split; [exact Hj|]);
      (split; [exact Ei|]); (split; [exact Ej|]); apply edit_within; exact H. }
  unfold linked. split; intros [EC C]; (split; [exact EC|]); revert C; apply clos_rst_ext; intros a b; apply G.
Qed.

(* ------------------------------------------------------------------ *)
(* normalised edit distance, complete linkage: any two words of a cognate set
   are within the threshold (declarative Levenshtein distance / longer length) *)
From LV Require Import Cognates.LexDeepen.

Theorem editdist_complete_diameter w thr wl out :
  NoDup (map rid wl) -> lexq Complete thr (DEdit w) wl = Some out ->
  forall c i j ci, In c (concepts wl) -> i < j -> j < length (indices wl c) ->
    In (nth i (indices wl c) 0, ci) out -> In (nth j (indices wl c) 0, ci) out ->
    exists d, is_lev nat Nat.eqb (word_of w (nth i (indices wl c) 0)) (word_of w (nth j (indices wl c) 0)) d /\
              lev_within d (word_of w (nth i (indices wl c) 0)) (word_of w (nth j (indices wl c) 0)) thr.
Proof.
  intros ND E c i j ci Hc Lij Hj I1 I2. apply edit_within.
  exact (complete_linkage_diameter Q qleb (linkf Complete) 0%Q hundred (dist_of (DEdit w)) thr qmax_spec
           wl out ND E c i j ci Hc Lij Hj I1 I2).
Qed.
