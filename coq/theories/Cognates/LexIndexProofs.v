(* The index lists of the wordlist model: get_list(row=c, flat=True) lists every
   row of concept c exactly once, and the concepts partition the rows. *)
From Coq Require Import List Arith Bool Lia.
From LV Require Import Cognates.LexCluster.
Import ListNotations.

(* ------------------------------------------------------------------ *)
(* sums *)

Lemma list_sum_cons x l : list_sum (x :: l) = x + list_sum l.
Proof. reflexivity. Qed.

Lemma list_sum_map_ext {A} (f g : A -> nat) l :
  (forall a, In a l -> f a = g a) -> list_sum (map f l) = list_sum (map g l).
Proof.
  induction l as [|a l IH]; intros H; [reflexivity|]. cbn [map]. rewrite !list_sum_cons.
  rewrite (H a (or_introl eq_refl)), IH; [reflexivity|]. intros b Hb. apply H. right. exact Hb.
Qed.

Lemma list_sum_map_add {A} (f g : A -> nat) l :
  list_sum (map (fun a => f a + g a) l) = list_sum (map f l) + list_sum (map g l).
Proof.
  induction l as [|a l IH]; [reflexivity|]. cbn [map]. rewrite !list_sum_cons, IH. lia.
Qed.

Lemma list_sum_map_zero {A} (l : list A) : list_sum (map (fun _ => 0) l) = 0.
Proof. induction l as [|a l IH]; [reflexivity|]. cbn [map]. rewrite list_sum_cons, IH. reflexivity. Qed.

Lemma list_sum_swap {A B} (f : A -> B -> nat) (la : list A) (lb : list B) :
  list_sum (map (fun a => list_sum (map (fun b => f a b) lb)) la) =
  list_sum (map (fun b => list_sum (map (fun a => f a b) la)) lb).
Proof.
  induction la as [|a la IH].
  - cbn [map list_sum fold_right]. rewrite list_sum_map_zero. reflexivity.
  - cbn [map]. rewrite list_sum_cons, IH. rewrite <- list_sum_map_add. reflexivity.
Qed.

Lemma count_occ_flat_map {A} (f : A -> list nat) (l : list A) (x : nat) :
  count_occ Nat.eq_dec (flat_map f l) x = list_sum (map (fun a => count_occ Nat.eq_dec (f a) x) l).
Proof.
  induction l as [|a l IH]; [reflexivity|]. cbn [flat_map map]. rewrite count_occ_app, list_sum_cons, IH.
  reflexivity.
Qed.

(* reading a list position by position, beyond its end as well *)
Definition opt_list (o : option nat) : list nat := match o with Some x => [x] | None => [] end.

Lemma count_positions (L : list nat) (x : nat) : forall m, length L <= m ->
  list_sum (map (fun i => count_occ Nat.eq_dec (opt_list (nth_error L i)) x) (seq 0 m)) =
  count_occ Nat.eq_dec L x.
Proof.
  induction L as [|a L IH]; intros m Hm.
  - cbn [count_occ]. rewrite (list_sum_map_ext _ (fun _ => 0)); [apply list_sum_map_zero|].
    intros i _. destruct i; reflexivity.
  - destruct m as [|m]; [cbn in Hm; lia|]. cbn [length] in Hm.
    rewrite <- cons_seq, <- seq_shift. cbn [map]. rewrite list_sum_cons, map_map.
    cbn [nth_error opt_list]. rewrite (IH m) by lia.
    cbn [count_occ]. destruct (Nat.eq_dec a x); lia.
Qed.

(* ------------------------------------------------------------------ *)
(* sorted values of a field *)

Lemma list_max_ge l x : In x l -> x <= list_max l.
Proof.
  intros H. pose proof (proj1 (list_max_le l (list_max l)) (le_n _)) as F.
  rewrite Forall_forall in F. apply F, H.
Qed.

Lemma uniq_sorted_in f wl c : In c (uniq_sorted f wl) <-> exists r, In r wl /\ f r = c.
Proof.
  unfold uniq_sorted. rewrite filter_In, existsb_exists. split.
  - intros [_ [r [Hr E]]]. apply Nat.eqb_eq in E. eauto.
  - intros [r [Hr E]]. split.
    + apply in_seq. assert (f r <= list_max (map f wl)) by (apply list_max_ge, in_map, Hr). lia.
    + exists r. split; [exact Hr|]. apply Nat.eqb_eq, E.
Qed.

Lemma uniq_sorted_nodup f wl : NoDup (uniq_sorted f wl).
Proof. apply NoDup_filter, seq_NoDup. Qed.

Lemma concepts_in wl c : In c (concepts wl) <-> exists r, In r wl /\ rconcept r = c.
Proof. apply uniq_sorted_in. Qed.

Lemma count_occ_nodup_in (l : list nat) x : NoDup l -> In x l -> count_occ Nat.eq_dec l x = 1.
Proof.
  intros ND H. pose proof (proj1 (NoDup_count_occ Nat.eq_dec l) ND x).
  pose proof (proj1 (count_occ_In Nat.eq_dec l x) H). lia.
Qed.

Lemma indicator_sum (LS : list nat) a :
  list_sum (map (fun l => if Nat.eq_dec a l then 1 else 0) LS) = count_occ Nat.eq_dec LS a.
Proof.
  induction LS as [|l LS IH]; [reflexivity|]. cbn [map count_occ]. rewrite list_sum_cons, IH.
  destruct (Nat.eq_dec a l), (Nat.eq_dec l a); try congruence; lia.
Qed.

(* ------------------------------------------------------------------ *)
(* the index list of a concept *)

Definition rows_of (wl : list row) (c : nat) : list nat :=
  map rid (filter (fun r => Nat.eqb (rconcept r) c) wl).

(* summing the cells of a concept over a duplicate-free list of languages that
   covers the wordlist gives the rows of the concept *)
Lemma cells_sum (LS : list nat) c x : NoDup LS -> forall wl,
  (forall r, In r wl -> In (rlang r) LS) ->
  list_sum (map (fun l => count_occ Nat.eq_dec (wcell wl c l) x) LS) =
  count_occ Nat.eq_dec (rows_of wl c) x.
Proof.
  intros ND. induction wl as [|r wl IH]; intros HL.
  - unfold wcell, rows_of. cbn [filter map count_occ]. apply list_sum_map_zero.
  - assert (HL' : forall r0, In r0 wl -> In (rlang r0) LS) by (intros r0 H0; apply HL; right; exact H0).
    specialize (IH HL'). unfold rows_of in *. cbn [filter].
    destruct (Nat.eqb_spec (rconcept r) c) as [Ec|Nc].
    + cbn [map count_occ]. rewrite <- IH.
      (* exactly one language of LS takes the row *)
      rewrite (list_sum_map_ext _ (fun l => (if Nat.eq_dec (rid r) x then (if Nat.eq_dec (rlang r) l then 1 else 0) else 0)
                                             + count_occ Nat.eq_dec (wcell wl c l) x)).
      * rewrite list_sum_map_add.
        assert (G : list_sum (map (fun l => if Nat.eq_dec (rid r) x then if Nat.eq_dec (rlang r) l then 1 else 0 else 0) LS) =
                    if Nat.eq_dec (rid r) x then 1 else 0).
        { destruct (Nat.eq_dec (rid r) x); [|apply list_sum_map_zero].
          rewrite indicator_sum. apply count_occ_nodup_in; [exact ND|]. apply HL. left. reflexivity. }
        rewrite G. destruct (Nat.eq_dec (rid r) x); lia.
      * intros l _. unfold wcell. cbn [filter]. rewrite Ec, Nat.eqb_refl. cbn [andb].
        destruct (Nat.eqb_spec (rlang r) l) as [El|Nl].
        -- cbn [map count_occ]. destruct (Nat.eq_dec (rid r) x), (Nat.eq_dec (rlang r) l); try congruence; lia.
        -- destruct (Nat.eq_dec (rid r) x), (Nat.eq_dec (rlang r) l); try congruence; lia.
    + rewrite <- IH. apply list_sum_map_ext. intros l _. unfold wcell. cbn [filter].
      destruct (Nat.eqb_spec (rconcept r) c); [congruence|]. reflexivity.
Qed.

Lemma indices_count wl c x :
  count_occ Nat.eq_dec (indices wl c) x = count_occ Nat.eq_dec (rows_of wl c) x.
Proof.
  unfold indices. rewrite count_occ_flat_map.
  rewrite (list_sum_map_ext _ (fun i => list_sum (map (fun l =>
             count_occ Nat.eq_dec (opt_list (nth_error (wcell wl c l) i)) x) (langs wl)))).
  2:{ intros i _. rewrite count_occ_flat_map. apply list_sum_map_ext. intros l _.
      destruct (nth_error (wcell wl c l) i); reflexivity. }
  rewrite list_sum_swap.
  rewrite (list_sum_map_ext _ (fun l => count_occ Nat.eq_dec (wcell wl c l) x)).
  2:{ intros l Hl. apply count_positions. unfold maxsyn. apply list_max_ge.
      apply (in_map (fun l0 => length (wcell wl c l0))). exact Hl. }
  apply cells_sum.
  - apply uniq_sorted_nodup.
  - intros r Hr. apply uniq_sorted_in. eauto.
Qed.

Lemma rows_of_in wl c x : In x (rows_of wl c) <-> exists r, In r wl /\ rid r = x /\ rconcept r = c.
Proof.
  unfold rows_of. rewrite in_map_iff. split.
  - intros [r [E H]]. apply filter_In in H. destruct H as [H1 H2]. apply Nat.eqb_eq in H2. eauto.
  - intros [r [H1 [H2 H3]]]. exists r. split; [exact H2|]. apply filter_In. split; [exact H1|].
    apply Nat.eqb_eq, H3.
Qed.

(* get_list(row=c, flat=True) contains exactly the keys of the rows of concept c *)
Theorem indices_in wl c x : In x (indices wl c) <-> exists r, In r wl /\ rid r = x /\ rconcept r = c.
Proof.
  rewrite <- rows_of_in. rewrite (count_occ_In Nat.eq_dec), (count_occ_In Nat.eq_dec), indices_count. tauto.
Qed.

Lemma nodup_map_filter {A} (f : A -> nat) (p : A -> bool) l : NoDup (map f l) -> NoDup (map f (filter p l)).
Proof.
  induction l as [|a l IH]; intros ND; [constructor|]. cbn [map] in ND. inversion ND as [|? ? NI ND']; subst.
  cbn [filter]. destruct (p a); [|auto]. cbn [map]. constructor; [|auto].
  intros H. apply NI. rewrite in_map_iff in *. destruct H as [b [E Hb]]. apply filter_In in Hb. exists b. tauto.
Qed.

(* ... each of them once *)
Theorem indices_nodup wl c : NoDup (map rid wl) -> NoDup (indices wl c).
Proof.
  intros ND. apply (NoDup_count_occ Nat.eq_dec). intros x. rewrite indices_count.
  apply (NoDup_count_occ Nat.eq_dec). apply nodup_map_filter, ND.
Qed.

Lemma rid_inj wl r1 r2 : NoDup (map rid wl) -> In r1 wl -> In r2 wl -> rid r1 = rid r2 -> r1 = r2.
Proof.
  induction wl as [|r wl IH]; intros ND H1 H2 E; [destruct H1|].
  cbn [map] in ND. inversion ND as [|? ? NI ND']; subst.
  destruct H1 as [H1|H1], H2 as [H2|H2].
  - congruence.
  - subst r1. exfalso. apply NI. rewrite E. apply in_map, H2.
  - subst r2. exfalso. apply NI. rewrite <- E. apply in_map, H1.
  - apply IH; assumption.
Qed.

Lemma indices_nonempty wl c : In c (concepts wl) -> indices wl c <> [].
Proof.
  intros H. apply concepts_in in H. destruct H as [r [Hr E]].
  assert (I : In (rid r) (indices wl c)) by (apply indices_in; eauto).
  intros Z. rewrite Z in I. destruct I.
Qed.

(* the groups of two different concepts share no key *)
Lemma indices_disjoint wl c1 c2 x : NoDup (map rid wl) ->
  In x (indices wl c1) -> In x (indices wl c2) -> c1 = c2.
Proof.
  intros ND H1 H2. apply indices_in in H1, H2.
  destruct H1 as [r1 [I1 [E1 C1]]], H2 as [r2 [I2 [E2 C2]]].
  assert (r1 = r2) by (eapply rid_inj; eauto; congruence). congruence.
Qed.

Lemma nodup_app (l1 l2 : list nat) :
  NoDup l1 -> NoDup l2 -> (forall x, In x l1 -> ~ In x l2) -> NoDup (l1 ++ l2).
Proof.
  induction l1 as [|z l1 IH]; intros N1 N2 D; [exact N2|]. cbn [app].
  inversion N1 as [|? ? NI N1']; subst. constructor.
  - rewrite in_app_iff. intros [H|H]; [contradiction|]. apply (D z); [left; reflexivity|exact H].
  - apply IH; [exact N1'|exact N2|]. intros x Hx. apply D. right. exact Hx.
Qed.

Lemma nodup_concat_map {A} (f : A -> list nat) (cs : list A) :
  NoDup cs -> (forall c, In c cs -> NoDup (f c)) ->
  (forall c1 c2 x, In c1 cs -> In c2 cs -> In x (f c1) -> In x (f c2) -> c1 = c2) ->
  NoDup (concat (map f cs)).
Proof.
  induction cs as [|c cs IH]; intros ND H1 H2; [constructor|]. cbn [map concat].
  inversion ND as [|? ? NI ND']; subst. apply nodup_app.
  - apply H1. left. reflexivity.
  - apply IH; [exact ND'| |].
    + intros c0 H0. apply H1. right. exact H0.
    + intros c1 c2 x I1 I2. apply H2; right; assumption.
  - intros x Hx Hin. rewrite in_concat in Hin. destruct Hin as [l' [Hl' Hx']].
    rewrite in_map_iff in Hl'. destruct Hl' as [c' [Ec' Hc']]. subst l'.
    assert (c = c').
    { apply (H2 c c' x); [left; reflexivity|right; exact Hc'|exact Hx|exact Hx']. }
    subst c'. contradiction.
Qed.

(* all groups together: every key of the wordlist exactly once *)
Theorem groups_nodup wl : NoDup (map rid wl) -> NoDup (concat (groups_of wl)).
Proof.
  intros ND. unfold groups_of. apply nodup_concat_map.
  - apply uniq_sorted_nodup.
  - intros c _. apply indices_nodup, ND.
  - intros c1 c2 x _ _. apply indices_disjoint, ND.
Qed.

Theorem groups_cover wl r : In r wl -> In (rid r) (concat (groups_of wl)).
Proof.
  intros H. unfold groups_of. rewrite in_concat. exists (indices wl (rconcept r)). split.
  - apply in_map. apply concepts_in. eauto.
  - apply indices_in. eauto.
Qed.
