(* Model of lingpy.align.pairwise.turchin (src/lingpy/align/pairwise.py:538-576)
   on sound-class strings.  A word is given by the list of its sound classes as
   returned by tokens2class(tokens, rcParams['dolgo']) (class symbols are coded as
   numbers by the harness; the conversion itself belongs to property C14 and is
   an input here).  [vowels] = model.vowels, [h] = the class 'H'.  No proofs. *)
From Coq Require Import List Arith Bool.
Import ListNotations.

Section Turchin.
  Variable vowels : list nat.
  Variable h : nat.

  Definition is_vowel (c : nat) : bool := existsb (Nat.eqb c) vowels.

  (* if classA[0] in model.vowels: classA[0] = 'H' *)
  Definition initial_h (cls : list nat) : list nat :=
    match cls with
    | c :: tl => if is_vowel c then h :: tl else c :: tl
    | [] => []          (* classA[0] raises IndexError: LexStat rejects empty token lists *)
    end.

  (* ''.join([k for k in classA if k not in model.vowels])[:2] *)
  Definition turchin_key (cls : list nat) : list nat :=
    firstn 2 (filter (fun c => negb (is_vowel c)) (initial_h cls)).

  Fixpoint natlist_eqb (a b : list nat) : bool :=
    match a, b with
    | [], [] => true
    | x :: a', y :: b' => Nat.eqb x y && natlist_eqb a' b'
    | _, _ => false
    end.

  (* int(keyA != keyB): false = 0 (probably cognate), true = 1 *)
  Definition turchin_differ (ca cb : list nat) : bool :=
    negb (natlist_eqb (turchin_key ca) (turchin_key cb)).
End Turchin.
