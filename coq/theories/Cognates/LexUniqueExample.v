(* An instance in which all hypotheses of ids_are_the_textbook_partition hold at
   once: integer distances (unnormalised Levenshtein), single linkage as the
   minimum of naturals (invariant under permutation up to Leibniz equality), and
   a concept of three words with pairwise different distances. *)
From Coq Require Import List Arith Bool Lia Permutation.
From LV Require Import Cluster.Flat Cluster.FlatProofs Cluster.FlatLinkage Cluster.FlatTextbook Cluster.FlatUnique
  Cognates.EditDist Cognates.LexCluster Cognates.LexConsequences Cognates.LexUnique.
Import ListNotations.

Definition nmin (l : list nat) : nat :=
  match l with [] => 0 | x :: t => fold_right Nat.min x t end.

Lemma nmin_spec x t : In (nmin (x :: t)) (x :: t) /\ forall y, In y (x :: t) -> nmin (x :: t) <= y.
Proof.
  cbn [nmin]. induction t as [|z t IH]; cbn [fold_right].
  - split; [left; reflexivity|]. intros y [<-|[]]. lia.
  - destruct IH as [I M]. split.
    + destruct (Nat.min_spec z (fold_right Nat.min x t)) as [[_ ->]|[_ ->]]; [right; left; reflexivity|].
      destruct I as [E|I]; [left; exact E|right; right; exact I].
    + intros y [<-|[<-|Hy]].
      * pose proof (M x (or_introl eq_refl)). lia.
      * lia.
      * pose proof (M y (or_intror Hy)). lia.
Qed.

Lemma nmin_perm l l' : Permutation l l' -> nmin l = nmin l'.
Proof.
  intros P. destruct l as [|x t]; destruct l' as [|x' t'].
  - reflexivity.
  - apply Permutation_nil in P. discriminate.
  - apply Permutation_sym, Permutation_nil in P. discriminate.
  - destruct (nmin_spec x t) as [I M]. destruct (nmin_spec x' t') as [I' M'].
    pose proof (M _ (Permutation_in _ (Permutation_sym P) I')).
    pose proof (M' _ (Permutation_in _ P I)). lia.
Qed.

Lemma nleb_total a b : Nat.leb a b = true \/ Nat.leb b a = true.
Proof. destruct (Nat.leb_spec a b); [left; reflexivity|right; apply Nat.leb_le; lia]. Qed.

Lemma nleb_trans a b c : Nat.leb a b = true -> Nat.leb b c = true -> Nat.leb a c = true.
Proof. rewrite !Nat.leb_le. lia. Qed.

(* three languages, one concept; Levenshtein distances 1, 3, 2 *)
Definition wl3 : list row := [mkrow 7 0 0; mkrow 2 0 1; mkrow 5 0 2].
Definition word3 (i : nat) : list nat :=
  match i with 7 => [1; 2] | 2 => [1; 2; 3] | 5 => [4; 2; 3; 5] | _ => [] end.
Definition dist3 (a b : nat) : option nat := Some (edit_dist nat Nat.eqb (word3 a) (word3 b)).

Lemma ex3_indices : indices wl3 0 = [7; 2; 5].
Proof. vm_compute. reflexivity. Qed.

Lemma ex3_no_ties : no_ties_below nat Nat.leb nmin (cmat nat 0 100 dist3 (indices wl3 0)) (length (indices wl3 0)).
Proof.
  rewrite ex3_indices. cbn [length]. apply no_ties_below_three.
  intros x y x' y' Lx Ly Lx' Ly' N N' E1 E2.
  assert (Hx : x = 0 \/ x = 1 \/ x = 2) by lia. assert (Hy : y = 0 \/ y = 1 \/ y = 2) by lia.
  assert (Hx' : x' = 0 \/ x' = 1 \/ x' = 2) by lia. assert (Hy' : y' = 0 \/ y' = 1 \/ y' = 2) by lia.
  destruct Hx as [Hx|[Hx|Hx]], Hy as [Hy|[Hy|Hy]], Hx' as [Hx'|[Hx'|Hx']], Hy' as [Hy'|[Hy'|Hy']]; subst;
    try (exfalso; apply N; reflexivity); try (exfalso; apply N'; reflexivity);
    vm_compute in E1, E2; try discriminate;
    first [left; split; reflexivity | right; split; reflexivity].
Qed.

(* the run at threshold 1: words 7 and 2 (distance 1) are joined, word 5 stays alone *)
Lemma ex3_run : lex_cluster nat Nat.leb nmin 0 100 dist3 1 wl3 = Some [(7, 1); (2, 1); (5, 3)].
Proof. vm_compute. reflexivity. Qed.
