(* Model of LexStat.cluster (src/lingpy/compare/lexstat.py:1389-1477) with
   LexStat._get_matrices (1241-1292), misc.squareform
   (src/lingpy/algorithm/cython/_misc.py:24-58), util.combinations2 and
   Wordlist.get_list(row=c, flat=True) over the array built in
   QLCParserWithRowsAndCols.__init__ (src/lingpy/basic/parser.py:428-457).

   Generic in the carrier [V] of distances (exact rationals in the executable
   instance, LexClusterExec.v), in the linkage, and in the word-distance function
   [dist] (a Section variable: turchin / edit-dist instances are computed by the
   model, sca / lexstat are replayed oracles).  No proofs here. *)
From Coq Require Import List Arith Bool.
From LV Require Import Cluster.Flat.
Import ListNotations.

(* one data row of the wordlist: its integer key, its concept and its language.
   Concepts are numbered in the order of sorted(wordlist.rows), languages in the
   order of wordlist.cols; the list of rows is in the order of the data
   dictionary. *)
Record row := mkrow { rid : nat; rconcept : nat; rlang : nat }.

(* the values of a field in increasing order, without repetition *)
Definition uniq_sorted (f : row -> nat) (wl : list row) : list nat :=
  filter (fun c => existsb (fun r => Nat.eqb (f r) c) wl) (seq 0 (S (list_max (map f wl)))).

Definition concepts (wl : list row) : list nat := uniq_sorted rconcept wl.   (* sorted(self.rows) *)
Definition langs (wl : list row) : list nat := uniq_sorted rlang wl.         (* self.cols *)

(* self._dict[concept][language]: keys in data order *)
Definition wcell (wl : list row) (c l : nat) : list nat :=
  map rid (filter (fun r => Nat.eqb (rconcept r) c && Nat.eqb (rlang r) l) wl).

(* number of array lines of a concept: max(len(x) for x in d.values()) *)
Definition maxsyn (wl : list row) (c : nat) : nat :=
  list_max (map (fun l => length (wcell wl c l)) (langs wl)).

(* get_list(row=c, flat=True): the array lines of the concept, flattened, zeros dropped *)
Definition indices (wl : list row) (c : nat) : list nat :=
  flat_map (fun i =>
    flat_map (fun l => match nth_error (wcell wl c l) i with Some x => [x] | None => [] end) (langs wl))
    (seq 0 (maxsyn wl c)).

(* itertools.combinations(l, 2) *)
Fixpoint combinations2 {A} (l : list A) : list (A * A) :=
  match l with
  | [] => []
  | a :: tl => map (pair a) tl ++ combinations2 tl
  end.

(* dictionary lookup in a list of assignments: the last assignment wins *)
Fixpoint dict_get (i : nat) (rv : list (nat * nat)) : option nat :=
  match rv with
  | [] => None
  | (j, k) :: tl =>
      match dict_get i tl with
      | Some k' => Some k'
      | None => if Nat.eqb i j then Some k else None
      end
  end.

Section LexCluster.
  Variable V : Type.
  Variable leb : V -> V -> bool.
  Variable link : list V -> V.
  Variable zero : V.                        (* the 0.0 squareform puts on the diagonal *)
  Variable err : V.                         (* d = 100 after a ZeroDivisionError *)
  Variable dist : nat -> nat -> option V.   (* function(idxA, idxB); None = ZeroDivisionError *)
  Variable thr : V.

  Definition D (a b : nat) : V := match dist a b with Some v => v | None => err end.

  (* matrix = [function(idxA, idxB) for idxA, idxB in combinations2(indices)] *)
  Definition condensed (idx : list nat) : list V :=
    map (fun p => D (fst p) (snd p)) (combinations2 idx).

  (* squareform: the vector is consumed line by line of the upper triangle;
     line i takes s-1-i entries *)
  Fixpoint upper_rows (cnt width : nat) (x : list V) : list (list V) :=
    match cnt with
    | 0 => []
    | S c => firstn width x :: upper_rows c (pred width) (skipn width x)
    end.

  Definition sq_entry (up : list (list V)) (i j : nat) : V :=
    if i <? j then nth (j - i - 1) (nth i up []) zero
    else if j <? i then nth (i - j - 1) (nth j up []) zero
    else zero.

  (* s = int(sqrt(2 * len(x)) + 1) *)
  Definition squareform (x : list V) : list (list V) :=
    let s := S (Nat.sqrt (2 * length x)) in
    let up := upper_rows s (s - 1) x in
    map (fun i => map (fun j => sq_entry up i j) (seq 0 s)) (seq 0 s).

  Definition dmv (m : list (list V)) (a b : nat) : V := nth b (nth a m []) zero.

  (* [c.get(i) + k for i in range(len(matrix))]; None: the key is missing (TypeError) *)
  Fixpoint labels (k : nat) (rv : list (nat * nat)) (is : list nat) : option (list nat) :=
    match is with
    | [] => Some []
    | i :: tl =>
        match dict_get i rv, labels k rv tl with
        | Some c, Some r => Some (c + k :: r)
        | _, _ => None
        end
    end.

  (* fclust(matrix, t) = flat_cluster(method, t, matrix, revert=True) *)
  Definition concept_clusters (k : nat) (idx : list nat) : option (list nat) :=
    let m := squareform (condensed idx) in
    let rv := revert (flat leb link (dmv m) (length m) thr) in
    labels k rv (seq 0 (length m)).

  (* loop state: the running offset k and the assignments made to clr so far *)
  Definition state := (nat * list (nat * nat))%type.

  (* one iteration of "for concept, indices, matrix in matrices" *)
  Definition concept_step (st : state) (idx : list nat) : option state :=
    match concept_clusters (fst st) idx with
    | Some cls => Some (list_max cls, snd st ++ combine idx cls)   (* k = max(clusters); clr[idxA] = idxB *)
    | None => None
    end.

  Fixpoint run_concepts (groups : list (list nat)) (st : state) : option state :=
    match groups with
    | [] => Some st
    | g :: tl => match concept_step st g with
                 | Some st' => run_concepts tl st'
                 | None => None
                 end
    end.

  (* add_entries(ref, clr, identity): clr[key] for every key of the wordlist;
     None: KeyError *)
  Fixpoint column (wl : list row) (clr : list (nat * nat)) : option (list (nat * nat)) :=
    match wl with
    | [] => Some []
    | r :: tl =>
        match dict_get (rid r) clr, column tl clr with
        | Some c, Some rest => Some ((rid r, c) :: rest)
        | _, _ => None
        end
    end.

  Definition groups_of (wl : list row) : list (list nat) := map (indices wl) (concepts wl).

  (* the id column written by LexStat.cluster, as (row key, cognate id) in data order *)
  Definition lex_cluster (wl : list row) : option (list (nat * nat)) :=
    match run_concepts (groups_of wl) (0, []) with
    | Some st => column wl (snd st)
    | None => None
    end.
End LexCluster.
