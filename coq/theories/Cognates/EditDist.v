(* Model of lingpy.algorithm.cython._malign.edit_dist (the Wagner-Fischer matrix
   fill, src/lingpy/algorithm/cython/_malign.py:113-181) as called by
   lingpy.align.pairwise.edit_dist(seqA, seqB, normalized=True, restriction=''),
   and the declarative specification it is proved against in EditDistProofs.v:
   the least cost of an edit script (relation [edits]).  No proofs here. *)
From Coq Require Import List Arith Bool.
Import ListNotations.

Section EditDist.
  Variable A : Type.
  Variable eqb : A -> A -> bool.

  (* one cell:
       match = matrix[i-1][j-1] (+1 if the segments differ); gapA = matrix[i-1][j] + 1;
       gapB = matrix[i][j-1] + 1
       if gapA < match and gapA < gapB: gapA  elif match <= gapB: match  else: gapB *)
  Definition cell (same : bool) (diag up left : nat) : nat :=
    let mt := if same then diag else S diag in
    let gapA := S up in
    let gapB := S left in
    if (gapA <? mt) && (gapA <? gapB) then gapA
    else if mt <=? gapB then mt else gapB.

  (* columns j = 1..M of matrix row i; [b] = seqB[i-1], [a] = the rest of seqA,
     [diag] = matrix[i-1][j-1], [ups] = matrix[i-1][j..], [left] = matrix[i][j-1] *)
  Fixpoint fill_row (b : A) (a : list A) (diag : nat) (ups : list nat) (left : nat) : list nat :=
    match a, ups with
    | x :: a', up :: ups' =>
        let v := cell (eqb x b) diag up left in
        v :: fill_row b a' up ups' v
    | _, _ => []
    end.

  (* a matrix row is (matrix[i][0], [matrix[i][1]; ...; matrix[i][M]]) *)
  Definition mrow := (nat * list nat)%type.

  Definition next_row (a : list A) (r : mrow) (b : A) : mrow :=
    (S (fst r), fill_row b a (fst r) (snd r) (S (fst r))).

  (* matrix[0][j] = j *)
  Definition row0 (a : list A) : mrow := (0, seq 1 (length a)).

  (* sim = matrix[N][M] *)
  Definition edit_dist (a b : list A) : nat :=
    let r := fold_left (next_row a) b (row0 a) in
    last (snd r) (fst r).

  (* ---------------------------------------------------------------- *)
  (* specification: edit scripts and their cost *)
  Inductive edits : list A -> list A -> nat -> Prop :=
  | ed_nil : edits [] [] 0
  | ed_del x a b n : edits a b n -> edits (x :: a) b (S n)
  | ed_ins y a b n : edits a b n -> edits a (y :: b) (S n)
  | ed_sub x y a b n : edits a b n -> edits (x :: a) (y :: b) (if eqb x y then n else S n).

  (* d is the Levenshtein distance of a and b *)
  Definition is_lev (a b : list A) (d : nat) : Prop :=
    edits a b d /\ forall n, edits a b n -> d <= n.
End EditDist.

Arguments cell : simpl never.
