(* The clauses of C06 (and the cognate clause of C10) for the LexStat.cluster
   model, for every wordlist with distinct row keys, every distance function,
   every carrier/linkage and every threshold. *)
From Coq Require Import List Arith Bool Lia.
From LV Require Import Cluster.Flat Cluster.FlatProofs Cluster.FlatLinkage
  Cognates.LexCluster Cognates.LexIndexProofs Cognates.LexMatrixProofs Cognates.LexClusterProofs.
Import ListNotations.

Section Column.
  Lemma column_some (wl : list row) clr : (forall r, In r wl -> In (rid r) (map fst clr)) ->
    exists out, column wl clr = Some out.
  Proof.
    induction wl as [|r wl IH]; intros H; [exists []; reflexivity|]. cbn [column].
    destruct (dict_get (rid r) clr) as [c|] eqn:E.
    - destruct IH as [out ->]; [intros r0 H0; apply H; right; exact H0|]. eauto.
    - exfalso. apply (dict_get_none _ _ E). apply H. left. reflexivity.
  Qed.

  Lemma column_spec (wl : list row) clr : forall out, column wl clr = Some out ->
    map fst out = map rid wl /\ forall x c, In (x, c) out -> dict_get x clr = Some c.
  Proof.
    induction wl as [|r wl IH]; intros out H; cbn [column] in H.
    - inversion H; subst. split; [reflexivity|intros x c []].
    - destruct (dict_get (rid r) clr) as [c0|] eqn:E; [|discriminate].
      destruct (column wl clr) as [rest|]; [|discriminate]. inversion H; subst.
      destruct (IH rest eq_refl) as [H1 H2]. split; [cbn [map fst]; rewrite H1; reflexivity|].
      intros x c [E1|H3]; [inversion E1; subst; exact E|apply H2, H3].
  Qed.
End Column.

Section Theorems.
  Variable V : Type.
  Variable leb : V -> V -> bool.
  Variable link : list V -> V.
  Variable zero : V.
  Variable err : V.
  Variable dist : nat -> nat -> option V.

  Notation LC := (lex_cluster V leb link zero err dist).
  Notation spec_run := (spec_run V leb link zero err dist).
  Notation offset := (offset V leb link zero err dist).
  Notation lab := (lab V leb link zero err dist).
  Notation concept_flat := (concept_flat V leb link zero err dist).

  Lemma groups_nonempty wl g : In g (groups_of wl) -> g <> [].
  Proof.
    unfold groups_of. rewrite in_map_iff. intros [c [<- H]]. apply indices_nonempty, H.
  Qed.

  (* the id column exists, has one entry per row in data order, and every entry
     is one of the assignments of the loop *)
  Lemma lex_cluster_char thr wl : NoDup (map rid wl) ->
    exists out, LC thr wl = Some out /\ map fst out = map rid wl /\
      forall x c, In (x, c) out -> In (x, c) (spec_run thr (groups_of wl) 0).
  Proof.
    intros ND. unfold lex_cluster.
    destruct (run_concepts_spec V leb link zero err dist thr (groups_of wl) 0 [] (groups_nonempty wl)) as [k' E].
    rewrite E. cbn [snd app].
    destruct (column_some wl (spec_run thr (groups_of wl) 0)) as [out Eo].
    { intros r Hr. rewrite spec_run_fst. apply groups_cover, Hr. }
    exists out. split; [exact Eo|]. destruct (column_spec _ _ _ Eo) as [H1 H2]. split; [exact H1|].
    intros x c H. apply dict_get_in, H2, H.
  Qed.

  (* where a row sits: group number and position *)
  Lemma row_position wl r : In r wl ->
    exists j p, j < length (groups_of wl) /\ nth j (groups_of wl) [] = indices wl (rconcept r) /\
      nth j (concepts wl) 0 = rconcept r /\ j < length (concepts wl) /\
      p < length (indices wl (rconcept r)) /\ nth p (indices wl (rconcept r)) 0 = rid r.
  Proof.
    intros Hr. assert (Hc : In (rconcept r) (concepts wl)) by (apply concepts_in; eauto).
    destruct (In_nth _ _ 0 Hc) as [j [Hj Ej]].
    assert (Hi : In (rid r) (indices wl (rconcept r))) by (apply indices_in; eauto).
    destruct (In_nth _ _ 0 Hi) as [p [Hp Ep]].
    exists j, p. unfold groups_of. rewrite map_length. split; [exact Hj|]. split.
    - rewrite (nth_indep _ [] (indices wl 0)) by (rewrite map_length; exact Hj).
      rewrite (map_nth (indices wl)). rewrite Ej. reflexivity.
    - tauto.
  Qed.

  Lemma label_of_row thr wl r c : NoDup (map rid wl) -> In r wl ->
    In (rid r, c) (spec_run thr (groups_of wl) 0) ->
    exists j p, j < length (concepts wl) /\ nth j (concepts wl) 0 = rconcept r /\
      nth j (groups_of wl) [] = indices wl (rconcept r) /\
      p < length (indices wl (rconcept r)) /\ nth p (indices wl (rconcept r)) 0 = rid r /\
      c = S (key_of (concept_flat thr (indices wl (rconcept r))) p) + offset thr (groups_of wl) 0 j.
  Proof.
    intros ND Hr H. destruct (row_position wl r Hr) as [j [p [Hj [Eg [Ec [Hj' [Hp Ep]]]]]]].
    exists j, p. split; [exact Hj'|]. split; [exact Ec|]. split; [exact Eg|]. split; [exact Hp|]. split; [exact Ep|].
    rewrite <- Eg. apply (spec_run_label V leb link zero err dist thr (groups_of wl) 0 (rid r) c j p).
    - apply groups_nodup, ND.
    - exact H.
    - exact Hj.
    - rewrite Eg. exact Hp.
    - rewrite Eg. exact Ep.
  Qed.

  (* ---------------------------------------------------------------- *)
  (* C06, clause 1: every word gets exactly one identifier (one entry per row,
     in data order; row keys are distinct), and it is positive *)
  Theorem ids_total thr wl : NoDup (map rid wl) ->
    exists out, LC thr wl = Some out /\ map fst out = map rid wl /\
      forall x c, In (x, c) out -> 0 < c.
  Proof.
    intros ND. destruct (lex_cluster_char thr wl ND) as [out [E [H1 H2]]].
    exists out. split; [exact E|]. split; [exact H1|]. intros x c H.
    assert (Hx : In x (map rid wl)) by (rewrite <- H1; change x with (fst (x, c)); apply in_map, H).
    rewrite in_map_iff in Hx. destruct Hx as [r [Er Hr]]. subst x.
    destruct (label_of_row thr wl r c ND Hr (H2 _ _ H)) as [j [p [_ [_ [_ [_ [_ ->]]]]]]]. lia.
  Qed.

  Lemma nodup_nth_neq (l : list nat) j1 j2 : NoDup l -> j1 < length l -> j2 < length l ->
    nth j1 l 0 <> nth j2 l 0 -> j1 <> j2.
  Proof. intros _ _ _ N E. subst. congruence. Qed.

  (* C06, clause 2: words of different concepts never share an identifier *)
  Theorem ids_concept_disjoint thr wl out : NoDup (map rid wl) -> LC thr wl = Some out ->
    forall r1 r2 c1 c2, In r1 wl -> In r2 wl -> rconcept r1 <> rconcept r2 ->
      In (rid r1, c1) out -> In (rid r2, c2) out -> c1 <> c2.
  Proof.
    intros ND E r1 r2 c1 c2 Hr1 Hr2 NC I1 I2.
    destruct (lex_cluster_char thr wl ND) as [out' [E' [_ H2]]].
    assert (out' = out) by congruence. subst out'.
    destruct (label_of_row thr wl r1 c1 ND Hr1 (H2 _ _ I1)) as [j1 [p1 [Hj1 [Ec1 [Eg1 [Hp1 [_ ->]]]]]]].
    destruct (label_of_row thr wl r2 c2 ND Hr2 (H2 _ _ I2)) as [j2 [p2 [Hj2 [Ec2 [Eg2 [Hp2 [_ ->]]]]]]].
    assert (NJ : j1 <> j2) by (intros ->; congruence).
    assert (GL : length (groups_of wl) = length (concepts wl)) by (unfold groups_of; apply map_length).
    assert (B : forall j p g, nth j (groups_of wl) [] = g -> p < length g ->
              S (key_of (concept_flat thr g) p) + offset thr (groups_of wl) 0 j <=
              list_max (lab thr (offset thr (groups_of wl) 0 j) (nth j (groups_of wl) []))).
    { intros j p g <- Hp. rewrite <- (lab_nth V leb link zero err dist thr _ _ p Hp).
      apply list_max_ge, nth_In. rewrite lab_length. exact Hp. }
    destruct (Nat.lt_total j1 j2) as [L|[L|L]]; [|contradiction|].
    - pose proof (offset_mono V leb link zero err dist thr (groups_of wl) 0 j1 j2 (groups_nonempty wl) L ltac:(lia)).
      pose proof (B j1 p1 _ Eg1 Hp1). lia.
    - pose proof (offset_mono V leb link zero err dist thr (groups_of wl) 0 j2 j1 (groups_nonempty wl) L ltac:(lia)).
      pose proof (B j2 p2 _ Eg2 Hp2). lia.
  Qed.

  (* C06, clause 3: within a concept, two words share an identifier iff they lie
     in the same cluster of the flat clustering of the concept's matrix *)
  Theorem ids_are_flat_partition thr wl out : NoDup (map rid wl) -> LC thr wl = Some out ->
    forall c i j ci cj, In c (concepts wl) ->
      i < length (indices wl c) -> j < length (indices wl c) ->
      In (nth i (indices wl c) 0, ci) out -> In (nth j (indices wl c) 0, cj) out ->
      (ci = cj <-> together (concept_flat thr (indices wl c)) i j).
  Proof.
    intros ND E c i j ci cj Hc Hi Hj I1 I2.
    destruct (lex_cluster_char thr wl ND) as [out' [E' [_ H2]]].
    assert (out' = out) by congruence. subst out'.
    assert (R : forall p, p < length (indices wl c) -> exists r, In r wl /\ rid r = nth p (indices wl c) 0 /\ rconcept r = c).
    { intros p Hp. apply indices_in. apply nth_In, Hp. }
    destruct (R i Hi) as [r1 [Hr1 [Er1 Ec1]]]. destruct (R j Hj) as [r2 [Hr2 [Er2 Ec2]]].
    rewrite <- Er1 in I1. rewrite <- Er2 in I2.
    destruct (label_of_row thr wl r1 ci ND Hr1 (H2 _ _ I1)) as [j1 [p1 [Hj1 [Ecc1 [_ [Hp1 [Ep1 ->]]]]]]].
    destruct (label_of_row thr wl r2 cj ND Hr2 (H2 _ _ I2)) as [j2 [p2 [Hj2 [Ecc2 [_ [Hp2 [Ep2 ->]]]]]]].
    rewrite Ec1 in *. rewrite Ec2 in *.
    assert (j1 = j2).
    { apply (proj1 (NoDup_nth (concepts wl) 0) (uniq_sorted_nodup _ _) j1 j2 Hj1 Hj2). congruence. }
    subst j2.
    pose proof (indices_nodup wl c ND) as NDi.
    assert (p1 = i) by (apply (proj1 (NoDup_nth _ 0) NDi); [exact Hp1|exact Hi|congruence]).
    assert (p2 = j) by (apply (proj1 (NoDup_nth _ 0) NDi); [exact Hp2|exact Hj|congruence]).
    subst p1 p2.
    rewrite <- (key_of_together (concept_flat thr (indices wl c)) i j).
    - split; [intros H; lia|intros ->; reflexivity].
    - apply flat_keys_nodup.
    - unfold LexClusterProofs.concept_flat. rewrite flat_partition.
      destruct (Nat.ltb_spec i (length (indices wl c))); [reflexivity|lia].
    - unfold LexClusterProofs.concept_flat. rewrite flat_partition.
      destruct (Nat.ltb_spec j (length (indices wl c))); [reflexivity|lia].
  Qed.

  (* ---------------------------------------------------------------- *)
  (* C10, cognate clause: raising the threshold only merges cognate sets *)

  Lemma refines_together c1 c2 x y : refines c1 c2 -> together c1 x y -> together c2 x y.
  Proof.
    intros R [k [v [H [Hx Hy]]]]. destruct (R k v H) as [k' [v' [H' S']]].
    exists k', v'. split; [exact H'|]. split; apply S'; assumption.
  Qed.

  Hypothesis leb_trans : forall a b c, leb a b = true -> leb b c = true -> leb a c = true.

  Theorem cognates_refine t1 t2 wl o1 o2 : leb t1 t2 = true -> NoDup (map rid wl) ->
    LC t1 wl = Some o1 -> LC t2 wl = Some o2 ->
    forall r1 r2 a1 a2 b1 b2, In r1 wl -> In r2 wl ->
      In (rid r1, a1) o1 -> In (rid r2, a2) o1 -> In (rid r1, b1) o2 -> In (rid r2, b2) o2 ->
      a1 = a2 -> b1 = b2.
  Proof.
    intros L ND E1 E2 r1 r2 a1 a2 b1 b2 Hr1 Hr2 A1 A2 B1 B2 EA.
    destruct (Nat.eq_dec (rconcept r1) (rconcept r2)) as [EC|NC].
    2:{ exfalso. apply (ids_concept_disjoint t1 wl o1 ND E1 r1 r2 a1 a2 Hr1 Hr2 NC A1 A2 EA). }
    set (c := rconcept r1) in *.
    assert (Hc : In c (concepts wl)) by (apply concepts_in; eauto).
    assert (I1 : In (rid r1) (indices wl c)) by (apply indices_in; eauto).
    assert (I2 : In (rid r2) (indices wl c)) by (apply indices_in; exists r2; auto).
    destruct (In_nth _ _ 0 I1) as [i [Hi Ei]]. destruct (In_nth _ _ 0 I2) as [j [Hj Ej]].
    rewrite <- Ei in A1, B1. rewrite <- Ej in A2, B2.
    apply (ids_are_flat_partition t2 wl o2 ND E2 c i j b1 b2 Hc Hi Hj B1 B2).
    apply (refines_together (concept_flat t1 (indices wl c))).
    - apply flat_refines; [exact leb_trans|exact L].
    - apply (ids_are_flat_partition t1 wl o1 ND E1 c i j a1 a2 Hc Hi Hj A1 A2). exact EA.
  Qed.
End Theorems.
