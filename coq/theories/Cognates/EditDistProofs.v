(* The matrix fill of _malign.edit_dist computes the Levenshtein distance: the
   least cost of an edit script (EditDist.edits), a specification that does not
   mention the matrix. *)
From Coq Require Import List Arith Bool Lia.
From LV Require Import Cognates.EditDist.
Import ListNotations.

Lemma last_nth_len : forall (l : list nat) n d, length l = S n -> last l d = nth n l 0.
Proof.
  induction l as [|z l IH]; intros n d HL; [cbn in HL; lia|].
  destruct l as [|z' l].
  - cbn in HL. assert (n = 0) by lia. subst. reflexivity.
  - destruct n as [|n]; [cbn in HL; lia|].
    change (last (z :: z' :: l) d) with (last (z' :: l) d). cbn [nth]. apply IH. cbn [length] in *. lia.
Qed.

Section EditDistProofs.
  Variable A : Type.
  Variable eqb : A -> A -> bool.

  Notation edits := (edits A eqb).
  Notation is_lev := (is_lev A eqb).
  Notation fill_row := (fill_row A eqb).
  Notation next_row := (next_row A eqb).
  Notation edit_dist := (edit_dist A eqb).

  Definition cost (x y : A) : nat := if eqb x y then 0 else 1.

  Lemma ed_sub' x y a b n : edits a b n -> edits (x :: a) (y :: b) (n + cost x y).
  Proof.
    intros H. pose proof (ed_sub A eqb x y a b n H) as G. unfold cost.
    destruct (eqb x y); [replace (n + 0) with n by lia|replace (n + 1) with (S n) by lia]; exact G.
  Qed.

  (* ---------------------------------------------------------------- *)
  (* scripts can be extended at the end, hence reversed *)

  Lemma edits_snoc_del x a b n : edits a b n -> edits (a ++ [x]) b (S n).
  Proof.
    induction 1 as [|x0 a b n H IH|y0 a b n H IH|x0 y0 a b n H IH]; cbn [app].
    - apply ed_del, ed_nil.
    - apply ed_del, IH.
    - apply ed_ins, IH.
    - pose proof (ed_sub A eqb x0 y0 _ _ _ IH) as G. destruct (eqb x0 y0); exact G.
  Qed.

  Lemma edits_snoc_ins y a b n : edits a b n -> edits a (b ++ [y]) (S n).
  Proof.
    induction 1 as [|x0 a b n H IH|y0 a b n H IH|x0 y0 a b n H IH]; cbn [app].
    - apply ed_ins, ed_nil.
    - apply ed_del, IH.
    - apply ed_ins, IH.
    - pose proof (ed_sub A eqb x0 y0 _ _ _ IH) as G. destruct (eqb x0 y0); exact G.
  Qed.

  Lemma edits_snoc_sub x y a b n : edits a b n -> edits (a ++ [x]) (b ++ [y]) (n + cost x y).
  Proof.
    induction 1 as [|x0 a b n H IH|y0 a b n H IH|x0 y0 a b n H IH]; cbn [app].
    - apply (ed_sub' x y [] [] 0), ed_nil.
    - apply (ed_del A eqb x0 _ _ _ IH).
    - apply (ed_ins A eqb y0 _ _ _ IH).
    - pose proof (ed_sub A eqb x0 y0 _ _ _ IH) as G.
      destruct (eqb x0 y0); [exact G|]. replace (S n + cost x y) with (S (n + cost x y)) by lia. exact G.
  Qed.

  Lemma edits_rev a b n : edits a b n -> edits (rev a) (rev b) n.
  Proof.
    induction 1 as [|x0 a b n H IH|y0 a b n H IH|x0 y0 a b n H IH]; cbn [rev].
    - apply ed_nil.
    - apply edits_snoc_del, IH.
    - apply edits_snoc_ins, IH.
    - pose proof (edits_snoc_sub x0 y0 _ _ _ IH) as G. unfold cost in G.
      destruct (eqb x0 y0); [replace (n + 0) with n in G by lia|replace (n + 1) with (S n) in G by lia]; exact G.
  Qed.

  Lemma is_lev_rev a b d : is_lev (rev a) (rev b) d -> is_lev a b d.
  Proof.
    intros [E M]. split.
    - apply edits_rev in E. rewrite !rev_involutive in E. exact E.
    - intros n H. apply M, edits_rev, H.
  Qed.

  (* ---------------------------------------------------------------- *)
  (* the three boundary / interior facts *)

  Lemma edits_nil_l b n : edits [] b n -> n = length b.
  Proof.
    revert n; induction b as [|y b IH]; intros n H; inversion H; subst; cbn [length]; auto.
  Qed.

  Lemma edits_nil_r a n : edits a [] n -> n = length a.
  Proof.
    revert n; induction a as [|x a IH]; intros n H; inversion H; subst; cbn [length]; auto.
  Qed.

  Lemma is_lev_nil_l b : is_lev [] b (length b).
  Proof.
    split.
    - induction b as [|y b IH]; [apply ed_nil|]. cbn [length]. apply ed_ins, IH.
    - intros n H. apply edits_nil_l in H. lia.
  Qed.

  Lemma is_lev_nil_r a : is_lev a [] (length a).
  Proof.
    split.
    - induction a as [|x a IH]; [apply ed_nil|]. cbn [length]. apply ed_del, IH.
    - intros n H. apply edits_nil_r in H. lia.
  Qed.

  Lemma cell_val same diag up left :
    cell same diag up left = Nat.min (S up) (Nat.min ((if same then 0 else 1) + diag) (S left)).
  Proof.
    unfold cell. destruct same; cbn [Nat.add];
    repeat match goal with
    | |- context [?a <? ?b] => destruct (Nat.ltb_spec a b)
    | |- context [?a <=? ?b] => destruct (Nat.leb_spec a b)
    end; cbn [andb]; lia.
  Qed.

  Lemma is_lev_cons x y u v dg up lf :
    is_lev u v dg -> is_lev (x :: u) v up -> is_lev u (y :: v) lf ->
    is_lev (x :: u) (y :: v) (cell (eqb x y) dg up lf).
  Proof.
    intros [Ed Md] [Eu Mu] [El Ml]. rewrite cell_val. split.
    - pose proof (ed_ins A eqb y _ _ _ Eu) as G1.
      pose proof (ed_del A eqb x _ _ _ El) as G3.
      pose proof (ed_sub A eqb x y _ _ _ Ed) as G2.
      destruct (eqb x y); cbn [Nat.add].
      + destruct (Nat.min_spec (S up) (Nat.min dg (S lf))) as [[_ ->]|[_ ->]]; [exact G1|].
        destruct (Nat.min_spec dg (S lf)) as [[_ ->]|[_ ->]]; assumption.
      + destruct (Nat.min_spec (S up) (Nat.min (S dg) (S lf))) as [[_ ->]|[_ ->]]; [exact G1|].
        destruct (Nat.min_spec (S dg) (S lf)) as [[_ ->]|[_ ->]]; assumption.
    - intros n H. inversion H as [|x0 a0 b0 n0 H0|y0 a0 b0 n0 H0|x0 y0 a0 b0 n0 H0]; subst.
      + apply Ml in H0. lia.
      + apply Mu in H0. lia.
      + apply Md in H0. destruct (eqb x y); lia.
  Qed.

  (* ---------------------------------------------------------------- *)
  (* one matrix line.  The proof runs on reversed prefixes, so that extending a
     prefix is a cons. *)

  Lemma fill_row_spec b v : forall a pre diag ups left,
    length ups = length a ->
    is_lev (rev pre) v diag ->
    is_lev (rev pre) (b :: v) left ->
    (forall k, k < length a -> is_lev (rev (pre ++ firstn (S k) a)) v (nth k ups 0)) ->
    length (fill_row b a diag ups left) = length a /\
    forall k, k < length a ->
      is_lev (rev (pre ++ firstn (S k) a)) (b :: v) (nth k (fill_row b a diag ups left) 0).
  Proof.
    induction a as [|x a IH]; intros pre diag ups left HL Hd Hl Hu.
    - split; [reflexivity|]. cbn [length]. intros k Hk. lia.
    - destruct ups as [|up ups]; [cbn in HL; lia|]. cbn [length] in HL.
      cbn [EditDist.fill_row].
      assert (Hup : is_lev (x :: rev pre) v up).
      { specialize (Hu 0). cbn [length firstn nth] in Hu. rewrite rev_app_distr in Hu. cbn [rev app] in Hu.
        apply Hu. lia. }
      assert (Hv : is_lev (x :: rev pre) (b :: v) (cell (eqb x b) diag up left)).
      { apply is_lev_cons; assumption. }
      destruct (IH (pre ++ [x]) up ups (cell (eqb x b) diag up left)) as [L1 L2].
      + lia.
      + rewrite rev_app_distr. exact Hup.
      + rewrite rev_app_distr. exact Hv.
      + intros k Hk. specialize (Hu (S k)). cbn [length nth] in Hu.
        rewrite <- app_assoc. cbn [app]. change (x :: firstn (S k) a) with (firstn (S (S k)) (x :: a)).
        apply Hu. lia.
      + split; [cbn [length]; lia|]. intros k Hk. destruct k as [|k].
        * cbn [nth firstn]. rewrite rev_app_distr. exact Hv.
        * cbn [nth]. specialize (L2 k). rewrite <- app_assoc in L2. cbn [app] in L2.
          change (x :: firstn (S k) a) with (firstn (S (S k)) (x :: a)) in L2. apply L2.
          cbn [length] in Hk. lia.
  Qed.

  (* a line of the matrix is correct for the prefix p of seqB *)
  Definition row_ok (a p : list A) (r : mrow) : Prop :=
    fst r = length p /\ length (snd r) = length a /\
    forall k, k < length a -> is_lev (rev (firstn (S k) a)) (rev p) (nth k (snd r) 0).

  Lemma row0_ok a : row_ok a [] (row0 A a).
  Proof.
    unfold row_ok, row0. cbn [fst snd rev length]. split; [reflexivity|]. split; [apply seq_length|].
    intros k Hk. rewrite seq_nth by exact Hk.
    pose proof (is_lev_nil_r (rev (firstn (S k) a))) as G. rewrite rev_length, firstn_length_le in G by lia.
    exact G.
  Qed.

  Lemma next_row_ok a p r b : row_ok a p r -> row_ok a (p ++ [b]) (next_row a r b).
  Proof.
    intros [H1 [H2 H3]]. unfold row_ok, EditDist.next_row. cbn [fst snd].
    rewrite app_length, rev_app_distr. cbn [length rev app].
    destruct (fill_row_spec b (rev p) a [] (fst r) (snd r) (S (fst r))) as [L1 L2].
    - exact H2.
    - cbn [rev]. rewrite H1. pose proof (is_lev_nil_l (rev p)) as G. rewrite rev_length in G. exact G.
    - cbn [rev]. rewrite H1. pose proof (is_lev_nil_l (b :: rev p)) as G. cbn [length] in G.
      rewrite rev_length in G. exact G.
    - intros k Hk. cbn [app]. apply H3. exact Hk.
    - split; [lia|]. split; [exact L1|]. intros k Hk. apply (L2 k Hk).
  Qed.

  Lemma fold_rows_ok a : forall b p r, row_ok a p r -> row_ok a (p ++ b) (fold_left (next_row a) b r).
  Proof.
    induction b as [|y b IH]; intros p r H; cbn [fold_left].
    - rewrite app_nil_r. exact H.
    - replace (p ++ y :: b) with ((p ++ [y]) ++ b) by (rewrite <- app_assoc; reflexivity).
      apply IH, next_row_ok, H.
  Qed.

  (* the number returned by the matrix fill is the Levenshtein distance *)
  Theorem edit_dist_is_lev a b : is_lev a b (edit_dist a b).
  Proof.
    unfold EditDist.edit_dist.
    pose proof (fold_rows_ok a b [] (row0 A a) (row0_ok a)) as [H1 [H2 H3]]. cbn [app] in *.
    set (r := fold_left (next_row a) b (row0 A a)) in *.
    apply is_lev_rev. destruct a as [|x a].
    - destruct (snd r) as [|z tl]; [|cbn in H2; lia]. cbn [last rev]. rewrite H1.
      pose proof (is_lev_nil_l (rev b)) as G. rewrite rev_length in G. exact G.
    - assert (E : last (snd r) (fst r) = nth (length a) (snd r) 0).
      { apply last_nth_len. cbn [length] in H2. exact H2. }
      rewrite E. specialize (H3 (length a)). cbn [length] in H3.
      rewrite firstn_all2 in H3 by (cbn [length]; lia). apply H3. lia.
  Qed.

  (* consequences used by the callers *)
  Corollary edit_dist_unique a b d : is_lev a b d -> d = edit_dist a b.
  Proof.
    intros [E M]. destruct (edit_dist_is_lev a b) as [E' M']. apply M in E'. apply M' in E. lia.
  Qed.

  Lemma edits_le_max a : forall b, exists n, edits a b n /\ n <= Nat.max (length a) (length b).
  Proof.
    induction a as [|x a IH]; intros b.
    - exists (length b). split; [apply is_lev_nil_l|cbn; lia].
    - destruct b as [|y b].
      + exists (length (x :: a)). split; [apply is_lev_nil_r|lia].
      + destruct (IH b) as [n [E L]]. pose proof (ed_sub A eqb x y _ _ _ E) as G.
        destruct (eqb x y); [exists n|exists (S n)]; (split; [exact G|cbn [length]; lia]).
  Qed.

  Lemma edit_dist_le_max a b : edit_dist a b <= Nat.max (length a) (length b).
  Proof.
    destruct (edits_le_max a b) as [n [E L]]. destruct (edit_dist_is_lev a b) as [_ M]. apply M in E. lia.
  Qed.
End EditDistProofs.
