(* C06 - Cognate detection is per-concept clustering of pairwise word distances.
   Property theorems only; each is closed by [exact] and followed by Print
   Assumptions.  Model: Cognates/LexCluster.v (generic in the carrier of
   distances, the linkage and the word-distance function), executable instance
   Cognates/LexClusterExec.v (exact rationals; turchin / normalised edit
   distance / replayed oracle), Cognates/EditDist.v, Cognates/Turchin.v. *)
From Coq Require Import QArith List Bool Arith Relations.
From LV Require Import Cluster.Flat Cluster.FlatProofs Cluster.FlatLinkage Cluster.FlatQ
  Cognates.EditDist Cognates.EditDistProofs Cognates.Turchin
  Cognates.LexCluster Cognates.LexIndexProofs Cognates.LexMatrixProofs Cognates.LexClusterProofs
  Cognates.LexTheorems Cognates.LexConsequences Cognates.LexClusterExec Cognates.LexClusterQ
  Cognates.LexCheckers Cognates.LexDeepen Cluster.FlatTextbook Cluster.FlatUnique Cognates.LexUnique
  Cognates.LexUniqueExample.
Import ListNotations.
Local Open Scope nat_scope.

(* Guard of all theorems: the row keys of the wordlist are distinct (they are
   dictionary keys).  [lex_cluster ... = Some out] says that the run raised no
   error; C06_ids_total shows that this is always the case. *)

(* Clause 1: every word is assigned exactly one cognate-set identifier: the id
   column exists, has exactly one entry per row (in data order), and every
   identifier is positive.  Any carrier, linkage, distance function, threshold. *)
Theorem C06_ids_total :
  forall (V : Type) (leb : V -> V -> bool) (link : list V -> V) (zero err : V)
         (dist : nat -> nat -> option V) (thr : V) (wl : list row),
    NoDup (map rid wl) ->
    exists out, lex_cluster V leb link zero err dist thr wl = Some out /\
      map fst out = map rid wl /\ forall x c, In (x, c) out -> 0 < c.
Proof. exact ids_total. Qed.
Print Assumptions C06_ids_total.

(* Clause 2: words of different concepts are never put into one set. *)
Theorem C06_ids_concept_disjoint :
  forall (V : Type) (leb : V -> V -> bool) (link : list V -> V) (zero err : V)
         (dist : nat -> nat -> option V) (thr : V) (wl : list row) (out : list (nat * nat)),
    NoDup (map rid wl) -> lex_cluster V leb link zero err dist thr wl = Some out ->
    forall r1 r2 c1 c2, In r1 wl -> In r2 wl -> rconcept r1 <> rconcept r2 ->
      In (rid r1, c1) out -> In (rid r2, c2) out -> c1 <> c2.
Proof. exact ids_concept_disjoint. Qed.
Print Assumptions C06_ids_concept_disjoint.

(* Clause 3: within a concept the identifiers induce precisely the partition
   obtained by threshold clustering (Cluster/Flat.v, property C05) of the
   concept's matrix: the words at positions i and j of the concept's index list
   share an identifier iff i and j lie in the same cluster. *)
Theorem C06_ids_are_flat_partition :
  forall (V : Type) (leb : V -> V -> bool) (link : list V -> V) (zero err : V)
         (dist : nat -> nat -> option V) (thr : V) (wl : list row) (out : list (nat * nat)),
    NoDup (map rid wl) -> lex_cluster V leb link zero err dist thr wl = Some out ->
    forall c i j ci cj, In c (concepts wl) ->
      i < length (indices wl c) -> j < length (indices wl c) ->
      In (nth i (indices wl c) 0, ci) out -> In (nth j (indices wl c) 0, cj) out ->
      (ci = cj <->
       together (flat leb link (dmv V zero (squareform V zero (condensed V err dist (indices wl c))))
                      (length (indices wl c)) thr) i j).
Proof. exact ids_are_flat_partition. Qed.
Print Assumptions C06_ids_are_flat_partition.

(* ... where that matrix is the pairwise distance matrix of the concept's words:
   entry (i, j), i < j, is the distance of word i to word j, mirrored below the
   diagonal, 0.0 on it (the vector over combinations2 is laid out as squareform
   expects) ... *)
Theorem C06_concept_matrix :
  forall (V : Type) (zero err : V) (dist : nat -> nat -> option V) (idx : list nat) (i j : nat),
    i < length idx -> j < length idx ->
    dmv V zero (squareform V zero (condensed V err dist idx)) i j =
      if i <? j then D V err dist (nth i idx 0) (nth j idx 0)
      else if j <? i then D V err dist (nth j idx 0) (nth i idx 0)
      else zero.
Proof. exact concept_matrix_entry. Qed.
Print Assumptions C06_concept_matrix.

(* ... and the index list of a concept holds exactly the keys of the rows of
   that concept, each once (synonyms, missing cells, any key order). *)
Theorem C06_indices :
  forall (wl : list row) (c : nat), NoDup (map rid wl) ->
    NoDup (indices wl c) /\
    forall x, In x (indices wl c) <-> exists r, In r wl /\ rid r = x /\ rconcept r = c.
Proof. exact (fun wl c ND => conj (indices_nodup wl c ND) (indices_in wl c)). Qed.
Print Assumptions C06_indices.

(* Consequence 1 (Turchin): for 0 <= t < 1 and each of the three linkages two
   words share an identifier iff they have the same concept and the same first
   two consonant classes. *)
Theorem C06_turchin_classes :
  forall (meth : method) (vowels : list nat) (h : nat) (w : words) (thr : Q) (wl : list row) (out : list (nat * nat)),
    (0 <= thr)%Q -> (thr < 1)%Q -> NoDup (map rid wl) ->
    lexq meth thr (DTurchin vowels h w) wl = Some out ->
    forall r1 r2 c1 c2, In r1 wl -> In r2 wl -> In (rid r1, c1) out -> In (rid r2, c2) out ->
      (c1 = c2 <-> rconcept r1 = rconcept r2 /\
                   turchin_key vowels h (word_of w (rid r1)) = turchin_key vowels h (word_of w (rid r2))).
Proof. exact turchin_classes. Qed.
Print Assumptions C06_turchin_classes.

(* The matrix fill of _malign.edit_dist returns the Levenshtein distance: the
   least cost of an edit script - a specification independent of the matrix. *)
Theorem C06_edit_dist_is_levenshtein :
  forall (A : Type) (eqb : A -> A -> bool) (a b : list A),
    edits A eqb a b (edit_dist A eqb a b) /\ forall n, edits A eqb a b n -> edit_dist A eqb a b <= n.
Proof. exact edit_dist_is_lev. Qed.
Print Assumptions C06_edit_dist_is_levenshtein.

(* Consequence 2 (normalised edit distance, single linkage): two words share an
   identifier iff they have the same concept and are connected in the graph
   joining words of that concept whose Levenshtein distance (least edit-script
   cost) divided by the length of the longer word is <= threshold. *)
Theorem C06_editdist_single_components :
  forall (w : words) (thr : Q) (wl : list row) (out : list (nat * nat)),
    NoDup (map rid wl) -> lexq Single thr (DEdit w) wl = Some out ->
    forall r1 r2 c1 c2, In r1 wl -> In r2 wl -> In (rid r1, c1) out -> In (rid r2, c2) out ->
      (c1 = c2 <-> rconcept r1 = rconcept r2 /\
                   clos_refl_sym_trans nat (lev_near w thr (indices wl (rconcept r1))) (rid r1) (rid r2)).
Proof. exact editdist_single_components. Qed.
Print Assumptions C06_editdist_single_components.

(* The same for any distance function and any carrier with a min-like linkage. *)
Theorem C06_single_linkage_components :
  forall (V : Type) (leb : V -> V -> bool) (link : list V -> V) (zero err : V)
         (dist : nat -> nat -> option V) (thr : V),
    (forall a b, leb a b = true \/ leb b a = true) ->
    (forall a b c, leb a b = true -> leb b c = true -> leb a c = true) ->
    (forall l t, l <> [] -> (leb (link l) t = true <-> exists s, In s l /\ leb s t = true)) ->
    forall wl out, NoDup (map rid wl) -> lex_cluster V leb link zero err dist thr wl = Some out ->
    forall r1 r2 c1 c2, In r1 wl -> In r2 wl -> In (rid r1, c1) out -> In (rid r2, c2) out ->
      (c1 = c2 <-> rconcept r1 = rconcept r2 /\
                   linked V leb err dist thr (indices wl (rconcept r1)) (rid r1) (rid r2)).
Proof. exact single_linkage_components. Qed.
Print Assumptions C06_single_linkage_components.

(* The checkers run on the implementation's id column decide the clauses. *)
Theorem C06_checkers :
  forall wl out,
    (totalb wl out = true <-> map fst out = map rid wl /\ forall p, In p out -> 0 < snd p) /\
    (concept_disjointb wl out = true <->
       forall r1 r2, In r1 wl -> In r2 wl -> rconcept r1 <> rconcept r2 -> cog out (rid r1) <> cog out (rid r2)).
Proof. exact (fun wl out => conj (totalb_spec wl out) (concept_disjointb_spec wl out)). Qed.
Print Assumptions C06_checkers.


(* ------------------------------------------------------------------ *)
(* Deepening: the remaining C05 clauses, stated for the identifiers. *)

(* Consequence 3 (complete linkage, any distance function / carrier with a
   max-like linkage): any two words of one cognate set are within the threshold
   of each other. *)
Theorem C06_complete_linkage_diameter :
  forall (V : Type) (leb : V -> V -> bool) (link : list V -> V) (zero err : V)
         (dist : nat -> nat -> option V) (thr : V),
    (forall l t, leb (link l) t = true -> forall s, In s l -> leb s t = true) ->
    forall wl out, NoDup (map rid wl) -> lex_cluster V leb link zero err dist thr wl = Some out ->
    forall c i j ci, In c (concepts wl) -> i < j -> j < length (indices wl c) ->
      In (nth i (indices wl c) 0, ci) out -> In (nth j (indices wl c) 0, ci) out ->
      leb (D V err dist (nth i (indices wl c) 0) (nth j (indices wl c) 0)) thr = true.
Proof. exact complete_linkage_diameter. Qed.
Print Assumptions C06_complete_linkage_diameter.

(* ... for the normalised edit distance: Levenshtein distance (least edit-script
   cost) / length of the longer word <= threshold for every pair of a set. *)
Theorem C06_editdist_complete_diameter :
  forall (w : words) (thr : Q) (wl : list row) (out : list (nat * nat)),
    NoDup (map rid wl) -> lexq Complete thr (DEdit w) wl = Some out ->
    forall c i j ci, In c (concepts wl) -> i < j -> j < length (indices wl c) ->
      In (nth i (indices wl c) 0, ci) out -> In (nth j (indices wl c) 0, ci) out ->
      exists d, is_lev nat Nat.eqb (word_of w (nth i (indices wl c) 0)) (word_of w (nth j (indices wl c) 0)) d /\
                lev_within d (word_of w (nth i (indices wl c) 0)) (word_of w (nth j (indices wl c) 0)) thr.
Proof. exact editdist_complete_diameter. Qed.
Print Assumptions C06_editdist_complete_diameter.

(* Consequence 4 (every linkage on a total preorder, so average linkage too):
   nothing the chosen linkage would still merge is left apart - the words of a
   concept carrying two different identifiers form two blocks (va = exactly the
   positions with the first identifier, vb = exactly those with the second)
   whose linkage exceeds the threshold. *)
Theorem C06_sets_are_separated :
  forall (V : Type) (leb : V -> V -> bool) (link : list V -> V) (zero err : V)
         (dist : nat -> nat -> option V) (thr : V),
    (forall a b, leb a b = true \/ leb b a = true) ->
    (forall a b c, leb a b = true -> leb b c = true -> leb a c = true) ->
    forall wl out, NoDup (map rid wl) -> lex_cluster V leb link zero err dist thr wl = Some out ->
    forall c ci cj i j, In c (concepts wl) -> ci <> cj ->
      carries out (indices wl c) ci i -> carries out (indices wl c) cj j ->
      exists va vb,
        (forall p, In p va <-> carries out (indices wl c) ci p) /\
        (forall p, In p vb <-> carries out (indices wl c) cj p) /\
        leb (link (cross (cmat V zero err dist (indices wl c)) va vb)) thr = false.
Proof. exact sets_are_separated. Qed.
Print Assumptions C06_sets_are_separated.

(* What acceptance by the per-concept checker (bit 3 of the case code, run on the
   implementation's id column) means: complete linkage - words sharing an
   identifier are within the threshold in the model's matrix of the concept;
   every linkage - the blocks of two different identifiers have linkage above
   the threshold. *)
Theorem C06_checker_per_concept :
  forall thr s wl out,
    (forall avg_ok, flat_validb avg_ok Complete thr s wl out = true ->
       forall c i j, In c (concepts wl) -> i < length (indices wl c) -> j < length (indices wl c) -> i <> j ->
         cog out (nth i (indices wl c) 0) = cog out (nth j (indices wl c) 0) ->
         (dm (concept_matrix s (indices wl c)) i j <= thr)%Q) /\
    (forall meth, flat_validb true meth thr s wl out = true ->
       forall c i j, In c (concepts wl) -> i < length (indices wl c) -> j < length (indices wl c) ->
         cog out (nth i (indices wl c) 0) <> cog out (nth j (indices wl c) 0) ->
         exists va vb,
           (forall q, In q va <-> q < length (indices wl c) /\
                      cog out (nth q (indices wl c) 0) = cog out (nth i (indices wl c) 0)) /\
           (forall q, In q vb <-> q < length (indices wl c) /\
                      cog out (nth q (indices wl c) 0) = cog out (nth j (indices wl c) 0)) /\
           ~ (linkf meth (cross (dm (concept_matrix s (indices wl c))) va vb) <= thr)%Q).
Proof.
  exact (fun thr s wl out => conj (fun a => flat_validb_complete_sound a thr s wl out)
                                  (fun m => flat_validb_terminal_sound thr m s wl out)).
Qed.
Print Assumptions C06_checker_per_concept.


(* Clause 3 at full strength for tie-free concepts: "PRECISELY the partition obtained
   by threshold clustering".  [tb_run] (Cluster/FlatTextbook.v) is the relational
   specification of threshold-bounded agglomerative clustering: merge SOME pair of
   clusters of minimal linkage while that minimum is <= threshold.  If the matrix
   of the concept has no ties among its own items ([no_ties_below]: in every
   partition state over the positions 0..n-1 two different unordered pairs of
   blocks never have equal linkage), every such run from the singletons - whatever
   textbook implementation produced it - ends in the partition the identifiers
   describe.  Hypothesis on the linkage: it does not depend on the order of the
   cross distances (min, max, sum/len on carriers where equal values are
   identical, e.g. floats or integers).  (With ties the outcome of the
   specification is not unique; C06_ids_are_flat_partition then pins the
   identifiers to the run with lingpy's first-minimum rule.) *)
Theorem C06_ids_are_the_textbook_partition :
  forall (V : Type) (leb : V -> V -> bool) (link : list V -> V) (zero err : V)
         (dist : nat -> nat -> option V) (thr : V),
    (forall a b, leb a b = true \/ leb b a = true) ->
    (forall a b c, leb a b = true -> leb b c = true -> leb a c = true) ->
    (forall l l', Permutation.Permutation l l' -> link l = link l') ->
    forall wl out, NoDup (map rid wl) -> lex_cluster V leb link zero err dist thr wl = Some out ->
    forall c, In c (concepts wl) ->
      no_ties_below V leb link (cmat V zero err dist (indices wl c)) (length (indices wl c)) ->
      forall r, tb_run V leb link (cmat V zero err dist (indices wl c)) thr (init (length (indices wl c))) r ->
      forall i j ci cj, i < length (indices wl c) -> j < length (indices wl c) ->
        In (nth i (indices wl c) 0, ci) out -> In (nth j (indices wl c) 0, cj) out ->
        (ci = cj <-> together r i j).
Proof. exact ids_are_the_textbook_partition. Qed.
Print Assumptions C06_ids_are_the_textbook_partition.

(* ------------------------------------------------------------------ *)
(* Non-vacuity: a wordlist with two concepts, three languages, a synonym, a
   missing cell, a duplicate word and unordered, non-contiguous keys. *)
Definition ex_wl : list row :=
  [mkrow 9 0 0; mkrow 3 0 0; mkrow 5 0 1; mkrow 40 1 2; mkrow 4 0 0; mkrow 2 1 0; mkrow 1 0 1].
Definition ex_words : words :=
  [(9, [1; 2]); (3, [3; 2]); (5, [1; 2]); (40, [4]); (4, [1; 2; 5]); (2, [4; 2]); (1, [3])].

Example ex_keys_distinct : NoDup (map rid ex_wl).
Proof. repeat constructor; cbn; intuition discriminate. Qed.

Example ex_indices : indices ex_wl 0 = [9; 5; 3; 1; 4].
Proof. vm_compute. reflexivity. Qed.

(* single linkage on normalised edit distances, threshold 2/5 (the same column
   is returned by LexStat.cluster on this wordlist) *)
Example ex_edit_single :
  lexq Single (2#5) (DEdit ex_words) ex_wl = Some [(9, 1); (3, 3); (5, 1); (40, 6); (4, 1); (2, 5); (1, 4)].
Proof. vm_compute. reflexivity. Qed.

Example ex_edit_complete :
  lexq Complete (1#2) (DEdit ex_words) ex_wl = Some [(9, 1); (3, 3); (5, 1); (40, 4); (4, 1); (2, 4); (1, 3)].
Proof. vm_compute. reflexivity. Qed.

(* Turchin with classes as symbols, 86 = 'V' the vowel class, 72 = 'H' *)
Example ex_turchin :
  lexq Upgma (1#2) (DTurchin [86] 72 [(9, [80; 86]); (3, [86; 80]); (5, [80; 86; 84]); (40, [84]); (4, [80; 86]);
                                     (2, [84; 86]); (1, [72; 80; 86])]) ex_wl
  = Some [(9, 1); (3, 3); (5, 2); (40, 4); (4, 1); (2, 4); (1, 3)].
Proof. vm_compute. reflexivity. Qed.

Example ex_lev : edit_dist nat Nat.eqb [1; 2; 3; 4] [2; 3; 5] = 2.
Proof. vm_compute. reflexivity. Qed.

(* complete linkage at 1/2 (ex_edit_complete): the set {9, 5, 4} = positions 0, 1, 4 of the concept
   has diameter 1/3, and it is separated from the set {3, 1} = positions 2, 3: the largest cross
   distance is 1 > 1/2 *)
Example ex_complete_diameter :
  map (fun p => dm (concept_matrix (DEdit ex_words) (indices ex_wl 0)) (fst p) (snd p)) [(0, 1); (0, 4); (1, 4)]
  = [0 # 2; 1 # 3; 1 # 3]%Q.
Proof. vm_compute. reflexivity. Qed.

Example ex_separated :
  qleb (linkf Complete (cross (dm (concept_matrix (DEdit ex_words) (indices ex_wl 0))) [0; 1; 4] [2; 3])) (1 # 2) = false.
Proof. vm_compute. reflexivity. Qed.

Example ex_checker_accepts :
  flat_validb true Complete (1 # 2) (DEdit ex_words) ex_wl [(9, 1); (3, 3); (5, 1); (40, 4); (4, 1); (2, 4); (1, 3)] = true.
Proof. vm_compute. reflexivity. Qed.

(* all hypotheses of C06_ids_are_the_textbook_partition hold at once: integer
   (unnormalised Levenshtein) distances 1, 3, 2 between three words of one concept,
   single linkage as the minimum of naturals, threshold 1 *)
Example ex_textbook_order : (forall a b, Nat.leb a b = true \/ Nat.leb b a = true) /\
  (forall a b c, Nat.leb a b = true -> Nat.leb b c = true -> Nat.leb a c = true) /\
  (forall l l', Permutation.Permutation l l' -> nmin l = nmin l').
Proof. exact (conj nleb_total (conj nleb_trans nmin_perm)). Qed.

Example ex_textbook_run : lex_cluster nat Nat.leb nmin 0 100 dist3 1 wl3 = Some [(7, 1); (2, 1); (5, 3)].
Proof. exact ex3_run. Qed.

Example ex_textbook_no_ties :
  no_ties_below nat Nat.leb nmin (cmat nat 0 100 dist3 (indices wl3 0)) (length (indices wl3 0)).
Proof. exact ex3_no_ties. Qed.
