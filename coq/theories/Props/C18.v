(* C18 - Reproducible results: same data and random seed give the same output
   regardless of string-hash randomisation; repeating a deterministic analysis
   gives the same result; the language-specific scoring function is symmetric.

   What is proved is the LOGIC of order independence, kernel by kernel: every
   Python [set] whose iteration order can reach a result is a duplicate-free list
   in an ARBITRARY order ([set_enum vals order], universally quantified), random
   draws are an explicit argument, and each theorem says the result is the same
   for any two such orders.  Model: Runtime/Determinism.v; proofs:
   Runtime/SortX.v, Runtime/DeterminismProofs.v.

   FULL STATEMENT (not provable in Coq, kept here for reference):
     for every wordlist W, every random seed r and any two interpreter hash seeds
     h1 h2, the pipeline (LexStat construction, get_scorer, cluster with every
     method, Alignments.align, tree calculation) run under h1 and under h2
     returns identical id columns, scorer matrix, alignment column and Newick
     string.
   The model cannot exhibit CPython's hash-table iteration order nor the random
   module's algorithm, and does not contain the alignment / clustering numerics
   of the pipeline; hence the composite theorem below is named [_partial]: it
   covers every place of the anchored code where a set is iterated, the scorer
   write pattern, and the call-history logic.  The remaining gap is covered by
   the end-to-end comparison across PYTHONHASHSEEDs in harness/props/C18.py. *)
From Coq Require Import List Bool Arith ZArith QArith Permutation Sorted.
From LV Require Import Runtime.SortX Runtime.Determinism Runtime.DeterminismProofs Runtime.DeterminismExec
  Runtime.DeterminismDst Runtime.DeterminismDstProofs.
Import ListNotations.
Local Open Scope nat_scope.

(* ------------------------------------------------------------------ *)
(* the uniqueness lemma: a total order on keys + a key injective on the elements
   => any two permutations of a list sort to the same list *)
Theorem C18_sort_unique :
  forall (A K : Type) (key : A -> K) (leb : K -> K -> bool),
    total_order leb ->
    forall l1 l2 : list A,
      (forall x y, In x l1 -> In y l1 -> key x = key y -> x = y) ->
      Permutation l1 l2 ->
      sort_by key leb l1 = sort_by key leb l2.
Proof. exact sort_unique. Qed.
Print Assumptions C18_sort_unique.

(* the sort is the stable one Python's sorted() is: elements with equivalent keys keep
   their input order (this is why a non-injective key lets the set order through) *)
Theorem C18_sort_stable :
  forall (A K : Type) (key : A -> K) (leb : K -> K -> bool), transitive leb ->
    forall (k : K) (l : list A),
      filter (equiv_key key leb k) (sort_by key leb l) = filter (equiv_key key leb k) l.
Proof. exact sort_by_stable. Qed.
Print Assumptions C18_sort_stable.

(* rows / cols: sorted(set(...), key=(lower(x), x)) does not depend on the set order,
   for ANY lower-casing function *)
Theorem C18_unique_sorted_order_invariant :
  forall (lower : str -> str) (vals o1 o2 : list str),
    set_enum vals o1 -> set_enum vals o2 ->
    unique_sorted lower o1 = unique_sorted lower o2.
Proof. exact unique_sorted_order_invariant. Qed.
Print Assumptions C18_unique_sorted_order_invariant.

Example unique_sorted_instance :
  let vals := [[97; 66]; [65; 98]; [97; 98]; [65; 98]]%Z in            (* aB Ab ab Ab *)
  let o1 := [[97; 66]; [65; 98]; [97; 98]]%Z in
  let o2 := [[97; 98]; [97; 66]; [65; 98]]%Z in
  set_enum vals o1 /\ set_enum vals o2 /\
  unique_sorted ascii_lower o1 = [[65; 98]; [97; 66]; [97; 98]]%Z /\    (* Ab aB ab *)
  unique_sorted ascii_lower o2 = [[65; 98]; [97; 66]; [97; 98]]%Z.
Proof.
  cbv zeta. split; [|split; [|split]].
  - apply set_enumb_spec. vm_compute. reflexivity.
  - apply set_enumb_spec. vm_compute. reflexivity.
  - vm_compute. reflexivity.
  - vm_compute. reflexivity.
Qed.

(* defect F10 (fixed in /repo commit 40bc478): with key = lower alone the result does
   depend on the set order *)
Theorem C18_unique_sorted_lower_refuted :
  exists (lower : str -> str) (vals o1 o2 : list str),
    set_enum vals o1 /\ set_enum vals o2 /\
    unique_sorted_lower lower o1 <> unique_sorted_lower lower o2.
Proof. exact unique_sorted_lower_refuted. Qed.
Print Assumptions C18_unique_sorted_lower_refuted.

(* the wordlist index (rows, cols, _dict, _idx, _array), the per-language views and the
   concept order of the clustering loop *)
Theorem C18_wordlist_index_order_invariant :
  forall lower data ro1 ro2 co1 co2,
    set_enum (row_vals data) ro1 -> set_enum (row_vals data) ro2 ->
    set_enum (col_vals data) co1 -> set_enum (col_vals data) co2 ->
    let w1 := wl_build lower data ro1 co1 in
    let w2 := wl_build lower data ro2 co2 in
    w1 = w2 /\ concept_order w1 = concept_order w2 /\
    forall j, col_ids w1 j = col_ids w2 j /\ get_dict_col data w1 j = get_dict_col data w2 j.
Proof.
  exact (fun lower data ro1 ro2 co1 co2 R1 R2 C1 C2 =>
    conj (wl_build_order_invariant lower data ro1 ro2 co1 co2 R1 R2 C1 C2)
         (wl_views_order_invariant lower data ro1 ro2 co1 co2 R1 R2 C1 C2)).
Qed.
Print Assumptions C18_wordlist_index_order_invariant.

Definition ex_data : list entry :=
  [ {| e_id := 1; e_row := [104; 97]%Z; e_col := [65; 98]%Z |};      (* ha  Ab *)
    {| e_id := 2; e_row := [72; 97]%Z;  e_col := [97; 66]%Z |};      (* Ha  aB *)
    {| e_id := 3; e_row := [104; 97]%Z; e_col := [97; 66]%Z |};      (* ha  aB *)
    {| e_id := 5; e_row := [104; 97]%Z; e_col := [97; 66]%Z |} ].    (* ha  aB (synonym) *)

Example wordlist_index_instance :
  set_enum (row_vals ex_data) [[72; 97]; [104; 97]]%Z /\ set_enum (row_vals ex_data) [[104; 97]; [72; 97]]%Z /\
  set_enum (col_vals ex_data) [[97; 66]; [65; 98]]%Z /\
  w_array (wl_build ascii_lower ex_data [[104; 97]; [72; 97]]%Z [[97; 66]; [65; 98]]%Z) = [[1; 3]; [0; 5]; [0; 2]].
Proof.
  split; [|split; [|split]]; try (apply set_enumb_spec; vm_compute; reflexivity).
  vm_compute. reflexivity.
Qed.

(* LexStat: chars and rchars *)
Theorem C18_lexstat_chars_order_invariant :
  forall width vals o1 o2, set_enum vals o1 -> set_enum vals o2 ->
    lex_chars width o1 = lex_chars width o2.
Proof. exact lex_chars_order_invariant. Qed.
Print Assumptions C18_lexstat_chars_order_invariant.

Theorem C18_lexstat_rchars_order_invariant :
  forall vals o1 o2 r1 r2,
    set_enum vals o1 -> set_enum vals o2 ->
    set_enum (map after_dot o1) r1 -> set_enum (map after_dot o2) r2 ->
    lex_rchars r1 = lex_rchars r2.
Proof. exact lex_rchars_order_invariant. Qed.
Print Assumptions C18_lexstat_rchars_order_invariant.

Example lexstat_chars_instance :
  let vals := [[49; 46; 75; 46; 67]; [50; 46; 75; 46; 67]; [49; 46; 65; 46; 86]]%Z in   (* 1.K.C 2.K.C 1.A.V *)
  let o1 := [[50; 46; 75; 46; 67]; [49; 46; 65; 46; 86]; [49; 46; 75; 46; 67]]%Z in
  set_enum vals o1 /\ set_enum (map after_dot o1) [[75; 46; 67]; [65; 46; 86]]%Z /\
  lex_chars 2 o1 = [[49; 46; 65; 46; 86]; [49; 46; 75; 46; 67]; [50; 46; 75; 46; 67];
                    [49; 46; 88; 46; 45]; [50; 46; 88; 46; 45]]%Z /\             (* ... 1.X.- 2.X.- *)
  lex_rchars [[75; 46; 67]; [65; 46; 86]]%Z = [[65; 46; 86]; [75; 46; 67]]%Z.
Proof.
  cbv zeta. split; [|split; [|split]]; try (apply set_enumb_spec; vm_compute; reflexivity); vm_compute; reflexivity.
Qed.

(* LexStat: the word pairs of every language pair *)
Theorem C18_lexstat_pairs_order_invariant :
  forall inp inter1 inter2, inter_ok inp inter1 -> inter_ok inp inter2 ->
    lex_pairs inp inter1 = lex_pairs inp inter2.
Proof. exact lex_pairs_order_invariant. Qed.
Print Assumptions C18_lexstat_pairs_order_invariant.

Definition ex_pairs_input : pairs_input :=
  {| pi_cols := [[65]; [66]]%Z;
     pi_dicts := [ [([104]%Z, [1]); ([102]%Z, [2; 3])]; [([102]%Z, [4]); ([104]%Z, [5])] ];
     pi_segs := [(1, [112; 97]%Z); (2, [116; 97]%Z); (3, [116; 97]%Z); (4, [116; 111]%Z); (5, [112; 111]%Z)];
     pi_dups := [(1, false); (2, false); (3, true); (4, false); (5, false)] |}.

Example lexstat_pairs_instance :
  inter_ok ex_pairs_input [((0, 1), [[104]; [102]]%Z)] /\
  inter_ok ex_pairs_input [((0, 1), [[102]; [104]]%Z)] /\
  lex_pairs ex_pairs_input [((0, 1), [[104]; [102]]%Z)]
  = [((0, 0), [(2, 2); (1, 1)]); ((0, 1), [(2, 4); (1, 5)]); ((1, 1), [(4, 4); (5, 5)])].
Proof.
  split; [|split].
  - intros i j L B. cbn in B. assert (E : i = 0 /\ j = 1) by (clear -L B; destruct i; destruct j as [|[|j]]; auto with arith; exfalso; inversion B as [|? B1]; try inversion B1 as [|? B2]; try inversion B2; inversion L as [|? L1]; try inversion L1).
    destruct E; subst. apply set_enumb_spec. vm_compute. reflexivity.
  - intros i j L B. cbn in B. assert (E : i = 0 /\ j = 1) by (clear -L B; destruct i; destruct j as [|[|j]]; auto with arith; exfalso; inversion B as [|? B1]; try inversion B1 as [|? B2]; try inversion B2; inversion L as [|? L1]; try inversion L1).
    destruct E; subst. apply set_enumb_spec. vm_compute. reflexivity.
  - vm_compute. reflexivity.
Qed.

(* renumber *)
Theorem C18_renumber_order_invariant :
  forall vals setvals o1 o2, set_enum setvals o1 -> set_enum setvals o2 ->
    renumber_col vals o1 = renumber_col vals o2.
Proof. exact renumber_order_invariant. Qed.
Print Assumptions C18_renumber_order_invariant.

Example renumber_instance :
  renumber_col [[98]; []; [97]; [98]]%Z [[98]; [97]; []]%Z = [3; 0; 2; 3]
  /\ renumber_col [[98]; []; [97]; [98]]%Z [[]; [98]; [97]]%Z = [3; 0; 2; 3].
Proof. split; vm_compute; reflexivity. Qed.

(* the verified checkers run on the implementation's results: an accepted result is the
   order-independent one *)
Theorem C18_canonical_checker_sound :
  forall lower vals res, canon_keyb lower vals res = true ->
    forall order, set_enum vals order -> unique_sorted lower order = res.
Proof. exact canon_keyb_sound. Qed.
Print Assumptions C18_canonical_checker_sound.

Theorem C18_canonical_checker_sound_id :
  forall vals res, canon_idb vals res = true ->
    forall order, set_enum vals order -> sort_by id_str str_leb order = res.
Proof. exact canon_idb_sound. Qed.
Print Assumptions C18_canonical_checker_sound_id.

(* scorer: symmetric start, every write symmetric => symmetric result, for ANY write
   sequence (any values, any order, any indices - out-of-range writes are skipped) *)
Theorem C18_scorer_symmetric :
  forall (V : Type) (d : V) (n : nat) (start : list (list V)) (writes : list (nat * nat * V)),
    square n start -> symmetric d start ->
    symmetric d (assemble n start writes) /\ square n (assemble n start writes).
Proof. exact (@scorer_symmetric). Qed.
Print Assumptions C18_scorer_symmetric.

(* the basic scorer built by get_score_dict is symmetric whatever the sound-class model returns *)
Theorem C18_score_dict_symmetric :
  forall (V : Type) (d : V) (n : nat) (val : nat -> nat -> V),
    symmetric d (assemble n (zeros d n) (with_values val (score_dict_indices n))).
Proof. exact (@score_dict_symmetric). Qed.
Print Assumptions C18_score_dict_symmetric.

(* the symmetry test run on the implementation's cscorer decides symmetry *)
Theorem C18_symmetry_checker_sound :
  forall c : scorer_case, Nat.land (scorer_case_code c) 2 = 0 -> symmetric 0%Z (sc_c c).
Proof. exact scorer_check_sound. Qed.
Print Assumptions C18_symmetry_checker_sound.

Example scorer_instance :
  let start := [[1; 2; 3]; [2; 1; 4]; [3; 4; 1]]%Z in
  square 3 start /\ symmetric 0%Z start /\
  assemble 3 start [(0, 1, 7%Z); (2, 0, 9%Z); (1, 0, 8%Z); (5, 1, 6%Z)] = [[1; 8; 9]; [8; 1; 4]; [9; 4; 1]]%Z.
Proof.
  cbv zeta. split; [|split].
  - apply squareb_spec. vm_compute. reflexivity.
  - apply (symmetricb_sound 0%Z Z.eqb Z.eqb_eq 3); [apply squareb_spec|]; vm_compute; reflexivity.
  - vm_compute. reflexivity.
Qed.

(* the write pattern of the assembly loops of LexStat.get_scorer AND Partial.get_partial_scorer (same
   iteration space): symmetric for every score function, every sound inventory, every alphabet order *)
Theorem C18_cscorer_pattern_symmetric :
  forall (V : Type) (d : V) (chars : list str) (fkeys : list (list str)) (b : list (list V)) (val : nat -> nat -> V),
    square (length chars) b -> symmetric d b ->
    symmetric d (assemble (length chars) b (with_values val (scorer_write_indices chars fkeys))).
Proof. exact (@cscorer_pattern_symmetric). Qed.
Print Assumptions C18_cscorer_pattern_symmetric.

(* within one language the loop writes (a, b) and later (b, a) with possibly different scores: the LAST
   write decides both mirrored cells *)
Theorem C18_scorer_last_write_wins :
  forall (V : Type) (d : V) (n : nat) (start : list (list V)) (ws : list (nat * nat * V)) (i j : nat) (v : V),
    square n start -> (i < n)%nat -> (j < n)%nat ->
    mget d (assemble n start (ws ++ [(i, j, v)])) i j = v /\
    mget d (assemble n start (ws ++ [(i, j, v)])) j i = v.
Proof. exact (@assemble_last_write). Qed.
Print Assumptions C18_scorer_last_write_wins.

Example scorer_pattern_instance :
  let chars := [[49; 46; 65]; [49; 46; 66]; [49; 46; 88; 46; 45]]%Z in          (* 1.A 1.B 1.X.- *)
  scorer_write_indices chars [[[49; 46; 66]; [49; 46; 65]]%Z]
  = [(1, 1); (1, 0); (1, 2); (0, 1); (0, 0); (0, 2); (2, 1); (2, 0); (2, 2)]%nat
  /\ assemble 3 (zeros 0%Z 3) (with_values (fun a b => Z.of_nat (3 * a + b)) (scorer_write_indices chars [[[49; 46; 66]; [49; 46; 65]]%Z]))
     = [[0; 1; 6]; [1; 4; 7]; [6; 7; 8]]%Z.   (* (1,0) wrote 3, the later (0,1) wrote 1: both cells hold 1 *)
Proof. cbv zeta. split; vm_compute; reflexivity. Qed.

(* K9 - tree calculation: the distance matrix (basic/ops.py wl2dst, mode swadesh) handed to UPGMA /
   Neighbor-Joining is the same for ANY two enumerations of the concepts *)
Theorem C18_tree_distances_perm_invariant :
  forall (rows rows' : list str) (dicts : list cogdict),
    Permutation rows rows' -> wl2dst rows dicts = wl2dst rows' dicts.
Proof. exact wl2dst_perm_invariant. Qed.
Print Assumptions C18_tree_distances_perm_invariant.

Theorem C18_tree_distances_order_invariant :
  forall (lower : str -> str) (vals o1 o2 : list str) (dicts : list cogdict),
    set_enum vals o1 -> set_enum vals o2 ->
    wl2dst (unique_sorted lower o1) dicts = wl2dst (unique_sorted lower o2) dicts.
Proof. exact tree_distances_order_invariant. Qed.
Print Assumptions C18_tree_distances_order_invariant.

(* ... symmetric with a zero diagonal, every entry a distance in [0, 1] *)
Theorem C18_tree_distances_symmetric :
  forall (rows : list str) (dicts : list cogdict) (i j : nat),
    (i < length dicts)%nat -> (j < length dicts)%nat ->
    qmget (wl2dst rows dicts) i j = qmget (wl2dst rows dicts) j i /\
    qmget (wl2dst rows dicts) i i = 0%Q.
Proof. exact wl2dst_symmetric. Qed.
Print Assumptions C18_tree_distances_symmetric.

Theorem C18_tree_distance_range :
  forall (rows : list str) (dA dB : cogdict),
    (0 <= swadesh_score rows dA dB)%Q /\ (swadesh_score rows dA dB <= 1)%Q.
Proof. exact swadesh_score_range. Qed.
Print Assumptions C18_tree_distance_range.

Example tree_distances_instance :
  let rows := [[97]; [98]; [99]; [100]]%Z in let rows' := [[100]; [98]; [97]; [99]]%Z in
  let dA : cogdict := [([97]%Z, [1; 2]%Z); ([98]%Z, [3]%Z); ([99]%Z, [5]%Z)] in
  let dB : cogdict := [([98]%Z, [4]%Z); ([97]%Z, [2]%Z); ([99]%Z, [5; 6]%Z)] in
  Permutation rows rows' /\
  wl2dst rows [dA; dB] = [[0; 1 - (2 # 3)]; [1 - (2 # 3); 0]]%Q /\
  wl2dst rows' [dA; dB] = [[0; 1 - (2 # 3)]; [1 - (2 # 3); 0]]%Q.
Proof.
  cbv zeta. split; [|split; vm_compute; reflexivity].
  apply NoDup_Permutation.
  - apply nodupb_spec. vm_compute. reflexivity.
  - apply nodupb_spec. vm_compute. reflexivity.
  - intros x. rewrite <- !memb_spec.
    assert (E : forall y, memb y [[97]; [98]; [99]; [100]]%Z = memb y [[100]; [98]; [97]; [99]]%Z).
    { intros y. unfold memb. cbn [existsb]. destruct (str_eqb y [97%Z]); destruct (str_eqb y [98%Z]);
      destruct (str_eqb y [99%Z]); destruct (str_eqb y [100%Z]); reflexivity. }
    rewrite E. reflexivity.
Qed.

(* repeated analyses on one object *)
Theorem C18_cluster_idempotent :
  forall (B S P Pq R C N : Type) (name_eqb : N -> N -> bool),
    (forall a b, name_eqb a b = true <-> a = b) ->
    forall (ref : P -> N) (cl : B -> option S -> P -> C) (sc : B -> Pq -> R -> S) (o : obj B S C N) (p : P),
      step B S P Pq R C N name_eqb ref cl sc (step B S P Pq R C N name_eqb ref cl sc o (Cluster P Pq R p)) (Cluster P Pq R p)
      = step B S P Pq R C N name_eqb ref cl sc o (Cluster P Pq R p).
Proof. exact cluster_idempotent. Qed.
Print Assumptions C18_cluster_idempotent.

Theorem C18_cluster_history_independent :
  forall (B S P Pq R C N : Type) (name_eqb : N -> N -> bool),
    (forall a b, name_eqb a b = true <-> a = b) ->
    forall (ref : P -> N) (cl : B -> option S -> P -> C) (sc : B -> Pq -> R -> S)
           (o : obj B S C N) (h : list (call P Pq R)) (p : P),
      Forall (is_cluster P Pq R) h ->
      column B S C N name_eqb (run B S P Pq R C N name_eqb ref cl sc o (h ++ [Cluster P Pq R p])) (ref p)
      = Some (cl (o_base B S C N o) (o_scorer B S C N o) p).
Proof. exact cluster_history_independent. Qed.
Print Assumptions C18_cluster_history_independent.

Theorem C18_get_scorer_repeat :
  forall (B S P Pq R C N : Type) (name_eqb : N -> N -> bool)
         (ref : P -> N) (cl : B -> option S -> P -> C) (sc : B -> Pq -> R -> S)
         (o : obj B S C N) (q : Pq) (f : bool) (rnd : R) (q' : Pq) (rnd' : R),
    let o1 := step B S P Pq R C N name_eqb ref cl sc o (GetScorer P Pq R q f rnd) in
    step B S P Pq R C N name_eqb ref cl sc o1 (GetScorer P Pq R q' false rnd') = o1 /\
    (o_scorer B S C N o = None \/ f = true ->
     step B S P Pq R C N name_eqb ref cl sc o1 (GetScorer P Pq R q true rnd) = o1).
Proof. exact get_scorer_repeat. Qed.
Print Assumptions C18_get_scorer_repeat.

Example analysis_instance :
  let st := step nat nat nat nat nat nat nat Nat.eqb (fun p => p) (fun b s p => b + p + match s with Some x => x | None => 0 end)
                 (fun b q r => b * q + r) in
  let o := {| o_base := 10; o_scorer := None; o_columns := [] |} in
  let o1 := fold_left st [GetScorer nat nat nat 2 false 5; Cluster nat nat nat 1; Cluster nat nat nat 2; Cluster nat nat nat 1] o in
  o_columns nat nat nat nat o1 = [(1, 36); (2, 37)] /\ o_scorer nat nat nat nat o1 = Some 25.
Proof. cbv zeta. split; vm_compute; reflexivity. Qed.

(* ------------------------------------------------------------------ *)
(* composite: every kernel of the anchored code that iterates over a set (see the FULL
   STATEMENT at the top for what is missing) *)
Theorem C18_kernels_order_invariant_partial :
  (forall lower data ro1 ro2 co1 co2,
      set_enum (row_vals data) ro1 -> set_enum (row_vals data) ro2 ->
      set_enum (col_vals data) co1 -> set_enum (col_vals data) co2 ->
      wl_build lower data ro1 co1 = wl_build lower data ro2 co2) /\
  (forall width vals o1 o2 r1 r2, set_enum vals o1 -> set_enum vals o2 ->
      set_enum (map after_dot o1) r1 -> set_enum (map after_dot o2) r2 ->
      lex_chars width o1 = lex_chars width o2 /\ lex_rchars r1 = lex_rchars r2) /\
  (forall inp inter1 inter2, inter_ok inp inter1 -> inter_ok inp inter2 ->
      lex_pairs inp inter1 = lex_pairs inp inter2) /\
  (forall vals setvals o1 o2, set_enum setvals o1 -> set_enum setvals o2 ->
      renumber_col vals o1 = renumber_col vals o2) /\
  (forall rows rows' dicts, Permutation rows rows' -> wl2dst rows dicts = wl2dst rows' dicts).
Proof.
  exact (conj wl_build_order_invariant
        (conj (fun width vals o1 o2 r1 r2 H1 H2 R1 R2 =>
                 conj (lex_chars_order_invariant width vals o1 o2 H1 H2)
                      (lex_rchars_order_invariant vals o1 o2 r1 r2 H1 H2 R1 R2))
        (conj lex_pairs_order_invariant (conj renumber_order_invariant wl2dst_perm_invariant)))).
Qed.
Print Assumptions C18_kernels_order_invariant_partial.
