(* C09 - UPGMA and Neighbor-Joining recover the tree behind tree-like distances.
   Property theorems only; each is closed by [exact] and followed by Print
   Assumptions.  Models: Cluster/Upgma.v (_upgma), Cluster/Neighbor.v
   (_neighbor), Cluster/Nwk.v (tree matrix -> Newick nesting); the instance run
   against the implementation is the same code (exact rationals). *)
From Coq Require Import QArith Qabs List Bool Arith Permutation.
From LV Require Import Cluster.Nwk Cluster.NwkProofs Cluster.Upgma Cluster.UpgmaProofs
  Cluster.UpgmaRecover Cluster.UpgmaClades Cluster.UpgmaPaths Cluster.Neighbor Cluster.NeighborProofs Cluster.NeighborRecover
  Cluster.TreeBuildExec Cluster.TreeBuildProofs Cluster.NjTree Cluster.NjCherry Cluster.NjRun Cluster.NjSplits Cluster.NjTopo Cluster.Fmt2.
Import ListNotations.
Local Open Scope nat_scope.

(* ------------------------------------------------------------------ *)
(* Clause 1: structure, for every matrix and every number of taxa.
   valid_rows n rows: n-1 rows; row k joins two distinct nodes that are live
   (a taxon or an earlier node, not used as a child before) into node n+k. *)

Theorem C09_upgma_structure :
  forall (d : nat -> nat -> Q) (n : nat), 1 <= n -> valid_rows n (upgma_rows n d).
Proof. exact upgma_valid_rows. Qed.
Print Assumptions C09_upgma_structure.

Theorem C09_nj_structure :
  forall (m : mat), 1 <= length m -> valid_rows (length m) (nj_rows m).
Proof. exact nj_valid_rows. Qed.
Print Assumptions C09_nj_structure.

(* non-vacuity / sanity: the matrix of lingpy's own docstring and test (test_upgma):
   taxa German, Swedish, Icelandic, English, Dutch = 0..4; the model's tree is the
   documented '((Swedish,Icelandic),(English,(German,Dutch)));' and both tree
   matrices are valid *)
Example C09_structure_docstring_instance :
  let m : mat := [[0; 1#2; 67#100; 4#5; 1#5]; [1#2; 0; 2#5; 7#10; 3#5]; [67#100; 2#5; 0; 4#5; 4#5];
                  [4#5; 7#10; 4#5; 0; 3#10]; [1#5; 3#5; 4#5; 3#10; 0]]%Q in
  let nn a b := NNode [(a, 0%Q); (b, 0%Q)] in
  valid_rowsb 5 (upgma_rows 5 (dm m)) = true /\ valid_rowsb 5 (nj_rows m) = true /\
  match upgma_tree 5 (dm m) with
  | Some t => nt_eqb false 0 (nt_of_tree t) (nn (nn (NLeaf 1) (NLeaf 2)) (nn (NLeaf 3) (nn (NLeaf 0) (NLeaf 4))))
  | None => false
  end = true.
Proof. cbv zeta. repeat split; vm_compute; reflexivity. Qed.

(* any valid tree matrix (the models', the implementation's once the checker
   valid_rowsb accepts it) yields a Newick tree - binary by construction - whose
   leaves are the taxa 0..n-1, each exactly once *)
Theorem C09_newick_leaves :
  forall (n : nat) (rows : list row), 1 <= n -> valid_rows n rows ->
    exists t, nwk n rows = Some t /\ Permutation (leaves t) (seq 0 n).
Proof. exact nwk_valid_rows. Qed.
Print Assumptions C09_newick_leaves.

Theorem C09_nj_newick_leaves :
  forall (m : mat), 1 <= length m ->
    length (nj_rows m) = length m - 1 /\
    exists t, nj_tree m = Some t /\ Permutation (leaves t) (seq 0 (length m)).
Proof. exact nj_tree_leaves. Qed.
Print Assumptions C09_nj_newick_leaves.

(* ------------------------------------------------------------------ *)
(* Clause 2: the UPGMA tree is ultrametric for every matrix (symmetric or not):
   all root-to-leaf sums of branch lengths are equal; and its leaves are the taxa. *)
Theorem C09_upgma_ultrametric :
  forall (d : nat -> nat -> Q) (n : nat), 1 <= n ->
    length (upgma_rows n d) = n - 1 /\
    exists t, upgma_tree n d = Some t /\ Permutation (leaves t) (seq 0 n) /\
              exists h, forall x, In x (depths t) -> (x == h)%Q.
Proof. exact upgma_tree_ultrametric. Qed.
Print Assumptions C09_upgma_ultrametric.

(* ------------------------------------------------------------------ *)
(* Clause 3: on an ultrametric matrix, d(x,y) = height of the lca of x and y in a
   binary tree T whose heights strictly increase towards the root, UPGMA
   returns T itself up to the order of children, every node at half its
   generating height (tmatch); in particular exactly the generating clades.
   (Strict monotonicity along paths is all that is needed: equal heights in
   different subtrees are allowed, so "distinct node heights" is more than
   the theorem asks for.) *)
Theorem C09_upgma_recovers :
  forall (T : utree) (d : nat -> nat -> Q) (n : nat),
    NoDup (uleaves T) -> Permutation (uleaves T) (seq 0 n) -> mono T ->
    (forall x y, In x (uleaves T) -> In y (uleaves T) -> x <> y -> (d x y == lcah T x y)%Q) ->
    exists t, upgma_tree n d = Some t /\ tmatch t T.
Proof. exact upgma_recovers_tree. Qed.
Print Assumptions C09_upgma_recovers.

(* the same in the vocabulary of the checker that runs on the implementation's
   Newick output (bit 3): the clades of the returned tree are exactly those of T *)
Theorem C09_upgma_recovers_clades :
  forall (T : utree) (d : nat -> nat -> Q) (n : nat),
    NoDup (uleaves T) -> Permutation (uleaves T) (seq 0 n) -> mono T ->
    (forall x y, In x (uleaves T) -> In y (uleaves T) -> x <> y -> (d x y == lcah T x y)%Q) ->
    exists t, upgma_tree n d = Some t /\
              clades_eqb (nt_of_tree (tree_of_utree T)) (nt_of_tree t) = true.
Proof. exact upgma_recovers_clades. Qed.
Print Assumptions C09_upgma_recovers_clades.

(* and its path sums reproduce the input distances (checker bit 5 for UPGMA) *)
Theorem C09_upgma_recovers_pathsums :
  forall (T : utree) (d : nat -> nat -> Q) (n : nat),
    NoDup (uleaves T) -> Permutation (uleaves T) (seq 0 n) -> mono T ->
    (forall x y, In x (uleaves T) -> In y (uleaves T) -> x <> y -> (d x y == lcah T x y)%Q) ->
    exists t, upgma_tree n d = Some t /\
      forall e, In e (pairdists t) -> fst (fst e) <> snd (fst e) ->
        (snd e == d (fst (fst e)) (snd (fst e)))%Q.
Proof. exact upgma_recovers_pathsums. Qed.
Print Assumptions C09_upgma_recovers_pathsums.

Example C09_upgma_recovers_nonvacuous :
  let T := UNode 2 (UNode (1#2) (ULeaf 0) (ULeaf 2)) (UNode 1 (ULeaf 3) (UNode (1#2) (ULeaf 1) (ULeaf 4))) in
  NoDup (uleaves T) /\ Permutation (uleaves T) (seq 0 5) /\ mono T /\
  match upgma_tree 5 (lcah T) with      (* equal up to == on the lengths *)
  | Some t => nt_eqb true 0 (nt_of_tree t) (nt_of_tree
      (Node (Node (Leaf 0) (1#4) (Leaf 2) (1#4)) (3#4)
            (Node (Leaf 3) (1#2) (Node (Leaf 1) (1#4) (Leaf 4) (1#4)) (1#4)) (1#2)))
  | None => false
  end = true.
Proof.
  cbv zeta. split; [|split; [|split]].
  - cbn. repeat constructor; cbn; intuition discriminate.
  - cbn. apply (Permutation_trans (l' := [0; 2; 1; 3; 4])); [|apply perm_skip, perm_swap].
    do 2 apply perm_skip. apply (Permutation_trans (l' := [1; 3; 4])); [apply perm_swap|apply Permutation_refl].
  - cbn. repeat split; reflexivity.
  - vm_compute. reflexivity.
Qed.

(* ------------------------------------------------------------------ *)
(* Clause 4: Neighbor-Joining on additive metrics.

   (a) The algebra of one step (Saitou & Nei's branch-length and update formulas)
   on a cherry of the current matrix: if d(a,k) - d(b,k) is the same for every
   third taxon k, then the two branch lengths are the three-point lengths of the
   pendant edges and the reduced matrix row of the new node is the distance
   from the cherry's parent: d(a,k) = sAX + d'(new,k), d(b,k) = sBX + d'(new,k),
   d(a,b) = sAX + sBX. *)
Theorem C09_nj_cherry_exact :
  forall (m : mat) (n a b : nat),
    msquare m n -> msym m n -> mdiag0 m n -> 3 <= n -> a < n -> b < n -> a <> b ->
    metric_cherry m n a b ->
    forall k, k < n -> k <> a -> k <> b ->
      (nj_sax m a b == (dm m a b + dm m a k - dm m b k) / 2)%Q /\
      (nj_sbx m a b == (dm m a b - dm m a k + dm m b k) / 2)%Q /\
      (dm m a k == nj_sax m a b + nj_red m a b k)%Q /\
      (dm m b k == nj_sbx m a b + nj_red m a b k)%Q /\
      (dm m a b == nj_sax m a b + nj_sbx m a b)%Q.
Proof. exact nj_cherry_exact. Qed.
Print Assumptions C09_nj_cherry_exact.

(* (b) For every symmetric matrix with zero diagonal on which every pair selected
   along the run is a cherry of the current matrix, the path sums of the
   returned tree reproduce the input distances, and its leaves are the taxa. *)
Theorem C09_nj_pathsums_of_cherries :
  forall (m : mat), 2 <= length m ->
    msquare m (length m) -> msym m (length m) -> mdiag0 m (length m) ->
    picks_cherries (length m) (nj_init m) ->
    exists t, nj_tree m = Some t /\ Permutation (leaves t) (seq 0 (length m)) /\
      forall e, In e (pairdists t) -> (snd e == dm m (fst (fst e)) (snd (fst e)))%Q.
Proof. exact nj_pathsums. Qed.
Print Assumptions C09_nj_pathsums_of_cherries.

(* (c) FULL STATEMENT of the clause (nj_recovers), NOT proved:
       forall m, tree_metric m ->
         exists t, nj_tree m = Some t /\ Permutation (leaves t) (seq 0 (length m)) /\
           (forall e, In e (pairdists t) -> snd e == dm m (fst (fst e)) (snd (fst e))) /\
           splits_eqb (nt_of_tree t) (nt_of_tree T) = true      (T the generating tree)
   PROVED PART: the statement below, which has the cherry-picking lemma of
   Saitou-Nei / Studier-Keppler (on a tree metric with positive branch lengths
   every pair the Q-criterion selects along the run is a cherry) as an explicit
   premise, and concludes leaves + path sums.  The premise (1) is meanwhile proved
   (C09_nj_cherry_picking below, giving C09_nj_recovers_pathsums without premise),
   and the topology clause is proved as well: the full statement is C09_nj_recovers
   below.  This theorem is kept for the record; nothing is missing any more.  Both clauses are checked on
   the implementation's outputs for generated additive matrices (checker bits 4
   and 5), and the premise is checked by computation on the instance below. *)
Theorem C09_nj_recovers_partial :
  (forall m, tree_metric m -> picks_cherries (length m) (nj_init m)) ->
  forall m, tree_metric m ->
    exists t, nj_tree m = Some t /\ Permutation (leaves t) (seq 0 (length m)) /\
      forall e, In e (pairdists t) -> (snd e == dm m (fst (fst e)) (snd (fst e)))%Q.
Proof. exact nj_recovers_given_cherry_picking. Qed.
Print Assumptions C09_nj_recovers_partial.

(* (d) The cherry-picking lemma of Saitou-Nei / Studier-Keppler, PROVED
   (Cluster/NjTree.v, NjCherry.v, NjRun.v): on the path metric of a binary tree with
   positive branch lengths (tree_metric) a pair minimising the Q-criterion is a cherry
   of the tree.  Proof: (N-2) Q(a,b) = -(2 d(a,b) + sum_k (d(a,k)+d(b,k)-d(a,b)))
   (Q_as_Tsum), so a minimiser of Q maximises Tsum; re-root the tree at a
   (reroot_leaf); if b is not a's neighbour there is a clade hanging off the path
   from a to b holding fewer than half of the other leaves, and a cherry inside it
   (cherry_beats), or the single leaf it consists of (leaf_beats), has a larger
   Tsum.  One step: *)
Theorem C09_nj_min_pair_is_cherry :
  forall (m : mat) (a b : nat) (q : Q), tree_metric m -> 3 <= length m ->
    first_min (nj_scores m (length m)) = Some ((a, b), q) -> metric_cherry m (length m) a b.
Proof. exact nj_min_pair_is_cherry. Qed.
Print Assumptions C09_nj_min_pair_is_cherry.

(* the same for any pair maximising Tsum, on trees: the tree can be re-rooted so
   that a hangs off the root and b is a child of a's neighbour *)
Theorem C09_nj_cherry_lemma_tree :
  forall (T : tree) (d : nat -> nat -> Q) (n a b : nat),
    NoDup (leaves T) -> positive T -> metric_of d T -> Permutation (leaves T) (seq 0 n) ->
    3 <= n -> a < n -> b < n -> a <> b -> tmax d n a b ->
    exists x y eb Z ez,
      teq T (Node (Leaf a) x (Node (Leaf b) eb Z ez) y) /\
      positive (Node (Leaf a) x (Node (Leaf b) eb Z ez) y).
Proof. exact max_pair_is_cherry. Qed.
Print Assumptions C09_nj_cherry_lemma_tree.

(* the run: the reduced matrix is the metric of the tree with the cherry collapsed
   (reduce_tm), so every pair selected along the run is a cherry: the premise of
   C09_nj_recovers_partial holds *)
Theorem C09_nj_cherry_picking :
  forall (m : mat), tree_metric m -> picks_cherries (length m) (nj_init m).
Proof. exact nj_cherry_picking. Qed.
Print Assumptions C09_nj_cherry_picking.

(* hence, unconditionally: on an additive metric with positive branch lengths
   Neighbor-Joining returns a tree over the given taxa whose path sums reproduce
   the input distances.  (The topology clause is C09_nj_recovers below.) *)
Theorem C09_nj_recovers_pathsums :
  forall (m : mat), tree_metric m ->
    exists t, nj_tree m = Some t /\ Permutation (leaves t) (seq 0 (length m)) /\
      forall e, In e (pairdists t) -> (snd e == dm m (fst (fst e)) (snd (fst e)))%Q.
Proof. exact nj_recovers_pathsums. Qed.
Print Assumptions C09_nj_recovers_pathsums.

(* (e) The full clause, PROVED: if m is the leaf-to-leaf path metric of a binary tree T
   with positive branch lengths over the taxa 0..n-1 (tree_metric_of), Neighbor-Joining
   returns a tree over exactly these taxa with the splits (unrooted topology) of T
   and with branch lengths whose path sums reproduce the input distances.
   Topology: the subtrees built so far, grafted onto the leaves of the current
   collapsed tree, always form a tree related to T by root moves and child swaps
   (tiso, NjTopo.tpP_step); tiso preserves the split family (NjSplits.tiso_spl);
   splits_eqb is the verified checker that also runs on the implementation's Newick. *)
Theorem C09_nj_recovers :
  forall (m : mat) (T : tree), tree_metric_of m T ->
    exists t, nj_tree m = Some t /\ Permutation (leaves t) (seq 0 (length m)) /\
      (forall e, In e (pairdists t) -> (snd e == dm m (fst (fst e)) (snd (fst e)))%Q) /\
      splits_eqb (nt_of_tree T) (nt_of_tree t) = true.
Proof. exact nj_recovers. Qed.
Print Assumptions C09_nj_recovers.

Theorem C09_nj_recovers_topology :
  forall (m : mat) (T : tree), tm m T -> 2 <= length m ->
    exists t, nj_tree m = Some t /\ tiso t T.
Proof. exact nj_recovers_topology. Qed.
Print Assumptions C09_nj_recovers_topology.

(* same unrooted topology implies the same splits *)
Theorem C09_tiso_same_splits :
  forall t t', tiso t t' -> NoDup (leaves t) -> spl_eq (leaves t) t t'.
Proof. exact tiso_spl. Qed.
Print Assumptions C09_tiso_same_splits.

Example C09_nj_recovers_nonvacuous :
  let T := Node (Node (Leaf 0) 1 (Leaf 1) 2) 1 (Node (Leaf 2) 1 (Node (Leaf 3) 2 (Leaf 4) 1) 1) 1 in
  let m : mat := [[0;3;4;6;5]; [3;0;5;7;6]; [4;5;0;4;3]; [6;7;4;0;3]; [5;6;3;3;0]]%Q in
  tree_metric_of m T.
Proof. cbv zeta. apply tree_metric_of_b. vm_compute. reflexivity. Qed.

(* a 5-taxon additive metric: the hypotheses of (b) and of tree_metric hold, the run
   picks cherries, and the returned tree has the generating splits and path sums *)
Example C09_nj_nonvacuous :
  let T := Node (Node (Leaf 0) 1 (Leaf 1) 2) 1 (Node (Leaf 2) 1 (Node (Leaf 3) 2 (Leaf 4) 1) 1) 1 in
  let m : mat := [[0;3;4;6;5]; [3;0;5;7;6]; [4;5;0;4;3]; [6;7;4;0;3]; [5;6;3;3;0]]%Q in
  tree_metric m /\ picks_cherries (length m) (nj_init m) /\
  match nj_tree m with
  | Some t => pathsumsb 0 m t && splits_eqb (nt_of_tree T) (nt_of_tree t)
  | None => false
  end = true.
Proof.
  cbv zeta. split; [|split].
  - apply (tree_metricb_spec _ (Node (Node (Leaf 0) 1 (Leaf 1) 2) 1 (Node (Leaf 2) 1 (Node (Leaf 3) 2 (Leaf 4) 1) 1) 1)).
    vm_compute. reflexivity.
  - apply picks_cherriesb_spec. vm_compute. reflexivity.
  - vm_compute. reflexivity.
Qed.

(* ------------------------------------------------------------------ *)
(* the checkers that run on the implementation's outputs *)
Theorem C09_valid_rows_checker :
  forall n rows, valid_rowsb n rows = true <-> valid_rows n rows.
Proof. exact valid_rowsb_spec. Qed.
Print Assumptions C09_valid_rows_checker.

Theorem C09_leaves_checker :
  forall n l, permb n l = true <-> Permutation l (seq 0 n).
Proof. exact permb_spec. Qed.
Print Assumptions C09_leaves_checker.

Theorem C09_binary_checker :
  forall t, nt_binaryb t = true <-> nt_binary t.
Proof. exact nt_binaryb_spec. Qed.
Print Assumptions C09_binary_checker.

Theorem C09_ultrametric_checker :
  forall eps t, ultrab eps t = true <->
    forall x, In x (tl (depths t)) ->
      (hd 0%Q (depths t) - x <= eps)%Q /\ (x - hd 0%Q (depths t) <= eps)%Q.
Proof. exact ultrab_spec. Qed.
Print Assumptions C09_ultrametric_checker.

Theorem C09_ultrametric_checker_exact :
  forall t, ultrab 0 t = true <-> exists h, forall x, In x (depths t) -> (x == h)%Q.
Proof. exact ultrab_zero. Qed.
Print Assumptions C09_ultrametric_checker_exact.

Theorem C09_pathsums_checker :
  forall eps m t, pathsumsb eps m t = true <->
    forall e, In e (pairdists t) ->
      let x := fst (fst e) in let y := snd (fst e) in
      ((snd e - dm m x y <= eps)%Q /\ (dm m x y - snd e <= eps)%Q) /\
      ((snd e - dm m y x <= eps)%Q /\ (dm m y x - snd e <= eps)%Q).
Proof. exact pathsumsb_spec. Qed.
Print Assumptions C09_pathsums_checker.

Theorem C09_clades_checker :
  forall t1 t2, clades_eqb t1 t2 = true <->
    fam_sub same_set (nt_clades t1) (nt_clades t2) /\ fam_sub same_set (nt_clades t2) (nt_clades t1).
Proof. exact clades_eqb_spec. Qed.
Print Assumptions C09_clades_checker.

Theorem C09_splits_checker :
  forall t1 t2, splits_eqb t1 t2 = true <->
    same_set (nt_leaves t1) (nt_leaves t2) /\
    fam_sub (same_split (nt_leaves t1)) (nt_below t1) (nt_below t2) /\
    fam_sub (same_split (nt_leaves t1)) (nt_below t2) (nt_below t1).
Proof. exact splits_eqb_spec. Qed.
Print Assumptions C09_splits_checker.

(* the two metric clauses on the Newick string with printed ('{:.2f}') lengths: a sum over
   k printed lengths is within k/200 of the sum of the values printed *)
Theorem C09_newick_ultrametric_checker :
  forall eps t, nt_ultrab eps t = true <->
    forall e1 e2, In e1 (nt_ldepths t) -> In e2 (nt_ldepths t) ->
      let tol := (eps + inject_Z (Z.of_nat (snd e1 + snd e2)) / 200)%Q in
      (snd (fst e1) - snd (fst e2) <= tol)%Q /\ (snd (fst e2) - snd (fst e1) <= tol)%Q.
Proof. exact nt_ultrab_spec. Qed.
Print Assumptions C09_newick_ultrametric_checker.

Theorem C09_newick_pathsums_checker :
  forall eps m t, nt_pathsumsb eps m t = true <->
    forall e1 e2, In (e1, e2) (nt_pairs t) ->
      let x := fst (fst e1) in let y := fst (fst e2) in
      let v := (snd (fst e1) + snd (fst e2))%Q in
      let tol := (eps + inject_Z (Z.of_nat (snd e1 + snd e2)) / 200)%Q in
      ((v - dm m x y <= tol)%Q /\ (dm m x y - v <= tol)%Q) /\
      ((v - dm m y x <= tol)%Q /\ (dm m y x - v <= tol)%Q).
Proof. exact nt_pathsumsb_spec. Qed.
Print Assumptions C09_newick_pathsums_checker.

(* ------------------------------------------------------------------ *)
(* The '{:.2f}' rendering of branch lengths, inside the model (Cluster/Fmt2.v): Python
   prints the exact value of the double correctly rounded to two decimals, ties to
   even; fmt2 is that decimal.  The correspondence check compares every printed
   length of upgma(), neighbor(), _tree2nwk() and of the tree objects with
   fmt2 (tree-matrix value) EXACTLY (tolerance 0).  fmt2 is within 1/200 of the value
   and no two-decimal number is nearer - the bound the checkers nt_ultrab and
   nt_pathsumsb rely on for sums over k printed lengths. *)
Theorem C09_printed_length_close :
  forall q : Q, (fmt2 q - q <= 1 # 200)%Q /\ (q - fmt2 q <= 1 # 200)%Q.
Proof. exact fmt2_close. Qed.
Print Assumptions C09_printed_length_close.

Theorem C09_printed_length_nearest :
  forall (q : Q) (z : Z), (Qabs (fmt2 q - q) <= Qabs ((z # 100) - q))%Q.
Proof. exact fmt2_nearest. Qed.
Print Assumptions C09_printed_length_nearest.

Theorem C09_printed_length_exact :
  forall z : Z, (fmt2 (z # 100) == z # 100)%Q.
Proof. exact fmt2_exact. Qed.
Print Assumptions C09_printed_length_exact.

(* the printed tree has the leaves of the tree the tree matrix defines *)
Theorem C09_printed_tree_leaves :
  forall (n : nat) (rows : list row), 1 <= n -> valid_rows n rows ->
    exists t, nwk_printed n rows = Some t /\ Permutation (leaves t) (seq 0 n).
Proof.
  exact (fun n rows Hn Hv =>
    match nwk_valid_rows n rows Hn Hv with
    | ex_intro _ t (conj Ht Hp) =>
        ex_intro _ (tree_fmt2 t)
          (conj (nwk_printed_some n rows t Ht)
                (eq_ind_r (fun l => Permutation l (seq 0 n)) Hp (leaves_fmt2 t)))
    end).
Qed.
Print Assumptions C09_printed_tree_leaves.

(* ties go to the even neighbour: 0.125 -> 0.12, 0.375 -> 0.38, -0.125 -> -0.12; and the
   double nearest to 3.0 from above prints as 3.00 *)
Example C09_printed_length_instances :
  fmt2 (1 # 8) = 12 # 100 /\ fmt2 (3 # 8) = 38 # 100 /\ fmt2 (-(1 # 8)) = -12 # 100 /\
  fmt2 (54043195528445957 # 18014398509481984) = 300 # 100.
Proof. repeat split; vm_compute; reflexivity. Qed.
