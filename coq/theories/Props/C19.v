(* C19 - Analyses do not modify the data the caller passed in.
   Property theorems only; each is closed by [exact] and followed by Print
   Assumptions.  Models: Wordlist/Heap.v (dictionaries and wordlist-family
   objects as header/row locations in a heap; constructors, add_entries,
   __setitem__, the caller's own list operations) and Wordlist/HeapMat.v
   (a distance matrix as row locations; flat_cluster incl. 'ward').
   Cells and column names are immutable values. *)
From Coq Require Import QArith ZArith List Bool Arith.
From LV Require Import Common.Cases Cluster.Flat Cluster.FlatQ
     Wordlist.Heap Wordlist.HeapProofs Wordlist.HeapMat Wordlist.HeapMatProofs
     Wordlist.HeapExec Wordlist.HeapExecProofs.
Import ListNotations.
Local Open Scope nat_scope.

(* ---------------------------------------------------------------- *)
(* 1. wordlist-family objects *)

(* every state reachable by any history (operations that raise included) is
   well-formed: no header object and no row list belongs to two objects, and all
   of them are allocated *)
Theorem C19_reachable_wf : forall ops : list op, wf (run ops empty_state).
Proof. exact reachable_wf. Qed.
Print Assumptions C19_reachable_wf.

(* fresh_disjoint (+ copy): a successful construction from object src appends an
   object that shares no location with any object that existed before.  It reads
   like what the constructor reads from src: header and rows of src, except that a
   row whose id occurs as a numeric-string key in src._meta is read through that
   _meta reference (eff_view_obj) - QLCParser.__init__ keeps the caller's uncopied
   rows there when the dictionary used keys '1', '2', ...; without such references
   the new object reads exactly like src *)
Theorem C19_fresh_disjoint : forall s src req s' osrc,
  wf s -> nth_error (st_objs s) src = Some osrc -> cons_obj s src req = (s', false) ->
  let n := length (st_objs s) in
  length (st_objs s') = S n
  /\ view s' n = Some (eff_view_obj (st_heap s) osrc)
  /\ (o_stale osrc = [] -> view s' n = view s src)
  /\ (exists o, nth_error (st_objs s') n = Some o /\ o_kind o = KWl /\
        forall j oj l, j < n -> nth_error (st_objs s') j = Some oj -> In l (obj_locs oj) -> ~ In l (obj_locs o)).
Proof. exact cons_fresh_copy. Qed.
Print Assumptions C19_fresh_disjoint.

(* ops_frame: any history (add_entries with any user function, source, override
   and confirm answer; assignments; constructions; the caller's list operations;
   raising operations with their partial effects) that never *targets* object k
   leaves what can be read from k - header names and all rows - unchanged *)
Theorem C19_ops_frame : forall ops s k,
  wf s -> k < length (st_objs s) -> Forall (fun o => target o <> Some k) ops ->
  view (run ops s) k = view s k.
Proof. exact run_frame. Qed.
Print Assumptions C19_ops_frame.

(* source_unchanged: after building an object from src, no sequence of column
   additions, assignments, analyses (= such sequences) on the new or on any third
   object, nor further constructions from src, changes header or rows of src *)
Theorem C19_source_unchanged : forall s src req s' ops,
  wf s -> src < length (st_objs s) -> cons_obj s src req = (s', false) ->
  Forall (fun o => target o <> Some src) ops ->
  view (run ops s') src = view s src.
Proof. exact source_unchanged. Qed.
Print Assumptions C19_source_unchanged.

(* new_unaffected_by_source: and no such sequence on the source (or on any other
   object, e.g. the dictionary the _meta references point into) shows in the new
   object: it keeps reading as it did when it was built - like the source at that
   time when the source holds no _meta row references *)
Theorem C19_new_unaffected_by_source : forall s src req s' osrc ops,
  wf s -> nth_error (st_objs s) src = Some osrc -> cons_obj s src req = (s', false) ->
  Forall (fun o => target o <> Some (length (st_objs s))) ops ->
  view (run ops s') (length (st_objs s)) = Some (eff_view_obj (st_heap s) osrc)
  /\ (o_stale osrc = [] -> view (run ops s') (length (st_objs s)) = view s src).
Proof. exact new_unaffected_by_source. Qed.
Print Assumptions C19_new_unaffected_by_source.

(* the unguarded copy statement "a new object reads like its source" is false of the
   faithful model (and of the code): a dictionary with numeric-string row keys, a
   wordlist built from it, an assignment on the wordlist, a wordlist built from the
   wordlist - the last one reads the caller's original row, not the edited one.
   (Outside the two clauses of C19: nothing the caller owns is written to.) *)
Theorem C19_copy_fidelity_refuted :
  exists s src req s',
    wf s /\ cons_obj s src req = (s', false) /\ view s' (length (st_objs s)) <> view s src.
Proof. exact copy_fidelity_refuted. Qed.
Print Assumptions C19_copy_fidelity_refuted.

(* ---------------------------------------------------------------- *)
(* 2. clustering functions and the matrix *)

(* cluster_pure: flat_cluster, every method and 'ward', leaves every existing
   location - so the caller's matrix - as it was *)
Theorem C19_cluster_pure : forall ward meth thr h m,
  wfm h m ->
  mview (snd (flat_cluster_h ward meth thr h m)) m = mview h m
  /\ forall l, l < length h -> qget (snd (flat_cluster_h ward meth thr h m)) l = qget h l.
Proof. exact cluster_pure. Qed.
Print Assumptions C19_cluster_pure.

(* cluster_idempotent: calling it again on the same matrix object gives the same answer *)
Theorem C19_cluster_idempotent : forall ward meth thr h m,
  wfm h m ->
  fst (flat_cluster_h ward meth thr (snd (flat_cluster_h ward meth thr h m)) m)
  = fst (flat_cluster_h ward meth thr h m).
Proof. exact cluster_idempotent. Qed.
Print Assumptions C19_cluster_idempotent.

(* "... unchanged, so calling twice gives the same answer": for ANY function of a
   matrix object that writes to fresh locations only and whose result depends on
   the matrix content only (upgma, neighbor, fuzzy, ... are checked to behave so
   on the implementation) *)
Theorem C19_pure_twice : forall (R : Type) (F : heap_fun R),
  preserves F -> extensional F ->
  forall h m, wfm h m ->
    fst (F (snd (F h m)) m) = fst (F h m) /\ mview (snd (F (snd (F h m)) m)) m = mview h m.
Proof. exact (fun R F Hp He h m Hw => conj (pure_twice R F Hp He h m Hw) (pure_twice_matrix R F Hp h m Hw)). Qed.
Print Assumptions C19_pure_twice.

(* the same for every modelled matrix function: clustering.flat_cluster (all methods,
   'ward'), cython/_cluster.flat_cluster as matrix2groups / Wordlist.calculate call it
   (an unknown method name such as 'ward' included), upgma, neighbor (whose working
   copy receives the scores): the matrix reads the same after the call, the second call
   gives the same result, and the matrix still reads the same *)
Theorem C19_matrix_functions_pure : forall (f : mfun) h m,
  wfm h m ->
  mview (snd (mfun_run f h m)) m = mview h m
  /\ fst (mfun_run f (snd (mfun_run f h m)) m) = fst (mfun_run f h m)
  /\ mview (snd (mfun_run f (snd (mfun_run f h m)) m)) m = mview h m.
Proof. exact mfun_pure_twice. Qed.
Print Assumptions C19_matrix_functions_pure.

(* ---------------------------------------------------------------- *)
(* 3. the checkers that run on the implementation's observations *)

Theorem C19_sepb_spec : forall s, sepb s = true <-> NoDup (snap_locs s).
Proof. exact sepb_spec. Qed.
Print Assumptions C19_sepb_spec.

Theorem C19_frameb_spec : forall tgt before after,
  frameb tgt before after = true <->
  (length before <= length after /\
   forall i b, nth_error before i = Some b -> tgt <> Some i ->
     exists a, nth_error after i = Some a /\ content b = content a).
Proof. exact frameb_spec. Qed.
Print Assumptions C19_frameb_spec.

Theorem C19_pureb_spec : forall c,
  pureb c = true <->
  (mat_equiv (pc_before c) (pc_after1 c) /\ mat_equiv (pc_before c) (pc_after2 c) /\ pc_taxa0 c = pc_taxa2 c).
Proof. exact pureb_spec. Qed.
Print Assumptions C19_pureb_spec.

(* the model's own snapshots pass the two history checkers *)
Theorem C19_model_passes_checkers : forall ops s tgt,
  wf s -> Forall (fun o => target o = None \/ target o = tgt) ops ->
  sepb (snap_of_state (fst (run_macro ops s))) = true
  /\ frameb tgt (snap_of_state s) (snap_of_state (fst (run_macro ops s))) = true.
Proof. exact model_passes_checkers. Qed.
Print Assumptions C19_model_passes_checkers.

(* what code 0 of a history case means: at every step the model's raised flag and
   snapshot equal the observed ones and the observed snapshot passes both checkers *)
Theorem C19_hist_code_zero : forall c,
  heap_case_code c = 0 <-> hist_ok (hc_steps c) empty_state [].
Proof. exact (fun c => hist_code_zero (hc_steps c) empty_state []). Qed.
Print Assumptions C19_hist_code_zero.

(* ---------------------------------------------------------------- *)
(* non-vacuity *)

(* a dictionary with two rows, a wordlist built from it, then on the wordlist:
   a new column computed from column 1, and an assignment *)
Definition ex_f : list Z -> option Z := fun a => match a with [x] => Some (x + 100)%Z | _ => None end.
Definition ex_s0 : state := run [ONewDict [1; 2]%Z [(7, [10; 20]); (9, [11; 21])]%Z false] empty_state.
Definition ex_s1 : state := fst (cons_obj ex_s0 0 [1%Z]).
Definition ex_ops : list op := [OAdd 1 3%Z (SCols [1%Z]) ex_f false false; OSet 1 9%Z 2%Z 55%Z].

Example ex_wf : wf ex_s0.
Proof. exact (reachable_wf _). Qed.

Example ex_cons_succeeds : cons_obj ex_s0 0 [1%Z] = (ex_s1, false).
Proof. vm_compute. reflexivity. Qed.

Example ex_ops_do_not_target_source : Forall (fun o => target o <> Some 0) ex_ops.
Proof. repeat constructor; discriminate. Qed.

(* the history really changes the new object ... *)
Example ex_new_changed :
  view (run ex_ops ex_s1) 1 = Some ([1; 2; 3]%Z, [(7, [10; 20; 110]); (9, [11; 55; 111])]%Z).
Proof. vm_compute. reflexivity. Qed.

(* ... and the source still reads as written (an instance of C19_source_unchanged) *)
Example ex_source_same :
  view (run ex_ops ex_s1) 0 = Some ([1; 2]%Z, [(7, [10; 20]); (9, [11; 21])]%Z).
Proof. vm_compute. reflexivity. Qed.

(* the statement has content: with a constructor that takes the rows by reference
   (the dictionary branch before the repair) the same history changes the source *)
Definition ex_s1_shared : state := fst (cons_with share_rows ex_s0 0 [1%Z]).

Example sharing_constructor_leaks :
  view (run ex_ops ex_s1_shared) 0 = Some ([1; 2]%Z, [(7, [10; 20; 110]); (9, [11; 55; 111])]%Z)
  /\ sepb (snap_of_state ex_s1_shared) = false.
Proof. vm_compute. split; reflexivity. Qed.

(* numeric-string row keys: the second wordlist reads the caller's original row 9
   ([11; 21], not the edited [11; 55]) - and whatever is then done to it leaves the
   caller's dictionary as written (instances of C19_fresh_disjoint with a non-empty
   o_stale, and of C19_source_unchanged) *)
Example ex_meta_row_references :
  view (run [OAdd 2 3%Z (SDict [(7, 1); (9, 2)]%Z) (fun a => match a with [x] => Some x | _ => None end) false false;
             OSet 2 7%Z 1%Z 99%Z] (fst (cons_obj sk_s1 1 []))) 0
  = Some ([1; 2]%Z, [(7, [10; 20]); (9, [11; 21])]%Z)
  /\ view (fst (cons_obj sk_s1 1 [])) 2 = Some ([1; 2]%Z, [(7, [10; 20]); (9, [11; 21])]%Z)
  /\ view sk_s1 1 = Some ([1; 2]%Z, [(7, [10; 20]); (9, [11; 55])]%Z).
Proof. exact sk_dictionary_safe. Qed.

(* a raising operation in the middle (unknown source column: the header is already
   extended when the KeyError comes) does not disturb anything either *)
Example ex_partial_effect :
  exec (OAdd 1 3%Z (SCols [8%Z]) ex_f false false) ex_s1
  = (fst (exec (OAdd 1 3%Z (SCols [8%Z]) ex_f false false) ex_s1), true)
  /\ view (fst (exec (OAdd 1 3%Z (SCols [8%Z]) ex_f false false) ex_s1)) 1
     = Some ([1; 2; 3]%Z, [(7, [10; 20]); (9, [11; 21])]%Z)
  /\ view (fst (exec (OAdd 1 3%Z (SCols [8%Z]) ex_f false false) ex_s1)) 0 = view ex_s1 0.
Proof. vm_compute. repeat split; reflexivity. Qed.

(* construction is refused for a malformed source (a row longer than the header) *)
Example ex_cons_refused :
  snd (cons_obj (fst (exec (ODApp 0 7%Z 5%Z) ex_s0)) 0 []) = true.
Proof. vm_compute. reflexivity. Qed.

(* matrices: 'ward' on d = 3/4 with threshold 1/2: two clusters, twice; the repaired
   code leaves the rows alone, the pre-repair code squares them and merges at the
   second call *)
Example ex_ward_wfm : wfm ex_heap ex_mat.
Proof. repeat constructor. Qed.

Example ex_ward_twice :
  fst (flat_cluster_h true Upgma (1#2) ex_heap ex_mat) = [(0, [0]); (1, [1])]
  /\ fst (flat_cluster_h true Upgma (1#2) (snd (flat_cluster_h true Upgma (1#2) ex_heap ex_mat)) ex_mat)
     = [(0, [0]); (1, [1])]
  /\ fst (flat_cluster_inplace true Upgma (1#2) (snd (flat_cluster_inplace true Upgma (1#2) ex_heap ex_mat)) ex_mat)
     = [(0, [0; 1])].
Proof. vm_compute. repeat split; reflexivity. Qed.

Example ex_inplace_changes_matrix :
  mview (snd (flat_cluster_inplace true Upgma (1#2) ex_heap ex_mat)) ex_mat <> mview ex_heap ex_mat.
Proof. exact inplace_changes_matrix. Qed.

(* neighbor does write - into its working copy; with the copy dropped the caller's
   matrix holds the scores and the second tree differs *)
Example ex_neighbor_copy :
  snd (mfun_run MNeighbor nj_heap nj_mat) <> nj_heap
  /\ mview (snd (mfun_run MNeighbor nj_heap nj_mat)) nj_mat = mview nj_heap nj_mat
  /\ mview (snd (neighbor_inplace nj_heap nj_mat)) nj_mat <> mview nj_heap nj_mat
  /\ fst (neighbor_inplace (snd (neighbor_inplace nj_heap nj_mat)) nj_mat) <> fst (neighbor_inplace nj_heap nj_mat).
Proof. exact (conj (proj1 neighbor_copy_is_written) (conj (proj2 neighbor_copy_is_written) neighbor_inplace_not_pure)). Qed.

(* flat_cluster_h meets the hypotheses of C19_pure_twice *)
Example ex_flat_is_pure : forall ward meth thr,
  preserves (flat_cluster_h ward meth thr) /\ extensional (flat_cluster_h ward meth thr).
Proof. exact (fun w m t => conj (flat_cluster_h_preserves w m t) (flat_cluster_h_extensional w m t)). Qed.
