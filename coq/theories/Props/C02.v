(* C02 - The reported alignment score is the score of the returned alignment.
   Property theorems only.  [libscore p md sec f8 a b] (Align/LibScore.v) re-scores a finished
   alignment from its columns alone: substitution scores increased by the prosodic factor,
   position-specific gap-opening penalties, scaled penalties for gaps that continue a gap in the
   same sequence (and for leading gaps in global mode), free terminal gaps in overlap mode, the
   boundary penalties of secondary alignment.  f8 = false is the scheme the property states;
   f8 = true differs from it only in secondary overlap mode, where the code charges leading
   gaps (known finding F8). *)
From Coq Require Import QArith ZArith List Bool Arith.
From LV Require Import Align.DP Align.Calign Align.LibScore Align.LibScoreProofs.
Import ListNotations.
Local Open Scope Q_scope.

(* global mode (primary and secondary) and primary overlap mode: _calign *)
Theorem C02_score_global_overlap :
  forall (p : cin) (md : mode) (sec : bool),
    md = Global \/ (md = Overlap /\ sec = false) -> seqA p <> [] -> seqB p <> [] ->
    match align p md sec with
    | RGlobal a b s => s == libscore p md sec false a b
    | _ => False
    end.
Proof.
  exact (fun p md sec H HA HB =>
    let H1 : md = Global \/ md = Overlap :=
      match H with or_introl e => or_introl e | or_intror (conj e _) => or_intror e end in
    let H2 : md <> Overlap \/ sec = false :=
      match H with
      | or_introl e => or_introl (fun e' => eq_ind Global (fun m => match m with Global => True | _ => False end) I Overlap (eq_trans (eq_sym e) e'))
      | or_intror (conj _ e) => or_intror e end in
    match align p md sec as r return
      (match r with RGlobal a b s => s == libscore p md sec true a b | _ => False end) ->
      (match r with RGlobal a b s => s == libscore p md sec false a b | _ => False end) with
    | RGlobal a b s => fun E => Qeq_trans _ _ _ E
        (Qeq_sym _ _ (eq_ind_r (fun x => x == libscore p md sec true a b) (Qeq_refl _)
                               (sc_from_f8 p md sec H2 a b 0%nat 0%nat 1%Z)))
    | _ => fun E => E
    end (calign_score_exact_global p md sec H1 HA HB)).
Qed.
Print Assumptions C02_score_global_overlap.

(* local mode (primary and secondary): the aligned part re-scored from the position after the prefixes *)
Theorem C02_score_local :
  forall (p : cin) (sec : bool), seqA p <> [] -> seqB p <> [] ->
    match align p Local sec with
    | RLocal pa a _ pb b _ s => s == libscore_local p Local sec false pa pb a b
    | _ => False
    end.
Proof.
  exact (fun p sec HA HB =>
    match align p Local sec as r return
      (match r with RLocal pa a _ pb b _ s => s == libscore_local p Local sec true pa pb a b | _ => False end) ->
      (match r with RLocal pa a _ pb b _ s => s == libscore_local p Local sec false pa pb a b | _ => False end) with
    | RLocal pa a _ pb b _ s => fun E => Qeq_trans _ _ _ E
        (Qeq_sym _ _ (eq_ind_r (fun x => x == libscore_local p Local sec true pa pb a b) (Qeq_refl _)
                               (sc_from_f8 p Local sec (or_introl (fun e => eq_ind Local (fun m => match m with Local => True | _ => False end) I Overlap e))
                                           a b (length pb) (length pa) 0%Z)))
    | _ => fun E => E
    end (calign_score_exact_local p Local sec eq_refl HA HB)).
Qed.
Print Assumptions C02_score_local.

(* secondary overlap mode: the score is the re-scoring under the FAITHFUL scheme, in which leading
   gaps are charged the cumulative scaled penalty (F8) ... *)
Theorem C02_score_overlap_secondary_faithful :
  forall (p : cin), seqA p <> [] -> seqB p <> [] ->
    match align p Overlap true with
    | RGlobal a b s => s == libscore p Overlap true true a b
    | _ => False
    end.
Proof. exact (fun p => calign_score_exact_global p Overlap true (or_intror eq_refl)). Qed.
Print Assumptions C02_score_overlap_secondary_faithful.

(* ... and the scheme the property states (free terminal gaps) is REFUTED there: a witness
   with a leading gap; this input is replayed on the implementation by the check (KNOWN-FINDING) *)
Definition f8_witness : cin :=
  {| seqA := [1; 2]%Z; seqB := [2]%Z; gopA := [-1; -1]; gopB := [-1];
     proA := [65; 65]%Z; proB := [65]%Z; scale := 1 # 2; factor := 0;
     scorer := [(1%Z, 1%Z, 2); (1%Z, 2%Z, -1); (2%Z, 1%Z, -1); (2%Z, 2%Z, 2)]; rchars := [84; 95]%Z |}.

Theorem C02_overlap_secondary_leading_refuted :
  exists p, seqA p <> [] /\ seqB p <> [] /\
    match align p Overlap true with
    | RGlobal a b s => ~ s == libscore p Overlap true false a b
    | _ => False
    end.
Proof.
  exact (ex_intro _ f8_witness
    (conj (fun e => eq_ind [1; 2]%Z (fun l => match l with [] => False | _ => True end) I [] e)
    (conj (fun e => eq_ind [2]%Z (fun l => match l with [] => False | _ => True end) I [] e)
          (fun e : (3 # 2) == 2 => Z.lt_irrefl _ (eq_ind (3 * 1)%Z (fun z => (z < 2 * 2)%Z) eq_refl _ e))))).
Qed.
Print Assumptions C02_overlap_secondary_leading_refuted.

(* _talign (pw_align): no prosody, one gap penalty *)
Theorem C02_talign_global_overlap :
  forall (sA sB : list Z) (gop scl : Q) (sc : list (Z * Z * Q)) (md : mode),
    md = Global \/ md = Overlap -> sA <> [] -> sB <> [] ->
    match talign sA sB gop scl sc md with
    | RGlobal a b s => s == libscore (talign_in sA sB gop scl sc) md false false a b
    | _ => False
    end.
Proof.
  exact (fun sA sB gop scl sc md H =>
    C02_score_global_overlap (talign_in sA sB gop scl sc) md false
      match H with or_introl e => or_introl e | or_intror e => or_intror (conj e eq_refl) end).
Qed.
Print Assumptions C02_talign_global_overlap.

Theorem C02_talign_local :
  forall (sA sB : list Z) (gop scl : Q) (sc : list (Z * Z * Q)), sA <> [] -> sB <> [] ->
    match talign sA sB gop scl sc Local with
    | RLocal pa a _ pb b _ s => s == libscore_local (talign_in sA sB gop scl sc) Local false false pa pb a b
    | _ => False
    end.
Proof. exact (fun sA sB gop scl sc => C02_score_local (talign_in sA sB gop scl sc) false). Qed.
Print Assumptions C02_talign_local.

(* the normalised distance is 1 - 2*sim/(self(A)+self(B)) of THAT similarity: whenever the
   similarity is the re-scored value, so is the distance the formula gives (guard: the
   denominator is not 0, otherwise the Python raises ZeroDivisionError) *)
Theorem C02_distance :
  forall (p : cin) (sim lib : Q), sim == lib ->
    distance p sim == 1 - (2 # 1) * lib / (self_score p (seqA p) + self_score p (seqB p)).
Proof.
  exact (fun p sim lib E =>
    Qplus_comp _ _ (Qeq_refl 1) _ _
      (Qopp_comp _ _ (Qmult_comp _ _ (Qmult_comp _ _ (Qeq_refl (2 # 1)) _ _ E) _ _ (Qeq_refl _)))).
Qed.
Print Assumptions C02_distance.

(* non-vacuity: a secondary global alignment with an extended gap and a restricted character *)
Example C02_instance :
  let p := {| seqA := [1; 2; 1; 1]%Z; seqB := [1; 1]%Z; gopA := [-1; -1; -2; -1]; gopB := [-1; -1];
              proA := [65; 88; 84; 65]%Z; proB := [65; 84]%Z; scale := 1 # 2; factor := 1 # 4;
              scorer := [(1%Z, 1%Z, 2); (1%Z, 2%Z, -1); (2%Z, 1%Z, -1); (2%Z, 2%Z, 2)]; rchars := [84; 95]%Z |} in
  match align p Global true with
  | RGlobal a b s => In None b /\ Qeq_bool s (libscore p Global true false a b) = true
  | _ => False
  end.
Proof. vm_compute. split; [right; left; reflexivity|reflexivity]. Qed.
