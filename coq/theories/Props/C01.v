(* C01 - Pairwise alignment never alters, drops or reorders the input segments.
   Property theorems only.  Models: Align/DP.v (generic fill / traceback),
   Align/Calign.v (_calign: 8 functions + align_pair; _talign: 4 functions),
   Align/Malign.v (nw_align, sw_align with its insert-based traceback).
   [valid_aln a b sA sB] := equal length, no column with two gaps, de-gapping
   the rows gives back exactly sA and sB. *)
From Coq Require Import QArith ZArith List Bool Arith.
From LV Require Import Align.DP Align.DPProofs Align.ValidProofs Align.Calign Align.CalignProofs
  Align.Malign Align.MalignProofs Align.WeProofs Align.PairwiseIpa.
Import ListNotations.
Local Open Scope nat_scope.

(* The global traceback loop returns a valid alignment for EVERY traceback matrix whose
   row 0 holds 2 and whose column 0 holds 3 (what the fill writes); the interior is
   arbitrary, so the statement covers every scorer, gap weight, scale, factor, restricted
   character set and the dialign recurrence at once. *)
Theorem C01_trace_global :
  forall (sym : Type) (tb : nat -> nat -> Z) (A B : list sym),
    (forall j, 0 < j -> j <= length A -> tb 0 j = 2%Z) ->
    (forall i, 0 < i -> i <= length B -> tb i 0 = 3%Z) ->
    exists a b, trace_global tb A B (length B + length A) (length B) (length A) [] [] = Some (a, b) /\
                valid_aln a b A B.
Proof. exact trace_global_from_corner. Qed.
Print Assumptions C01_trace_global.

(* Local traceback from any start cell (k,l) inside the matrix, boundary 0, interior arbitrary:
   prefix ++ aligned part (de-gapped) ++ suffix is the input, aligned parts have equal length. *)
Theorem C01_trace_local :
  forall (sym : Type) (tb : nat -> nat -> Z) (A B : list sym),
    (forall j, j <= length A -> tb 0 j = 0%Z) ->
    (forall i, i <= length B -> tb i 0 = 0%Z) ->
    forall k l, k <= length B -> l <= length A ->
    exists i' j' a b, trace_local tb A B (k + l) k l [] [] = Some (i', j', a, b) /\
      length a = length b /\ no_double_gap a b /\
      firstn j' A ++ degap a ++ skipn l A = A /\
      firstn i' B ++ degap b ++ skipn k B = B.
Proof. exact trace_local_from. Qed.
Print Assumptions C01_trace_local.

(* _calign: globalign, semi_globalign, localign, dialign and the four secondary_* twins:
   all non-empty inputs, all modes, primary / secondary, all numeric settings. *)
Theorem C01_calign :
  forall (p : cin) (md : mode) (sec : bool),
    seqA p <> [] -> seqB p <> [] ->
    match align p md sec with
    | RGlobal a b _ => md <> Local /\ valid_aln a b (seqA p) (seqB p)
    | RLocal pa a sa pb b sb _ =>
        md = Local /\ length a = length b /\ no_double_gap a b /\
        pa ++ degap a ++ sa = seqA p /\ pb ++ degap b ++ sb = seqB p
    | RError => False
    end.
Proof. exact align_valid. Qed.
Print Assumptions C01_calign.

(* calign.align_pair: weights multiplied by gop, dispatch to the secondary twin *)
Theorem C01_calign_align_pair :
  forall (p : cin) (gop : Q) (md : mode),
    seqA p <> [] -> seqB p <> [] ->
    match align_pair p gop md with
    | RGlobal a b _ => md <> Local /\ valid_aln a b (seqA p) (seqB p)
    | RLocal pa a sa pb b sb _ =>
        md = Local /\ length a = length b /\ no_double_gap a b /\
        pa ++ degap a ++ sa = seqA p /\ pb ++ degap b ++ sb = seqB p
    | RError => False
    end.
Proof. exact align_pair_valid. Qed.
Print Assumptions C01_calign_align_pair.

(* _talign (plain-token aligner; pw_align goes through it) *)
Theorem C01_talign :
  forall (sA sB : list Z) (gop scl : Q) (sc : list (Z * Z * Q)) (md : mode),
    sA <> [] -> sB <> [] ->
    match talign sA sB gop scl sc md with
    | RGlobal a b _ => md <> Local /\ valid_aln a b sA sB
    | RLocal pa a sa pb b sb _ =>
        md = Local /\ length a = length b /\ no_double_gap a b /\
        pa ++ degap a ++ sa = sA /\ pb ++ degap b ++ sb = sB
    | RError => False
    end.
Proof. exact talign_valid. Qed.
Print Assumptions C01_talign.

(* _malign.nw_align *)
Theorem C01_nw_align :
  forall (A B : list Z) (sc : list (Z * Z * Q)) (gap : Q), A <> [] -> B <> [] ->
    match nw_align A B sc gap with
    | RGlobal a b _ => valid_aln a b A B
    | _ => False
    end.
Proof. exact nw_align_valid. Qed.
Print Assumptions C01_nw_align.

(* _malign.sw_align, whose traceback INSERTS gaps into copies of the sequences and cuts the
   three pieces out afterwards: prefix and suffix are gap-free slices of the input, the
   aligned parts have equal length and no double-gap column, and the pieces concatenate
   (after de-gapping) to the inputs *)
Theorem C01_sw_align :
  forall (A B : list Z) (sc : list (Z * Z * Q)) (gap : Q), A <> [] -> B <> [] ->
    match sw_align A B sc gap with
    | SW pa a sa pb b sb _ =>
        (exists j' l, pa = somes (firstn j' A) /\ sa = somes (skipn l A)) /\
        (exists i' k, pb = somes (firstn i' B) /\ sb = somes (skipn k B)) /\
        length a = length b /\ no_double_gap a b /\
        degap pa ++ degap a ++ degap sa = A /\ degap pb ++ degap b ++ degap sb = B
    | SWError => False
    end.
Proof. exact sw_align_valid. Qed.
Print Assumptions C01_sw_align.

(* _malign.we_align (Waterman-Eggert, all local matches): the outer `while True` loop terminates
   (the model's fuel (N+1)(M+1) is sufficient: each round zeroes the tracer cell it started from),
   and every returned triple has rows of equal length, no double-gap column, and de-gapped rows
   that are contiguous sub-lists of the inputs. *)
Theorem C01_we_align :
  forall (A B : list Z) (sc : list (Z * Z * Q)) (gap : Q),
    exists out, we_align A B sc gap = Some out /\
      Forall (fun t => let '(a, b, _) := t in
                       length a = length b /\ no_double_gap a b /\
                       (exists pre suf, A = pre ++ degap a ++ suf) /\
                       (exists pre suf, B = pre ++ degap b ++ suf)) out.
Proof.
  exact (fun A B sc gap =>
    match we_align A B sc gap as r return (r <> None -> (forall out, r = Some out -> _) ->
        exists out, r = Some out /\ _) with
    | Some out => fun _ V => ex_intro _ out (conj eq_refl (V out eq_refl))
    | None => fun T _ => False_ind _ (T eq_refl)
    end (we_align_total A B sc gap) (we_align_valid A B sc gap)).
Qed.
Print Assumptions C01_we_align.

(* IPA-string-level entry point (Pairwise.align): the class-level rows are mapped back onto the IPA
   tokens with class2tokens (the model proved under C14).  If the class-level rows are a valid
   alignment of the class strings (C01_calign_align_pair), there is one class per token
   (C14_tokens2class_length), no token is the gap symbol and no class is a gap class
   (C14_shipped_classes_not_gap), then the IPA-level rows have equal length, no column holds two
   gaps, and de-gapping gives back exactly the tokens. *)
Theorem C01_pairwise_ipa_level :
  forall (a b : list (option Z)) (clA clB : list Z) (tokA tokB : list SeqCommon.token),
    valid_aln a b clA clB ->
    length clA = length tokA -> length clB = length tokB ->
    ~ In gapc tokA -> ~ In gapc tokB ->
    (forall c, In c clA \/ In c clB -> Token2Class.is_gap_class (tk c) = false) ->
    let ra := ClassTokens.class2tokens gapc tokA (render a) in
    let rb := ClassTokens.class2tokens gapc tokB (render b) in
    length ra = length rb /\
    (forall k, k < length ra -> ~ (nth k ra [] = gapc /\ nth k rb [] = gapc)) /\
    ClassTokens.degap gapc ra = tokA /\ ClassTokens.degap gapc rb = tokB.
Proof. exact ipa_alignment_valid. Qed.
Print Assumptions C01_pairwise_ipa_level.

(* the checker that runs on implementation outputs decides validity *)
Theorem C01_checker_sound :
  forall (a b : list (option Z)) (sA sB : list Z),
    valid_alnb Z.eqb a b sA sB = true <-> valid_aln a b sA sB.
Proof. exact valid_alnb_spec. Qed.
Print Assumptions C01_checker_sound.

(* Error branch: empty input makes the Python raise; the model returns the error value *)
Example C01_empty_is_error :
  forall p md sec, seqA p = [] -> align p md sec = RError.
Proof. intros p md sec H. unfold align, lenA. rewrite H. reflexivity. Qed.

(* non-vacuity: a concrete secondary overlap alignment with a leading gap *)
Example C01_instance :
  let p := {| seqA := [1; 2; 1]%Z; seqB := [2; 1]%Z; gopA := [-1; -1; -1]%Q; gopB := [-1; -1]%Q;
              proA := [65; 88; 84]%Z; proB := [65; 84]%Z; scale := 1 # 2; factor := 1 # 4;
              scorer := [(1%Z, 1%Z, 2%Q); (1%Z, 2%Z, (-1)%Q); (2%Z, 1%Z, (-1)%Q); (2%Z, 2%Z, 2%Q)]; rchars := [84; 95]%Z |} in
  exists a b s, align p Overlap true = RGlobal a b s /\ In None b.
Proof. vm_compute. eexists _, _, _. split; [reflexivity|]. left. reflexivity. Qed.
