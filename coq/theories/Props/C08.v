(* C08 - The weighted gain-loss scenario has minimum weight.
   Property theorems only.  Model: GainLoss/GetGls.v; what "minimum over all assignments"
   means and the dynamic programme run by the checker: GainLoss/Parsimony.v. *)
From Coq Require Import ZArith List Bool.
From LV Require Import GainLoss.RoseTree GainLoss.Replay GainLoss.GetGls GainLoss.GetGlsProofs
  GainLoss.GetGlsTopProofs GainLoss.Parsimony GainLoss.ParsimonyProofs GainLoss.GetGlsOptProofs
  GainLoss.GetGlsOptTopProofs GainLoss.PhyBoGlue GainLoss.PhyBoRows GainLoss.PhyBoWeightedProofs GainLoss.GainLossExec.
Import ListNotations.
Local Open Scope Z_scope.

(* [is_min_cost g l md pat t m]: m is the minimum, over all assignments x of present/absent to
   every node of t (erase x = t) that give each leaf its observed state (a leaf coded -1 is free if
   md = -1 and absent if md = 0), of  gains x g + losses x l, where a gain is an edge from an absent
   to a present node, a loss an edge from a present to an absent node, and the root hangs below a
   virtual absent node (so a present root costs one gain).
   The number compared with on implementation outputs, [opt], is that minimum, and the literal
   exhaustive enumeration [opt_brute] computes the same number. *)
Theorem C08_opt_is_the_minimum :
  forall (g l md : Z) (pat : list (Z * Z)) (t : tree), 0 <= g -> 0 <= l -> known pat t ->
    is_min_cost g l md pat t (opt g l md pat t) /\ opt_brute g l md pat t = Some (opt g l md pat t).
Proof.
  exact (fun g l md pat t Hg Hl Hk =>
           conj (opt_is_min g l md pat Hg Hl t Hk) (opt_brute_correct g l md pat Hg Hl t Hk)).
Qed.
Print Assumptions C08_opt_is_the_minimum.

(* with any gains-per-lineage limit the weight of the returned scenario is never below the minimum *)
Theorem C08_weight_ge_minimum :
  forall pat t gpl g l push md ev,
    pattern_known pat t -> (md = 0 \/ md = -1) -> 0 <= g -> 0 <= l ->
    get_gls pat t gpl g l push md = Ok ev ->
    exists m, is_min_cost g l md pat t m /\ m <= weight_ev g l ev.
Proof.
  exact (fun pat t gpl g l push md ev Hpk Hmd Hg Hl Hres =>
           ex_intro _ (opt g l md pat t)
             (conj (opt_is_min g l md pat Hg Hl t Hpk)
                   (gls_weight_ge_opt pat t gpl g l push md ev Hpk Hmd Hg Hl Hres))).
Qed.
Print Assumptions C08_weight_ge_minimum.

(* when the limit does not bind - the gpl filter fires at no node below the common ancestor of
   the presences - the weight of the returned scenario is the minimum.  All trees (binary and
   multifurcating, unary nodes included), all patterns with missing data, all non-negative weights. *)
Theorem C08_weight_is_minimum :
  forall pat t gpl g l push md ev,
    pattern_known pat t -> (md = 0 \/ md = -1) -> 0 <= g -> 0 <= l ->
    get_gls pat t gpl g l push md = Ok ev ->
    nofire (recode md pat) g l gpl (lca_sub (is_present (recode md pat)) t) = true ->
    is_min_cost g l md pat t (weight_ev g l ev).
Proof.
  exact (fun pat t gpl g l push md ev Hpk Hmd Hg Hl Hres Hnf =>
           eq_ind_r (is_min_cost g l md pat t) (opt_is_min g l md pat Hg Hl t Hpk)
                    (gls_weight_eq_opt pat t gpl g l push md ev Hpk Hmd Hg Hl Hres Hnf)).
Qed.
Print Assumptions C08_weight_is_minimum.

(* the limit cannot bind if gpl is at least the number of leaves (the property's own bound) *)
Theorem C08_weight_is_minimum_gpl_ge_leaves :
  forall pat t gpl g l push md ev,
    pattern_known pat t -> (md = 0 \/ md = -1) -> 0 <= g -> 0 <= l ->
    get_gls pat t gpl g l push md = Ok ev ->
    Z.of_nat (length (tips t)) <= gpl ->
    is_min_cost g l md pat t (weight_ev g l ev).
Proof.
  exact (fun pat t gpl g l push md ev Hpk Hmd Hg Hl Hres Hgpl =>
           eq_ind_r (is_min_cost g l md pat t) (opt_is_min g l md pat Hg Hl t Hpk)
                    (gls_weight_eq_opt_leaves pat t gpl g l push md ev Hpk Hmd Hg Hl Hres Hgpl)).
Qed.
Print Assumptions C08_weight_is_minimum_gpl_ge_leaves.

(* if all leaves under the common ancestor of the presences are present, the scenario is the
   single gain at that ancestor *)
Theorem C08_single_gain :
  forall pat t gpl g l push md,
    (md = 0 \/ md = -1) -> has_present (is_present pat) t = true ->
    (forall n, In n (tips (lca_sub (is_present pat) t)) -> lookup n pat = Some 1) ->
    get_gls pat t gpl g l push md = Ok [(tname (lca_sub (is_present pat) t), 1)].
Proof. exact single_gain. Qed.
Print Assumptions C08_single_gain.

(* ---- through the wordlist-driven entry point (deepening round) ----
   PhyBo.get_GLS(mode='weighted') per cognate set = singleton shortcut, else get_gls.  The shortcut
   agrees with get_gls (a single presence is its own common ancestor), so the object stores get_gls's
   scenario for the pattern; pattern lists every taxon once and only tips. *)
Theorem C08_phybo_weighted_is_get_gls :
  forall pat t g l gpl push md,
    NoDup (names t) -> NoDup (keys pat) -> (forall n s, In (n, s) pat -> In n (tips t)) -> (md = 0 \/ md = -1) ->
    phybo_per_cog pat t (GWeighted g l) gpl push md = get_gls pat t gpl g l push md.
Proof. exact phybo_weighted_is_get_gls. Qed.
Print Assumptions C08_phybo_weighted_is_get_gls.

(* from the ROWS of the wordlist ([paps_of_rows] = the model of get_paps, [phybo_of_rows] = rows ->
   pattern -> shortcut / get_gls): with gpl at least the number of languages the stored scenario has
   the minimum weight over all assignments for the pattern attested by the rows; with any gpl it is
   never below it *)
Theorem C08_phybo_rows_weight_is_minimum :
  forall rows taxa cog con t g l gpl push md ev,
    NoDup (names t) -> NoDup taxa -> (forall x, In x taxa <-> In x (tips t)) -> (md = 0 \/ md = -1) ->
    0 <= g -> 0 <= l ->
    phybo_of_rows rows taxa cog con t (GWeighted g l) gpl push md = Ok ev ->
    Z.of_nat (length (tips t)) <= gpl ->
    is_min_cost g l md (combine taxa (paps_of_rows rows taxa cog con)) t (weight_ev g l ev).
Proof. exact phybo_rows_weight_is_min. Qed.
Print Assumptions C08_phybo_rows_weight_is_minimum.

Theorem C08_phybo_rows_weight_ge_minimum :
  forall rows taxa cog con t g l gpl push md ev,
    NoDup (names t) -> NoDup taxa -> (forall x, In x taxa <-> In x (tips t)) -> (md = 0 \/ md = -1) ->
    0 <= g -> 0 <= l ->
    phybo_of_rows rows taxa cog con t (GWeighted g l) gpl push md = Ok ev ->
    exists m, is_min_cost g l md (combine taxa (paps_of_rows rows taxa cog con)) t m /\ m <= weight_ev g l ev.
Proof. exact phybo_rows_weight_ge_min. Qed.
Print Assumptions C08_phybo_rows_weight_ge_minimum.

(* the two invariants behind the optimality proof (DESIGN Appendix C): per node and state the
   kept scenarios are NOT of optimal cost, but (J1) each costs at least what its parent can see,
   and (J2) each of the parent's two views is attained by some kept scenario *)
Theorem C08_J1_kept_ge_views :
  forall pat g l gpl t, tips_known pat t ->
    forall sc, In sc (scen_of pat gpl g l t) ->
      V1 pat g l t <= cost1 l (fst sc) (wt g l sc) /\ V0 pat g l t <= cost0 g (fst sc) (wt g l sc).
Proof. exact kept_ge_views. Qed.
Print Assumptions C08_J1_kept_ge_views.

Theorem C08_J2_views_attained :
  forall pat g l gpl t, 0 <= g -> 0 <= l -> nofire pat g l gpl t = true ->
    (exists sc, In sc (scen_of pat gpl g l t) /\ cost1 l (fst sc) (wt g l sc) <= V1 pat g l t) /\
    (exists sc, In sc (scen_of pat gpl g l t) /\ cost0 g (fst sc) (wt g l sc) <= V0 pat g l t).
Proof. exact views_attained. Qed.
Print Assumptions C08_J2_views_attained.

(* ---- non-vacuity ---- *)
(* (1,2,3,(4,5,6,(7,8)21)20)0 : 1,2,3,7,8 present, 4,5 absent, 6 missing *)
Definition ex_tree : tree :=
  Node 0 [Node 1 []; Node 2 []; Node 3 []; Node 20 [Node 4 []; Node 5 []; Node 6 []; Node 21 [Node 7 []; Node 8 []]]].
Definition ex_pat : list (Z * Z) := [(1,1);(2,1);(3,1);(4,0);(5,0);(6,-1);(7,1);(8,1)].

Example ex_known : pattern_known ex_pat ex_tree.
Proof.
  intros n Hn. cbn in Hn.
  repeat (destruct Hn as [E|Hn]; [subst n; eexists; split; [reflexivity|auto]|]). destruct Hn.
Qed.
(* gpl = 1 does not bind here: three events, weight 3 = the minimum *)
Example ex_gpl1 : get_gls ex_pat ex_tree 1 1 1 true 0 = Ok [(21, 1); (20, 0); (0, 1)].
Proof. vm_compute. reflexivity. Qed.
Example ex_nofire1 : nofire (recode 0 ex_pat) 1 1 1 (lca_sub (is_present (recode 0 ex_pat)) ex_tree) = true.
Proof. vm_compute. reflexivity. Qed.
Example ex_min3 : is_min_cost 1 1 0 ex_pat ex_tree 3.
Proof.
  exact (C08_weight_is_minimum _ _ _ _ _ _ _ _ ex_known (or_introl eq_refl) Z.le_0_1 Z.le_0_1
           ex_gpl1 ex_nofire1).
Qed.
(* gpl = 0 binds: the gain below the loss is forbidden, the result has weight 4 > 3;
   so the hypothesis of C08_weight_is_minimum cannot be dropped *)
Example ex_gpl0 : get_gls ex_pat ex_tree 0 1 1 true 0 = Ok [(4, 0); (5, 0); (6, 0); (0, 1)]
                  /\ nofire (recode 0 ex_pat) 1 1 0 (lca_sub (is_present (recode 0 ex_pat)) ex_tree) = false
                  /\ opt 1 1 0 ex_pat ex_tree = 3 /\ opt_brute 1 1 0 ex_pat ex_tree = Some 3.
Proof. vm_compute. repeat split. Qed.
(* all leaves below the common ancestor (node 21) present: the single gain there *)
Example ex_single : get_gls [(1,0);(2,0);(3,0);(4,0);(5,0);(6,-1);(7,1);(8,1)] ex_tree 1 1 1 true 0 = Ok [(21, 1)].
Proof.
  exact (C08_single_gain [(1,0);(2,0);(3,0);(4,0);(5,0);(6,-1);(7,1);(8,1)] ex_tree 1 1 1 true 0 (or_introl eq_refl) eq_refl
           ltac:(intros n Hn; cbn in Hn; destruct Hn as [E|[E|[]]]; subst n; reflexivity)).
Qed.

(* through the rows: languages 1,2,3,7,8 have a reflex of set 5 for concept 0 (language 2 twice),
   4 and 5 a word of another set, language 6 no word *)
Definition ex_rows : list row :=
  [(1, 0, 5); (2, 0, 5); (2, 0, 5); (3, 0, 5); (4, 0, 6); (5, 0, 6); (7, 0, 5); (8, 0, 5)].
Example ex_rows_coded : combine [1;2;3;4;5;6;7;8] (paps_of_rows ex_rows [1;2;3;4;5;6;7;8] 5 0) = ex_pat.
Proof. vm_compute. reflexivity. Qed.
Example ex_rows_stored :
  phybo_of_rows ex_rows [1;2;3;4;5;6;7;8] 5 0 ex_tree (GWeighted 1 1) 8 true 0 = Ok [(21, 1); (20, 0); (0, 1)].
Proof. vm_compute. reflexivity. Qed.
(* and the singleton shortcut gives get_gls's answer *)
Example ex_rows_singleton :
  phybo_of_rows [(3, 0, 9); (4, 0, 6)] [1;2;3;4;5;6;7;8] 9 0 ex_tree (GWeighted 2 1) 1 true (-1) = Ok [(3, 1)]
  /\ get_gls (combine [1;2;3;4;5;6;7;8] (paps_of_rows [(3, 0, 9); (4, 0, 6)] [1;2;3;4;5;6;7;8] 9 0)) ex_tree 1 2 1 true (-1)
     = Ok [(3, 1)].
Proof. vm_compute. split; reflexivity. Qed.
