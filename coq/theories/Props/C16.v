(* C16 - Partial cognates: one id per morpheme; word-level ids derived exactly.
   Property theorems only; each is closed by [exact] and followed by
   Print Assumptions.  Model: Cognates/Partial.v (partial_cluster with the
   aligner as an arbitrary oracle [dist]; strict_ids, loose_ids),
   Cognates/Components.v (connected components), Cluster/Flat.v (clustering).

   Input conventions: a wordlist is a list of concepts, a concept the list of its
   words (wordlist key, tokens); the output has the same shape: per concept, per
   word (key, list of partial ids).  The only guard is that the keys of the
   words of a concept are distinct (they are keys of a dictionary). *)
From Coq Require Import QArith ZArith List Bool Arith Relations Permutation.
From LV Require Import Common.Cases Cluster.Flat Cluster.FlatQ
  Cognates.Components Cognates.ComponentsProofs Cognates.Partial Cognates.PartialExec Cognates.PartialProofs
  Cognates.PartialCells.
From LV Require Wordlist.SerializeStr Wordlist.Serialize.
From LVGen Require PartialRc.
Import ListNotations.
Local Open Scope nat_scope.

(* ------------------------------------------------------------------ *)
(* clause 1: every word receives exactly one identifier per morpheme - for every
   aligner, matrix construction, linkage method, threshold, post-processing on/off *)
Theorem C16_partial_one_id_per_morpheme :
  forall (dist : list Z -> list Z -> ores) (cf : config) (wl : list concept) (out : pids),
    Forall (fun c : concept => NoDup (map fst c)) wl ->
    partial_cluster dist cf wl = Ok out ->
    Forall2 (Forall2 (fun (w : word) (wo : nat * list nat) =>
                        fst w = fst wo /\ length (snd wo) = nmorph (snd w))) wl out.
Proof. exact (fun dist cf wl out N H => cluster_loop_one_id dist cf wl N 0 out H). Qed.
Print Assumptions C16_partial_one_id_per_morpheme.

(* ... and an assignment is produced whenever the aligner returns distances; the
   lookup of a cluster id (c.get(i) + k) never fails, whatever the aligner does *)
Theorem C16_partial_returns :
  forall (dist : list Z -> list Z -> ores) (cf : config) (wl : list concept),
    (forall a b, exists q, dist a b = Dist q) ->
    exists out, partial_cluster dist cf wl = Ok out.
Proof. exact (fun dist cf wl T => cluster_loop_total dist cf wl T 0). Qed.
Print Assumptions C16_partial_returns.

Theorem C16_partial_no_missing_cluster_id :
  forall (dist : list Z -> list Z -> ores) (cf : config) (wl : list concept),
    partial_cluster dist cf wl <> Raised 3.
Proof. exact (fun dist cf wl => cluster_loop_no_type_error dist cf wl 0). Qed.
Print Assumptions C16_partial_no_missing_cluster_id.

(* clause 2: no identifier is shared between two concepts *)
Theorem C16_partial_concept_disjoint :
  forall (dist : list Z -> list Z -> ores) (cf : config) (wl : list concept) (out : pids),
    partial_cluster dist cf wl = Ok out ->
    forall i j, i < j -> j < length out ->
    forall x, In x (ids_of (nth i out [])) -> ~ In x (ids_of (nth j out [])).
Proof.
  exact (fun dist cf wl out H => concept_disjoint_nth out (cluster_loop_disjoint dist cf wl 0 out H)).
Qed.
Print Assumptions C16_partial_concept_disjoint.

(* clause 3: with post-processing no word has the same identifier twice; this holds for
   every way [le] of comparing two colliding morphemes, so also for the float column means *)
Theorem C16_postprocess_unique_in_word :
  forall (dist : list Z -> list Z -> ores) (cf : config) (wl : list concept) (out : pids),
    c_post cf = true ->
    partial_cluster dist cf wl = Ok out ->
    forall o, In o out -> forall wo : nat * list nat, In wo o -> NoDup (snd wo).
Proof.
  exact (fun dist cf wl out P H => unique_in_word_in out (cluster_loop_unique dist cf wl P 0 out H)).
Qed.
Print Assumptions C16_postprocess_unique_in_word.

Theorem C16_postprocess_distinct_any_order :
  forall (le : nat -> nat -> bool) (words ids : list nat) (n k p q : nat),
    p < n -> q < n -> p <> q -> nth p words 0 = nth q words 0 ->
    nth p (post_ids le words ids n k) 0 <> nth q (post_ids le words ids n k) 0.
Proof. exact post_ids_distinct. Qed.
Print Assumptions C16_postprocess_distinct_any_order.

(* clause 4: strict ids are equal precisely for words with identical id sequences *)
Theorem C16_strict_exact :
  forall srcs : list (list nat),
    length (strict_ids srcs) = length srcs /\
    forall p q, p < length srcs -> q < length srcs ->
      (nth p (strict_ids srcs) 0 = nth q (strict_ids srcs) 0 <-> nth p srcs [] = nth q srcs []).
Proof. exact strict_ids_exact. Qed.
Print Assumptions C16_strict_exact.

(* clause 5: loose ids are, within each concept, the connected components of
   "shares at least one partial id", and no loose id occurs in two concepts *)
Theorem C16_loose_components :
  forall cs : list (list (list nat)),
    Forall2 (fun (srcs : list (list nat)) (o : list nat) =>
      length o = length srcs /\
      forall p q, p < length srcs -> q < length srcs ->
        (nth p o 0 = nth q o 0 <->
         clos_refl_sym_trans nat
           (fun a b => In a (seq 0 (length srcs)) /\ In b (seq 0 (length srcs)) /\
                       share (nth a srcs []) (nth b srcs []) = true) p q))
      cs (loose_ids cs)
    /\ forall i j, i < j -> j < length (loose_ids cs) ->
       forall x, In x (nth i (loose_ids cs) []) -> ~ In x (nth j (loose_ids cs) []).
Proof.
  exact (fun cs => conj (proj1 (loose_ids_exact cs)) (pairwise_disj_nth _ (proj2 (loose_ids_exact cs)))).
Qed.
Print Assumptions C16_loose_components.

(* the components model: the blocks are a partition of the nodes, and two nodes
   are in the same block iff related by the reflexive-symmetric-transitive closure
   of the edge relation on the nodes *)
Theorem C16_components_partition :
  forall (edge : nat -> nat -> bool) (nodes : list nat),
    Permutation (concat (components edge nodes)) nodes /\
    Forall (fun b => b <> []) (components edge nodes).
Proof. exact (fun edge nodes => conj (components_partition edge nodes) (components_nonempty edge nodes)). Qed.
Print Assumptions C16_components_partition.

Theorem C16_components_closure :
  forall (edge : nat -> nat -> bool) (nodes : list nat) (x y : nat),
    In x nodes -> In y nodes ->
    (block_index x (components edge nodes) = block_index y (components edge nodes) <->
     clos_refl_sym_trans nat (fun a b => In a nodes /\ In b nodes /\ edge a b = true) x y).
Proof. exact components_spec. Qed.
Print Assumptions C16_components_closure.

(* the boolean checkers that are run on the implementation's id lists decide the clauses *)
Theorem C16_checkers_decide :
  (forall wl out, one_idb wl out = true <-> one_id_per_morpheme wl out) /\
  (forall out, concept_disjointb out = true <-> concept_disjoint out) /\
  (forall out, unique_in_wordb out = true <-> unique_in_word out) /\
  (forall srcs out, strict_exactb srcs out = true <-> strict_exact srcs out) /\
  (forall cs out, loose_exactb cs out = true <-> loose_exact cs out).
Proof.
  exact (conj one_idb_spec (conj concept_disjointb_spec (conj unique_in_wordb_spec
          (conj strict_exactb_spec loose_exactb_spec)))).
Qed.
Print Assumptions C16_checkers_decide.

(* ------------------------------------------------------------------ *)
(* the same clauses for ANY clustering routine [clus] (cluster_method 'mcl', 'infomap',
   an external_function, or the flat linkage methods): [clus] maps the matrix of a concept
   to the dictionary position -> cluster id it returns.  Contract of a routine:
   clus_total (every position has an id) and clus_ranged (ids lie in 1..n). *)

(* clause 1 needs no contract at all *)
Theorem C16_any_clustering_one_id_per_morpheme :
  forall (dist : list Z -> list Z -> ores) (imap post : bool) (clus : mat -> list (nat * nat))
         (wl : list concept) (out : pids),
    Forall (fun c : concept => NoDup (map fst c)) wl ->
    partial_cluster_any dist imap post clus wl = Ok out ->
    Forall2 (Forall2 (fun (w : word) (wo : nat * list nat) =>
                        fst w = fst wo /\ length (snd wo) = nmorph (snd w))) wl out.
Proof. exact (fun dist imap post clus wl out N H => cluster_loop_any_one_id dist imap post clus wl N 0 out H). Qed.
Print Assumptions C16_any_clustering_one_id_per_morpheme.

Theorem C16_any_clustering_returns :
  forall (dist : list Z -> list Z -> ores) (imap post : bool) (clus : mat -> list (nat * nat)) (wl : list concept),
    (forall a b, exists q, dist a b = Dist q) ->
    (forall m p, p < length m -> exists v, assoc p (rev (clus m)) = Some v) ->
    exists out, partial_cluster_any dist imap post clus wl = Ok out.
Proof. exact (fun dist imap post clus wl T C => cluster_loop_any_total dist imap post clus wl T C 0). Qed.
Print Assumptions C16_any_clustering_returns.

(* clause 2: with post-processing for every routine; without it for routines whose ids lie in 1..n *)
Theorem C16_any_clustering_concept_disjoint :
  forall (dist : list Z -> list Z -> ores) (imap post : bool) (clus : mat -> list (nat * nat))
         (wl : list concept) (out : pids),
    (post = true \/
     forall m p v, p < length m -> assoc p (rev (clus m)) = Some v -> 1 <= v <= length m) ->
    partial_cluster_any dist imap post clus wl = Ok out ->
    forall i j, i < j -> j < length out ->
    forall x, In x (ids_of (nth i out [])) -> ~ In x (ids_of (nth j out [])).
Proof.
  exact (fun dist imap post clus wl out R H =>
           concept_disjoint_nth out (cluster_loop_any_disjoint dist imap post clus wl R 0 out H)).
Qed.
Print Assumptions C16_any_clustering_concept_disjoint.

(* clause 3: for every routine, no contract *)
Theorem C16_any_clustering_unique_in_word :
  forall (dist : list Z -> list Z -> ores) (imap : bool) (clus : mat -> list (nat * nat))
         (wl : list concept) (out : pids),
    partial_cluster_any dist imap true clus wl = Ok out ->
    forall o, In o out -> forall wo : nat * list nat, In wo o -> NoDup (snd wo).
Proof.
  exact (fun dist imap clus wl out H =>
           unique_in_word_in out (cluster_loop_any_unique dist imap true clus wl eq_refl 0 out H)).
Qed.
Print Assumptions C16_any_clustering_unique_in_word.

(* the flat linkage methods are the instance [flat_revert], which meets the contract *)
Theorem C16_flat_methods_are_an_instance :
  forall (dist : list Z -> list Z -> ores) (cf : config) (wl : list concept),
    partial_cluster dist cf wl = partial_cluster_any dist (c_imap cf) (c_post cf) (flat_revert cf) wl /\
    (forall m p, p < length m -> exists v, assoc p (rev (flat_revert cf m)) = Some v) /\
    (forall m p v, p < length m -> assoc p (rev (flat_revert cf m)) = Some v -> 1 <= v <= length m).
Proof.
  exact (fun dist cf wl => conj (cluster_loop_flat dist cf wl 0)
                                (conj (flat_revert_total cf) (flat_revert_ranged cf))).
Qed.
Print Assumptions C16_flat_methods_are_an_instance.

(* the checker of the contract that runs on what mcl / an external function returned *)
Theorem C16_contract_checker_decides :
  forall (n : nat) (rv : list (nat * nat)),
    clus_okb n rv = true <-> forall p, p < n -> exists v, assoc p (rev rv) = Some v /\ 1 <= v <= n.
Proof. exact clus_okb_spec. Qed.
Print Assumptions C16_contract_checker_decides.

(* ------------------------------------------------------------------ *)
(* partial ids read from a FILE: under every header by which wordlist.rc (as it is in /repo now,
   translated into gen/PartialRc.v on every run) knows the id-list columns, a cell is converted
   by x.split() and int(), so blanks before, between and after the ids do not matter: the cell
   becomes exactly the list of integers that was written.  (Converter semantics:
   Wordlist/Serialize.parse_cell; [id_cell] writes every id followed by its blanks.) *)
Theorem C16_file_id_cells_are_blank_insensitive :
  forall (h : SerializeStr.str) (pad0 : SerializeStr.str) (items : list (Z * SerializeStr.str)),
    In h id_headers ->
    forallb SerializeStr.is_space pad0 = true ->
    pads_ok items ->
    Serialize.parse_cell (Serialize.class_of PartialRc.partial_rc h) (pad0 ++ id_cell items)
    = Serialize.VInts (map fst items).
Proof. exact id_column_cell. Qed.
Print Assumptions C16_file_id_cells_are_blank_insensitive.

(* ------------------------------------------------------------------ *)
(* non-vacuity: a wordlist with a repeated morpheme inside a word, two concepts *)

Definition ex_dist (a b : list Z) : ores := Dist (if zlist_eqb a b then 0 else 1)%Q.
Definition t_ : tok := (1, 1)%Z.
Definition a_ : tok := (2, 2)%Z.
Definition p_ : tok := (0, 3)%Z.      (* the separator '+' *)
Definition k_ : tok := (3, 4)%Z.
Definition u_ : tok := (4, 5)%Z.
Definition ex_wl : list concept :=
  [ [ (1, [t_; a_; p_; t_; a_]); (2, [t_; a_]) ];          (* "ta+ta", "ta" *)
    [ (3, [k_; u_]); (4, [k_; u_; p_; t_; a_]) ] ].        (* "ku", "ku+ta" *)
Definition ex_cfg (imap post : bool) : config := Build_config imap false Upgma (1#2)%Q post.

Example ex_keys_distinct : Forall (fun c : concept => NoDup (map fst c)) ex_wl.
Proof. repeat constructor; cbn; intuition discriminate. Qed.

Example ex_oracle_total : forall a b, exists q, ex_dist a b = Dist q.
Proof. intros a b. eexists. reflexivity. Qed.

(* without post-processing both morphemes of word 1 get id 1 ... *)
Example ex_without_post :
  partial_cluster ex_dist (ex_cfg false false) ex_wl = Ok [[(1, [1; 1]); (2, [1])]; [(3, [5]); (4, [5; 7])]].
Proof. vm_compute. reflexivity. Qed.

(* ... with post-processing the collision is resolved (the column means tie, the later morpheme is isolated) *)
Example ex_with_post :
  partial_cluster ex_dist (ex_cfg false true) ex_wl = Ok [[(1, [1; 2]); (2, [1])]; [(3, [5]); (4, [5; 6])]].
Proof. vm_compute. reflexivity. Qed.

Example ex_with_post_imap :
  partial_cluster ex_dist (ex_cfg true true) ex_wl = Ok [[(1, [1; 2]); (2, [1])]; [(3, [5]); (4, [5; 6])]].
Proof. vm_compute. reflexivity. Qed.

(* the error branches of the model are reachable (the guards are not vacuous) *)
Example ex_zero_division_imap :
  partial_cluster (fun a b => if zlist_eqb a b then ZeroDiv else Dist 1%Q) (ex_cfg true true) ex_wl = Raised 1.
Proof. vm_compute. reflexivity. Qed.

Example ex_slices_irregular_separators :
  get_slices [t_; a_; p_; p_; t_; a_; p_] = [(0, 2); (3, 7)] /\ nmorph [p_; t_] = 1.
Proof. vm_compute. split; reflexivity. Qed.

Example ex_strict : strict_ids [[5; 6]; [5]; [5; 6]; [7]] = [1; 2; 1; 3].
Proof. vm_compute. reflexivity. Qed.

Example ex_loose : loose_ids [[[5; 6]; [7]; [6; 8]; [9]]; [[5]; [1]]] = [[1; 2; 1; 3]; [4; 5]].
Proof. vm_compute. reflexivity. Qed.

Example ex_components : components (fun x y => Nat.eqb (x + 2) y) [0; 1; 2; 3; 4; 5] = [[0; 2; 4]; [1; 3; 5]].
Proof. vm_compute. reflexivity. Qed.

(* the checkers reject what they should: an id used twice in a word, an id in two concepts *)
Example ex_checkers_reject :
  unique_in_wordb [[(1, [1; 1]); (2, [1])]] = false /\
  concept_disjointb [[(1, [1])]; [(2, [1])]] = false /\
  one_idb ex_wl [[(1, [1]); (2, [1])]; [(3, [5]); (4, [5; 6])]] = false /\
  strict_exactb [[1]; [1]] [1; 2] = false /\
  loose_exactb [[[1]; [1; 2]; [2]]] [[1; 1; 2]] = false.
Proof. vm_compute. repeat split; reflexivity. Qed.

(* any clustering routine: everything in one cluster (ids in range), post-processing on *)
Definition ex_one_cluster (m : mat) : list (nat * nat) := map (fun i => (i, 1)) (seq 0 (length m)).

Example ex_any_one_cluster :
  partial_cluster_any ex_dist false true ex_one_cluster ex_wl
  = Ok [[(1, [1; 2]); (2, [1])]; [(3, [5]); (4, [5; 6])]].
Proof. vm_compute. reflexivity. Qed.

(* a routine outside the contract (ids far above n): with post-processing the clauses still
   hold; without it the id ranges of two concepts overlap - the premise of
   C16_any_clustering_concept_disjoint is needed *)
Definition ex_wild (m : mat) : list (nat * nat) := map (fun i => (i, 5 + 4 * i)) (seq 0 (length m)).

Example ex_any_out_of_range_with_post :
  partial_cluster_any ex_dist false true ex_wild ex_wl
  = Ok [[(1, [1; 2]); (2, [3])]; [(3, [5]); (4, [6; 7])]].
Proof. vm_compute. reflexivity. Qed.

Example ex_any_out_of_range_without_post :
  partial_cluster_any ex_dist false false ex_wild ex_wl
  = Ok [[(1, [5; 9]); (2, [13])]; [(3, [9]); (4, [13; 17])]]
  /\ concept_disjointb [[(1, [5; 9]); (2, [13])]; [(3, [9]); (4, [13; 17])]] = false
  /\ clus_okb 3 (ex_wild [[]; []; []]) = false
  /\ clus_okb 3 (ex_one_cluster [[]; []; []]) = true.
Proof. vm_compute. repeat split; reflexivity. Qed.


(* file cells: "1  12 " (doubled blank, trailing blank) under the header partialids is [1; 12];
   with the converter x.split(" ") the same cell would stay a string *)
Example ex_file_cell :
  pads_ok [(1%Z, [32; 32]%Z); (12%Z, [32]%Z)] /\
  id_cell [(1%Z, [32; 32]%Z); (12%Z, [32]%Z)] = [49; 32; 32; 49; 50; 32]%Z /\
  Serialize.parse_cell (Serialize.class_of PartialRc.partial_rc
                          [112; 97; 114; 116; 105; 97; 108; 105; 100; 115]%Z) [49; 32; 32; 49; 50; 32]%Z
  = Serialize.VInts [1; 12]%Z /\
  Serialize.parse_cell Serialize.KIntsSp [49; 32; 32; 49; 50; 32]%Z = Serialize.VStr [49; 32; 32; 49; 50; 32]%Z.
Proof.
  split; [cbn; repeat split; try reflexivity; intros _; discriminate|].
  vm_compute. repeat split; reflexivity.
Qed.
