(* C12 - All views of a wordlist describe the same rows.
   Property theorems only; each is closed by [exact] and followed by Print
   Assumptions.  Model: Wordlist/Rows.v (cells, Python dicts, the rows/cols
   sort, the alias/header layer), Index.v (_dict/_idx/_array), Views.v (the
   accessors, add_entries), Renumber.v; the shipped alias table is regenerated
   from /repo into gen/WordlistRc.v on every run.

   Vocabulary: a row is (id, cells); [rkey k r] is the name in column k of row
   r (k = w_ri: concept, k = w_ci: language); [wf K w] is the state invariant
   "the stored indexes are the indexes of the stored rows"; [names_inj K w]
   says that the sort key (case-folded key, raw key) separates different
   names - the case folding itself is a parameter of the model. *)
From Coq Require Import ZArith List Bool String Sorted.
From LV Require Import Wordlist.Rows Wordlist.RowsProofs Wordlist.Index Wordlist.IndexProofs
     Wordlist.Views Wordlist.ViewsProofs Wordlist.Renumber Wordlist.RenumberProofs
     Wordlist.WordlistExec Wordlist.WordlistCheck Wordlist.WordlistCheckProofs.
From LVGen Require Import WordlistRc WordlistRcProofs.
Import ListNotations.
Local Open Scope Z_scope.

(* ---- the invariant: established by the constructor, kept by add_entries ---- *)

(* Wordlist(dictionary) - any header the constructor accepts, any rows with
   distinct ids - yields a well-formed object *)
Theorem C12_build_wf :
  forall (t : conf) (K : keys) (hdr : list string) (d : list row) (w : wl),
    NoDup (map fst d) -> build t K hdr d = Some w -> wf K w.
Proof. exact build_wf. Qed.
Print Assumptions C12_build_wf.

(* views_after_add: add_entries (a new column, or an overwritten column other
   than the concept and the language column) keeps the invariant, the ids and
   the indexes; hence every theorem below holds after any sequence of additions *)
Theorem C12_views_after_add :
  forall (K : keys) (w : wl) (entry source : string) (f : cell -> cell) (override : bool) (w' : wl),
    wf K w -> add_entries w entry source f override = Some w' ->
    (forall tgt, override = true -> sget (n_hdr (w_names w)) (lower entry) = Some tgt ->
                 tgt <> w_ri w /\ tgt <> w_ci w) ->
    wf K w' /\ map fst (w_data w') = map fst (w_data w) /\ w_index w' = w_index w
    /\ w_ri w' = w_ri w /\ w_ci w' = w_ci w.
Proof. exact add_entries_wf. Qed.
Print Assumptions C12_views_after_add.

(* the same for wl[id, name] = v (a cell of a column other than concept/language) *)
Theorem C12_views_after_setitem :
  forall (K : keys) (w : wl) (id : Z) (s : string) (v : cell) (w' : wl),
    wf K w -> set_cell w id s v = Some w' ->
    (forall k, resolve_item (w_names w) s = Some k -> k <> w_ri w /\ k <> w_ci w) ->
    wf K w' /\ map fst (w_data w') = map fst (w_data w) /\ w_index w' = w_index w
    /\ w_ri w' = w_ri w /\ w_ci w' = w_ci w.
Proof. exact set_cell_wf. Qed.
Print Assumptions C12_views_after_setitem.

(* Wordlist(dict, row=, col=) with any spelling of the two dimension columns, and any metadata *)
Theorem C12_build_gen_wf :
  forall (t : conf) (K : keys) (hdr : list string) (d : list row) (row col : string)
         (meta : list (string * cell)) (w : wl),
    NoDup (map fst d) -> build_gen t K hdr d row col meta = Some w -> wf K w.
Proof. exact build_gen_wf. Qed.
Print Assumptions C12_build_gen_wf.

(* Wordlist(file): read_qlc delivers the rows as strings ([raw]: the string with
   Python's own split()/int() pre-applied); every column is converted with the
   class wordlist.rc gives its header name ([conv]; the class table is regenerated
   from /repo with the alias table; a failed int() leaves the string, '' becomes 0
   under basictypes.integer).  The loaded object IS the object the dictionary
   constructor builds from the converted rows - same ids - and it is well-formed:
   every theorem of this file holds for the views of a loaded file with respect to
   its typed rows *)
Theorem C12_file_views :
  forall (t : conf) (kinds : list ((string * list string) * kind)) (K : keys) (hdr : list string)
         (d : list (Z * list raw)) (row col : string) (meta : list (string * cell)) (w : wl),
    NoDup (map fst d) -> load_file t kinds K hdr d row col meta = Some w ->
    wf K w /\ exists typed, convert_rows (read_kinds kinds) hdr d = Some typed /\
                            build_gen t K hdr typed row col meta = Some w /\ map fst typed = map fst d.
Proof. exact load_file_wf. Qed.
Print Assumptions C12_file_views.

(* attribute access: every spelling the alias table maps to the row (column)
   dimension yields rows (cols) - column aliases win over metadata *)
Theorem C12_attr_dims :
  forall (w : wl) (s n : string), sget (n_alias (w_names w)) s = Some n ->
    (n = d_rown (w_dims w) -> get_attr w s = AList (x_rows (w_index w))) /\
    (n <> d_rown (w_dims w) -> n = d_coln (w_dims w) -> get_attr w s = AList (x_cols (w_index w))).
Proof. exact get_attr_dims. Qed.
Print Assumptions C12_attr_dims.

(* ---- array_each_id_once ------------------------------------------------------ *)
(* every row id occurs at exactly one position of _array; that position is on a
   line _idx records for the row's concept and in the column of the row's language *)
Theorem C12_array_each_id_once :
  forall (K : keys) (w : wl), wf K w -> names_inj K w ->
  forall r, In r (w_data w) ->
    exists i j,
      aget (x_array (w_index w)) i j = fst r
      /\ (exists is, zget (x_idx (w_index w)) (rkey (w_ri w) r) = Some is /\ In i is)
      /\ nth_error (x_cols (w_index w)) j = Some (rkey (w_ci w) r)
      /\ forall i' j', aget (x_array (w_index w)) i' j' = fst r -> i' = i /\ j' = j.
Proof. exact wf_array_each_id_once. Qed.
Print Assumptions C12_array_each_id_once.

(* and nothing else occurs in _array: a non-zero entry is the id of a row *)
Theorem C12_array_ids_only :
  forall (K : keys) (w : wl), wf K w ->
  forall i j, aget (x_array (w_index w)) i j <> 0 ->
    exists r, In r (w_data w) /\ fst r = aget (x_array (w_index w)) i j.
Proof. exact wf_array_ids_only. Qed.
Print Assumptions C12_array_ids_only.

(* the whole concept-by-language table, exactly: the concepts in the order of
   their first occurrence in the rows; a concept has as many lines as its fullest
   cell has rows ([height_of]); line k holds in the column of language l the id of
   the k-th row (in row order) of the cell (concept, l), or 0 *)
Theorem C12_array_exact :
  forall (K : keys) (w : wl), wf K w ->
    x_array (w_index w) =
    flat_map (fun c => map (fun k => map (fun l => nth k (map fst (cellrows (w_data w) (w_ri w) (w_ci w) c l)) 0)
                                         (x_cols (w_index w)))
                           (seq 0 (height_of (w_data w) (w_ri w) (w_ci w) (x_cols (w_index w)) c)))
             (first_occ (map (rkey (w_ri w)) (w_data w))).
Proof. exact wf_array_exact. Qed.
Print Assumptions C12_array_exact.

(* ---- len_rows ----------------------------------------------------------------- *)
(* len(wl) is the number of rows, and _array has exactly that many non-empty slots *)
Theorem C12_len_rows :
  forall (K : keys) (w : wl), wf K w -> names_inj K w ->
    wl_len (w_data w) = List.length (w_data w) /\
    List.length (nonzero (List.concat (x_array (w_index w)))) = List.length (w_data w).
Proof. exact wf_len_rows. Qed.
Print Assumptions C12_len_rows.

(* ---- rows_cols_sorted_distinct -------------------------------------------------- *)
(* rows / cols: exactly the concepts / languages of the rows, strictly increasing
   in the key (folded, raw) - hence distinct, and non-decreasing in the folded key
   alone (case-insensitive alphabetical order) *)
Theorem C12_rows_cols_sorted_distinct :
  forall (K : keys) (w : wl), wf K w -> names_inj K w ->
    StronglySorted (kltP K) (x_rows (w_index w)) /\
    (forall c, In c (x_rows (w_index w)) <-> exists r, In r (w_data w) /\ rkey (w_ri w) r = c) /\
    StronglySorted (kltP K) (x_cols (w_index w)) /\
    (forall l, In l (x_cols (w_index w)) <-> exists r, In r (w_data w) /\ rkey (w_ci w) r = l) /\
    StronglySorted (fun x y => lowk K x <= lowk K y) (x_rows (w_index w)) /\
    StronglySorted (fun x y => lowk K x <= lowk K y) (x_cols (w_index w)) /\
    NoDup (x_rows (w_index w)) /\ NoDup (x_cols (w_index w)).
Proof. exact wf_rows_cols. Qed.
Print Assumptions C12_rows_cols_sorted_distinct.

(* the result of sorted(set(...)) does not depend on the enumeration order of the
   set: any two lists with the same elements sort to the same list *)
Theorem C12_sort_order_independent :
  forall (K : keys) (l1 l2 : list Z), key_inj K l1 -> (forall x, In x l1 <-> In x l2) ->
    usort K l1 = usort K l2.
Proof. exact usort_unique. Qed.
Print Assumptions C12_sort_order_independent.

(* ---- views_agree ------------------------------------------------------------------ *)
(* get_list(row=c, flat=True, entry=e), for every entry e at once: the ids / the
   cells of exactly the rows with concept c, each row once *)
Theorem C12_views_list_row :
  forall (K : keys) (w : wl), wf K w -> names_inj K w ->
  forall c, In c (x_rows (w_index w)) ->
    exists rs, (forall e, get_list_row_flat (w_data w) (w_index w) c e = Some (map (ent_row e) rs))
               /\ NoDup rs /\ forall r, In r rs <-> In r (w_data w) /\ rkey (w_ri w) r = c.
Proof. exact wf_list_row_flat. Qed.
Print Assumptions C12_views_list_row.

(* get_list(row=c, entry=e), two-dimensional (not flat): slot by slot the id / the
   cell of the k-th row of the cell (c, l), 0 where the cell has no k-th row *)
Theorem C12_views_list_row_2d :
  forall (K : keys) (w : wl), wf K w ->
  forall c e, In c (x_rows (w_index w)) ->
    get_list_row (w_data w) (w_index w) c e =
    Some (map (fun k => map (fun l => nth k (map (ent_row e) (cellrows (w_data w) (w_ri w) (w_ci w) c l)) (Atom 0))
                            (x_cols (w_index w)))
              (seq 0 (height_of (w_data w) (w_ri w) (w_ci w) (x_cols (w_index w)) c))).
Proof. exact wf_list_row. Qed.
Print Assumptions C12_views_list_row_2d.

(* get_list(col=l, entry=e), not flat: the column of language l of the table, concept
   by concept in the order of first occurrence *)
Theorem C12_views_list_col_2d :
  forall (K : keys) (w : wl), wf K w ->
  forall l e, In l (x_cols (w_index w)) ->
    get_list_col (w_data w) (w_index w) l e =
    Some (flat_map (fun c => map (fun k => nth k (map (ent_row e) (cellrows (w_data w) (w_ri w) (w_ci w) c l)) (Atom 0))
                                 (seq 0 (height_of (w_data w) (w_ri w) (w_ci w) (x_cols (w_index w)) c)))
                   (first_occ (map (rkey (w_ri w)) (w_data w)))).
Proof. exact wf_list_col. Qed.
Print Assumptions C12_views_list_col_2d.

(* get_list(col=l, flat=True, entry=e): exactly the rows with language l, each once *)
Theorem C12_views_list_col :
  forall (K : keys) (w : wl), wf K w ->
  forall l, In l (x_cols (w_index w)) ->
    exists rs, (forall e, get_list_col_flat (w_data w) (w_index w) l e = Some (map (ent_row e) rs))
               /\ NoDup rs /\ forall r, In r rs <-> In r (w_data w) /\ rkey (w_ci w) r = l.
Proof. exact wf_list_col_flat. Qed.
Print Assumptions C12_views_list_col.

(* get_dict(row=c, entry=e): under every language of cols, exactly the rows of the
   cell (c, l) in row order (an empty list for a language without a word: the
   defaultdict side effect of the array construction) *)
Theorem C12_views_dict_row :
  forall (K : keys) (w : wl), wf K w ->
  forall c e, In c (x_rows (w_index w)) ->
    exists out, get_dict_row (w_data w) (w_index w) c e = Some out /\
      forall l, In l (x_cols (w_index w)) ->
        zget out l = Some (map (ent_row e) (cellrows (w_data w) (w_ri w) (w_ci w) c l)).
Proof. exact wf_dict_row. Qed.
Print Assumptions C12_views_dict_row.

(* get_dict(col=l, entry=e): under every concept with a word in l exactly the rows
   of the cell, in row order; other concepts are not keys *)
Theorem C12_views_dict_col :
  forall (K : keys) (w : wl), wf K w ->
  forall l e, In l (x_cols (w_index w)) ->
    exists out, get_dict_col (w_data w) (w_ri w) (w_index w) l e = Some out /\
      forall c, zget out c = match cellrows (w_data w) (w_ri w) (w_ci w) c l with
                             | [] => None
                             | rs => Some (map (ent_row e) rs)
                             end.
Proof. exact wf_dict_col. Qed.
Print Assumptions C12_views_dict_col.

(* get_entries(k): the array read through column k: 0 for an empty slot, else the
   cell of the row whose id is in the slot *)
Theorem C12_views_entries :
  forall (K : keys) (w : wl), wf K w ->
  forall k i j, (i < List.length (x_array (w_index w)))%nat -> (j < List.length (x_cols (w_index w)))%nat ->
    nth j (nth i (get_entries (w_data w) (w_index w) k) []) POISON =
    if aget (x_array (w_index w)) i j =? 0 then Atom 0
    else match find (fun r => fst r =? aget (x_array (w_index w)) i j) (w_data w) with
         | Some r => nth k (snd r) POISON
         | None => POISON
         end.
Proof. exact wf_entries. Qed.
Print Assumptions C12_views_entries.

(* ---- etymdict_exact ------------------------------------------------------------------ *)
(* the slot of cognate id cog in the column of language l lists every row of
   language l as often as it carries cog (in row order), and nothing else *)
Theorem C12_etymdict_exact :
  forall (K : keys) (w : wl), wf K w -> names_inj K w ->
  forall ref cog j l, nth_error (x_cols (w_index w)) j = Some l ->
    etym_slot (get_etymdict (w_data w) (w_ci w) (w_index w) ref) cog j =
    flat_map (fun r => if rkey (w_ci w) r =? l
                       then repeat (fst r) (count_occ Z.eq_dec (carried ref r) cog) else [])
             (w_data w).
Proof. exact wf_etymdict_exact. Qed.
Print Assumptions C12_etymdict_exact.

(* the keys of the etymological dictionary are exactly the cognate ids carried by some row *)
Theorem C12_etymdict_keys :
  forall (K : keys) (w : wl), wf K w -> names_inj K w ->
  forall ref cog,
    In cog (map fst (get_etymdict (w_data w) (w_ci w) (w_index w) ref)) <->
    exists r, In r (w_data w) /\ In cog (carried ref r).
Proof. exact wf_etymdict_keys. Qed.
Print Assumptions C12_etymdict_keys.

(* ---- alias_reachable ------------------------------------------------------------------- *)
(* the shipped table: every configured name and alias, in lower and in upper case,
   is mapped to its name by read_conf (finite check over the regenerated table) *)
Theorem C12_alias_table :
  forall name als, In (name, als) wordlist_rc -> forall a, In a (name :: als) ->
    sget (read_conf wordlist_rc) (lower a) = Some name /\
    sget (read_conf wordlist_rc) (upper a) = Some name.
Proof. exact wordlist_rc_reachable. Qed.
Print Assumptions C12_alias_table.

(* a column whose header is a configured name or alias (all-lower or all-upper
   case) is reached by the name and by every alias, in lower and in upper case,
   through wl[id, s] (alias + header) and through the entry= arguments (_header) *)
Theorem C12_alias_reachable :
  forall (hdr : list string) (n : names), init_names wordlist_rc hdr = Some n ->
  forall i h name als h0 a s,
    nth_error hdr i = Some h -> In (name, als) wordlist_rc ->
    In h0 (name :: als) -> h = lower h0 \/ h = upper h0 ->
    In a (name :: als) -> s = lower a \/ s = upper a ->
    resolve_item n s = Some i /\ resolve_hdr n s = Some i.
Proof. exact (fun hdr n => conf_header_reachable wordlist_rc hdr n wordlist_rc_reachable wordlist_rc_names_lower). Qed.
Print Assumptions C12_alias_reachable.

(* the generic rule: a header name without configuration is reached by its lower-
   and its upper-case spelling *)
Theorem C12_alias_plain :
  forall (t : conf) (hdr : list string) (n : names) i h s,
    init_names t hdr = Some n -> nth_error hdr i = Some h ->
    h = lower h \/ h = upper h -> h <> EmptyString ->
    smem (read_conf t) (lower h) = false -> smem (read_conf t) (upper h) = false ->
    s = lower h \/ s = upper h ->
    resolve_item n s = Some i /\ resolve_hdr n s = Some i.
Proof. exact plain_header_reachable. Qed.
Print Assumptions C12_alias_plain.

(* after add_entries(entry, ...): the new column has the next free index and is
   reached by every spelling the alias table maps to its name (upper case
   included: the behaviour of the code after the fix recorded in notes/design/C12.md) *)
Theorem C12_alias_after_add :
  forall (n : names) (entry : string) (n' : names) (i : nat) (name : string),
    add_name n entry = Some (n', i) ->
    sget (n_alias n') (lower entry) = Some name -> sget (n_alias n') name = Some name ->
    i = S (max_idx (n_hdr n)) /\
    forall s, sget (n_alias n') s = Some name -> resolve_item n' s = Some i /\ resolve_hdr n' s = Some i.
Proof. exact add_name_reachable. Qed.
Print Assumptions C12_alias_after_add.

(* the same, concretely, for the shipped table: after add_entries(entry) with a
   configured name (any spelling whose lower case is the name) that is not yet a
   column, the new column is reached by the name and every configured alias, in
   lower and in upper case *)
Theorem C12_alias_after_add_configured :
  forall (hdr : list string) (n : names) (name : string) (als : list string) (entry : string) (n' : names) (i : nat),
    init_names wordlist_rc hdr = Some n -> In (name, als) wordlist_rc -> lower entry = name ->
    add_name n entry = Some (n', i) ->
    i = S (max_idx (n_hdr n)) /\
    forall a s, In a (name :: als) -> s = lower a \/ s = upper a ->
      resolve_item n' s = Some i /\ resolve_hdr n' s = Some i.
Proof.
  exact (fun hdr n name als entry n' i =>
           add_name_configured wordlist_rc hdr n name als entry n' i wordlist_rc_reachable wordlist_rc_names_lower).
Qed.
Print Assumptions C12_alias_after_add_configured.

(* and for a name the configuration does not know: reached by its lower- and upper-case spelling *)
Theorem C12_alias_after_add_fresh :
  forall (n : names) (entry : string) (n' : names) (i : nat),
    smem (n_alias2 n) (lower entry) = false -> add_name n entry = Some (n', i) ->
    i = S (max_idx (n_hdr n)) /\
    forall s, s = lower entry \/ s = upper entry -> resolve_item n' s = Some i /\ resolve_hdr n' s = Some i.
Proof. exact add_name_fresh. Qed.
Print Assumptions C12_alias_after_add_fresh.

(* ---- renumber_injective ------------------------------------------------------------------ *)
(* values are compared through str() ([skey] is an order-preserving code of
   str(v), [kempty] the code of ''): equal values get equal integers, different
   values different integers *)
Theorem C12_renumber_injective :
  forall (skey : cell -> Z) (kempty : Z) (vs : list cell) (v v' : cell), In v vs -> In v' vs ->
    (renum_fun skey kempty vs v = renum_fun skey kempty vs v' <-> skey v = skey v').
Proof. exact renum_injective. Qed.
Print Assumptions C12_renumber_injective.

(* the integers are positive, except that the empty value maps to 0 *)
Theorem C12_renumber_sign :
  forall (skey : cell -> Z) (kempty : Z) (vs : list cell) (v : cell), In v vs ->
    exists m, renum_fun skey kempty vs v = Atom m /\ 0 <= m /\ (m = 0 <-> skey v = kempty).
Proof. exact renum_sign. Qed.
Print Assumptions C12_renumber_sign.

(* ---- the checkers that run on the implementation's outputs -------------------------------- *)
(* [S] is a snapshot of what the implementation returned ([s_data S] are the rows
   it reports); an accepting run of a checker implies the clause for that output *)
Theorem C12_checker_array :
  forall (S : snapshot) (ri ci : nat), array_b S ri ci = true ->
    (forall r, In r (s_data S) ->
       zcount (fst r) (List.concat (s_array S)) = 1%nat /\
       exists i j, WordlistCheck.aget (s_array S) i j = fst r /\ nth_Z (s_cols S) j = rkey ci r
                   /\ In (Z.of_nat i) (idx_of S (rkey ri r))) /\
    List.length (nonzero (List.concat (s_array S))) = List.length (s_data S).
Proof. exact array_b_spec. Qed.
Print Assumptions C12_checker_array.

Theorem C12_checker_rows_cols :
  forall (K : keys) (S : snapshot) (ri ci : nat), rowscols_b K S ri ci = true ->
    StronglySorted (kltP K) (s_rows S) /\
    (forall c, In c (s_rows S) <-> exists r, In r (s_data S) /\ rkey ri r = c) /\
    StronglySorted (kltP K) (s_cols S) /\
    (forall l, In l (s_cols S) <-> exists r, In r (s_data S) /\ rkey ci r = l) /\
    s_height S = Z.of_nat (List.length (s_rows S)) /\ s_width S = Z.of_nat (List.length (s_cols S)) /\
    s_len S = Z.of_nat (List.length (s_data S)).
Proof. exact rowscols_b_spec. Qed.
Print Assumptions C12_checker_rows_cols.

Theorem C12_checker_views :
  forall (S : snapshot) (ri ci : nat) (e : option nat) (ev : entry_views), views_entry_b S ri ci e ev = true ->
    (forall k c v, nth_error (s_rows S) k = Some c -> nth_error (ev_list_row ev) k = Some v ->
       fst v = map (map (ent (s_data S) e)) (lines_of S c) /\
       Permutation.Permutation (snd v) (map (ent_row e) (crows S ri c))) /\
    (forall k c dd, nth_error (s_rows S) k = Some c -> nth_error (ev_dict_row ev) k = Some dd ->
       NoDup (map fst dd) /\ incl (map fst dd) (s_cols S) /\
       forall l, In l (s_cols S) -> zget dd l = Some (map (ent_row e) (cellrows (s_data S) ri ci c l))) /\
    (forall j v, (j < List.length (s_cols S))%nat -> nth_error (ev_list_col ev) j = Some v ->
       fst v = map (ent (s_data S) e) (column (s_array S) j) /\
       Permutation.Permutation (snd v) (map (ent_row e) (lrows S ci (nth_Z (s_cols S) j)))) /\
    (forall k l dd, nth_error (s_cols S) k = Some l -> nth_error (ev_dict_col ev) k = Some dd ->
       NoDup (map fst dd) /\ incl (map fst dd) (s_rows S) /\
       forall c, In c (s_rows S) -> zget dd c = opt_cells (cellrows (s_data S) ri ci c l) e) /\
    (forall k, e = Some k -> ev_entries ev = map (map (ent (s_data S) e)) (s_array S)).
Proof. exact views_entry_b_spec. Qed.
Print Assumptions C12_checker_views.

Theorem C12_checker_etymdict :
  forall (S : snapshot) (ci ref : nat) (e : option nat) (E : list (Z * list (list cell))),
    etym_one_b S ci ref e E = true ->
    NoDup (map fst E) /\
    (forall cog, In cog (map fst E) <-> exists r, In r (s_data S) /\ In cog (carried ref r)) /\
    forall cog slots, In (cog, slots) E ->
      List.length slots = List.length (s_cols S) /\
      forall j, (j < List.length (s_cols S))%nat ->
        nth j slots [] = map (ent (s_data S) e) (WordlistCheck.etym_spec S ci ref cog (nth_Z (s_cols S) j)).
Proof. exact etym_one_b_spec. Qed.
Print Assumptions C12_checker_etymdict.

Theorem C12_checker_alias :
  forall (S : snapshot) (q : queries), alias_b S q = true ->
  forall k s item c, nth_error (q_items q) k = Some s -> nth_error (s_items S) k = Some item ->
    expected_idx s (s_columns S) = Some c -> item = Some (map (fun r => nth c (snd r) POISON) (s_data S)).
Proof. exact alias_b_spec. Qed.
Print Assumptions C12_checker_alias.

Theorem C12_checker_attr :
  forall (S : snapshot) (ri ci : nat) (q : queries), attr_b S ri ci q = true ->
  forall k s a, nth_error (q_attrs q) k = Some s -> nth_error (s_attrs S) k = Some a ->
    (dim_of s = Some true -> a = AList (s_rows S)) /\
    (dim_of s = Some false -> a = AList (s_cols S)) /\
    (dim_of s = None -> forall c, expected_idx s (s_columns S) = Some c ->
       a = ATable (map (map (ent (s_data S) (Some c))) (s_array S))).
Proof. exact attr_b_spec. Qed.
Print Assumptions C12_checker_attr.

Theorem C12_checker_renumber :
  forall S source target override skey kempty src tgt,
    renum_b S (OpRenum source target override skey kempty) = true ->
    expected_idx source (s_columns S) = Some src ->
    sindex (lower (if String.eqb target "" then append source "id" else target)) (s_columns S) = Some tgt ->
    src <> tgt ->
    let sk := fun r => tbl_fun cell_eqb skey (-1) (nth src (snd r) POISON) in
    let tv := fun r => nth tgt (snd r) POISON in
    forall a, In a (s_data S) ->
      (exists n, tv a = Atom n /\ 0 <= n /\ (n = 0 <-> sk a = kempty)) /\
      forall b, In b (s_data S) -> (sk a = sk b <-> tv a = tv b).
Proof. exact renum_b_spec. Qed.
Print Assumptions C12_checker_renumber.

(* ---- non-vacuity: a concrete wordlist -------------------------------------------------- *)
(* languages 1001 'Ab', 1002 'aB' (equal under case folding), 1003 'b';
   concepts 1010, 1011; synonyms in cell (1010, 1002); language 1003 has no
   word for 1011; ids are not contiguous *)
Definition exK : keys := {| lowk := fun x => if x <=? 1002 then 1 else x; rawk := fun x => x |}.
Definition exD : list row :=
  [ (5,  [Atom 1002; Atom 1010; Atom 1]);
    (2,  [Atom 1001; Atom 1010; Atom 1]);
    (9,  [Atom 1002; Atom 1010; Atom 2]);
    (7,  [Atom 1001; Atom 1011; Atom 3]);
    (40, [Atom 1003; Atom 1010; Multi [1; 2]]);
    (11, [Atom 1002; Atom 1011; Atom 3]) ].
Definition exW : option wl := build wordlist_rc exK ["language"; "GLOSS"; "cogid"]%string exD.

Example ex_builds : exists w, exW = Some w /\ wf exK w /\ names_inj exK w /\
  x_cols (w_index w) = [1001; 1002; 1003] /\ x_rows (w_index w) = [1010; 1011] /\
  x_array (w_index w) = [[2; 5; 40]; [0; 9; 0]; [7; 11; 0]].
Proof.
  destruct exW as [w|] eqn:E; [|vm_compute in E; discriminate].
  exists w. split; [reflexivity|].
  assert (W : wf exK w).
  { apply (build_wf wordlist_rc exK ["language"; "GLOSS"; "cogid"]%string exD); [|exact E].
    vm_compute. repeat constructor; cbn; intuition discriminate. }
  split; [exact W|]. split.
  - split; intros x y _ _ _ H; exact H.
  - vm_compute in E. inversion E. subst w. vm_compute. auto.
Qed.

Example ex_alias : exists n, init_names wordlist_rc ["language"; "GLOSS"; "cogid"]%string = Some n /\
  resolve_hdr n "TAXA" = Some 0%nat /\ resolve_item n "concepts" = Some 1%nat /\ resolve_hdr n "COGID" = Some 2%nat.
Proof. eexists. vm_compute. repeat split. Qed.

Example ex_renumber :
  let skey := fun c => match c with Atom z => z | Multi _ => 99 end in
  map (renum_fun skey 0 [Atom 7; Atom 0; Atom 3; Atom 7]) [Atom 7; Atom 0; Atom 3; Atom 7]
  = [Atom 3; Atom 0; Atom 2; Atom 3].
Proof. vm_compute. reflexivity. Qed.

(* the guard of C12_views_after_add is needed: overwriting the concept column
   (not an addition of a column) leaves the indexes of the old concepts behind *)
Example ex_override_concept_breaks_invariant :
  exists w w', exW = Some w /\ add_entries w "concept" "concept" (fun _ => Atom 1099) true = Some w' /\ ~ wf exK w'.
Proof.
  destruct exW as [w|] eqn:E; [|vm_compute in E; discriminate].
  vm_compute in E. inversion E. subst w. clear E.
  eexists. eexists. split; [reflexivity|]. split; [vm_compute; reflexivity|].
  intros [H _ _ _ _]. vm_compute in H. discriminate.
Qed.

(* the table formula of C12_array_exact, evaluated on the example rows *)
Example ex_array_formula :
  let cols := [1001; 1002; 1003] in
  flat_map (fun c => map (fun k => map (fun l => nth k (map fst (cellrows exD 1 0 c l)) 0) cols)
                         (seq 0 (height_of exD 1 0 cols c)))
           (first_occ (map (rkey 1) exD))
  = [[2; 5; 40]; [0; 9; 0]; [7; 11; 0]].
Proof. vm_compute. reflexivity. Qed.

Example ex_alias_after_add : exists n n' i,
  init_names wordlist_rc ["language"; "GLOSS"; "cogid"]%string = Some n /\
  add_name n "Tokens" = Some (n', i) /\ i = 3%nat /\
  resolve_hdr n' "IPATOKENS" = Some 3%nat /\ resolve_item n' "tokenized_counterpart" = Some 3%nat.
Proof. eexists. eexists. eexists. vm_compute. repeat split. Qed.

(* a written file: header doculect / concept / cogid / cogids / conceptid; the cells
   'x1' (class int) and 'a' (basictypes.integer) stay strings, '' becomes 0 *)
Example ex_file : exists w,
  load_file wordlist_rc wordlist_rc_kinds exK ["doculect"; "concept"; "cogid"; "cogids"; "conceptid"]%string
    [ (3, [ {| r_str := 1001; r_int := None; r_toks := [(1001, None)] |};
            {| r_str := 1010; r_int := None; r_toks := [(1010, None)] |};
            {| r_str := 1000; r_int := None; r_toks := [] |};
            {| r_str := 1020; r_int := None; r_toks := [(1021, Some 1); (1022, Some 2)] |};
            {| r_str := 1030; r_int := None; r_toks := [(1030, None)] |} ]);
      (8, [ {| r_str := 1003; r_int := None; r_toks := [(1003, None)] |};
            {| r_str := 1010; r_int := None; r_toks := [(1010, None)] |};
            {| r_str := 1040; r_int := None; r_toks := [(1040, None)] |};
            {| r_str := 1000; r_int := None; r_toks := [] |};
            {| r_str := 1050; r_int := Some 7; r_toks := [(1050, Some 7)] |} ]) ]
    "concept" "doculect" [] = Some w /\
  w_data w = [ (3, [Atom 1001; Atom 1010; Atom 0; Multi [1; 2]; Atom 1030]);
               (8, [Atom 1003; Atom 1010; Atom 1040; Multi []; Atom 7]) ] /\
  x_array (w_index w) = [[3; 8]].
Proof. eexists. vm_compute. repeat split. Qed.
