(* C15 - tree distances depend on topology only, not on how the tree is written.

   Model (TreeDist/Newick.v, Bipart.v, RF.v): character-level Gallina functions
   for str(tree) (printer), the cogent tokeniser/parser (load), the string
   normalisation of _TreeDist.grf, get_bipartition (split at ",", elementise each
   piece, stack machine, filtering of trivial/complementary splits) and the two
   distance formulas.  tree_rf a b / tree_grf a b model
   Tree.get_distance(other, 'rf' | 'grf') = grf(str(self), str(other)).

   wf_tree t (TreeDist/Spec.v): every internal node has >= 2 children, names and
   length texts are clean (printable; no parenthesis, comma, colon, semicolon,
   quote, bracket, slash, blank; an underscore is allowed - the printer then writes
   the name in single quotes, the parser and get_bipartition undo that, all of it
   inside the model: C15_printed_name), leaf names distinct and not
   starting with "edge" (cogent renames those), >= 4 taxa.  has_split t: t has a
   non-trivial bipartition (otherwise lingpy raises ZeroDivisionError).
   tperm a b: b is a with the children of some nodes listed in another order.

   Bipartitions of a rose tree (Spec.biparts R t) are computed from the clades,
   without any string, as canonical characteristic vectors over an enumeration R
   of the taxa (C15_canon_eq_iff: equal vectors <-> equal or complementary sets). *)
From Coq Require Import Ascii String Bool Arith ZArith QArith List Permutation.
From LV Require Import Common.Cases TreeDist.Newick TreeDist.Bipart TreeDist.RF TreeDist.Spec
  TreeDist.SetProofs TreeDist.NewickProofs TreeDist.BipartProofs TreeDist.TreeProofs TreeDist.ParseProofs
  TreeDist.RFProofs TreeDist.TreeDistExec TreeDist.TreeDistExecProofs.
Import ListNotations.
Local Open Scope nat_scope.

(* ---- how a clean name is written: verbatim, or (if it contains an underscore) in single quotes ---- *)
Theorem C15_printed_name :
  forall n, clean n = true -> print_name n = n \/ print_name n = "'"%char :: n ++ ["'"%char].
Proof. exact print_name_clean. Qed.
Print Assumptions C15_printed_name.

(* ---- get_bipartition of the printed tree = the non-trivial clade splits modulo complement ---- *)
Theorem C15_bipart_of_print :
  forall t, wf_tree t ->
  exists P, get_bipartition (norm3 (print t)) = Some (P, leaves t) /\
    (forall p, In p P -> In p (clades t) /\ nontrivial (length (leaves t)) p = true) /\
    (forall c, In c (clades t) -> nontrivial (length (leaves t)) c = true ->
               exists p, In p P /\ splitsame (leaves t) c p) /\
    (forall i j p q, nth_error P i = Some p -> nth_error P j = Some q -> splitsame (leaves t) p q -> i = j).
Proof. exact bipart_of_print. Qed.
Print Assumptions C15_bipart_of_print.

(* the vector representation of bipartitions used by the reference formulas *)
Theorem C15_canon_eq_iff :
  forall R x y, incl x R -> incl y R ->
    (canon R x = canon R y <-> (seteq x y \/ seteq (set_diff R x) y)).
Proof. exact canon_eq_iff. Qed.
Print Assumptions C15_canon_eq_iff.

Theorem C15_biparts_spec :
  forall R t, NoDup (biparts R t) /\
    forall v, In v (biparts R t) <-> exists c, In c (clades t) /\ nontrivial (length R) c = true /\ v = canon R c.
Proof. exact (fun R t => conj (biparts_NoDup R t) (biparts_In R t)). Qed.
Print Assumptions C15_biparts_spec.

(* ---- permuting children anywhere leaves the leaf set and the clade set unchanged ---- *)
Theorem C15_clades_perm_invariant :
  forall a b, tperm a b ->
    Permutation (leaves a) (leaves b) /\
    (forall c, In c (clades a) -> exists d, In d (clades b) /\ Permutation c d) /\
    (forall d, In d (clades b) -> exists c, In c (clades a) /\ Permutation d c).
Proof. exact tperm_leaves_clades. Qed.
Print Assumptions C15_clades_perm_invariant.

Theorem C15_rf_perm_invariant :
  forall a b a' b', wf_tree a -> wf_tree b -> seteq (leaves a) (leaves b) ->
    tperm a a' -> tperm b b' -> tree_rf a' b' = tree_rf a b.
Proof. exact rf_perm_invariant. Qed.
Print Assumptions C15_rf_perm_invariant.

Theorem C15_grf_perm_invariant :
  forall a b a' b', wf_tree a -> wf_tree b -> seteq (leaves a) (leaves b) ->
    tperm a a' -> tperm b b' -> tree_grf a' b' = tree_grf a b.
Proof. exact grf_perm_invariant. Qed.
Print Assumptions C15_grf_perm_invariant.

(* ---- with and without branch lengths: removing all lengths changes neither distance ---- *)
Theorem C15_distances_ignore_lengths :
  forall a b, wf_tree a -> wf_tree b -> seteq (leaves a) (leaves b) ->
    tree_rf (strip_len a) (strip_len b) = tree_rf a b /\ tree_grf (strip_len a) (strip_len b) = tree_grf a b.
Proof.
  exact (fun a b Wa Wb S =>
    conj (f_equal (option_map snd) (distances_ignore_lengths a b Wa Wb S))
         (f_equal (option_map fst) (distances_ignore_lengths a b Wa Wb S))).
Qed.
Print Assumptions C15_distances_ignore_lengths.

(* ---- a tree against itself, however it is written: 0 ---- *)
Theorem C15_rf_self_zero :
  forall t t', wf_tree t -> has_split t = true -> tperm t t' ->
    exists r, tree_rf t t' = Some r /\ (r == 0)%Q.
Proof. exact rf_self_zero. Qed.
Print Assumptions C15_rf_self_zero.

Theorem C15_grf_self_zero :
  forall t t', wf_tree t -> has_split t = true -> tperm t t' ->
    exists g, tree_grf t t' = Some g /\ (g == 0)%Q.
Proof. exact grf_self_zero. Qed.
Print Assumptions C15_grf_self_zero.

(* ---- range ---- *)
Theorem C15_rf_range :
  forall a b r, wf_tree a -> wf_tree b -> seteq (leaves a) (leaves b) ->
    tree_rf a b = Some r -> (0 <= r)%Q /\ (r <= 1)%Q.
Proof. exact rf_range. Qed.
Print Assumptions C15_rf_range.

Theorem C15_grf_range :
  forall a b g, wf_tree a -> wf_tree b -> seteq (leaves a) (leaves b) ->
    tree_grf a b = Some g -> (0 <= g)%Q /\ (g <= 1)%Q.
Proof. exact grf_range. Qed.
Print Assumptions C15_grf_range.

(* grf is in [0,1] for any two strings on which the model returns a value *)
Theorem C15_grf_range_any_strings :
  forall sA sB g, grf sA sB = Some g -> (0 <= g)%Q /\ (g <= 1)%Q.
Proof. exact grf_range_any. Qed.
Print Assumptions C15_grf_range_any_strings.

(* ---- symmetry ---- *)
Theorem C15_rf_symmetric :
  forall a b, wf_tree a -> wf_tree b -> seteq (leaves a) (leaves b) ->
    has_split a = true -> has_split b = true -> tree_rf a b = tree_rf b a.
Proof. exact rf_symmetric. Qed.
Print Assumptions C15_rf_symmetric.

(* ---- rf = normalised symmetric difference of the two bipartition sets ---- *)
Theorem C15_rf_is_normalised_symdiff :
  forall a b, wf_tree a -> wf_tree b -> seteq (leaves a) (leaves b) ->
    let SA := biparts (leaves a) a in
    let SB := biparts (leaves a) b in
    tree_rf a b =
      if length SA =? 0 then None
      else Some (frac (Z.of_nat (length (vdiff SA SB) + length (vdiff SB SA))) (length SA + length SB)).
Proof. exact tree_rf_spec. Qed.
Print Assumptions C15_rf_is_normalised_symdiff.

(* grf = share of the bipartitions of a that conflict with some bipartition of b *)
Theorem C15_grf_is_conflict_share :
  forall a b, wf_tree a -> wf_tree b -> seteq (leaves a) (leaves b) ->
    let SA := biparts (leaves a) a in
    let SB := biparts (leaves a) b in
    tree_grf a b =
      if length SA =? 0 then None
      else Some (frac (Z.of_nat (length SA)
                       - Z.of_nat (length (filter (fun u => negb (match SB with [] => true | _ => false end)
                                                            && forallb (vcompat u) SB) SA)))%Z
                      (length SA)).
Proof. exact tree_grf_spec. Qed.
Print Assumptions C15_grf_is_conflict_share.

(* ---- the guard: the model (like the Python) fails exactly when the first tree has no split ---- *)
Theorem C15_distances_defined :
  forall a b, wf_tree a -> wf_tree b -> seteq (leaves a) (leaves b) ->
    (grf_both (print a) (print b) = None <-> has_split a = false).
Proof. exact distances_defined. Qed.
Print Assumptions C15_distances_defined.

(* ---- parsing the printed text gives back the tree (hence the same leaves and clades) ---- *)
Theorem C15_parse_print :
  forall t, wf_tree t -> load (print t) = Some t.
Proof. exact parse_print. Qed.
Print Assumptions C15_parse_print.

Corollary C15_parse_print_leaves_clades :
  forall t, wf_tree t -> exists t', load (print t) = Some t' /\ leaves t' = leaves t /\ clades t' = clades t.
Proof. exact (fun t W => ex_intro _ t (conj (parse_print t W) (conj eq_refl eq_refl))). Qed.
Print Assumptions C15_parse_print_leaves_clades.

(* ---- the checker used on generated re-ordered pairs is sound ---- *)
Theorem C15_tree_permb_sound :
  forall a b, tree_permb a b = true -> tperm a b.
Proof. exact tree_permb_sound. Qed.
Print Assumptions C15_tree_permb_sound.

(* ---- what the boolean checkers run on the implementation's outputs decide ---- *)
Theorem C15_checker_specs :
  (forall t, wfb t = true <-> wf_tree t) /\
  (forall a b, same_taxa a b = true <-> seteq (leaves a) (leaves b)) /\
  (forall x, is0 x = true <-> exists q, x = Some q /\ (q == 0)%Q) /\
  (forall q, in01 (Some q) = true <-> (0 <= q)%Q /\ (q <= 1)%Q) /\
  (forall x y, oq_eqb x y = true <->
     (x = None /\ y = None) \/ exists p q, x = Some p /\ y = Some q /\ (p == q)%Q) /\
  (forall a b, setsets_eqb a b = true <->
     (forall c, In c a -> exists d, In d b /\ seteq c d) /\ (forall d, In d b -> exists c, In c a /\ seteq d c)).
Proof. exact (conj wfb_spec (conj same_taxa_spec (conj is0_spec (conj in01_spec (conj oq_eqb_spec setsets_eqb_spec))))). Qed.
Print Assumptions C15_checker_specs.

(* ---- the check cannot raise a false alarm: if lingpy returns what the model computes
        (for well-formed a, b and ANY a', b'), every bit of the case code is 0 ---- *)
Theorem C15_no_false_alarm :
  forall a b a' b', wf_tree a -> wf_tree b -> td_case_code (model_case a b a' b') = 0.
Proof. exact no_false_alarm. Qed.
Print Assumptions C15_no_false_alarm.

(* ---------------- non-vacuity ---------------- *)
Local Open Scope string_scope.

Definition ex_a : tree :=     (* ((a:1.0,b:2.5):0.25,(c,(d,e):3.0)); *)
  Node [Node [Leaf (s2l "a") (Some (s2l "1.0")); Leaf (s2l "b") (Some (s2l "2.5"))] (Some (s2l "0.25"));
        Node [Leaf (s2l "c") None; Node [Leaf (s2l "d") None; Leaf (s2l "e") None] (Some (s2l "3.0"))] None] None.
Definition ex_a' : tree :=    (* the same tree, children re-ordered at three nodes *)
  Node [Node [Node [Leaf (s2l "e") None; Leaf (s2l "d") None] (Some (s2l "3.0")); Leaf (s2l "c") None] None;
        Node [Leaf (s2l "b") (Some (s2l "2.5")); Leaf (s2l "a") (Some (s2l "1.0"))] (Some (s2l "0.25"))] None.
Definition ex_b : tree :=     (* ((a,c),(b,(e,d))); *)
  Node [Node [Leaf (s2l "a") None; Leaf (s2l "c") None] None;
        Node [Leaf (s2l "b") None; Node [Leaf (s2l "e") None; Leaf (s2l "d") None] None] None] None.

Example ex_a_wf : wf_tree ex_a.
Proof. repeat split; vm_compute; repeat constructor. Qed.
Example ex_b_wf : wf_tree ex_b.
Proof. repeat split; vm_compute; repeat constructor. Qed.
Example ex_same_taxa : seteq (leaves ex_a) (leaves ex_b).
Proof. apply set_eqb_iff. vm_compute. reflexivity. Qed.
Example ex_has_split : has_split ex_a = true /\ has_split ex_b = true.
Proof. split; vm_compute; reflexivity. Qed.
Example ex_tperm : tperm ex_a ex_a'.
Proof. apply tree_permb_sound. vm_compute. reflexivity. Qed.
Example ex_print : print ex_a = s2l "((a:1.0,b:2.5):0.25,(c,(d,e):3.0));".
Proof. vm_compute. reflexivity. Qed.
Example ex_bipartition :
  get_bipartition (norm3 (print ex_a)) = Some ([[s2l "a"; s2l "b"]; [s2l "d"; s2l "e"]], leaves ex_a).
Proof. vm_compute. reflexivity. Qed.
(* one of the two bipartitions of each tree is shared: rf = 2/4, grf = 1/2; the re-ordered copy gives the same *)
Example ex_rf : tree_rf ex_a ex_b = Some (2 # 4)%Q /\ tree_rf ex_a' ex_b = Some (2 # 4)%Q.
Proof. split; vm_compute; reflexivity. Qed.
Example ex_grf : tree_grf ex_a ex_b = Some (1 # 2)%Q.
Proof. vm_compute. reflexivity. Qed.
Example ex_self : tree_rf ex_a ex_a' = Some (0 # 4)%Q /\ tree_grf ex_a ex_a' = Some (0 # 2)%Q.
Proof. split; vm_compute; reflexivity. Qed.
Example ex_load : load (s2l "( (a:1.0 , b:2.5):0.25,
  (c,(d,e):3.0) )") = Some ex_a.
Proof. vm_compute. reflexivity. Qed.
(* a star tree has no bipartition: the distance is undefined (ZeroDivisionError in lingpy) *)
Example ex_star :
  tree_rf (Node [Leaf (s2l "a") None; Leaf (s2l "b") None; Leaf (s2l "c") None; Leaf (s2l "d") None] None) ex_b = None.
Proof. vm_compute. reflexivity. Qed.

(* names with underscores: written in quotes, read back, same distances in any child order *)
Definition ex_u : tree :=     (* (('Old_High_German':0.5,a_1),(Dutch,(b_,c)),e) *)
  Node [Node [Leaf (s2l "Old_High_German") (Some (s2l "0.5")); Leaf (s2l "a_1") None] None;
        Node [Leaf (s2l "Dutch") None; Node [Leaf (s2l "b_") None; Leaf (s2l "c") None] None] None;
        Leaf (s2l "e") None] None.
Definition ex_u' : tree :=
  Node [Leaf (s2l "e") None;
        Node [Node [Leaf (s2l "c") None; Leaf (s2l "b_") None] None; Leaf (s2l "Dutch") None] None;
        Node [Leaf (s2l "a_1") None; Leaf (s2l "Old_High_German") (Some (s2l "0.5"))] None] None.
Example ex_u_wf : wf_tree ex_u.
Proof. repeat split; vm_compute; repeat constructor. Qed.
Example ex_u_print : print ex_u = s2l "(('Old_High_German':0.5,'a_1'),(Dutch,('b_',c)),e);".
Proof. vm_compute. reflexivity. Qed.
Example ex_u_load : load (print ex_u) = Some ex_u /\ load (s2l "((Old_High_German:0.5,a_1),(Dutch,(b_,c)),e);") = Some ex_u.
Proof. split; vm_compute; reflexivity. Qed.
Example ex_u_bipartition :
  get_bipartition (norm3 (print ex_u))
  = Some ([[s2l "Old_High_German"; s2l "a_1"]; [s2l "b_"; s2l "c"]; [s2l "Dutch"; s2l "b_"; s2l "c"]], leaves ex_u).
Proof. vm_compute. reflexivity. Qed.
Example ex_u_perm : tperm ex_u ex_u' /\ tree_rf ex_u ex_u' = Some (0 # 6)%Q /\ tree_grf ex_u' ex_u = Some (0 # 3)%Q.
Proof. split; [apply tree_permb_sound; vm_compute; reflexivity|split; vm_compute; reflexivity]. Qed.
