(* C14 - Segmentation and sound-class conversion keep every symbol and position.
   Property theorems only; each is closed by [exact] and followed by Print Assumptions.
   Models: Seq/Ipa2Tokens.v, Seq/Token2Class.v, Seq/Prosody.v (+ the GENERATED loop body
   LVGen.ProsodyStep), Seq/ProsodyW.v (+ GENERATED tables), Seq/ClassTokens.v; shipped converter
   tables: GENERATED LVGen.ScTables.  Characters are code points; keyword strings are arbitrary
   boolean predicates, converters arbitrary partial maps. *)
From Coq Require Import ZArith QArith List Bool.
From LV Require Import Common.Cases Seq.SeqCommon
     Seq.Ipa2Tokens Seq.Ipa2TokensProofs
     Seq.Token2Class Seq.Token2ClassProofs
     Seq.ProsodyBase Seq.Prosody Seq.ProsodyProofs Seq.ProsodyW Seq.ProsodyWProofs
     Seq.ClassTokens Seq.ClassTokensProofs Seq.PipelineProofs Seq.SeqExec Seq.SeqExecProofs.
From LVGen Require Import ProsodyStep ProsodyWeights ScTables.
Import ListNotations.
Local Open Scope Z_scope.

(* ================================================================== *)
(* 1. ipa2tokens *)

(* Tokenising never loses, duplicates or reorders characters: with expand_nasals = False, for
   every setting of breaks / combiners / stress / diacritics / semi_diacritics / vowels / tones
   and of merge_vowels / merge_geminates, whenever the call returns, the tokens concatenate to the
   input with the break characters removed, preceded by the null-phoneme glyph exactly when the
   first non-break character is a combiner ([glyph]). *)
Theorem C14_ipa2tokens_concat :
  forall (k : kw) (s : list char) (toks : list token),
    k_expand_nasals k = false ->
    ipa2tokens k s = Ok toks ->
    concat toks = glyph k s ++ nobreaks k s.
Proof. exact ipa2tokens_concat. Qed.
Print Assumptions C14_ipa2tokens_concat.

(* no token is empty (also with expand_nasals, provided the placeholder is not the empty string) *)
Theorem C14_ipa2tokens_nonempty :
  forall (k : kw) (s : list char) (toks : list token),
    (k_expand_nasals k = false \/ k_placeholder k <> []) ->
    ipa2tokens k s = Ok toks ->
    Forall (fun t => t <> []) toks.
Proof. exact ipa2tokens_nonempty. Qed.
Print Assumptions C14_ipa2tokens_nonempty.

(* the guard, stated not hidden: the call raises IndexError (the out[0] access) iff
   merge_geminates is set and the string has no non-break character; ValueError iff it contains a
   blank; it returns in every other case - in particular the out[-1] accesses inside the loop
   never fail *)
Theorem C14_ipa2tokens_error_iff :
  forall (k : kw) (s : list char),
    (k_expand_nasals k = false \/ k_placeholder k <> []) ->
    (ipa2tokens k s = IndexErr <->
     (memc s BLANK = false /\ k_merge_geminates k = true /\ nobreaks k s = [])) /\
    (ipa2tokens k s = ValueErr <-> memc s BLANK = true) /\
    ((exists toks, ipa2tokens k s = Ok toks) <->
     (memc s BLANK = false /\ (k_merge_geminates k = true -> nobreaks k s <> []))).
Proof. exact ipa2tokens_error_iff. Qed.
Print Assumptions C14_ipa2tokens_error_iff.

(* non-vacuity: 't͡sɔyɡə' -> ['t͡s', 'ɔy', 'ɡ', 'ə'];  '-͡a.aa' gets the null glyph;  '-.' raises *)
Definition ex_kw : kw :=
  kw_of [46; 45] [865; 860] [712; 716; 39] [688; 720] [] [596; 121; 601; 97] [185; 178]
        true true false [8764].
Example ex_ipa_word :
  ipa2tokens ex_kw [116; 865; 115; 596; 121; 609; 601]
  = Ok [[116; 865; 115]; [596; 121]; [609]; [601]].
Proof. vm_compute. reflexivity. Qed.
Example ex_ipa_glyph :
  ipa2tokens ex_kw [45; 865; 97; 46; 97; 97] = Ok [[8709; 865]; [97]; [97; 97]]
  /\ glyph ex_kw [45; 865; 97; 46; 97; 97] = [NULL_GLYPH].
Proof. split; vm_compute; reflexivity. Qed.
Example ex_ipa_error : ipa2tokens ex_kw [45; 46] = IndexErr.
Proof. vm_compute. reflexivity. Qed.
(* the constants of the model are those of the source file *)
Example ex_ipa_constants :
  NASALS = src_nasals /\ [NASAL_CHAR] = src_nasal_char /\ NOGOS = src_nogos /\ [NULL_GLYPH] = src_glyph.
Proof. repeat split; reflexivity. Qed.

(* ================================================================== *)
(* 2. token2class / tokens2class *)

(* one class per token: for every converter (partial map), stress / diacritic predicates, cldf flag *)
Theorem C14_tokens2class_length :
  forall (conv : token -> option token) (is_stress is_diac : char -> bool) (cldf : bool)
         (toks cls : list token),
    tokens2class conv is_stress is_diac cldf toks = Ok cls -> length cls = length toks.
Proof. exact tokens2class_length. Qed.
Print Assumptions C14_tokens2class_length.

(* every class is in the range of the converter or is the unknown marker '0' *)
Theorem C14_tokens2class_alphabet :
  forall (conv : token -> option token) (is_stress is_diac : char -> bool) (cldf : bool)
         (toks cls : list token),
    tokens2class conv is_stress is_diac cldf toks = Ok cls ->
    Forall (fun c => c = UNKNOWN \/ exists key, conv key = Some c) cls.
Proof. exact tokens2class_alphabet. Qed.
Print Assumptions C14_tokens2class_alphabet.

(* the fallback chain of token2class never raises; tokens2class raises only the ValueError
   "only unknown characters", exactly when every token (possibly none) maps to '0' *)
Theorem C14_tokens2class_outcome :
  forall (conv : token -> option token) (is_stress is_diac : char -> bool) (cldf : bool) (toks : list token),
    match tokens2class conv is_stress is_diac cldf toks with
    | Ok cls => exists c, In c cls /\ c <> UNKNOWN
    | ValueErr => forall t, In t toks -> token2class conv is_stress is_diac cldf t = Ok UNKNOWN
    | _ => False
    end.
Proof. exact tokens2class_outcome. Qed.
Print Assumptions C14_tokens2class_outcome.

(* generated obligation over the converter files: in every shipped (loadable) model no class is
   '-', 'X', '-X' or empty, i.e. none passes the gap test  c in '-X'  of class2tokens *)
Theorem C14_shipped_classes_not_gap :
  forall name tbl c, In (name, tbl) sc_all -> In c (map snd tbl) -> is_gap_class c = false.
Proof. exact shipped_classes_not_gap. Qed.
Print Assumptions C14_shipped_classes_not_gap.

(* hence: all token lists x all shipped models - no returned class equals a gap class *)
Theorem C14_shipped_tokens2class_nogap :
  forall name tbl (is_stress is_diac : char -> bool) (cldf : bool) (toks cls : list token),
    In (name, tbl) sc_all ->
    tokens2class (assoc_find tbl) is_stress is_diac cldf toks = Ok cls ->
    Forall (fun c => is_gap_class c = false) cls.
Proof. exact shipped_tokens2class_nogap. Qed.
Print Assumptions C14_shipped_tokens2class_nogap.

(* non-vacuity: the sca classes of ['t͡s', 'ɔy', 'ɡ', 'ə'] are CUKE; a stress-marked token, an
   unknown token and a source/target token go through the fallback chain; 15 models are covered *)
Definition ex_toks : list token := [[116; 865; 115]; [596; 121]; [609]; [601]].
Definition ex_stress : char -> bool := memc [712; 716; 39].
Definition ex_diac : char -> bool := memc [688; 720].
Example ex_t2c_sca :
  tokens2class (assoc_find sc_sca) ex_stress ex_diac true ex_toks = Ok [[67]; [85]; [75]; [69]].
Proof. vm_compute. reflexivity. Qed.
Example ex_t2c_fallback :
  tokens2class (assoc_find sc_sca) ex_stress ex_diac true [[712; 116; 688]; [63]; [104; 8322; 47; 120]]
  = Ok [[84]; [48]; [71]].
Proof. vm_compute. reflexivity. Qed.
Example ex_t2c_unknown : tokens2class (assoc_find sc_sca) ex_stress ex_diac true [[63]; [37]] = ValueErr.
Proof. vm_compute. reflexivity. Qed.
Example ex_models : (10 <= Z.of_nat (length sc_all)) /\ In sc_art sc_art_models.
Proof. split; [vm_compute; discriminate|now left]. Qed.

(* ================================================================== *)
(* 3. sonority profiles, prosodic strings, prosodic weights *)

(* generated obligation: the  else: raise ValueError  branch of the regenerated if/elif chain is
   unreachable for ALL integers a, b, c, both values of `first`, every string built so far *)
Theorem C14_prosody_step_total :
  forall (a b c : Z) (st : pstate), prosody_step a b c st <> PRaise.
Proof. exact prosody_step_total. Qed.
Print Assumptions C14_prosody_step_total.

(* every normally ending iteration emits exactly one symbol (the 'L'->'M' rewrite keeps length) *)
Theorem C14_prosody_step_one_symbol :
  forall (a b c : Z) (st st' : pstate),
    prosody_step a b c st = POk st' -> length (ps_rev st') = S (length (ps_rev st)).
Proof. exact prosody_step_len. Qed.
Print Assumptions C14_prosody_step_one_symbol.

(* one symbol per sonority value, for every integer list and output mode, including across the
   '_' joins of profiles containing 9 *)
Theorem C14_prosodic_string_length :
  forall (m : omode) (l s : list Z), prosodic_string m l = Ok s -> length s = length l.
Proof. exact prosodic_string_length. Qed.
Print Assumptions C14_prosodic_string_length.

(* with the default output the function returns for EVERY integer list (no raise, no IndexError
   of pstring[-1]), with one symbol of 'ABCLMNXYZT_' per value *)
Theorem C14_prosodic_string_total :
  forall l : list Z,
    exists s, prosodic_string OTrue l = Ok s /\ length s = length l /\ forallb in_pro_us s = true.
Proof. exact prosodic_string_total. Qed.
Print Assumptions C14_prosodic_string_total.

(* sonority profile [int(t) for t in tokens2class(tokens, art)]: one value per token *)
Theorem C14_sonority_length :
  forall (art : token -> option token) (is_stress is_diac : char -> bool) (cldf : bool)
         (toks : list token) (l : list Z),
    sonority art is_stress is_diac cldf toks = Ok l -> length l = length toks.
Proof. exact sonority_length. Qed.
Print Assumptions C14_sonority_length.

(* generated obligation + consequence: every class of a shipped 'art' model is an integer literal,
   so the profile exists whenever tokens2class returns *)
Theorem C14_shipped_art_sonority_total :
  forall tbl (is_stress is_diac : char -> bool) (cldf : bool) (toks cls : list token),
    In tbl sc_art_models ->
    tokens2class (assoc_find tbl) is_stress is_diac cldf toks = Ok cls ->
    exists l, sonority (assoc_find tbl) is_stress is_diac cldf toks = Ok l /\ length l = length toks.
Proof. exact shipped_art_sonority_total. Qed.
Print Assumptions C14_shipped_art_sonority_total.

(* prosodic_string on tokens: one symbol per token (the contract the aligners index by) *)
Theorem C14_prosodic_string_tokens_length :
  forall (art : token -> option token) (is_stress is_diac : char -> bool) (cldf : bool) (m : omode)
         (toks : list token) (s : list Z),
    prosodic_string_tokens art is_stress is_diac cldf m toks = Ok s -> length s = length toks.
Proof. exact prosodic_string_tokens_length. Qed.
Print Assumptions C14_prosodic_string_tokens_length.

(* one weight per symbol, for every (user or default) transform table *)
Theorem C14_prosodic_weights_length :
  forall (user : list (Z * Q)) (ps : list Z) (ws : list Q),
    prosodic_weights user ps = Ok ws -> length ws = length ps.
Proof. exact prosodic_weights_length. Qed.
Print Assumptions C14_prosodic_weights_length.

(* generated obligation + consequence: the default tables cover 'ABCLMNXYZT_', so
   prosodic_weights(prosodic_string(profile)) is defined for every integer profile and has one
   weight per value *)
Theorem C14_prosodic_weights_of_prostring :
  forall l : list Z,
    exists s ws, prosodic_string OTrue l = Ok s /\ prosodic_weights [] s = Ok ws /\
                 length ws = length l.
Proof. exact prosodic_weights_of_prostring. Qed.
Print Assumptions C14_prosodic_weights_of_prostring.

(* the whole chain on tokens, for a shipped 'art' table: whenever tokens2class returns, the
   sonority profile, the prosodic string and the prosodic weights all exist and have exactly one
   element per token (what the aligners rely on when they index them by token position) *)
Theorem C14_shipped_pipeline_lengths :
  forall tbl (is_stress is_diac : char -> bool) (cldf : bool) (toks cls : list token),
    In tbl sc_art_models ->
    tokens2class (assoc_find tbl) is_stress is_diac cldf toks = Ok cls ->
    exists l s ws,
      sonority (assoc_find tbl) is_stress is_diac cldf toks = Ok l /\
      prosodic_string_tokens (assoc_find tbl) is_stress is_diac cldf OTrue toks = Ok s /\
      prosodic_weights [] s = Ok ws /\
      length cls = length toks /\ length l = length toks /\ length s = length toks /\
      length ws = length toks.
Proof. exact shipped_pipeline_lengths. Qed.
Print Assumptions C14_shipped_pipeline_lengths.

(* non-vacuity *)
Example ex_sonority : sonority (assoc_find sc_art) ex_stress ex_diac false ex_toks = Ok [2; 7; 1; 7].
Proof. vm_compute. reflexivity. Qed.
Example ex_prostring : prosodic_string OTrue [2; 7; 1; 7] = Ok [65; 88; 66; 90].     (* 'AXBZ' *)
Proof. vm_compute. reflexivity. Qed.
Example ex_prostring_split :
  prosodic_string OTrue [1; 7; 4; 9; 3; 5; 7; 8] = Ok [65; 88; 78; 95; 65; 67; 88; 84].  (* 'AXN_ACXT' *)
Proof. vm_compute. reflexivity. Qed.
Example ex_weights :
  prosodic_weights [] [65; 88; 66; 90] = Ok [(2#1)%Q; (3#2)%Q; (7#4)%Q; (4#5)%Q].
Proof. vm_compute. reflexivity. Qed.

(* ================================================================== *)
(* 4. class2tokens *)

(* for ALL tokens, class strings and gap symbols the loop equals the specification [weave]:
   a gap class emits the gap symbol BEFORE the token of the next non-gap class *)
Theorem C14_class2tokens_spec :
  forall (gap : token) (tokens classes : list token),
    class2tokens gap tokens classes = weave gap classes tokens.
Proof. exact class2tokens_weave. Qed.
Print Assumptions C14_class2tokens_spec.

(* mapping back inserts gaps without touching the tokens *)
Theorem C14_class2tokens_degap :
  forall (gap : token) (tokens classes : list token),
    ~ In gap tokens -> degap gap (class2tokens gap tokens classes) = tokens.
Proof. exact class2tokens_degap. Qed.
Print Assumptions C14_class2tokens_degap.

(* ... and the gap pattern of the output is that of the class string *)
Theorem C14_class2tokens_pattern :
  forall (gap : token) (tokens classes : list token),
    ~ In gap tokens -> nongaps classes = length tokens ->
    Forall2 (fun o c => o = gap <-> is_gap_class c = true) (class2tokens gap tokens classes) classes.
Proof. exact class2tokens_pattern. Qed.
Print Assumptions C14_class2tokens_pattern.

(* the local form, on the slice tokens[len(prefix) : -len(suffix)] *)
Theorem C14_class2tokens_local_spec :
  forall (gap : token) (tokens pre mid suf : list token),
    ~ In gap tokens ->
    let sl := local_slice tokens (length pre) (length suf) in
    degap gap (class2tokens_local gap tokens pre mid suf) = sl /\
    (nongaps mid = length sl ->
     Forall2 (fun o c => o = gap <-> is_gap_class c = true) (class2tokens_local gap tokens pre mid suf) mid).
Proof. exact class2tokens_local_spec. Qed.
Print Assumptions C14_class2tokens_local_spec.

Example ex_c2t :
  class2tokens [45] ex_toks [[67]; [85]; [45]; [75]; [69]]
  = [[116; 865; 115]; [596; 121]; [45]; [609]; [601]].
Proof. vm_compute. reflexivity. Qed.
Example ex_c2t_local :
  class2tokens_local [45] ex_toks [[67]] [[85]; [45]; [75]] [[69]] = [[596; 121]; [45]; [609]].
Proof. vm_compute. reflexivity. Qed.
Example ex_c2t_hyp : ~ In [45] ex_toks /\ nongaps [[67]; [85]; [45]; [75]; [69]] = length ex_toks.
Proof. split; [intros H; repeat (destruct H as [H|H]; [discriminate|]); destruct H|reflexivity]. Qed.

(* ================================================================== *)
(* 5. the checkers that run on the implementation's outputs decide the clauses above *)

Theorem C14_checker_ipa :
  forall (k : kw) (s : list char) (toks : list token),
    ipa_okb k s (Ok toks) = true <->
    ((concat toks = nobreaks k s \/ concat toks = glyph k s ++ nobreaks k s) /\
     Forall (fun t => t <> []) toks).
Proof. exact ipa_okb_spec. Qed.
Print Assumptions C14_checker_ipa.

Theorem C14_checker_ipa_accepts_model :
  forall (k : kw) (s : list char), k_expand_nasals k = false -> ipa_okb k s (ipa2tokens k s) = true.
Proof. exact ipa_okb_model. Qed.
Print Assumptions C14_checker_ipa_accepts_model.

Theorem C14_checker_tokens2class :
  forall tbl (toks : list token) single (cls : list token),
    t2c_okb tbl toks single (Ok cls) = true <->
    (length cls = length toks /\
     Forall (fun c => (c = UNKNOWN \/ In c (values tbl)) /\ is_gap_class c = false) cls).
Proof. exact t2c_okb_spec. Qed.
Print Assumptions C14_checker_tokens2class.

Theorem C14_checker_class2tokens :
  forall (gap : token) (tokens classes out : list token),
    ~ In gap tokens ->
    (c2t_okb gap tokens classes out = true <->
     (degap gap out = tokens /\
      (nongaps classes = length tokens ->
       Forall2 (fun o c => o = gap <-> is_gap_class c = true) out classes))).
Proof. exact c2t_okb_spec. Qed.
Print Assumptions C14_checker_class2tokens.

(* the checker behind bit 5 ("the call modified the caller's list"): equality of the argument
   list read back after the calls with the copy taken before.  The Gallina models are functions
   of the VALUES of their arguments (a second evaluation on the same tokens is the same term), so
   aliasing can only be observed, and is observed, on the implementation side. *)
Theorem C14_checker_argument_unchanged :
  forall before after : list token, unchangedb before after = true <-> before = after.
Proof. exact unchangedb_spec. Qed.
Print Assumptions C14_checker_argument_unchanged.

(* the length checker applied to every step of a history of calls in one process (different
   segmentations of the same characters, different cldf settings, varied order) *)
Theorem C14_checker_history_step :
  forall (p : pstep) (l : list Z),
    ps_son p = Ok l ->
    (pstep_lenb p = true <->
     (length l = length (ps_toks p) /\
      (exists s, ps_out p = Ok s /\ length s = length (ps_toks p)) /\
      (exists w, ps_weights p = Ok w /\ length w = length (ps_toks p)))).
Proof. exact pstep_lenb_spec. Qed.
Print Assumptions C14_checker_history_step.

(* ================================================================== *)
(* 6. the clauses composed: from the string to the re-gapped tokens, no length premise left *)

(* all token lists x all shipped models x every alignment of the class string ([aligned] = the
   classes with gap classes inserted): because no class is a gap class, the aligned string has one
   non-gap class per token, so class2tokens returns an output of the alignment's length with the
   gaps exactly where the alignment has them, and de-gapping gives back the tokens *)
Theorem C14_shipped_roundtrip :
  forall name tbl (is_stress is_diac : char -> bool) (cldf : bool) (gap : token)
         (toks cls aligned : list token),
    In (name, tbl) sc_all ->
    tokens2class (assoc_find tbl) is_stress is_diac cldf toks = Ok cls ->
    aligned_of cls aligned ->
    ~ In gap toks ->
    degap gap (class2tokens gap toks aligned) = toks /\
    Forall2 (fun o c => o = gap <-> is_gap_class c = true) (class2tokens gap toks aligned) aligned /\
    length (class2tokens gap toks aligned) = length aligned.
Proof. exact shipped_roundtrip. Qed.
Print Assumptions C14_shipped_roundtrip.

(* a break character (such as the gap symbol '-') never comes out of ipa2tokens as a token, so the
   encoding premise "the gap symbol is not a token" holds for every tokenised string *)
Theorem C14_ipa2tokens_no_break_token :
  forall (k : kw) (s : list char) (toks : list token) (g : char),
    k_expand_nasals k = false -> k_break k g = true -> g <> NULL_GLYPH ->
    ipa2tokens k s = Ok toks -> ~ In [g] toks.
Proof. exact ipa2tokens_no_break_token. Qed.
Print Assumptions C14_ipa2tokens_no_break_token.

(* from the string: every string of the quantifier (no blank, at least one non-break character) x
   every keyword setting x every shipped model x every alignment: the call returns, the tokens
   concatenate to the input, none is empty, there is one non-gap class per token, and mapping any
   alignment of the class string back returns the tokens untouched with the alignment's gaps *)
Theorem C14_string_roundtrip :
  forall (k : kw) (s : list char) name tbl (is_stress is_diac : char -> bool) (cldf : bool) (g : char),
    k_expand_nasals k = false ->
    memc s BLANK = false -> nobreaks k s <> [] ->
    In (name, tbl) sc_all ->
    k_break k g = true -> g <> NULL_GLYPH ->
    exists toks,
      ipa2tokens k s = Ok toks /\
      concat toks = glyph k s ++ nobreaks k s /\
      Forall (fun t => t <> []) toks /\
      forall cls aligned,
        tokens2class (assoc_find tbl) is_stress is_diac cldf toks = Ok cls ->
        aligned_of cls aligned ->
        length cls = length toks /\
        Forall (fun c => is_gap_class c = false) cls /\
        degap [g] (class2tokens [g] toks aligned) = toks /\
        Forall2 (fun o c => o = [g] <-> is_gap_class c = true) (class2tokens [g] toks aligned) aligned.
Proof. exact string_roundtrip. Qed.
Print Assumptions C14_string_roundtrip.

(* non-vacuity: 't͡sɔyɡə' with the sca model and the alignment CU-KE *)
Example ex_roundtrip_hyps :
  memc [116; 865; 115; 596; 121; 609; 601] BLANK = false
  /\ nobreaks ex_kw [116; 865; 115; 596; 121; 609; 601] <> []
  /\ k_break ex_kw 45 = true /\ 45 <> NULL_GLYPH
  /\ aligned_of [[67]; [85]; [75]; [69]] [[67]; [85]; [45]; [75]; [69]].
Proof. repeat split; try reflexivity; try discriminate. Qed.

Theorem C14_checker_roundtrip :
  forall (p : pipe) (toks cls : list token),
    pp_toks p = Ok toks -> pp_cls p = Ok cls ->
    aligned_of cls (pp_aligned p) -> length cls = length toks -> ~ In (pp_gap p) toks ->
    (pipe_backb p = true <->
     (degap (pp_gap p) (pp_out p) = toks /\
      Forall2 (fun o c => o = pp_gap p <-> is_gap_class c = true) (pp_out p) (pp_aligned p))).
Proof. exact pipe_backb_spec. Qed.
Print Assumptions C14_checker_roundtrip.
