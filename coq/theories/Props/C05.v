(* C05 - Flat clustering returns the partition its linkage rule defines.
   Property theorems only; each is closed by [exact] and followed by
   Print Assumptions.  Model: Cluster/Flat.v (generic) and Cluster/FlatQ.v
   (exact rationals, the instance run against the implementation). *)
From Coq Require Import QArith List Bool Arith Relations.
From LV Require Import Cluster.Flat Cluster.FlatProofs Cluster.FlatLinkage Cluster.FlatTextbook Cluster.FlatUnique Cluster.FlatQ Cluster.FlatQProofs Cluster.FlatRevert Cluster.FlatDistinct Cluster.FlatDistinctNat.
Import ListNotations.
Local Open Scope nat_scope.

(* every item 0..n-1 occurs in exactly one cluster, exactly once; nothing else occurs.
   Generic: any carrier, any linkage, any matrix, any threshold. *)
Theorem C05_partition :
  forall (V : Type) (leb : V -> V -> bool) (link : list V -> V) (d : nat -> nat -> V) (n : nat) (thr : V) (x : nat),
    count x (flat leb link d n thr) = if x <? n then 1 else 0.
Proof. exact flat_partition. Qed.
Print Assumptions C05_partition.

(* cluster keys are distinct (the result is a dictionary) *)
Theorem C05_keys_distinct :
  forall (V : Type) (leb : V -> V -> bool) (link : list V -> V) (d : nat -> nat -> V) (n : nat) (thr : V),
    NoDup (keys (flat leb link d n thr)).
Proof. exact flat_keys_nodup. Qed.
Print Assumptions C05_keys_distinct.

(* the other output orientation (revert=True: item -> key of its cluster + 1) describes the same partition:
   every item below n is a key exactly once, nothing else is, and two items carry the same value iff they
   share a cluster *)
Theorem C05_revert_partition :
  forall (V : Type) (leb : V -> V -> bool) (link : list V -> V) (d : nat -> nat -> V) (n : nat) (thr : V),
    let cl := flat leb link d n thr in
    (forall x, count_occ Nat.eq_dec (map fst (revert cl)) x = if x <? n then 1 else 0) /\
    (forall x y kx ky, In (x, kx) (revert cl) -> In (y, ky) (revert cl) -> (kx = ky <-> together cl x y)).
Proof. exact flat_revert_partition. Qed.
Print Assumptions C05_revert_partition.

(* the taxa orientation (member indices replaced by pairwise distinct names, keys kept): the name of every item below n
   occurs exactly once, and two names share a cluster iff their items do *)
Theorem C05_taxa_partition :
  forall (T : Type) (T_dec : forall a b : T, {a = b} + {a <> b}) (name : nat -> T),
    (forall x y, name x = name y -> x = y) ->
    forall (V : Type) (leb : V -> V -> bool) (link : list V -> V) (d : nat -> nat -> V) (n : nat) (thr : V),
      let cl := flat leb link d n thr in
      (forall x, count_name T T_dec (name x) (relabel T name cl) = if x <? n then 1 else 0) /\
      map fst (relabel T name cl) = map fst cl /\
      (forall x y, (exists k v, In (k, v) (relabel T name cl) /\ In (name x) v /\ In (name y) v) <-> together cl x y).
Proof. exact flat_taxa_partition. Qed.
Print Assumptions C05_taxa_partition.

Example C05_revert_instance :
  let d := fun i j => if Nat.eqb i j then 0 else if (i + j =? 1) then 1 else 5 in
  revert (flat Nat.leb (fun l => fold_right Nat.min 9 l) d 3 2) = [(0, 1); (1, 1); (2, 3)].
Proof. vm_compute. reflexivity. Qed.

(* on return one cluster is left, or no two clusters have linkage <= threshold;
   for every total preorder on the carrier (single, complete and average linkage alike) *)
Theorem C05_terminal :
  forall (V : Type) (leb : V -> V -> bool) (link : list V -> V) (d : nat -> nat -> V),
    (forall a b, leb a b = true \/ leb b a = true) ->
    (forall a b c, leb a b = true -> leb b c = true -> leb a c = true) ->
    forall (n : nat) (thr : V),
      length (flat leb link d n thr) <= 1 \/
      forall a b va vb, In (a, va) (flat leb link d n thr) -> In (b, vb) (flat leb link d n thr) -> a <> b ->
        leb (link (cross d va vb)) thr = false.
Proof. exact flat_terminal. Qed.
Print Assumptions C05_terminal.

(* the rational instance that is run against the implementation *)
Theorem C05_terminal_Q :
  forall (meth : method) (thr : Q) (m : mat),
    length (flat_cluster meth thr m) <= 1 \/
    forall a b va vb, In (a, va) (flat_cluster meth thr m) -> In (b, vb) (flat_cluster meth thr m) -> a <> b ->
      ~ (linkf meth (cross (dm m) va vb) <= thr)%Q.
Proof.
  exact (fun meth thr m =>
    match flat_terminal Q qleb (linkf meth) (dm m) qleb_total qleb_trans (length m) thr with
    | or_introl H => or_introl H
    | or_intror H => or_intror (fun a b va vb Ha Hb N L =>
        eq_ind true (fun b => b = false -> False) (fun E => Bool.diff_true_false E) _
               (eq_sym (proj2 (Qle_bool_iff _ _) L)) (H a b va vb Ha Hb N))
    end).
Qed.
Print Assumptions C05_terminal_Q.

(* single linkage: two items share a cluster iff they are connected in the graph
   joining items at distance <= threshold *)
Theorem C05_single_components :
  forall (thr : Q) (m : mat) (x y : nat), x < length m -> y < length m ->
    (together (flat_cluster Single thr m) x y <->
     clos_refl_sym_trans nat (edge Q qleb (dm m) (length m) thr) x y).
Proof.
  exact (fun thr m => single_components Q qleb qmin (dm m) qleb_total qleb_trans qmin_spec (length m) thr).
Qed.
Print Assumptions C05_single_components.

(* complete linkage on a symmetric matrix: every within-cluster distance is <= threshold *)
Theorem C05_complete_diameter :
  forall (thr : Q) (m : mat), (forall x y, dm m x y = dm m y x) ->
    forall k v x y, In (k, v) (flat_cluster Complete thr m) -> In x v -> In y v -> x <> y ->
      (dm m x y <= thr)%Q.
Proof.
  exact (fun thr m S k v x y Hk Hx Hy N =>
    proj1 (Qle_bool_iff _ _)
      (complete_diameter Q qleb qmax (dm m) qmax_spec S (length m) thr k v x y Hk Hx Hy N)).
Qed.
Print Assumptions C05_complete_diameter.

(* the flat clusterers ARE the textbook agglomerative procedure: for every total preorder, linkage
   and matrix the run is a maximal sequence of steps that merge a pair of clusters of MINIMAL linkage
   while that minimum is <= threshold ([tb_run], Cluster/FlatTextbook.v).  The only freedom the
   relational specification leaves is which of several minimal pairs is merged (and in which
   orientation). *)
Theorem C05_flat_is_textbook :
  forall (V : Type) (leb : V -> V -> bool) (link : list V -> V) (d : nat -> nat -> V),
    (forall a b, leb a b = true \/ leb b a = true) ->
    (forall a b c, leb a b = true -> leb b c = true -> leb a c = true) ->
    forall (n : nat) (thr : V), tb_run V leb link d thr (init n) (flat leb link d n thr).
Proof. exact flat_is_textbook. Qed.
Print Assumptions C05_flat_is_textbook.

(* ... and on a matrix WITHOUT TIES ([no_ties]: in every partition state two different unordered
   pairs of blocks never have equal linkage) that specification has exactly one outcome, so the
   result COINCIDES with the textbook procedure: every run of the specification from the singletons
   ends in the partition the implementation returns (same blocks; cluster names and member order
   are immaterial).  Hypothesis: a linkage that does not depend on the order of
   the cross distances (min, max and sum/len are such functions on any carrier in which equal
   values are identical, e.g. floats). *)
Theorem C05_coincides_with_textbook_without_ties :
  forall (V : Type) (leb : V -> V -> bool) (link : list V -> V) (d : nat -> nat -> V),
    (forall a b, leb a b = true \/ leb b a = true) ->
    (forall a b c, leb a b = true -> leb b c = true -> leb a c = true) ->
    (forall l l', Permutation.Permutation l l' -> link l = link l') ->
    forall (n : nat) (thr : V), no_ties V leb link d n ->
    forall r, tb_run V leb link d thr (init n) r ->
      forall x y, together r x y <-> together (flat leb link d n thr) x y.
Proof. exact flat_coincides_with_textbook. Qed.
Print Assumptions C05_coincides_with_textbook_without_ties.

(* [no_ties ... n] ranges over the partition states of the items BELOW n only (an earlier version quantified over all
   states and was unsatisfiable for a matrix read with a default outside its range).  It is satisfiable, for a whole class
   of inputs: whenever the linkage is attained by one of the cross distances (single = min, complete = max) and the
   distances between distinct items below n are pairwise distinct, there is no tie ... *)
Theorem C05_distinct_entries_have_no_ties :
  forall (V : Type) (leb : V -> V -> bool) (link : list V -> V) (d : nat -> nat -> V),
    (forall l, l <> [] -> In (link l) l) ->
    forall n : nat,
    (forall x y x' y', x < n -> y < n -> x' < n -> y' < n -> x <> y -> x' <> y' ->
       leb (d x y) (d x' y') = true -> leb (d x' y') (d x y) = true -> (x = x' /\ y = y') \/ (x = y' /\ y = x')) ->
    no_ties V leb link d n.
Proof. exact distinct_no_ties. Qed.
Print Assumptions C05_distinct_entries_have_no_ties.

(* ... hence on whole-number matrices with pairwise distinct entries single and complete linkage return exactly the
   partition of the textbook procedure, for every threshold *)
Theorem C05_single_and_complete_linkage_are_textbook_on_distinct_entries :
  forall (d : nat -> nat -> nat) (n : nat), distinct_entries d n ->
    forall thr r,
      (tb_run nat Nat.leb lmin d thr (init n) r -> forall x y, together r x y <-> together (flat Nat.leb lmin d n thr) x y) /\
      (tb_run nat Nat.leb lmax d thr (init n) r -> forall x y, together r x y <-> together (flat Nat.leb lmax d n thr) x y).
Proof.
  exact (fun d n D thr r => conj (single_linkage_is_textbook d n D thr r) (complete_linkage_is_textbook d n D thr r)).
Qed.
Print Assumptions C05_single_and_complete_linkage_are_textbook_on_distinct_entries.

Example C05_no_ties_instance : distinct_entries d_ex 4 /\ d_ex 1 3 = 54 /\ d_ex 3 1 = 54.
Proof. split; [exact d_ex_distinct|split; reflexivity]. Qed.
