(* C03 - With linear gap costs alignment is exact: optimal score, Levenshtein distance.
   Property theorems only.  An alignment of the pair is any valid pair of gapped rows
   ([valid_aln]) or, equivalently, any list of moves (match / gap in A / gap in B) that
   consumes both sequences ([Opt.move], [cntA], [cntB]); local alignments are move lists
   between any pair of contiguous slices. *)
From Coq Require Import QArith ZArith List Bool Arith.
From LV Require Import Align.DP Align.Calign Align.LibScore Align.Opt Align.OptProofs
  Align.Malign Align.MalignOptProofs Align.LevProofs Align.SelfDist Align.DialignSelf Align.SelfDistShipped.
From LV Require Import Align.LevNorm.
From LVGen Require Import Scorers.
Import ListNotations.
Local Open Scope Q_scope.

(* _calign, global and overlap (semi-global, free end gaps) mode, primary and secondary, every
   scorer / weights / prosodic strings / gop / factor, scale = 1: the returned alignment is valid,
   the returned score is its library score, and NO valid alignment of the pair scores more *)
Theorem C03_calign_global_overlap_optimal :
  forall (p : cin) (sec : bool), scale p == 1 ->
  forall (md : mode), md = Global \/ md = Overlap -> seqA p <> [] -> seqB p <> [] ->
    match align p md sec with
    | RGlobal a b s =>
        valid_aln a b (seqA p) (seqB p) /\ s == libscore p md sec true a b /\
        forall a' b', valid_aln a' b' (seqA p) (seqB p) -> libscore p md sec true a' b' <= s
    | _ => False
    end.
Proof. exact calign_global_optimal. Qed.
Print Assumptions C03_calign_global_overlap_optimal.

(* _calign, local mode: the score is that of the returned segment pair, it is >= 0, and no
   alignment of any pair of contiguous slices (started at (i0, j0)) scores more *)
Theorem C03_calign_local_optimal :
  forall (p : cin) (sec : bool), scale p == 1 -> seqA p <> [] -> seqB p <> [] ->
    match align p Local sec with
    | RLocal pa a _ pb b _ s =>
        s == libscore_local p Local sec true pa pb a b /\ 0 <= s /\
        forall i0 j0 ms, (i0 + cntB ms <= lenB p)%nat -> (j0 + cntA ms <= lenA p)%nat ->
          sc_moves p Local sec i0 j0 0 ms <= s
    | _ => False
    end.
Proof. exact calign_local_optimal. Qed.
Print Assumptions C03_calign_local_optimal.

(* _talign (pw_align) with scale = 1 *)
Theorem C03_talign_global_overlap_optimal :
  forall (sA sB : list Z) (gop : Q) (sc : list (Z * Z * Q)) (md : mode),
    md = Global \/ md = Overlap -> sA <> [] -> sB <> [] ->
    match talign sA sB gop 1 sc md with
    | RGlobal a b s =>
        valid_aln a b sA sB /\ s == libscore (talign_in sA sB gop 1 sc) md false true a b /\
        forall a' b', valid_aln a' b' sA sB -> libscore (talign_in sA sB gop 1 sc) md false true a' b' <= s
    | _ => False
    end.
Proof. exact (fun sA sB gop sc => calign_global_optimal (talign_in sA sB gop 1 sc) false (Qeq_refl 1)). Qed.
Print Assumptions C03_talign_global_overlap_optimal.

(* _malign.nw_align: maximum over all move lists consuming both sequences, and attained *)
Theorem C03_nw_align_optimal :
  forall (A B : list Z) (sc : list (Z * Z * Q)) (gap : Q), A <> [] -> B <> [] ->
    match nw_align A B sc gap with
    | RGlobal _ _ s =>
        (forall ms, cntB ms = length B -> cntA ms = length A ->
           scoreP (fun _ _ => gap) (fun _ _ => gap) (fun i j => sAB A B sc i j) 0 0 ms <= s) /\
        (exists ms, cntB ms = length B /\ cntA ms = length A /\
           scoreP (fun _ _ => gap) (fun _ _ => gap) (fun i j => sAB A B sc i j) 0 0 ms == s)
    | _ => False
    end.
Proof. exact nw_align_optimal. Qed.
Print Assumptions C03_nw_align_optimal.

(* _malign.sw_align: best local segment pair.  Guard gap <= 0 (a gap PENALTY): with a positive
   "penalty" the zero boundary of Smith-Waterman is not optimal. *)
Theorem C03_sw_align_optimal :
  forall (A B : list Z) (sc : list (Z * Z * Q)) (gap : Q), gap <= 0 -> A <> [] -> B <> [] ->
    match sw_align A B sc gap with
    | SW _ _ _ _ _ _ s =>
        0 <= s /\
        (forall i0 j0 ms, (i0 + cntB ms <= length B)%nat -> (j0 + cntA ms <= length A)%nat ->
           scoreP (fun _ _ => gap) (fun _ _ => gap) (fun i j => sAB A B sc i j) i0 j0 ms <= s) /\
        (exists i0 j0 ms, (i0 + cntB ms <= length B)%nat /\ (j0 + cntA ms <= length A)%nat /\
           scoreP (fun _ _ => gap) (fun _ _ => gap) (fun i j => sAB A B sc i j) i0 j0 ms == s)
    | SWError => False
    end.
Proof. exact sw_align_optimal. Qed.
Print Assumptions C03_sw_align_optimal.

(* edit_dist is the Levenshtein distance: the least number of substitutions, insertions and
   deletions over all edit scripts, attained by some script *)
Theorem C03_edit_dist_levenshtein :
  forall (A B : list Z),
    (forall ms, cntB ms = length B -> cntA ms = length A -> (edit_dist A B <= edit_cost A B 0 0 ms)%Z) /\
    (exists ms, cntB ms = length B /\ cntA ms = length A /\ edit_cost A B 0 0 ms = edit_dist A B).
Proof. exact edit_dist_levenshtein. Qed.
Print Assumptions C03_edit_dist_levenshtein.

(* bounded by the longer length (and below by the length difference) *)
Theorem C03_edit_dist_bounds :
  forall (A B : list Z),
    (Z.abs (Z.of_nat (length A) - Z.of_nat (length B)) <= edit_dist A B <=
     Z.max (Z.of_nat (length A)) (Z.of_nat (length B)))%Z.
Proof. exact edit_dist_bounds. Qed.
Print Assumptions C03_edit_dist_bounds.

(* hence edit_dist is a metric on sequences *)
Theorem C03_edit_dist_metric :
  forall (A B C : list Z),
    (0 <= edit_dist A B)%Z /\ (edit_dist A B = 0%Z <-> A = B) /\
    edit_dist A B = edit_dist B A /\ (edit_dist A C <= edit_dist A B + edit_dist B C)%Z.
Proof.
  exact (fun A B C => conj (edit_dist_nonneg A B)
    (conj (conj (edit_dist_zero_eq A B) (fun E => eq_ind A (fun X => edit_dist A X = 0%Z) (edit_dist_self A) B E))
    (conj (edit_dist_sym A B) (edit_dist_triangle A B C)))).
Qed.
Print Assumptions C03_edit_dist_metric.

(* the normalised edit distance (edit_dist(..., normalized=True)): Levenshtein distance over the longer length,
   in [0, 1], 0 exactly for equal sequences; no value for two empty sequences (the Python divides by zero) *)
Theorem C03_edit_dist_normalised :
  forall (A B : list Z), A <> [] \/ B <> [] ->
    exists q, edit_dist_norm A B = Some q /\
      (q == inject_Z (edit_dist A B) / inject_Z (Z.of_nat (Nat.max (length A) (length B))))%Q /\
      (0 <= q)%Q /\ (q <= 1)%Q /\ ((q == 0)%Q <-> A = B).
Proof. exact edit_dist_norm_spec. Qed.
Print Assumptions C03_edit_dist_normalised.

Example C03_edit_dist_normalised_instance :
  edit_dist_norm [1; 2; 3]%Z [1; 3]%Z = Some (1 # 3)%Q /\ edit_dist_norm [] [] = None.
Proof. split; vm_compute; reflexivity. Qed.

(* Self-distance: for EVERY shipped sound-class model with a scoring matrix (the list
   [shipped_scorers] and its finite obligation are regenerated from /repo/src/lingpy/data/models/*/matrix
   on every run), every word over the model's inventory (classes in the range of its converter), every
   prosodic string, gap weights with non-positive penalties, scale >= 0, factor >= 0 - at EVERY scale,
   not only scale = 1 - and global, overlap and local mode, primary or secondary: the similarity of the
   word with itself is its self-score, so the normalised distance is 0 (guard: self-score <> 0,
   otherwise the Python divides by zero).  Dialign mode: next theorem. *)
Theorem C03_self_distance_zero_shipped :
  forall cs sc, In (cs, sc) shipped_scorers ->
  forall (p : cin) (md : mode) (sec : bool),
    scorer p = sc -> md <> Dialign ->
    seqB p = seqA p -> proB p = proA p ->
    (forall a, In a (seqA p) -> In a cs) ->
    (forall k, nthQ (gopA p) k <= 0) -> (forall k, nthQ (gopB p) k <= 0) ->
    0 <= scale p -> 0 <= factor p -> seqA p <> [] ->
    match align p md sec with
    | RGlobal _ _ sim => sim == self2 p /\ (~ self2 p == 0 -> distance p sim == 0)
    | RLocal _ _ _ _ _ _ sim => sim == self2 p /\ (~ self2 p == 0 -> distance p sim == 0)
    | RError => False
    end.
Proof. exact shipped_self_similarity. Qed.
Print Assumptions C03_self_distance_zero_shipped.

(* ... and dialign mode, primary or secondary (the dialign recurrence has no gap costs, so there is no
   condition on weights, gop or scale): every mode of every shipped model is covered *)
Theorem C03_self_distance_zero_shipped_dialign :
  forall cs sc, In (cs, sc) shipped_scorers ->
  forall (p : cin) (sec : bool),
    scorer p = sc -> seqB p = seqA p -> proB p = proA p ->
    (forall a, In a (seqA p) -> In a cs) ->
    0 <= factor p -> seqA p <> [] ->
    match align p Dialign sec with
    | RGlobal _ _ sim => sim == self2 p /\ (~ self2 p == 0 -> distance p sim == 0)
    | _ => False
    end.
Proof. exact shipped_self_similarity_dialign. Qed.
Print Assumptions C03_self_distance_zero_shipped_dialign.

(* the abstract version: any scorer that is non-negative on the diagonal and dominated by the
   average of the two diagonal entries on the symbols of the word *)
Theorem C03_self_similarity :
  forall (p : cin) (md : mode) (sec : bool), md <> Dialign ->
    seqB p = seqA p -> proB p = proA p ->
    (forall k, nthQ (gopA p) k <= 0) -> (forall k, nthQ (gopB p) k <= 0) ->
    0 <= scale p -> 0 <= factor p ->
    (forall a, In a (seqA p) -> 0 <= score_lookup (scorer p) a a) ->
    (forall a b, In a (seqA p) -> In b (seqA p) ->
       (2 # 1) * score_lookup (scorer p) a b <= score_lookup (scorer p) a a + score_lookup (scorer p) b b) ->
    seqA p <> [] ->
    match align p md sec with
    | RGlobal _ _ sim => sim == self2 p
    | RLocal _ _ _ _ _ _ sim => sim == self2 p
    | RError => False
    end.
Proof. exact self_similarity. Qed.
Print Assumptions C03_self_similarity.

(* the guard of the local theorem is necessary: with a positive gap "penalty" sw_align misses
   the optimum (a/a with gap +1: the matrix gives 1, the alignment a-/-a ... scores 2) *)
Example C03_sw_guard_needed :
  exists A B sc gap ms, ~ gap <= 0 /\
    match sw_align A B sc gap with
    | SW _ _ _ _ _ _ s => ~ scoreP (fun _ _ => gap) (fun _ _ => gap) (fun i j => sAB A B sc i j) 0 0 ms <= s
    | SWError => False
    end.
Proof.
  exists [1%Z], [2%Z], [(1%Z, 2%Z, -1)], 1, [MA; MB]. vm_compute. split; intros H; apply H; reflexivity.
Qed.

(* non-vacuity *)
Example C03_instance : edit_dist [1; 2; 3; 4]%Z [2; 3; 5]%Z = 2%Z.
Proof. vm_compute. reflexivity. Qed.
