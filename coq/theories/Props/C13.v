(* C13 - Saving a wordlist and loading it again loses nothing.
   Property theorems only; each is closed by [exact] and followed by Print Assumptions.
   Model: Wordlist/SerializeStr.v (strings as code points), SerializeNum.v (number formats),
   Serialize.v (wl2qlc, read_qlc, QLCParser conversion, LexStat derived columns and pairs);
   the namespace table is LVGen.NamespaceRc.namespace_rc, regenerated from data/conf/wordlist.rc.

   <msa> blocks (msa2str inside wl2qlc, read_qlc + _list2msa) and the state Alignments.add_alignments rebuilds from
   the columns are modelled in Wordlist/SerializeMsa.v (theorems C13_msa_*, C13_alignments_state_roundtrip below).
   NOT PROVED (tested on the implementation only, see notes/design/C13.md): that the saved object's own msa state
   agrees with its ALIGNMENT column (an invariant of Alignments.align / _msa2col, checked on every generated case by
   the correspondence bit), MERGE/COMPLEX lines, string ids, a consensus longer than the alignment (msa2str raises). *)
From Coq Require Import QArith Qabs ZArith List Bool Permutation.
From LV Require Import Wordlist.SerializeStr Wordlist.SerializeStrProofs Wordlist.SerializeNum Wordlist.SerializeNumProofs
  Wordlist.Serialize Wordlist.SerializeProofs Wordlist.SerializeBlockProofs Wordlist.SerializeMsa
  Wordlist.SerializeMsaProofs Wordlist.SerializeExec Wordlist.SerializeExecProofs Wordlist.SerializeHistoryProofs Wordlist.SerializeFileProofs.
From LVGen Require Import NamespaceRc.
Import ListNotations.
Local Open Scope Z_scope.

(* ---- the string lemmas the rest stands on ---- *)
Theorem C13_split_join : forall sep xs, xs <> [] -> Forall (fun x => ~ In sep x) xs ->
  split_on sep (join [sep] xs) = xs.
Proof. exact split_join. Qed.
Print Assumptions C13_split_join.

Theorem C13_split_ws_join : forall xs, Forall item_ok xs -> split_ws (join [32] xs) = xs.
Proof. exact split_ws_join. Qed.
Print Assumptions C13_split_ws_join.

Theorem C13_strip_stripped : forall s, strippedb s = true -> strip s = s.
Proof. exact strip_stripped. Qed.
Print Assumptions C13_strip_stripped.

Theorem C13_int_roundtrip : forall z, parse_int (show_int z) = Some z.
Proof. exact parse_show_int. Qed.
Print Assumptions C13_int_roundtrip.

(* ---- cells: for every converter class and every value of the type it produces, inside the guard
   (strings free of TAB/LF/CR and of blanks at the ends; list items non-empty and blank-free; the
   split(" ") classes, which never produce an empty list, on non-empty lists): value AND type ---- *)
Theorem C13_cell_roundtrip : forall k v, cell_okb k v = true ->
  parse_cell k (show_cell v) = v /\ kind_of v = produces k.
Proof. exact (fun k v H => conj (cell_roundtrip k v H) (cell_roundtrip_kind k v H)). Qed.
Print Assumptions C13_cell_roundtrip.

Example C13_cell_guard_inhabited :
  cell_okb KStr (VStr [104; 230; 110; 32; 100]) = true /\ cell_okb KInteger (VInt (-7)) = true
  /\ cell_okb KBLists (VList [[104]; [230]; [110; 771]]) = true /\ cell_okb KIntsWs (VInts [3; -1; 0]) = true
  /\ cell_okb KFloatsWs (VFloats [mk_dec false 2 [0]; mk_dec false 0 [8]]) = true
  /\ cell_okb KSplitSp (VList [[97]; [98]]) = true /\ cell_okb KSplitWs (VList []) = true.
Proof. vm_compute. repeat split. Qed.

(* ---- files: rows, ids, columns; plain and prettified; any closed meta/block section, any stamp ---- *)
Theorem C13_file_roundtrip : forall tbl pretty pre stamp w,
  wl_okb tbl w = true -> closed_pre pre -> Forall skipline stamp ->
  exists ls, write pretty pre stamp w = Ok ls /\ read tbl ls = Ok (mk_wl (wl_cols w) (sorted_rows w)).
Proof. exact file_roundtrip. Qed.
Print Assumptions C13_file_roundtrip.

Theorem C13_file_roundtrip_text : forall tbl pretty pre stamp w,
  wl_okb tbl w = true -> closed_pre pre -> Forall skipline stamp -> lf_free pre -> lf_free stamp ->
  exists text, write_text pretty pre stamp w = Ok text
               /\ read_text tbl text = Ok (mk_wl (wl_cols w) (sorted_rows w)).
Proof. exact file_roundtrip_text. Qed.
Print Assumptions C13_file_roundtrip_text.

(* the rows that come back are the rows that were saved: same multiset, and the same row under every id *)
Theorem C13_rows_preserved : forall tbl w, wl_okb tbl w = true ->
  Permutation (sorted_rows w) (wl_rows w)
  /\ forall id, lookup_row id (sorted_rows w) = lookup_row id (wl_rows w).
Proof.
  exact (fun tbl w H => conj (sorted_rows_perm w)
                             (sorted_rows_lookup w (ok_ids_nodup _ _ (wl_okb_ok tbl w H)))).
Qed.
Print Assumptions C13_rows_preserved.

Definition ex_wl : wl :=
  mk_wl [s_doculect; s_concept; c_tokens; [99; 111; 103; 105; 100]; [110; 111; 116; 101]]
        [ (3, [VStr [71; 101; 114]; VStr [104; 97; 110; 100]; VList [[104]; [97]; [110]; [116]]; VInt 1; VStr [120; 32; 121]]);
          (1, [VStr [69; 110; 103]; VStr [104; 97; 110; 100]; VList [[104]; [230]; [110]; [100]]; VInt 1; VStr []]);
          (2, [VStr [69; 110; 103]; VStr [97; 114; 109]; VList [[97]; [114]; [109]]; VInt 2; VStr [98]]) ].
Definition ex_pre : list str :=
  [[64; 118; 111; 119; 101; 108; 115; 58; 84]; [];
   [60; 115; 99; 111; 114; 101; 114; 32; 105; 100; 61; 34; 120; 34; 62]; [65; 9; 49; 46; 48; 48];
   [60; 47; 115; 99; 111; 114; 101; 114; 62]].
(* the guard is satisfiable by a real object, with a real meta / block section; the rows come back
   grouped by concept (arm before hand), every row intact *)
Example C13_file_roundtrip_inhabited :
  wl_okb namespace_rc ex_wl = true /\ closed_pre ex_pre
  /\ (exists ls, write true ex_pre [[35; 32; 115]] ex_wl = Ok ls
                 /\ read namespace_rc ls = Ok (mk_wl (wl_cols ex_wl) (sorted_rows ex_wl)))
  /\ map fst (sorted_rows ex_wl) = [2; 3; 1].
Proof.
  split; [vm_compute; reflexivity|]. split; [split; [split|]; vm_compute; reflexivity|].
  split; [|vm_compute; reflexivity].
  apply file_roundtrip; [vm_compute; reflexivity|split; [split|]; vm_compute; reflexivity|].
  repeat constructor.
Qed.

(* ---- histories save -> load -> save -> load ...: the object that was loaded (loaded w = the columns and the rows in
   the order written) is inside the guard again, saving it writes the SAME file, and any number of save -> load steps
   gives the object the first step gave ---- *)
Theorem C13_loaded_in_guard : forall tbl w, wl_okb tbl w = true -> wl_okb tbl (loaded w) = true.
Proof. exact loaded_in_guard. Qed.
Print Assumptions C13_loaded_in_guard.

Theorem C13_second_save_same_file : forall tbl pretty pre stamp w, wl_okb tbl w = true ->
  write pretty pre stamp (loaded w) = write pretty pre stamp w.
Proof. exact second_save_same_file. Qed.
Print Assumptions C13_second_save_same_file.

Theorem C13_history_roundtrip : forall tbl pretty pre stamp n w,
  wl_okb tbl w = true -> closed_pre pre -> Forall skipline stamp ->
  reload_n tbl pretty pre stamp (S n) w = Ok (loaded w).
Proof. exact history_roundtrip. Qed.
Print Assumptions C13_history_roundtrip.

(* three rounds on the example object: the rows stay grouped by concept (2; 3; 1), the first file is a fixpoint *)
Example C13_history_inhabited :
  reload_n namespace_rc true ex_pre [] 3 ex_wl = Ok (loaded ex_wl)
  /\ map fst (wl_rows (loaded ex_wl)) = [2; 3; 1] /\ wl_rows (loaded ex_wl) <> wl_rows ex_wl.
Proof.
  split; [apply history_roundtrip; [vm_compute; reflexivity|split; [split|]; vm_compute; reflexivity|constructor]|].
  split; [vm_compute; reflexivity|]. intros E. apply (f_equal (map fst)) in E. vm_compute in E. discriminate E.
Qed.

(* ---- derived LexStat columns against the REGENERATED table (the obligation that failed for
   `duplicates` before the fix) ---- *)
Theorem C13_derived_columns_typed : derived_columns_typedb namespace_rc = true.
Proof. vm_compute. reflexivity. Qed.
Print Assumptions C13_derived_columns_typed.

Theorem C13_derived_columns_roundtrip : forall c kd, In (c, kd) derived_columns ->
  alias_of namespace_rc c = c /\
  forall v, cell_okb (class_for kd) v = true ->
    parse_cell (class_of namespace_rc c) (show_cell v) = v /\ kind_of v = kd.
Proof. exact (derived_columns_roundtrip namespace_rc C13_derived_columns_typed). Qed.
Print Assumptions C13_derived_columns_roundtrip.

Example C13_duplicates_is_int :
  class_of namespace_rc c_duplicates = KInt /\ parse_cell (class_of namespace_rc c_duplicates) [49] = VInt 1.
Proof. vm_compute. split; reflexivity. Qed.

(* ---- derived analysis state: the word pairs of the loaded object are those of the saved one ---- *)
Theorem C13_pairs_roundtrip : forall tbl w taxa concepts, wl_okb tbl w = true ->
  pairs (wl_cols w) taxa concepts (sorted_rows w) = pairs (wl_cols w) taxa concepts (wl_rows w).
Proof. exact pairs_roundtrip. Qed.
Print Assumptions C13_pairs_roundtrip.

Example C13_pairs_nontrivial :
  pairs (wl_cols ex_wl) [[69; 110; 103]; [71; 101; 114]] [[97; 114; 109]; [104; 97; 110; 100]] (wl_rows ex_wl)
  = [([69; 110; 103], [69; 110; 103], [(2, 2); (1, 1)]); ([69; 110; 103], [71; 101; 114], [(1, 3)]);
     ([71; 101; 114], [71; 101; 114], [(3, 3)])].
Proof. vm_compute. reflexivity. Qed.

(* ---- distance matrices and scorers: read back = decimal rounding (half-even) of what was saved ---- *)
Theorem C13_fixed_parse : forall n x, parse_decQ (show_fixed n x) = Some (rn n x).
Proof. exact parse_show_fixed. Qed.
Print Assumptions C13_fixed_parse.

Theorem C13_r4_error : forall x, (Qabs (x - r4 x) <= 1 # 20000)%Q.
Proof. exact r4_error. Qed.
Print Assumptions C13_r4_error.

Theorem C13_r2_error : forall x, (Qabs (x - r2 x) <= 1 # 200)%Q.
Proof. exact r2_error. Qed.
Print Assumptions C13_r2_error.

Theorem C13_dst_roundtrip : forall taxa m,
  length taxa = length m -> Forall (fun t => hashb t = false) taxa -> Forall (fun r => r <> []) m ->
  read_dst_lines (dst_lines taxa m) = Some (map (map r4) m).
Proof. exact dst_block_roundtrip. Qed.
Print Assumptions C13_dst_roundtrip.

Theorem C13_scorer_roundtrip : forall chars m,
  (2 <= length chars)%nat -> length chars = length m ->
  Forall (fun c => ~ In 9 c) chars -> Forall (fun r => r <> []) m ->
  read_scorer_lines (scorer_lines chars m) = Some (combine chars (map (map r2) m)).
Proof. exact scorer_block_roundtrip. Qed.
Print Assumptions C13_scorer_roundtrip.

Theorem C13_dst_file_roundtrip : forall taxa m,
  length taxa = length m -> Forall (fun t => hashb t = false) taxa -> Forall (fun r => length r = length m) m ->
  read_dst_block (dst_lines taxa m) = Some (sym_upper (map (map r4) m)).
Proof. exact dst_file_roundtrip. Qed.
Print Assumptions C13_dst_file_roundtrip.

(* The two guards above are needed - the faithful model refutes the unguarded statements:
   a taxon name beginning with '#' turns its line of the <dst> block into a comment (read_dst) and loading
   raises; a scorer over a single symbol is written as one line, which read_scorer takes for a file name. *)
Theorem C13_dst_hash_name_refuted : exists taxa m,
  length taxa = length m /\ Forall (fun r => length r = length m) m /\ read_dst_block (dst_lines taxa m) = None.
Proof.
  exists [[35; 97]; [98]], [[0%Q; (1 # 2)%Q]; [(1 # 2)%Q; 0%Q]].
  split; [reflexivity|]. split; [repeat constructor|vm_compute; reflexivity].
Qed.
Print Assumptions C13_dst_hash_name_refuted.

Theorem C13_scorer_single_symbol_refuted : exists c row,
  ~ In 9 c /\ row <> [] /\ read_scorer_lines (scorer_lines [c] [row]) = None.
Proof.
  exists [65], [1%Q]. split; [intros [H|[]]; discriminate H|]. split; [discriminate|vm_compute; reflexivity].
Qed.
Print Assumptions C13_scorer_single_symbol_refuted.

(* 1/32 is an exact tie at the fifth decimal: written 0.0312 (half-even), read back as 312/10000;
   a name longer than the ten-character field does not disturb the numbers *)
Example C13_dst_nontrivial :
  show_fixed 4 (1 # 32)%Q = [48; 46; 48; 51; 49; 50] /\ (r4 (1 # 32) == 312 # 10000)%Q
  /\ read_dst_lines (dst_lines [[65]; [76; 111; 110; 103; 84; 97; 120; 111; 110; 78; 97; 109; 101]]
                               [[0%Q; (1 # 32)%Q]; [(1 # 32)%Q; 0%Q]])
     = Some [[r4 0%Q; r4 (1 # 32)%Q]; [r4 (1 # 32)%Q; r4 0%Q]].
Proof. split; [vm_compute; reflexivity|]. split; [vm_compute; reflexivity|]. apply dst_block_roundtrip; repeat constructor; discriminate. Qed.

(* ---- aligned wordlists: <msa> blocks ----
   guard msa_okb: as many ids and taxa as rows; at least one row; rows of one length >= 1; segments non-empty,
   blank-free, not ending in '.'; taxon names free of TAB/LF/CR and of blanks at the ends, not ending in '.';
   ids <> 0; LOCAL positions strictly increasing and inside the alignment; swaps (a, a+1, a+2) in increasing order,
   non-overlapping, inside the alignment; a consensus, if there is one, is non-empty and not longer than the alignment
   (msa2str raises on a longer one), and its segments
   are segments in the above sense without double quote, without '>' and without '-' inside a longer segment.
   The stamp lines are comment lines.  (Tag reader as repaired in b56b54e: quoted attribute values may hold blanks.) *)
Theorem C13_msa_roundtrip : forall stamp m, msa_okb m = true -> Forall (fun l => starts 35 l = true) stamp ->
  read_msa_body (msa_body stamp m)
  = Ok (mk_msa_read (m_ids m) (m_taxa m) (m_alm m) (map degap (m_alm m)) (m_local m) (m_swaps m) (m_cons m)).
Proof. exact msa_body_roundtrip. Qed.
Print Assumptions C13_msa_roundtrip.

(* the whole MSA section of a file: closed (the data part that follows is read as before) and every cognate
   set comes back under its reference column and id *)
Theorem C13_msa_section_roundtrip : forall ref ms, ref_ok ref -> Forall entry_ok ms ->
  closed_pre (msa_section ref ms)
  /\ read_msa_section (msa_section ref ms)
     = Ok (map (fun e => (ref, fst (fst e), expected_read (snd e))) ms).
Proof. exact msa_section_roundtrip. Qed.
Print Assumptions C13_msa_section_roundtrip.

(* alignments for several reference columns (add_alignments(ref=...)): one section per column; every cognate set of
   every column comes back under its column and id - in the section alone and in the whole file *)
Theorem C13_msa_sections_roundtrip : forall l, Forall section_ok l ->
  closed_pre (msa_sections l) /\ read_msa_section (msa_sections l) = Ok (expected_sections l).
Proof. exact msa_sections_roundtrip. Qed.
Print Assumptions C13_msa_sections_roundtrip.

Theorem C13_aligned_file_roundtrip_refs : forall tbl pretty stamp w l,
  wl_okb tbl w = true -> Forall section_ok l -> Forall skipline stamp ->
  exists ls, write pretty (msa_sections l) stamp w = Ok ls
    /\ read tbl ls = Ok (mk_wl (wl_cols w) (sorted_rows w))
    /\ read_msa_section ls = Ok (expected_sections l).
Proof. exact aligned_file_roundtrip_refs. Qed.
Print Assumptions C13_aligned_file_roundtrip_refs.

Theorem C13_aligned_file_roundtrip : forall tbl pretty stamp w ref ms,
  wl_okb tbl w = true -> ref_ok ref -> Forall entry_ok ms -> Forall skipline stamp ->
  exists ls, write pretty (msa_section ref ms) stamp w = Ok ls
    /\ read tbl ls = Ok (mk_wl (wl_cols w) (sorted_rows w))
    /\ read_msa_section ls = Ok (map (fun e => (ref, fst (fst e), expected_read (snd e))) ms).
Proof. exact aligned_file_roundtrip. Qed.
Print Assumptions C13_aligned_file_roundtrip.

Definition ex_msa : msa :=
  mk_msa [2; 1; 3] [[69; 110; 103]; [71; 101; 114; 109; 97; 110; 46; 65]; [82; 117]]
         [[[119]; [111]; [108]; [45]; [100]]; [[119]; [97]; [108]; [45]; [100]]; [[118]; [45]; [108]; [97]; [100]]]
         [0%nat; 4%nat] [(1%nat, 2%nat, 3%nat)] (Some [[119]; [111]; [108]; [45]; [100]]).
Example C13_msa_guard_inhabited :
  msa_okb ex_msa = true /\ ref_ok c_cogid
  /\ msa_body [] ex_msa
     = [[35]; [48; 9; 67; 79; 76; 85; 77; 78; 73; 68; 9; 49; 9; 50; 9; 51; 9; 52; 9; 53]; [35];
        [48; 9; 76; 79; 67; 65; 76; 46; 46; 46; 9; 42; 9; 46; 9; 46; 9; 46; 9; 42];
        [48; 9; 67; 82; 79; 83; 83; 69; 68; 46; 9; 46; 9; 43; 9; 45; 9; 43; 9; 46];
        [48; 9; 67; 79; 78; 83; 69; 78; 83; 85; 83; 9; 119; 9; 111; 9; 108; 9; 45; 9; 100]; [35];
        [50; 9; 69; 110; 103; 46; 46; 46; 46; 46; 9; 119; 9; 111; 9; 108; 9; 45; 9; 100];
        [49; 9; 71; 101; 114; 109; 97; 110; 46; 65; 9; 119; 9; 97; 9; 108; 9; 45; 9; 100];
        [51; 9; 82; 117; 46; 46; 46; 46; 46; 46; 9; 118; 9; 45; 9; 108; 9; 97; 9; 100]].
Proof. split; [vm_compute; reflexivity|]. split; [repeat split; intros I; cbn in I; tauto || (repeat (destruct I as [I|I]; [discriminate I|]); exact I)|vm_compute; reflexivity]. Qed.

(* a consensus with fewer segments than columns (get_consensus(gaps=False)): msa2str pads the CONSENSUS line to the
   width of the alignment, _list2msa drops the padding again (fix 1c54340; before it the value came back as h a '') *)
Example C13_msa_short_consensus_roundtrip :
  let m := mk_msa [2; 1] [[65]; [66]] [[[104]; [97]; [45]]; [[104]; [111]; [116]]] [] [] (Some [[104]; [97]]) in
  msa_okb m = true
  /\ read_msa_section (msa_section c_cogid [(1, [], m)]) = Ok [(c_cogid, 1, expected_read m)]
  /\ r_cons (expected_read m) = Some [[104]; [97]].
Proof. repeat split; vm_compute; reflexivity. Qed.

(* a taxon name ending in '.' comes back without the dots (rstrip('.') on the dot-padded name) *)
Theorem C13_msa_taxon_dot_refuted : exists m r,
  read_msa_body (msa_body [] m) = Ok r /\ r_ids r = m_ids m /\ r_alm r = m_alm m /\ r_taxa r <> m_taxa m.
Proof.
  exists (mk_msa [2; 1] [[65; 46]; [66]] [[[104]; [97]]; [[104]; [111]]] [] [] None).
  eexists. split; [vm_compute; reflexivity|]. repeat split. discriminate.
Qed.
Print Assumptions C13_msa_taxon_dot_refuted.

(* ---- aligned wordlists written WITHOUT the blocks: the state add_alignments rebuilds from the columns ----
   (the words of one doculect in id order, fix 246780d: no condition on the cognate sets is needed) *)
Theorem C13_alignments_state_roundtrip : forall tbl w ref taxa cogids,
  wl_okb tbl w = true ->
  alignments_state (wl_cols w) ref taxa cogids (sorted_rows w)
  = alignments_state (wl_cols w) ref taxa cogids (wl_rows w).
Proof. exact alignments_state_roundtrip. Qed.
Print Assumptions C13_alignments_state_roundtrip.

Definition ex_cross : wl :=
  mk_wl [s_doculect; s_concept; c_tokens; c_cogid]
        [ (9, [VStr [69]; VStr [104; 97; 110; 100]; VList [[104]; [97]]; VInt 2]);
          (5, [VStr [69]; VStr [97; 114; 109]; VList [[104]; [111]]; VInt 2]) ].
(* one doculect, one cognate set, two concepts: the file holds the rows in the order 5 (arm), 9 (hand), the object
   9, 5 - the rebuilt cognate set lists the words 5, 9 either way (before 246780d: 9, 5 against 5, 9) *)
Example C13_alignments_state_cross_concept :
  wl_okb namespace_rc ex_cross = true
  /\ map fst (sorted_rows ex_cross) = [5; 9] /\ map fst (wl_rows ex_cross) = [9; 5]
  /\ map (fun e => r_ids (snd e)) (alignments_state (wl_cols ex_cross) c_cogid [[69]] [2] (wl_rows ex_cross)) = [[5; 9]]
  /\ map (fun e => r_ids (snd e)) (alignments_state (wl_cols ex_cross) c_cogid [[69]] [2] (sorted_rows ex_cross)) = [[5; 9]].
Proof. repeat split; vm_compute; reflexivity. Qed.

Example C13_alignments_state_inhabited :
  map (fun e => (fst e, r_ids (snd e))) (alignments_state (wl_cols ex_wl) c_cogid [[69; 110; 103]; [71; 101; 114]] [1; 2] (wl_rows ex_wl))
     = [(1, [1; 3])].
Proof. vm_compute; reflexivity. Qed.

(* ---- the whole file: MSA sections, the <dst> block and the <scorer> blocks inside the meta part, read by the file
   reader (block collection, tag parsing), then the data.  Guards: taxon names neither starting with '#' (F12) nor with
   '<', a square matrix; scorer ids without '>' and double quote, at least two symbols (F13), symbols non-empty, TAB-free,
   not starting with '<', non-empty rows ---- *)
Theorem C13_meta_part_roundtrip : forall l dst sc, Forall section_ok l ->
  match dst with Some d => dst_ok d | None => True end -> Forall scorer_ok sc ->
  closed_pre (meta_part l dst sc)
  /\ (let bs := meta_blocks l dst sc in
      read_msas bs = Ok (expected_sections l)
      /\ read_distances bs None
         = Ok (match dst with Some (taxa, m) => Some (sym_upper (map (map r4) m)) | None => None end)
      /\ read_scorers bs
         = Ok (map (fun e => (fst (fst e), combine (snd (fst e)) (map (map r2) (snd e)))) sc)).
Proof. exact meta_part_roundtrip. Qed.
Print Assumptions C13_meta_part_roundtrip.

Theorem C13_full_file_roundtrip : forall tbl pretty stamp w l dst sc,
  wl_okb tbl w = true -> Forall section_ok l ->
  match dst with Some d => dst_ok d | None => True end -> Forall scorer_ok sc -> Forall skipline stamp ->
  exists ls blocks,
    write pretty (meta_part l dst sc) stamp w = Ok ls
    /\ read tbl ls = Ok (mk_wl (wl_cols w) (sorted_rows w))
    /\ (exists data meta, read_raw ls = Ok (data, blocks, meta))
    /\ read_msas blocks = Ok (expected_sections l)
    /\ read_distances blocks None
       = Ok (match dst with Some (taxa, m) => Some (sym_upper (map (map r4) m)) | None => None end)
    /\ read_scorers blocks = Ok (map (fun e => (fst (fst e), combine (snd (fst e)) (map (map r2) (snd e)))) sc).
Proof. exact full_file_roundtrip. Qed.
Print Assumptions C13_full_file_roundtrip.

Definition ex_dst : list str * list (list Q) := ([[65]; [76; 111; 110; 103; 84; 97; 120; 111; 110; 78; 97; 109; 101]],
                                                [[0%Q; (1 # 32)%Q]; [(1 # 32)%Q; 0%Q]]).
Definition ex_sc : str * list str * list (list Q) :=
  ([98; 115], [[49; 46; 65]; [50; 46; 66]], [[(5 # 1)%Q; (- (1 # 8))%Q]; [(3 # 8)%Q; (5 # 1)%Q]]).
(* the guards are satisfiable together: one cognate set, a distance matrix with a rounding tie, one scorer *)
Example C13_full_file_inhabited :
  Forall section_ok [(c_cogid, [(1, [], ex_msa)])] /\ dst_ok ex_dst /\ Forall scorer_ok [ex_sc]
  /\ (let bs := meta_blocks [(c_cogid, [(1, [], ex_msa)])] (Some ex_dst) [ex_sc] in
      length bs = 3%nat
      /\ read_distances bs None = Ok (Some (sym_upper (map (map r4) (snd ex_dst))))
      /\ read_scorers bs = Ok [([98; 115], combine (snd (fst ex_sc)) (map (map r2) (snd ex_sc)))]).
Proof.
  assert (S : Forall section_ok [(c_cogid, [(1, [], ex_msa)])]).
  { constructor; [|constructor]. split; [split; intros I; cbn in I; repeat (destruct I as [I|I]; [discriminate I|]); exact I|].
    constructor; [|constructor]. split; [vm_compute; reflexivity|constructor]. }
  assert (D : dst_ok ex_dst).
  { split; [reflexivity|]. split; repeat constructor. }
  assert (C : Forall scorer_ok [ex_sc]).
  { constructor; [|constructor]. unfold scorer_ok, ex_sc. cbn [fst snd].
    split; [split; intros I; cbn in I; repeat (destruct I as [I|I]; [discriminate I|]); exact I|]. split.
    - repeat constructor; try discriminate; intros I; cbn in I; repeat (destruct I as [I|I]; [discriminate I|]); exact I.
    - split; [cbn; repeat constructor|]. split; [reflexivity|]. repeat constructor; discriminate. }
  split; [exact S|]. split; [exact D|]. split; [exact C|].
  destruct (meta_part_roundtrip _ (Some ex_dst) _ S D C) as [_ [_ [R2 R3]]].
  cbv zeta. split; [reflexivity|]. split; [exact R2|exact R3].
Qed.

(* ---- the checkers that run on the implementation's output ---- *)
Theorem C13_checker_sound : forall w loaded, same_objectb w loaded = true ->
  exists w', loaded = Ok w' /\ wl_cols w' = wl_cols w /\ length (wl_rows w') = length (wl_rows w)
    /\ NoDup (map fst (wl_rows w'))
    /\ forall r, In r (wl_rows w) -> exists cells, lookup_row (fst r) (wl_rows w') = Some cells
                                   /\ Forall2 (fun x y => cell_eqb x y = true) (snd r) cells.
Proof. exact same_objectb_sound. Qed.
Print Assumptions C13_checker_sound.

Theorem C13_cell_eqb_sound : forall a b, cell_eqb a b = true ->
  a = b \/ (exists x y, a = VFloat x /\ b = VFloat y /\ (x == y)%Q) \/ (empty_list a /\ empty_list b).
Proof. exact cell_eqb_sound. Qed.
Print Assumptions C13_cell_eqb_sound.

(* the <msa> checker (bit 7) compares with Leibniz equality *)
Theorem C13_msa_checker_sound : forall a b, triples_eqb a b = true -> a = b.
Proof. exact msa_triples_eqb_eq. Qed.
Print Assumptions C13_msa_checker_sound.

Theorem C13_checker_complete : forall tbl pretty pre stamp w,
  wl_okb tbl w = true -> closed_pre pre -> Forall skipline stamp ->
  exists ls, write pretty pre stamp w = Ok ls /\ same_objectb w (read tbl ls) = true.
Proof. exact roundtrip_checker_complete. Qed.
Print Assumptions C13_checker_complete.
