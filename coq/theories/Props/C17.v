(* C17 - Shared-cognate distances and presence/absence patterns match the rows.
   Property theorems only; each is closed by [exact] and followed by Print
   Assumptions.  Model: Wordlist/Dist.v (ops.get_score in 'swadesh' mode and
   ops.wl2dst over exact rationals) and Wordlist/Paps.v (Wordlist.get_paps), on
   top of the wordlist model of C12 (Rows.v, Index.v, Views.v).

   [dst_entry D ri X ref ignore i j] is entry (i, j) of the matrix wl2dst builds;
   [dst_decl] is the property's formula on the rows alone (Dist.v, section Decl);
   [pap_decl3] is the property's pattern on the rows alone (Paps.v, section Decl). *)
From Coq Require Import ZArith QArith List Bool String.
From LV Require Import Common.Cases Wordlist.Rows Wordlist.RowsProofs Wordlist.Index Wordlist.IndexProofs
     Wordlist.Views Wordlist.ViewsProofs Wordlist.Dist Wordlist.DistProofs Wordlist.Paps Wordlist.PapsProofs
     Wordlist.WordlistExec Wordlist.WordlistCheck Wordlist.WordlistCheckProofs.
From LVGen Require Import WordlistRc.
Import ListNotations.
Local Open Scope Z_scope.

(* the matrix is what dst_entry says, position by position *)
Theorem C17_dst_matrix :
  forall (D : list row) (ri : nat) (X : index) (ref : nat) (ignore : bool) (i j : nat),
    (i < List.length (x_cols X))%nat -> (j < List.length (x_cols X))%nat ->
    nth j (nth i (wl2dst D ri X ref ignore) []) 0%Q = dst_entry D ri X ref ignore i j.
Proof. exact wl2dst_entry. Qed.
Print Assumptions C17_dst_matrix.

(* symmetric: the code evaluates the score once per unordered pair and stores it twice *)
Theorem C17_dst_symmetric :
  forall (D : list row) (ri : nat) (X : index) (ref : nat) (ignore : bool) (i j : nat),
    dst_entry D ri X ref ignore i j = dst_entry D ri X ref ignore j i.
Proof. exact dst_symmetric. Qed.
Print Assumptions C17_dst_symmetric.

Theorem C17_dst_zero_diag :
  forall (D : list row) (ri : nat) (X : index) (ref : nat) (ignore : bool) (i : nat),
    dst_entry D ri X ref ignore i i = 0%Q.
Proof. exact dst_zero_diag. Qed.
Print Assumptions C17_dst_zero_diag.

(* every entry is in [0, 1] - for any state whatsoever: the count of shared
   concepts never exceeds the count of concepts that are not missing *)
Theorem C17_dst_range :
  forall (D : list row) (ri : nat) (X : index) (ref : nat) (ignore : bool) (i j : nat),
    (0 <= dst_entry D ri X ref ignore i j /\ dst_entry D ri X ref ignore i j <= 1)%Q.
Proof. exact dst_range. Qed.
Print Assumptions C17_dst_range.

(* dst_formula: for a well-formed wordlist, the entry of two different languages
   li, lj equals 1 - (number of concepts in which a row of li and a row of lj carry
   equal values in the reference column) / (number of concepts both attest - or of
   all concepts when missing data is ignored); 1 when that denominator is 0 (the
   logged ZeroDivisionError branch) *)
Theorem C17_dst_formula :
  forall (K : keys) (w : wl) (ref : nat) (ignore : bool) (i j : nat) (li lj : Z),
    wf K w -> i <> j ->
    nth_error (x_cols (w_index w)) i = Some li -> nth_error (x_cols (w_index w)) j = Some lj ->
    dst_entry (w_data w) (w_ri w) (w_index w) ref ignore i j =
    let D := w_data w in let ri := w_ri w in let ci := w_ci w in
    let both := filter (fun c => attested D ri ci c li && attested D ri ci c lj) (x_rows (w_index w)) in
    let shared := filter (fun c => shares D ri ci ref c li lj) both in
    score_of (Z.of_nat (List.length shared))
             (Z.of_nat (if ignore then List.length (x_rows (w_index w)) else List.length both)).
Proof. exact wf_dst_formula. Qed.
Print Assumptions C17_dst_formula.

(* score_of is 1 - s/d, and 1 for d = 0 *)
Theorem C17_score_of :
  forall s d : Z, (d <> 0 -> score_of s d = (1 - inject_Z s / inject_Z d)%Q) /\ (d = 0 -> score_of s d = 1%Q).
Proof. exact score_of_spec. Qed.
Print Assumptions C17_score_of.

(* paps_exact: get_paps (meanings read from the concept column) returns one
   pattern per cognate id of the etymological dictionary (C12_etymdict_keys: the
   ids carried by some row), and the entry for language l is
     Present  iff a row of language l carries the id;
     otherwise, when all rows carrying the id have one and the same (non-empty)
     concept m:  Missing iff no row has concept m and language l, else Absent;
     otherwise (several concepts) Absent.
   [pap_code marker] renders Present / Absent / Missing as 1 / 0 / marker. *)
Theorem C17_paps_exact :
  forall (K : keys) (w : wl) (ref : nat),
    wf K w -> key_inj K (map (rkey (w_ci w)) (w_data w)) ->
    get_paps (w_data w) (w_ci w) (w_index w) ref (w_ri w) =
    Some (map (fun kv => (fst kv, map (pap_decl3 (w_data w) (w_ri w) (w_ci w) ref (fst kv)) (x_cols (w_index w))))
              (get_etymdict (w_data w) (w_ci w) (w_index w) ref)).
Proof. exact wf_paps_exact. Qed.
Print Assumptions C17_paps_exact.

(* the declarative pattern, spelled out *)
Theorem C17_pap_decl3_meaning :
  forall (D : list row) (ri ci ref : nat) (cog l : Z),
    pap_decl3 D ri ci ref cog l =
    if existsb (fun r => (rkey ci r =? l) && zmem cog (carried ref r)) D then Present
    else match zdedup (map (rkey ri) (filter (fun r => zmem cog (carried ref r)) D)) with
         | [m] => if truthyZ m && is_nil (cellrows D ri ci m l) then Missing else Absent
         | _ => Absent
         end.
Proof. exact (fun D ri ci ref cog l => eq_refl). Qed.
Print Assumptions C17_pap_decl3_meaning.

(* ---- the checkers that run on the implementation's outputs ------------------- *)
Theorem C17_checker_dst :
  forall (S : snapshot) (ri ci ref : nat) (ignore : bool) (m : list (list Q)),
    dst_one_b S ri ci ref ignore m = true ->
    forall i j, (i < List.length (s_cols S))%nat -> (j < List.length (s_cols S))%nat ->
      (qget m i j == qget m j i)%Q /\ (0 <= qget m i j)%Q /\ (qget m i j <= 1)%Q /\
      (i = j -> (qget m i j == 0)%Q) /\
      (i <> j -> (qget m i j == dst_decl (s_data S) ri ci (s_rows S) ref ignore (nth_Z (s_cols S) i) (nth_Z (s_cols S) j))%Q).
Proof. exact dst_one_b_spec. Qed.
Print Assumptions C17_checker_dst.

Theorem C17_checker_paps :
  forall (S : snapshot) (ri ci ref : nat) (marker : Z) (p : list (Z * list Z)),
    paps_one_b S ri ci ref marker p = true ->
    NoDup (map fst p) /\
    (forall cog, In cog (map fst p) <-> exists r, In r (s_data S) /\ In cog (carried ref r)) /\
    forall cog vec, In (cog, vec) p ->
      vec = map (fun l => pap_code marker (pap_decl3 (s_data S) ri ci ref cog l)) (s_cols S).
Proof. exact paps_one_b_spec. Qed.
Print Assumptions C17_checker_paps.

(* ---- non-vacuity ------------------------------------------------------------- *)
(* languages 1001, 1002, 1003; concepts 1010, 1011; column 2 holds cognate ids.
   1001 and 1002 share id 1 in concept 1010 and id 3 in 1011; 1003 attests 1010 only *)
Definition exK : keys := {| lowk := fun x => x; rawk := fun x => x |}.
Definition exD : list row :=
  [ (5,  [Atom 1002; Atom 1010; Atom 1]);
    (2,  [Atom 1001; Atom 1010; Atom 1]);
    (9,  [Atom 1002; Atom 1010; Atom 2]);
    (7,  [Atom 1001; Atom 1011; Atom 3]);
    (40, [Atom 1003; Atom 1010; Atom 2]);
    (11, [Atom 1002; Atom 1011; Atom 3]) ].

Example ex_dst : exists w, build wordlist_rc exK ["doculect"; "concept"; "cogid"]%string exD = Some w /\
  wf exK w /\
  list_eqb (list_eqb Qeq_bool) (wl2dst (w_data w) (w_ri w) (w_index w) 2 false) [[0; 0; 1]; [0; 0; 0]; [1; 0; 0]]%Q = true /\
  list_eqb (list_eqb Qeq_bool) (wl2dst (w_data w) (w_ri w) (w_index w) 2 true) [[0; 0; 1]; [0; 0; 1#2]; [1; 1#2; 0]]%Q = true /\
  option_map (map (fun kv => (fst kv, map (pap_code (-1)) (snd kv))))
             (get_paps (w_data w) (w_ci w) (w_index w) 2 (w_ri w))
  = Some [(1, [1; 1; 0]); (2, [0; 1; 1]); (3, [1; 1; -1])].
Proof.
  destruct (build wordlist_rc exK ["doculect"; "concept"; "cogid"]%string exD) as [w|] eqn:E;
    [|vm_compute in E; discriminate].
  exists w. split; [reflexivity|]. split.
  - apply (build_wf wordlist_rc exK ["doculect"; "concept"; "cogid"]%string exD); [|exact E].
    vm_compute. repeat constructor; cbn; intuition discriminate.
  - vm_compute in E. inversion E. subst w. vm_compute. auto.
Qed.
