(* C20 - Sound-class models load correctly whatever state the user cache is in.

   PARTIAL, and what is missing: the model cannot exhibit pickle or the file system.  A cache
   file is an abstract content with an encoder `enc` (pickle.dump) and a decoder `dec`
   (pickle.load; None = it raises).  What is proved is the fallback logic of the start-up
   (Model.__init__ / load_dvt: try load, on ANY failure compile from the data files and load
   again; compile_model / compile_dvt: which entries they write; the module-level sequence of
   settings.py, regenerated from the source into LVGen.SettingsModels) for EVERY cache state,
   under two explicit premises about the decoder:
       dec (enc v) = Some v                                 (a complete pickle unpickles)
       enc v = c ++ r, r <> []  ->  dec c = None            (the DECODER HYPOTHESIS: the empty
                                                             file and every strict prefix of a
                                                             complete pickle fail to unpickle)
   The decoder hypothesis is not proved; it is recorded in the trusted base and checked by
   the harness on every damaged file of every run.  The full property text ("importing the
   library ... succeeds and yields the same converters ...") is therefore shown for the model;
   the tie to the real files is the fault enumeration of harness/props/C20.py.

   Model: Runtime/Cache.v; proofs: Runtime/CacheProofs.v, Runtime/CacheExecProofs.v. *)
From Coq Require Import String List Bool ZArith.
From LV Require Import Runtime.Cache Runtime.CacheProofs Runtime.CacheExec Runtime.CacheExecProofs.
From LVGen Require Import SettingsModels.
Import ListNotations.
Local Open Scope string_scope.

(* ---- the clauses, for any codec with the round-trip property, any data values, any data
        directories and any start-up sequence passing the guard [wf_seq] (= the situations in
        which the real code raises whatever the cache holds: a model without converter / INFO
        file, a `scorer.bin` without `matrix`, a custom dvt directory), and any cache state
        that is [sane]: a governed file either does not unpickle or unpickles to the object
        built from the data files ------------------------------------------------------------ *)

(* for every cache state the start returns: never an exception, never outside the model *)
Theorem C20_import_total :
  forall (value content : Type) (enc : value -> content) (dec : content -> option value)
         (conv_of scorer_of dvt_of : string -> value),
    (forall v, dec (enc v) = Some v) ->
    forall (D : dirs) (seq : list step) (s : cstate content),
      sane dec conv_of dvt_of s -> wf_seq D seq = true ->
      exists s' ev vs, import_run enc dec conv_of scorer_of dvt_of D seq s = Ok (s', ev, vs).
Proof. exact import_total. Qed.
Print Assumptions C20_import_total.

(* converters, scorers and inventories handed out are those built from the data files, and
   the same as those of a start without any cache directory *)
Theorem C20_import_value_independent :
  forall (value content : Type) (enc : value -> content) (dec : content -> option value)
         (conv_of scorer_of dvt_of : string -> value),
    (forall v, dec (enc v) = Some v) ->
    forall (D : dirs) (seq : list step) (s s' : cstate content) (ev : list event) (vs : list (sval value)),
      sane dec conv_of dvt_of s -> wf_seq D seq = true ->
      import_run enc dec conv_of scorer_of dvt_of D seq s = Ok (s', ev, vs) ->
      vs = map (ref_val conv_of scorer_of dvt_of D) seq /\
      exists s0 ev0, import_run enc dec conv_of scorer_of dvt_of D seq (no_dir content) = Ok (s0, ev0, vs).
Proof. exact import_value_independent. Qed.
Print Assumptions C20_import_value_independent.

(* afterwards every CONSULTED entry is valid; every file written holds a complete pickle;
   every file not written is exactly as before; the state is sane again *)
Theorem C20_import_repairs :
  forall (value content : Type) (enc : value -> content) (dec : content -> option value)
         (conv_of scorer_of dvt_of : string -> value),
    (forall v, dec (enc v) = Some v) ->
    forall (D : dirs) (seq : list step) (s s' : cstate content) (ev : list event) (vs : list (sval value)),
      sane dec conv_of dvt_of s -> wf_seq D seq = true ->
      import_run enc dec conv_of scorer_of dvt_of D seq s = Ok (s', ev, vs) ->
      clean dec conv_of dvt_of seq s' /\
      (forall f, In f (dumps_of ev) -> exists v, look s' f = Some (enc v)) /\
      (forall f, ~ In f (dumps_of ev) -> look s' f = look s f) /\
      sane dec conv_of dvt_of s'.
Proof. exact import_repairs. Qed.
Print Assumptions C20_import_repairs.

(* a further start performs no compile, writes nothing, leaves the state as it is and hands
   out the same values *)
Theorem C20_second_start_clean :
  forall (value content : Type) (enc : value -> content) (dec : content -> option value)
         (conv_of scorer_of dvt_of : string -> value),
    (forall v, dec (enc v) = Some v) ->
    forall (D : dirs) (seq : list step) (s s' : cstate content) (ev : list event) (vs : list (sval value)),
      sane dec conv_of dvt_of s -> wf_seq D seq = true ->
      import_run enc dec conv_of scorer_of dvt_of D seq s = Ok (s', ev, vs) ->
      exists ev2, import_run enc dec conv_of scorer_of dvt_of D seq s' = Ok (s', ev2, vs)
                  /\ existsb is_compile ev2 = false.
Proof. exact second_start_clean. Qed.
Print Assumptions C20_second_start_clean.

(* a start rebuilds only what is damaged - at every point of every history, since s and seq are
   arbitrary: a compile in the trace belongs to a call of the sequence whose entry was NOT valid
   when the start began, and every file written is one of the files of such a call (with
   C20_import_repairs: every other file is untouched) *)
Theorem C20_rebuilds_only_damaged :
  forall (value content : Type) (enc : value -> content) (dec : content -> option value)
         (conv_of scorer_of dvt_of : string -> value),
    (forall v, dec (enc v) = Some v) ->
    forall (D : dirs) (seq : list step) (s s' : cstate content) (ev : list event) (vs : list (sval value)),
      sane dec conv_of dvt_of s -> wf_seq D seq = true ->
      import_run enc dec conv_of scorer_of dvt_of D seq s = Ok (s', ev, vs) ->
      (forall st, In st (rebuilds ev) -> In st seq /\ ~ step_valid dec conv_of dvt_of s st) /\
      (forall f, In f (dumps_of ev) -> exists st, In st (rebuilds ev) /\ In f (step_files st)).
Proof. exact import_rebuilds_only_damaged. Qed.
Print Assumptions C20_rebuilds_only_damaged.

(* ---- byte level: where the decoder hypothesis enters ------------------------------------ *)

(* every state in which each governed file is a prefix (possibly all, possibly nothing) of
   the right pickle is sane: deleted, emptied and truncated files are all harmless *)
Theorem C20_damaged_states_sane :
  forall (value byte : Type) (enc : value -> list byte) (dec : list byte -> option value)
         (conv_of dvt_of : string -> value),
    (forall v, dec (enc v) = Some v) ->
    decoder_rejects_strict_prefixes enc dec ->
    forall s : cstate (list byte),
      prefix_state enc conv_of dvt_of (@bpre byte) s -> sane dec conv_of dvt_of s.
Proof. exact bytes_prefix_sane. Qed.
Print Assumptions C20_damaged_states_sane.

(* what an interrupted first start leaves behind (complete dumps and dumps cut short at any
   byte) is such a state *)
Theorem C20_interrupted_start_states :
  forall (value byte : Type) (enc : value -> list byte) (conv_of dvt_of : string -> value)
         (s : cstate (list byte)),
    crash_reach enc conv_of dvt_of (@firstn byte) s -> prefix_state enc conv_of dvt_of (@bpre byte) s.
Proof. exact bytes_crash_reach_prefix. Qed.
Print Assumptions C20_interrupted_start_states.

(* any number of rounds, each = any list of {delete a file, truncate a file at any byte,
   remove the directory} followed by a start: every start returns, hands out the reference
   values, and leaves every consulted entry valid (so that, by C20_second_start_clean, a
   further start is clean).  By induction over the list of rounds. *)
Theorem C20_restarts :
  forall (value byte : Type) (enc : value -> list byte) (dec : list byte -> option value)
         (conv_of scorer_of dvt_of : string -> value),
    (forall v, dec (enc v) = Some v) ->
    decoder_rejects_strict_prefixes enc dec ->
    forall (D : dirs) (seq : list step), wf_seq D seq = true ->
    forall (rounds : list (list dmg)) (s : cstate (list byte)),
      prefix_state enc conv_of dvt_of (@bpre byte) s ->
      exists s' outs,
        run_rounds enc dec conv_of scorer_of dvt_of (@firstn byte) D seq rounds s = Ok (s', outs)
        /\ length outs = length rounds
        /\ Forall (fun o => snd o = map (ref_val conv_of scorer_of dvt_of D) seq) outs
        /\ prefix_state enc conv_of dvt_of (@bpre byte) s'
        /\ (rounds <> [] -> clean dec conv_of dvt_of seq s').
Proof. exact bytes_restarts. Qed.
Print Assumptions C20_restarts.

(* ---- the shipped start-up: sequence and data directories as the files say now ------------ *)

(* the regenerated sequence passes the guard (re-checked by computation on every run) *)
Theorem C20_shipped_sequence_guarded : wf_seq model_dirs import_seq = true.
Proof. exact shipped_wf. Qed.
Print Assumptions C20_shipped_sequence_guarded.

(* so do the calls outside the import sequence that go through the same cache: load_dvt with
   every accepted spelling of its path, and the *_el models rc(schema='asjp') loads; the generic
   theorems above therefore cover histories that mix them with restarts *)
Theorem C20_alias_calls_guarded : wf_seq model_dirs alias_seq = true.
Proof. exact alias_wf. Qed.
Print Assumptions C20_alias_calls_guarded.

(* ---- sessions: `import lingpy` followed by any number of rc(schema=v), v ANY string.  The if/elif
        chain of settings.rc is regenerated into LVGen.SettingsModels.schema_seqs; Cache.schema_seq
        selects the branch as the code does (first list of spellings containing v; none: no call). *)
Theorem C20_sessions_guarded :
  forall vs : list string, wf_seq model_dirs (session_seq schema_seqs import_seq vs) = true.
Proof. exact shipped_session_wf. Qed.
Print Assumptions C20_sessions_guarded.

(* every session, on every sane cache state: it returns, every model / inventory it puts into
   rcParams is the one built from the data files, every entry it consulted is valid afterwards,
   and repeating the whole session compiles and writes nothing *)
Theorem C20_shipped_sessions :
  forall (value content : Type) (enc : value -> content) (dec : content -> option value)
         (conv_of scorer_of dvt_of : string -> value),
    (forall v, dec (enc v) = Some v) ->
    forall (vs : list string) (s : cstate content),
      sane dec conv_of dvt_of s ->
      exists s' ev,
        import_run enc dec conv_of scorer_of dvt_of model_dirs (session_seq schema_seqs import_seq vs) s
        = Ok (s', ev, map (ref_val conv_of scorer_of dvt_of model_dirs) (session_seq schema_seqs import_seq vs))
        /\ clean dec conv_of dvt_of (session_seq schema_seqs import_seq vs) s'
        /\ sane dec conv_of dvt_of s'
        /\ exists ev2,
             import_run enc dec conv_of scorer_of dvt_of model_dirs (session_seq schema_seqs import_seq vs) s'
             = Ok (s', ev2, map (ref_val conv_of scorer_of dvt_of model_dirs) (session_seq schema_seqs import_seq vs))
             /\ existsb is_compile ev2 = false.
Proof. exact shipped_session_ok. Qed.
Print Assumptions C20_shipped_sessions.

(* hence, for the shipped start-up, from the absent directory and through any damage/restart
   rounds, with no premise left but the two about the decoder *)
Theorem C20_shipped_restarts :
  forall (value byte : Type) (enc : value -> list byte) (dec : list byte -> option value)
         (conv_of scorer_of dvt_of : string -> value),
    (forall v, dec (enc v) = Some v) ->
    decoder_rejects_strict_prefixes enc dec ->
    forall rounds : list (list dmg),
      exists s' outs,
        run_rounds enc dec conv_of scorer_of dvt_of (@firstn byte) model_dirs import_seq rounds
                   (no_dir (list byte)) = Ok (s', outs)
        /\ length outs = length rounds
        /\ Forall (fun o => snd o = map (ref_val conv_of scorer_of dvt_of model_dirs) import_seq) outs
        /\ (rounds <> [] -> clean dec conv_of dvt_of import_seq s').
Proof. exact shipped_restarts. Qed.
Print Assumptions C20_shipped_restarts.

(* the guard is needed: with a directory that has `scorer.bin` and no `matrix` the start
   raises on a sane cache (an undecodable scorer entry is not caught: model.py 123-126 catches
   FileNotFoundError only).  No shipped model is of that kind. *)
Theorem C20_total_needs_the_scorer_guard :
  exists (D : dirs) (s : cstate xcontent),
    sane xdec xconv xdvt s /\
    import_run xenc xdec xconv xscorer xdvt D [NewModel "m"] s = Raise.
Proof. exact scorer_bin_guard_needed. Qed.
Print Assumptions C20_total_needs_the_scorer_guard.

(* ---- verified checkers run on the implementation's outputs ------------------------------- *)
Theorem C20_checker_clean :
  forall (seq : list step) (dir : bool) (fl : list (string * xcontent)),
    cleanb seq dir fl = true <-> clean xdec xconv xdvt seq (state_of dir fl).
Proof. exact cleanb_spec. Qed.
Print Assumptions C20_checker_clean.

Theorem C20_checker_values :
  forall o : start_obs,
    vals_refb o = true <-> so_vals o = map (ref_val xconv xscorer xdvt model_dirs) (so_seq o).
Proof. exact vals_refb_spec. Qed.
Print Assumptions C20_checker_values.

Theorem C20_checker_rebuild_only :
  forall (dir : bool) (fl : list (string * xcontent)) (o : start_obs),
    rebuild_onlyb dir fl o = true <->
    forall st, In st (rebuilds (so_events o)) -> ~ step_valid xdec xconv xdvt (state_of dir fl) st.
Proof. exact rebuild_onlyb_spec. Qed.
Print Assumptions C20_checker_rebuild_only.

Theorem C20_checker_quiet :
  forall (names : list string) (dir : bool) (fl : list (string * xcontent)) (o : start_obs),
    quietb names dir fl o = true <->
    (forall e, In e (so_events o) -> is_compile e = false) /\
    dir = so_dir o /\
    (forall f, In f names -> look (state_of dir fl) f = look (state_of (so_dir o) (so_files o)) f).
Proof. exact quietb_spec. Qed.
Print Assumptions C20_checker_quiet.

(* the decoder observations of a run: every file found was tried with pickle.load, and it
   raised exactly on the contents that are not complete pickles *)
Theorem C20_checker_decoder :
  forall (fl : list (string * xcontent)) (obs : list (string * bool)),
    decb fl obs = true <->
    (forall f r, In (f, r) obs -> exists c, assoc f fl = Some c /\ (r = true <-> xdec c = None)) /\
    (forall f c, In (f, c) fl -> exists r, In (f, r) obs).
Proof. exact decb_spec. Qed.
Print Assumptions C20_checker_decoder.

(* ---- non-vacuity --------------------------------------------------------------------------- *)
(* a codec on bit lists that satisfies both decoder premises (unary numbers with a STOP bit) *)
Example decoder_premises_satisfiable :
  (forall v, udec (uenc v) = Some v) /\ decoder_rejects_strict_prefixes uenc udec.
Proof. exact unary_codec_ok. Qed.

(* the schema switch as regenerated: 'asjp' and 'ipa' select a non-empty branch, 'el' and 'evolaemp'
   the same one, an unknown spelling none *)
Example schema_switch_instances :
  schema_seq schema_seqs "asjp" <> [] /\ schema_seq schema_seqs "ipa" <> []
  /\ schema_seq schema_seqs "el" = schema_seq schema_seqs "evolaemp"
  /\ schema_seq schema_seqs "no such schema" = [].
Proof. exact schema_switch_examples. Qed.

(* a concrete instance of C20_shipped_restarts: start on the absent directory; then truncate
   sca.converter to 2 bytes, empty dvt, delete asjp.converter, truncate the never-read cv.scorer;
   start again.  Both starts hand out the reference values, the second rebuilds exactly the
   three damaged consulted entries (and the scorers their compile writes alongside), and the
   never-read cv.scorer stays truncated. *)
Example shipped_restart_instance :
  exists s' ev1 ev2,
    run_rounds uenc udec uconv uscorer udvt (@firstn bool) model_dirs import_seq example_rounds
               (no_dir (list bool))
    = Ok (s', [(ev1, map (ref_val uconv uscorer udvt model_dirs) import_seq);
               (ev2, map (ref_val uconv uscorer udvt model_dirs) import_seq)])
    /\ dumps_of ev2 = ["dvt.pkl"; "asjp.converter.pkl"; "asjp.scorer.pkl"; "sca.converter.pkl"; "sca.scorer.pkl"]
    /\ look s' "cv.scorer.pkl" = Some [false].
Proof. exact example_restart_ok. Qed.
