(* C11 - Iterative refinement never lowers an alignment's sum-of-pairs score.
   Property theorems only; each is closed by [exact] and followed by Print Assumptions.
   Model: Msa/Refine.v (_iter with its three check modes, the four refinement calls,
   swap_check).  The sum-of-pairs score of a call is an ABSTRACT function [score] from the
   internal matrix into any type T with a comparison [ltb] ("new_sop < sop" in the code):
   it is a deterministic function of the matrix, of the gap weight of that call and of the
   scorer that is current at the time, so the theorems hold verbatim for the float
   computation.  The only property of the comparison that is used is irreflexivity
   (a total order for the ">=" reading).  The profile aligner is an arbitrary oracle (no
   contract is needed for C11), the index sets are arbitrary. *)
From Coq Require Import List Arith Bool ZArith QArith.
From LV Require Import Common.Cases Align.DP Msa.Profile Msa.Merge Msa.Refine Msa.MsaSpec Msa.MsaExec
  Msa.ProfileProofs Msa.MergeProofs Msa.UpdateProofs Msa.RefineProofs Msa.MsaExecProofs Msa.Examples
  Msa.Score Msa.ScoreProofs Msa.ScoreExec.
Import ListNotations.
Local Open Scope nat_scope.

(* iter_final_monotone, on the matrix: whatever the oracle returns and whatever the index
   sets are, the matrix left by _iter(check='final') does not score lower than the matrix
   it started from, measured with the same score function *)
Theorem C11_iter_final_monotone :
  forall (T : Type) (ltb : T -> T -> bool) (score score0 : imat -> T) (PA : oracle num)
         (nums : list (list num)),
    (forall x, ltb x x = false) ->
  forall (idxs : list (list nat)) (m m' : imat),
    iter_matrix T ltb score score0 PA (length nums) CheckFinal idxs m = Some (Some m') ->
    ltb (score m') (score m) = false.
Proof. exact iter_matrix_final_monotone. Qed.
Print Assumptions C11_iter_final_monotone.

(* iter_final_monotone, on the object, for each of the four refinement calls with the
   default end-of-pass check: "not (score after < score before)" *)
Theorem C11_call_final_monotone :
  forall (T : Type) (ltb : T -> T -> bool) (cf : config) (sonars : bool),
    (forall x, ltb x x = false) ->
  forall (c : call T) (sc : imat -> T) (st st' : state),
    final_score T c = Some sc ->
    run_call T ltb cf sonars c st = Some st' ->
    ltb (sc (st_int st')) (sc (st_int st)) = false.
Proof. exact call_final_monotone. Qed.
Print Assumptions C11_call_final_monotone.

(* the same for a totally ordered score type, "<" being the negation of ">=":
   score(after) >= score(before) *)
Theorem C11_call_final_monotone_total :
  forall (T : Type) (leb : T -> T -> bool), (forall x y, leb x y = true \/ leb y x = true) ->
  forall (cf : config) (sonars : bool) (c : call T) (sc : imat -> T) (st st' : state),
    final_score T c = Some sc ->
    run_call T (fun x y => negb (leb y x)) cf sonars c st = Some st' ->
    leb (sc (st_int st)) (sc (st_int st')) = true.
Proof. exact call_final_monotone_total. Qed.
Print Assumptions C11_call_final_monotone_total.

(* iter_final_rollback, on the matrix: the end-of-pass candidate is kept iff it does not
   score lower; otherwise the saved copy is what the call leaves *)
Theorem C11_iter_final_rollback_matrix :
  forall (T : Type) (ltb : T -> T -> bool) (score score0 : imat -> T) (PA : oracle num)
         (nums : list (list num)) (idxs : list (list nat)) (m cand : imat),
    (length idxs =? 1) = false ->
    iter_loop T ltb score0 PA (length nums) CheckFinal m idxs m (score m) = Some cand ->
    (ltb (score cand) (score m) = true ->
       iter_matrix T ltb score score0 PA (length nums) CheckFinal idxs m = Some (Some m)) /\
    (ltb (score cand) (score m) = false ->
       iter_matrix T ltb score score0 PA (length nums) CheckFinal idxs m = Some (Some cand)).
Proof.
  exact (fun T ltb score score0 PA nums idxs m cand H1 HL =>
           conj (iter_matrix_final_rollback T ltb score score0 PA nums idxs m cand H1 HL)
                (iter_matrix_final_keep T ltb score score0 PA nums idxs m cand H1 HL)).
Qed.
Print Assumptions C11_iter_final_rollback_matrix.

(* iter_final_rollback, on the object: if the candidate scores lower, the state after the
   call is the state before it, cell for cell, in _alm_matrix and in alm_matrix *)
Theorem C11_iter_final_rollback :
  forall (T : Type) (ltb : T -> T -> bool) (cf : config) (sonars : bool)
         (e : iter_env T) (idxs : list (list nat)) (st st' : state) (cand : imat),
    state_ok cf st -> ie_check T e = CheckFinal ->
    iter_loop T ltb (ie_score0 T e) (if sonars then ie_pa T e else no_oracle) (height_of cf) CheckFinal
              (st_int st) idxs (st_int st) (ie_score T e (st_int st)) = Some cand ->
    ltb (ie_score T e cand) (ie_score T e (st_int st)) = true ->
    run_iter T ltb cf sonars e idxs st = Some st' -> st' = st.
Proof. exact run_iter_rollback. Qed.
Print Assumptions C11_iter_final_rollback.

(* iter_early_exits: one index set, fewer than three sequences (clusters), one gap profile
   (similar gap sites), one unique sequence (all sequences), swap_check: the call returns
   and the object is untouched *)
Theorem C11_iter_early_exits :
  forall (T : Type) (ltb : T -> T -> bool) (cf : config) (sonars : bool) (c : call T) (st : state),
    early_exit T cf c st -> run_call T ltb cf sonars c st = Some st.
Proof. exact call_early_exit. Qed.
Print Assumptions C11_iter_early_exits.

(* history_monotone: along any history every end-of-pass refinement call is monotone for
   its own score function (its own gap weight, the scorer current at that time) *)
Theorem C11_history_monotone :
  forall (T : Type) (ltb : T -> T -> bool) (cf : config) (sonars : bool),
    (forall x, ltb x x = false) ->
  forall (cs : list (call T)) (st st' : state),
    run_history T ltb cf sonars cs st = Some st' -> monotone_chain T ltb cf sonars cs st.
Proof. exact history_monotone. Qed.
Print Assumptions C11_history_monotone.

(* the instance that is run against the implementation: recorded scores (exact rationals,
   [None] = not recorded) with the comparison [oq_ltb] *)
Theorem C11_recorded_scores_instance : forall x : option Q, oq_ltb x x = false.
Proof. exact oq_ltb_irrefl. Qed.
Print Assumptions C11_recorded_scores_instance.

(* the score itself (Msa/Score.v, compared with the implementation's score_profile /
   sum_of_pairs values on a direct stream): calign.score_profile is the documented column score -
   the sum of the pair scores over the pairs of non-gap cells, divided by the number of such pairs
   plus gap_weight times the number of pairs with a gap (None = the ZeroDivisionError) *)
Theorem C11_score_profile_definition :
  forall (A : Type) (scorer : A -> A -> Q) (gw : Q) (colA colB : line A),
    let ps := list_prod colA colB in
    match cscore_profile scorer gw colA colB with
    | Some q => (q == qsum_r (map (pair_score A scorer) ps)
                      / (count A (bothb A) ps + gw * count A (fun xy => negb (bothb A xy)) ps))%Q
                /\ ~ (count A (bothb A) ps + gw * count A (fun xy => negb (bothb A xy)) ps == 0)%Q
    | None => (count A (bothb A) ps + gw * count A (fun xy => negb (bothb A xy)) ps == 0)%Q
    end.
Proof. exact cscore_profile_def. Qed.
Print Assumptions C11_score_profile_definition.

(* talign.score_profile: a pair with exactly one gap scores gop and counts 1, a pair of two gaps
   counts gap_weight *)
Theorem C11_tscore_profile_definition :
  forall (A : Type) (scorer : A -> A -> Q) (gop gw : Q) (colA colB : line A),
    let ps := list_prod colA colB in
    match tscore_profile scorer gop gw colA colB with
    | Some q => (q == (qsum_r (map (pair_score A scorer) ps) + gop * count A (oneb A) ps)
                      / (count A (bothb A) ps + count A (oneb A) ps + gw * count A (noneb A) ps))%Q
                /\ ~ (count A (bothb A) ps + count A (oneb A) ps + gw * count A (noneb A) ps == 0)%Q
    | None => (count A (bothb A) ps + count A (oneb A) ps + gw * count A (noneb A) ps == 0)%Q
    end.
Proof. exact tscore_profile_def. Qed.
Print Assumptions C11_tscore_profile_definition.

(* ... and with THAT score (the mean of the column scores, for the gap weight of the call and
   whatever scorer is current) every end-of-pass refinement call is monotone *)
Theorem C11_sum_of_pairs_monotone :
  forall (scorer : num -> num -> Q) (sn : bool) (gop gw : Q) (cf : config) (sonars : bool)
         (c : call (option Q)) (st st' : state),
    final_score (option Q) c = Some (sum_of_pairs scorer sn gop gw) ->
    run_call (option Q) oq_ltb cf sonars c st = Some st' ->
    oq_ltb (sum_of_pairs scorer sn gop gw (st_int st')) (sum_of_pairs scorer sn gop gw (st_int st)) = false.
Proof.
  exact (fun scorer sn gop gw cf sonars c st st' =>
           call_final_monotone (option Q) oq_ltb cf sonars oq_ltb_irrefl c (sum_of_pairs scorer sn gop gw) st st').
Qed.
Print Assumptions C11_sum_of_pairs_monotone.

(* the check that ties the theorems above to the implementation inside real histories: for an
   end-of-pass refinement call whose scoring dictionary was recorded, the DOCUMENTED score (model)
   of the matrices before and after the call exists, agrees with the values measured with the
   implementation's sum_of_pairs within 2^-30, and did not drop *)
Theorem C11_definitional_check_spec :
  forall (sonars : bool) (s : step) (before_int : imat) (tab : list ((num * num) * Q)),
    sp_scorer s = Some tab -> definitional_okb sonars s before_int = true ->
    exists x y,
      sum_of_pairs (pair_scorer tab) sonars (-1 # 1) (sp_gw s) before_int = Some x /\
      sum_of_pairs (pair_scorer tab) sonars (-1 # 1) (sp_gw s) (sp_int s) = Some y /\
      closeb x (sp_before s) = true /\ closeb y (sp_after s) = true /\
      (x - (1 # 1073741824) <= y)%Q.
Proof. exact definitional_okb_spec. Qed.
Print Assumptions C11_definitional_check_spec.

(* ------------------------------------------------------------------ *)
(* non-vacuity: a call whose candidate is worse (rolled back), one whose candidate is better
   (kept), an early exit *)
Example ex_rolled_back :
  exists cand,
    iter_loop nat Nat.ltb ex_score block_pa (height_of ex_cf) CheckFinal (st_int ex_state)
              [[0]; [1]; [2]] (st_int ex_state) (ex_score (st_int ex_state)) = Some cand
    /\ cand <> st_int ex_state
    /\ Nat.ltb (ex_score cand) (ex_score (st_int ex_state)) = true
    /\ run_call nat Nat.ltb ex_cf true (AllSequences nat (ex_env CheckFinal ex_score)) ex_state = Some ex_state.
Proof. eexists. vm_compute. repeat split; try reflexivity. discriminate. Qed.

Example ex_improved :
  exists st', run_call nat Nat.ltb ex_cf true (AllSequences nat (ex_env CheckFinal ex_score_up)) ex_state = Some st'
              /\ st' <> ex_state
              /\ Nat.ltb (ex_score_up (st_int ex_state)) (ex_score_up (st_int st')) = true.
Proof. eexists. vm_compute. repeat split; try reflexivity. discriminate. Qed.

Example ex_early_exit :
  early_exit nat ex_cf (Orphans nat [[1]] (ex_env CheckFinal ex_score)) ex_state
  /\ final_score nat (Orphans nat [[1]] (ex_env CheckFinal ex_score)) = Some ex_score.
Proof. split; reflexivity. Qed.

Example ex_nat_ltb_irrefl : forall x, Nat.ltb x x = false.
Proof. exact Nat.ltb_irrefl. Qed.
