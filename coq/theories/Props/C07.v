(* C07 - A gain-loss scenario reproduces the presence/absence pattern it explains.
   Property theorems only.  Models: GainLoss/GetGls.v (get_gls), GainLoss/GetGLSr.v
   (PhyBo._get_GLS), GainLoss/TopDown.v (PhyBo._get_GLS_top_down); replay semantics and
   the checker run on implementation outputs: GainLoss/Replay.v. *)
From Coq Require Import ZArith List Bool.
From LV Require Import GainLoss.RoseTree GainLoss.Replay GainLoss.ReplayProofs GainLoss.ReplayPathProofs GainLoss.GetGls
  GainLoss.GetGlsProofs GainLoss.GetGlsTopProofs GainLoss.GetGLSr GainLoss.GetGLSrProofs GainLoss.TopDown
  GainLoss.TopDownProofs GainLoss.GetGlsDefinedProofs GainLoss.PhyBoGlue GainLoss.PhyBoGlueProofs
  GainLoss.GetGlsNoDupProofs GainLoss.PhyBoRows GainLoss.PhyBoRowsProofs GainLoss.GainLossExec.
Import ListNotations.
Local Open Scope Z_scope.

(* [reproduces md pat t ev]: replaying ev from the root of t (absent until a gain, present
   below a gain until a loss) gives every leaf with a known state that state; a leaf coded
   -1 is unconstrained if md = -1 and must be absent if md = 0; every event is a gain or a
   loss at a node of t.

   For every rooted tree with distinct node names (cogent's TreeBuilder makes them distinct),
   every pattern giving each tip a state in {1,0,-1}, all weights, gpl, push_gains and
   missing_data in {0,-1}: whatever scenario get_gls returns reproduces the pattern. *)
Theorem C07_get_gls_replays :
  forall (pat : list (Z * Z)) (t : tree) (gpl g l : Z) (push : bool) (md : Z) (ev : list (Z * Z)),
    NoDup (names t) -> pattern_known pat t -> (md = 0 \/ md = -1) ->
    get_gls pat t gpl g l push md = Ok ev ->
    reproduces md pat t ev.
Proof. exact get_gls_replays. Qed.
Print Assumptions C07_get_gls_replays.

(* no node carries two events in the returned scenario (so the replay is unambiguous, and the
   association lists of the model are a faithful picture of the Python dictionaries) *)
Theorem C07_get_gls_events_distinct :
  forall (pat : list (Z * Z)) (t : tree) (gpl g l : Z) (push : bool) (md : Z) (ev : list (Z * Z)),
    NoDup (names t) -> pattern_known pat t -> (md = 0 \/ md = -1) ->
    get_gls pat t gpl g l push md = Ok ev -> NoDup (keys ev).
Proof. exact get_gls_events_nodup. Qed.
Print Assumptions C07_get_gls_events_distinct.

(* and get_gls does return a scenario: for every pattern with at least one presence and gpl >= 0
   no node is left without a scenario (the code's min() never sees an empty dictionary) *)
Theorem C07_get_gls_defined :
  forall (pat : list (Z * Z)) (t : tree) (gpl g l : Z) (push : bool) (md : Z),
    pattern_known pat t -> (md = 0 \/ md = -1) -> 0 <= gpl ->
    has_present (is_present pat) t = true ->
    exists ev, get_gls pat t gpl g l push md = Ok ev.
Proof. exact get_gls_defined. Qed.
Print Assumptions C07_get_gls_defined.

(* the intermediate invariant: every scenario kept at any node replays correctly inside
   that node's subtree (with the node in the scenario's state), and names only nodes below it *)
Theorem C07_kept_scenarios_replay :
  forall (pat : list (Z * Z)) (gpl g l : Z) (t : tree),
    NoDup (names t) -> tips_known pat t ->
    forall sc, In sc (scen_of pat gpl g l t) -> SInv pat t sc.
Proof. exact (fun pat gpl g l t => scen_inv pat gpl g l t). Qed.
Print Assumptions C07_kept_scenarios_replay.

(* restriction mode (and the weighted mode of the same method): PhyBo._get_GLS.  Whatever
   survives the weight / restriction / gains-per-lineage filters and the final selection
   reproduces the pattern.  Too tight a restriction makes the code raise (model: Err), which the
   hypothesis [= Ok ev] excludes. *)
Theorem C07_get_GLSr_replays :
  forall (pat : list (Z * Z)) (t : tree) (mode : gmode) (gpl : Z) (push : bool) (md : Z) (ev : list (Z * Z)),
    NoDup (names t) -> pattern_known pat t -> (md = 0 \/ md = -1) ->
    get_GLSr pat t mode gpl push md = Ok ev ->
    reproduces md pat t ev.
Proof. exact get_GLSr_replays. Qed.
Print Assumptions C07_get_GLSr_replays.

(* top-down mode: PhyBo._get_GLS_top_down, every restriction value.  Guard: at least two leaves
   are present, or the restriction is 1.  PhyBo.get_GLS answers single-presence patterns itself and
   never calls the method on them (called directly on a single presence with restriction >= 2 the
   method returns [], see ex_topdown_single_presence below). *)
Theorem C07_top_down_replays :
  forall (pat : list (Z * Z)) (t : tree) (mode md : Z) (ev : list (Z * Z)),
    NoDup (names t) -> pattern_known pat t -> (md = 0 \/ md = -1) ->
    ((2 <= length (filter (fun n => match lookup n pat with Some s => (s =? 1)%Z | None => false end) (tips t)))%nat
     \/ mode = 1) ->
    top_down pat t mode md = Ok ev ->
    reproduces md pat t ev.
Proof. exact top_down_replays_two_presences. Qed.
Print Assumptions C07_top_down_replays.

(* the wordlist-driven entry point, per cognate set: PhyBo.get_GLS answers a pattern with exactly one
   presence by the single gain at that taxon and otherwise calls the function of the chosen mode
   (the per-pattern cache returns the same function of the pattern).  Guards: the pattern lists every
   taxon once, only taxa that are tips, and gives every tip a state in {1,0,-1} - which is how PhyBo
   builds self.paps[cog] against self.taxa.  In all three modes what is stored reproduces the pattern. *)
Theorem C07_phybo_get_GLS_replays :
  forall (pat : list (Z * Z)) (t : tree) (m : glmode) (gpl : Z) (push : bool) (md : Z) (ev : list (Z * Z)),
    NoDup (names t) -> pattern_known pat t -> NoDup (keys pat) -> (forall n s, In (n, s) pat -> In n (tips t)) ->
    (md = 0 \/ md = -1) ->
    phybo_per_cog pat t m gpl push md = Ok ev ->
    reproduces md pat t ev.
Proof. exact phybo_replays. Qed.
Print Assumptions C07_phybo_get_GLS_replays.

(* ---- from the ROWS of the wordlist (deepening round) ----
   The pattern of a cognate set is no longer an input of the statement: [paps_of_rows] models
   Wordlist.get_paps as PhyBo calls it (ref = 'pap' = "<cogid>:<glid>", missing = -1) and
   [phybo_of_rows] the whole pipeline rows -> pattern -> singleton shortcut / mode function.
   For every wordlist (any rows: synonyms, several cognate ids per language and concept, cognate ids
   used in several concepts), every reference tree whose tips are the languages, all three modes:
   what PhyBo.get_GLS stores for the set (cog, con) replays to PRESENT at every language that has a
   reflex of the set, to ABSENT at every language that has a word for the concept but none in the
   set, and - when missing_data = 0 - to absent at every language without a word for the concept. *)
Theorem C07_phybo_rows_replays :
  forall (rows : list row) (taxa : list Z) (cog con : Z) (t : tree) (m : glmode) (gpl : Z) (push : bool)
         (md : Z) (ev : list (Z * Z)),
    NoDup (names t) -> NoDup taxa -> (forall x, In x taxa <-> In x (tips t)) -> (md = 0 \/ md = -1) ->
    phybo_of_rows rows taxa cog con t m gpl push md = Ok ev ->
    (forall n e, In (n, e) ev -> In n (names t) /\ (e = 1 \/ e = 0)) /\
    forall x b, In (x, b) (replay false ev t) ->
      (In (x, con, cog) rows -> b = true) /\
      (~ In (x, con, cog) rows -> (exists c, In (x, con, c) rows) -> b = false) /\
      ((forall c, ~ In (x, con, c) rows) -> md = 0 -> b = false).
Proof. exact phybo_rows_replays. Qed.
Print Assumptions C07_phybo_rows_replays.

(* the coding itself, taxon by taxon: 1 = a reflex, 0 = a word for the concept but no reflex,
   -1 = no word for the concept *)
Theorem C07_paps_coding :
  forall (rows : list row) (taxa : list Z) (cog con x : Z), In x taxa ->
    exists s, lookup x (combine taxa (paps_of_rows rows taxa cog con)) = Some s /\
      ((s = 1 /\ In (x, con, cog) rows) \/
       (s = 0 /\ ~ In (x, con, cog) rows /\ exists c, In (x, con, c) rows) \/
       (s = -1 /\ forall c, ~ In (x, con, c) rows)).
Proof. exact paps_of_rows_spec. Qed.
Print Assumptions C07_paps_coding.

(* the per-run pattern hash of PhyBo.get_GLS is transparent: started empty (or with entries that
   are results of f), the run gives every cognate set what f gives on its own pattern *)
Theorem C07_pattern_hash_transparent :
  forall (f : list Z -> result) (pats : list (list Z)) (h : list (list Z * result)),
    (forall q r, In (q, r) h -> r = f q) -> run_cogs f h pats = map f pats.
Proof. exact run_cogs_transparent. Qed.
Print Assumptions C07_pattern_hash_transparent.

(* what [replay] means, declaratively: leaf by leaf (root-to-leaf paths in tip order), the state is
   decided by the nearest node on the path, the leaf included, that carries an event - present if it
   is a gain, absent if it is a loss - and the leaf is absent if no node on its path carries one *)
Theorem C07_replay_is_nearest_event :
  forall (t : tree) (ev : list (Z * Z)),
    replay false ev t = map (fun p => (leaf_of p, path_state false ev p)) (paths t).
Proof. exact replay_paths. Qed.
Print Assumptions C07_replay_is_nearest_event.

(* the checker that is run on every implementation output decides [reproduces] *)
Theorem C07_replay_checker_correct :
  forall md pat t ev, replay_okb md pat t ev = true <-> reproduces md pat t ev.
Proof. exact replay_okb_spec. Qed.
Print Assumptions C07_replay_checker_correct.

(* non-vacuity: ((1,2)7,((3,4)8,5)9,(6)10)0 with 1,3 present, 5 missing, weights (1,1) *)
Definition ex_tree : tree :=
  Node 0 [Node 7 [Node 1 []; Node 2 []]; Node 9 [Node 8 [Node 3 []; Node 4 []]; Node 5 []]; Node 10 [Node 6 []]].
Definition ex_pat : list (Z * Z) := [(6, 0); (5, -1); (4, 0); (3, 1); (2, 0); (1, 1)].

Example ex_nodup : NoDup (names ex_tree).
Proof. repeat (constructor; [cbn; intuition discriminate|]). constructor. Qed.
Example ex_known : pattern_known ex_pat ex_tree.
Proof.
  intros n Hn. cbn in Hn.
  repeat (destruct Hn as [E|Hn]; [subst n; eexists; split; [reflexivity|auto]|]). destruct Hn.
Qed.
Example ex_result_m1 : get_gls ex_pat ex_tree 1 1 1 true (-1) = Ok [(1, 1); (3, 1)].
Proof. vm_compute. reflexivity. Qed.
Example ex_result_0 : get_gls ex_pat ex_tree 2 5 1 false 0 = Ok [(2, 0); (4, 0); (5, 0); (10, 0); (0, 1)].
Proof. vm_compute. reflexivity. Qed.
Example ex_reproduces : reproduces 0 ex_pat ex_tree [(2, 0); (4, 0); (5, 0); (10, 0); (0, 1)].
Proof. exact (C07_get_gls_replays _ _ _ _ _ _ _ _ ex_nodup ex_known (or_introl eq_refl) ex_result_0). Qed.
(* and a scenario with a misplaced loss is rejected by the checker *)
Example ex_rejected : replay_okb 0 ex_pat ex_tree [(2, 0); (3, 0); (5, 0); (10, 0); (0, 1)] = false.
Proof. vm_compute. reflexivity. Qed.

(* the other two modes on the same tree and pattern *)
Example ex_restriction : get_GLSr ex_pat ex_tree (ModeR 3) 2 true (-1) = Ok [(1, 1); (3, 1)].
Proof. vm_compute. reflexivity. Qed.
Example ex_restriction_too_tight : get_GLSr ex_pat ex_tree (ModeR 0) 1 true 0 = Err 3.
Proof. vm_compute. reflexivity. Qed.
Example ex_topdown : top_down ex_pat ex_tree 2 0 = Ok [(1, 1); (3, 1); (10, 0)].
Proof. vm_compute. reflexivity. Qed.
Example ex_topdown_reproduces : reproduces 0 ex_pat ex_tree [(1, 1); (3, 1); (10, 0)].
Proof.
  exact (C07_top_down_replays _ _ _ _ _ ex_nodup ex_known (or_introl eq_refl) (or_introl (le_n 2)) ex_topdown).
Qed.
(* the guard of the top-down theorem is needed: a single presence, restriction 2 *)
Example ex_topdown_single_presence :
  top_down [(6, 0); (5, 0); (4, 0); (3, 1); (2, 0); (1, 0)] ex_tree 2 0 = Ok []
  /\ replay_okb 0 [(6, 0); (5, 0); (4, 0); (3, 1); (2, 0); (1, 0)] ex_tree [] = false.
Proof. vm_compute. split; reflexivity. Qed.

(* the PhyBo glue: a single presence is answered by the shortcut in every mode *)
Example ex_phybo_singleton :
  phybo_per_cog [(6, 0); (5, 0); (4, 0); (3, 1); (2, -1); (1, 0)] ex_tree (GTopDown 2) 1 true (-1) = Ok [(3, 1)].
Proof. vm_compute. reflexivity. Qed.

(* rows of a small wordlist on ex_tree: language 1 has two synonyms in set 7 of concept 0, language 3 one
   reflex, language 2 a word of another set, languages 4,5 words of set 9, language 6 no word *)
Definition ex_rows : list row :=
  [(1, 0, 7); (1, 0, 7); (3, 0, 7); (2, 0, 8); (4, 0, 9); (5, 0, 9); (3, 1, 7)].
Example ex_rows_pattern : paps_of_rows ex_rows [6; 5; 4; 3; 2; 1] 7 0 = [-1; 0; 0; 1; 0; 1].
Proof. vm_compute. reflexivity. Qed.
Example ex_rows_run :
  phybo_of_rows ex_rows [6; 5; 4; 3; 2; 1] 7 0 ex_tree (GWeighted 1 1) 1 true 0 = Ok [(1, 1); (3, 1)]
  /\ phybo_of_rows ex_rows [6; 5; 4; 3; 2; 1] 7 1 ex_tree (GTopDown 2) 1 true (-1) = Ok [(3, 1)]
  /\ run_cogs (fun p => phybo_per_cog (combine [6; 5; 4; 3; 2; 1] p) ex_tree (GWeighted 1 1) 1 true 0) []
        [[-1; 0; 0; 1; 0; 1]; [-1; 1; 1; 0; 0; 0]; [-1; 0; 0; 1; 0; 1]]
      = [Ok [(1, 1); (3, 1)]; Ok [(3, 0); (9, 1)]; Ok [(1, 1); (3, 1)]].
Proof. vm_compute. repeat split. Qed.
