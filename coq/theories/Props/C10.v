(* C10 - Raising the threshold only merges clusters, never splits. *)
From Coq Require Import QArith List Bool Arith.
From LV Require Import Cluster.Flat Cluster.FlatProofs Cluster.FlatQ Cluster.FlatQProofs.
Import ListNotations.
Local Open Scope nat_scope.

(* the choice of the pair to merge does not depend on the threshold *)
Theorem C10_merge_sequence_threshold_free :
  forall (V : Type) (leb : V -> V -> bool) (link : list V -> V) (d : nat -> nat -> V),
    (forall a b c, leb a b = true -> leb b c = true -> leb a c = true) ->
    forall t1 t2 cl cl', leb t1 t2 = true ->
      step leb link d t1 cl = Some cl' -> step leb link d t2 cl = Some cl'.
Proof. exact step_threshold_free. Qed.
Print Assumptions C10_merge_sequence_threshold_free.

(* every cluster at t1 lies inside one cluster at t2 >= t1: all linkages, all
   matrices, ties included *)
Theorem C10_flat_refines :
  forall (V : Type) (leb : V -> V -> bool) (link : list V -> V) (d : nat -> nat -> V),
    (forall a b c, leb a b = true -> leb b c = true -> leb a c = true) ->
    forall n t1 t2, leb t1 t2 = true ->
      refines (flat leb link d n t1) (flat leb link d n t2).
Proof. exact flat_refines. Qed.
Print Assumptions C10_flat_refines.

Theorem C10_flat_refines_Q :
  forall (meth : method) (m : mat) (t1 t2 : Q), (t1 <= t2)%Q ->
    refines (flat_cluster meth t1 m) (flat_cluster meth t2 m).
Proof.
  exact (fun meth m t1 t2 L =>
    flat_refines Q qleb (linkf meth) (dm m) qleb_trans (length m) t1 t2 (proj2 (Qle_bool_iff _ _) L)).
Qed.
Print Assumptions C10_flat_refines_Q.
