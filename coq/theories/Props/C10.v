(* C10 - Raising the threshold only merges clusters, never splits. *)
From Coq Require Import QArith List Bool Arith.
From LV Require Import Cluster.Flat Cluster.FlatProofs Cluster.FlatQ Cluster.FlatQProofs.
Import ListNotations.
Local Open Scope nat_scope.

(* the choice of the pair to merge does not depend on the threshold *)
Theorem C10_merge_sequence_threshold_free :
  forall (V : Type) (leb : V -> V -> bool) (link : list V -> V) (d : nat -> nat -> V),
    (forall a b c, leb a b = true -> leb b c = true -> leb a c = true) ->
    forall t1 t2 cl cl', leb t1 t2 = true ->
      step leb link d t1 cl = Some cl' -> step leb link d t2 cl = Some cl'.
Proof. exact step_threshold_free. Qed.
Print Assumptions C10_merge_sequence_threshold_free.

(* every cluster at t1 lies inside one cluster at t2 >= t1: all linkages, all
   matrices, ties included *)
Theorem C10_flat_refines :
  forall (V : Type) (leb : V -> V -> bool) (link : list V -> V) (d : nat -> nat -> V),
    (forall a b c, leb a b = true -> leb b c = true -> leb a c = true) ->
    forall n t1 t2, leb t1 t2 = true ->
      refines (flat leb link d n t1) (flat leb link d n t2).
Proof. exact flat_refines. Qed.
Print Assumptions C10_flat_refines.

Theorem C10_flat_refines_Q :
  forall (meth : method) (m : mat) (t1 t2 : Q), (t1 <= t2)%Q ->
    refines (flat_cluster meth t1 m) (flat_cluster meth t2 m).
Proof.
  exact (fun meth m t1 t2 L =>
    flat_refines Q qleb (linkf meth) (dm m) qleb_trans (length m) t1 t2 (proj2 (Qle_bool_iff _ _) L)).
Qed.
Print Assumptions C10_flat_refines_Q.

(* ------------------------------------------------------------------ *)
(* Cognate detection (LexStat.cluster, model Cognates/LexCluster.v): with the
   same method (distance function, including the scorer it uses), linkage and
   wordlist, two words that share a cognate-set identifier at threshold t1 share
   one at every t2 >= t1: every cognate set at t1 is contained in one at t2.
   Any carrier with a transitive order, any linkage, any distance function. *)
From LV Require Import Cognates.LexCluster Cognates.LexTheorems Cognates.LexClusterExec.

Theorem C10_cognates_refine :
  forall (V : Type) (leb : V -> V -> bool) (link : list V -> V) (zero err : V)
         (dist : nat -> nat -> option V),
    (forall a b c, leb a b = true -> leb b c = true -> leb a c = true) ->
    forall (t1 t2 : V) (wl : list row) (o1 o2 : list (nat * nat)),
      leb t1 t2 = true -> NoDup (map rid wl) ->
      lex_cluster V leb link zero err dist t1 wl = Some o1 ->
      lex_cluster V leb link zero err dist t2 wl = Some o2 ->
      forall r1 r2 a1 a2 b1 b2, In r1 wl -> In r2 wl ->
        In (rid r1, a1) o1 -> In (rid r2, a2) o1 -> In (rid r1, b1) o2 -> In (rid r2, b2) o2 ->
        a1 = a2 -> b1 = b2.
Proof. exact cognates_refine. Qed.
Print Assumptions C10_cognates_refine.

(* the rational instance that is run against the implementation: turchin,
   normalised edit distance, and replayed sca / lexstat distances *)
Theorem C10_cognates_refine_Q :
  forall (meth : method) (s : dspec) (t1 t2 : Q) (wl : list row) (o1 o2 : list (nat * nat)),
    (t1 <= t2)%Q -> NoDup (map rid wl) ->
    lexq meth t1 s wl = Some o1 -> lexq meth t2 s wl = Some o2 ->
    forall r1 r2 a1 a2 b1 b2, In r1 wl -> In r2 wl ->
      In (rid r1, a1) o1 -> In (rid r2, a2) o1 -> In (rid r1, b1) o2 -> In (rid r2, b2) o2 ->
      a1 = a2 -> b1 = b2.
Proof.
  exact (fun meth s t1 t2 wl o1 o2 L =>
    cognates_refine Q qleb (linkf meth) 0%Q hundred (dist_of s) qleb_trans t1 t2 wl o1 o2
      (proj2 (Qle_bool_iff _ _) L)).
Qed.
Print Assumptions C10_cognates_refine_Q.

(* non-vacuity: two sets at 2/5 that are merged at 1/2 *)
Example C10_ex_cognates :
  let wl := [mkrow 9 0 0; mkrow 3 0 0; mkrow 5 0 1; mkrow 4 0 0] in
  let w := DEdit [(9, [1; 2]); (3, [3; 2]); (5, [1; 2]); (4, [1; 2; 5])] in
  lexq Single (2#5) w wl = Some [(9, 1); (3, 3); (5, 1); (4, 1)] /\
  lexq Single (1#2) w wl = Some [(9, 1); (3, 1); (5, 1); (4, 1)].
Proof. vm_compute. split; reflexivity. Qed.
