(* C04 - A multiple alignment is rectangular, lossless and order-preserving.
   Property theorems only; each is closed by [exact] and followed by
   Print Assumptions.  Model: Msa/Profile.v, Msa/Merge.v, Msa/Refine.v (Multiple),
   Msa/Alignments.v (per-cognate-set alignment of a wordlist); predicates:
   Msa/MsaSpec.v; checkers: Msa/MsaExec.v.

   Oracles (explicit premises, never axioms):
   - the pairwise profile aligner PA (calign.align_profile / talign.align_profile
     with everything that prepares their arguments) with the contract [oracle_valid]:
     whenever it returns, the result is a valid alignment of the column indices of
     the two profiles.  The harness records every call and checks the contract with
     the verified checker [pa_table_okb];
   - the guide tree with the contract [valid_merge_order], checked at run time on
     the recorded tree matrix with [valid_merge_orderb].
   "= Some st" in a hypothesis reads "the call returns" (None models a Python
   exception: empty input, plain-token mode + refinement, malformed oracle value). *)
From Coq Require Import List Arith Bool ZArith.
From LV Require Import Common.Cases Align.DP Msa.Profile Msa.Merge Msa.Refine Msa.MsaSpec Msa.MsaExec
  Msa.ProfileProofs Msa.MergeProofs Msa.UpdateProofs Msa.RefineProofs Msa.MsaExecProofs Msa.Examples
  Msa.Alignments Msa.AlignmentsProofs Msa.Totality Msa.CalignOracle Msa.TreeOracle
  Msa.AlignHistory Msa.AlignHistoryProofs Msa.AlignFuzzy Msa.AlignFuzzyProofs Msa.RefineTotality.
Import ListNotations.
Local Open Scope nat_scope.

(* apply_profile_inv: aligning two blocks that are gapped versions of the sequence lists
   sA and sB gives a block that is a gapped version of sA ++ sB: every old row keeps its
   content (de-gapping is unchanged), all rows get one length, no all-gap column appears. *)
Theorem C04_apply_profile_inv :
  forall (A : Type) (PA : oracle A), oracle_valid PA ->
  forall (sA sB : list (list A)) (RA RB ra rb : mat A),
    aligned sA RA -> aligned sB RB ->
    align_profile PA RA RB = Some (ra, rb) ->
    aligned (sA ++ sB) (ra ++ rb).
Proof. exact align_profile_aligned. Qed.
Print Assumptions C04_apply_profile_inv.

(* the same, explicitly: transposing, inserting all-gap columns at the positions where the
   pairwise result has a gap and transposing back re-gaps every row by the pairwise result *)
Theorem C04_apply_profile_rows :
  forall (A : Type) (PA : oracle A), oracle_valid PA ->
  forall (LA LB : nat) (RA RB ra rb : mat A),
    rect LA RA -> rect LB RB ->
    align_profile PA RA RB = Some (ra, rb) ->
    exists a b, valid_aln a b (seq 0 LA) (seq 0 LB) /\
                ra = map (regap a) RA /\ rb = map (regap b) RB /\
                RA <> [] /\ RB <> [] /\ 0 < LA /\ 0 < LB.
Proof. exact align_profile_spec. Qed.
Print Assumptions C04_apply_profile_rows.

(* merge_inv: after _merge_alignments the internal matrix has one row per unique class
   string, in input order, rectangular, de-gapping row i gives numbers i, no all-gap column *)
Theorem C04_merge_inv :
  forall (PA : oracle num), oracle_valid PA ->
  forall (nums : list (list num)) (tree : list (nat * nat)) (m : imat),
    valid_merge_order (length nums) tree ->
    merge_alignments PA nums tree = Some m ->
    aligned nums m.
Proof. exact merge_alignments_aligned. Qed.
Print Assumptions C04_merge_inv.

(* update_inv: the external matrix has one row per input in input order, de-gapping row k
   gives tokens k, rectangular, no all-gap column, identical inputs get identical rows,
   inputs with equal class strings get the same gap pattern *)
Theorem C04_update_inv :
  forall (cf : config) (m : imat) (e : emat),
    config_ok cf ->
    aligned (numbers (cf_classes cf)) m ->
    update_alignments (cf_tokens cf) (int2ext (cf_classes cf)) m = Some e ->
    ext_ok cf e.
Proof. exact update_alignments_ok. Qed.
Print Assumptions C04_update_inv.

(* prog_align / lib_align, any guide tree method, any mode, either scoring *)
Theorem C04_align_inv :
  forall (PA : oracle num) (cf : config) (tree : list (nat * nat)) (st : state),
    oracle_valid PA -> config_ok cf -> valid_merge_order (height_of cf) tree ->
    align PA cf tree = Some st -> state_ok cf st.
Proof. exact align_inv. Qed.
Print Assumptions C04_align_inv.

(* ... and they do return on every valid input: if the aligner always answers (and validly),
   no input sequence is empty and the guide tree is a valid merge order, then no exception
   (None) of the model is reachable and the result satisfies the invariant *)
Theorem C04_align_total :
  forall (PA : oracle num) (cf : config) (tree : list (nat * nat)),
    oracle_valid PA -> oracle_total PA -> config_ok cf ->
    Forall (fun t => t <> []) (cf_tokens cf) ->
    valid_merge_order (height_of cf) tree ->
    exists st, align PA cf tree = Some st /\ state_ok cf st.
Proof. exact align_total. Qed.
Print Assumptions C04_align_total.

(* ... and so do the refinement calls (sound-class mode) and swap_check: with aligners that always
   answer validly, non-empty inputs and - for iterate_clusters / iterate_orphans, whose index sets
   are inputs of the model - index sets that are one set or non-empty proper subsets (checked at run
   time by idxs_okb), every call returns and keeps the invariant; the index sets of
   iterate_all_sequences and iterate_similar_gap_sites are PROVED to be such subsets.  No exception
   of the model is reachable along such a history *)
Theorem C04_refinement_total :
  forall (T : Type) (ltb : T -> T -> bool) (cf : config),
    config_ok cf -> Forall (fun t => t <> []) (cf_tokens cf) ->
  forall (c : call T) (st : state),
    call_env_ok c -> call_idx_ok cf c st -> state_ok cf st ->
    exists st', run_call T ltb cf true c st = Some st' /\ state_ok cf st'.
Proof. exact call_total. Qed.
Print Assumptions C04_refinement_total.

Theorem C04_history_total :
  forall (T : Type) (ltb : T -> T -> bool) (cf : config),
    config_ok cf -> Forall (fun t => t <> []) (cf_tokens cf) ->
  forall (cs : list (call T)) (st : state),
    Forall (fun c => call_env_ok c /\ forall s, call_idx_ok cf c s) cs -> state_ok cf st ->
    exists st', run_history T ltb cf true cs st = Some st' /\ state_ok cf st'.
Proof. exact history_total. Qed.
Print Assumptions C04_history_total.

(* iter_inv: _split / _reduce_gap_sites / re-align / _join, for ANY index list, any check
   mode and any score function *)
Theorem C04_iter_inv :
  forall (T : Type) (ltb : T -> T -> bool) (score score0 : imat -> T) (PA : oracle num),
    oracle_valid PA ->
  forall (nums : list (list num)) (chk : check_mode) (idxs : list (list nat)) (m m' : imat),
    aligned nums m ->
    iter_matrix T ltb score score0 PA (length nums) chk idxs m = Some (Some m') ->
    aligned nums m'.
Proof. exact iter_matrix_aligned. Qed.
Print Assumptions C04_iter_inv.

(* history_inv: any list of refinement and swap-check calls, each with its own oracle,
   score, check mode and (for clusters / orphans) index sets *)
Theorem C04_history_inv :
  forall (T : Type) (ltb : T -> T -> bool) (cf : config) (sonars : bool), config_ok cf ->
  forall (cs : list (call T)) (st st' : state),
    Forall (call_ok T) cs -> state_ok cf st ->
    run_history T ltb cf sonars cs st = Some st' -> state_ok cf st'.
Proof. exact history_inv. Qed.
Print Assumptions C04_history_inv.

(* the whole life of an object: first alignment, then any history *)
Theorem C04_object_inv :
  forall (T : Type) (ltb : T -> T -> bool) (PA : oracle num) (cf : config) (sonars : bool)
         (tree : list (nat * nat)) (cs : list (call T)) (st0 st : state),
    oracle_valid PA -> config_ok cf -> valid_merge_order (height_of cf) tree ->
    Forall (call_ok T) cs ->
    align PA cf tree = Some st0 ->
    run_history T ltb cf sonars cs st0 = Some st ->
    state_ok cf st.
Proof.
  exact (fun T ltb PA cf sonars tree cs st0 st PV CO V F HA HH =>
           history_inv T ltb cf sonars CO cs st0 st F (align_inv PA cf tree st0 PV CO V HA) HH).
Qed.
Print Assumptions C04_object_inv.

(* the checkers that run on the implementation's state decide the predicates *)
Theorem C04_msa_okb_spec :
  forall (cf : config) (st : state), length (cf_classes cf) = length (cf_tokens cf) ->
    (msa_okb cf st = true <-> state_ok cf st).
Proof. exact msa_okb_spec. Qed.
Print Assumptions C04_msa_okb_spec.

Theorem C04_oracle_checkers :
  (forall tab, pa_table_okb tab = true -> oracle_valid (pa_table tab)) /\
  (forall h tree, valid_merge_orderb h tree = true <-> valid_merge_order h tree) /\
  (forall cf, config_okb cf = true <-> config_ok cf).
Proof. exact (conj pa_table_valid (conj valid_merge_orderb_spec config_okb_spec)). Qed.
Print Assumptions C04_oracle_checkers.

(* Alignments: every cognate set with more than one member is aligned (by any per-set
   aligner whose output satisfies the Multiple invariant), the stored alignments of one set
   share one length, each stored alignment de-gaps to the word's segments, and words
   outside multi-member sets are left unchanged *)
Theorem C04_alignments_inv :
  forall (MSA : list (list Z) -> option (list erow)) (wl : wordlist) (col : list (nat * erow)),
    msa_contract MSA -> wordlist_ok wl ->
    align_wordlist MSA wl = Some col ->
    column_ok wl col.
Proof. exact align_wordlist_ok. Qed.
Print Assumptions C04_alignments_inv.

Theorem C04_alignments_okb_spec :
  forall (wl : wordlist) (col : list (nat * erow)),
    alignments_okb wl col = true <-> column_ok wl col.
Proof. exact alignments_okb_spec. Qed.
Print Assumptions C04_alignments_okb_spec.

(* Alignments with SEVERAL cognate-id columns (the reference column is a parameter of every
   step): one add_alignments(ref, override) / align(ref) call keeps "every entry of the alignment
   column de-gaps to its word's segments" and the registry of sets consistent, and right after
   align(r) the column satisfies the Alignments clause for the partition of column r (sets of
   THAT column share one length, every word outside a multi-member set of THAT column equals
   its segments - also when the column held stale gaps or the rows of another ref before) *)
Theorem C04_alignments_step_inv :
  forall (ws : list mword) (c : acall) (st st' : astate),
    mwords_ok ws -> acall_ok c -> ainv ws st -> alm_step ws c st = Some st' ->
    ainv ws st' /\
    match c with
    | Align r _ => column_ok (view r ws) (a_col st')
    | AddAlignments _ _ => a_col st' = a_col st
    end.
Proof. exact alm_step_inv. Qed.
Print Assumptions C04_alignments_step_inv.

(* ... hence after ANY history of such calls over any refs in any order that ends with align(r),
   starting from a freshly constructed object whose alignment column de-gaps to the segments *)
Theorem C04_alignments_history_inv :
  forall (ws : list mword) (col0 : list (nat * erow)) (cs : list acall) (r : nat)
         (MSA : list (list Z) -> option (list erow)) (st : astate),
    mwords_ok ws -> col_inv ws col0 -> Forall acall_ok cs -> msa_contract MSA ->
    alm_history ws (cs ++ [Align r MSA]) {| a_col := col0; a_reg := [] |} = Some st ->
    column_ok (view r ws) (a_col st) /\ col_inv ws (a_col st).
Proof. exact alm_history_column_ok. Qed.
Print Assumptions C04_alignments_history_inv.

Theorem C04_losslessb_spec :
  forall (ws : list mword) (col : list (nat * erow)), losslessb ws col = true <-> col_inv ws col.
Proof. exact losslessb_spec. Qed.
Print Assumptions C04_losslessb_spec.

(* Alignments in fuzzy (partial-cognate) mode, library default split_on_tones=False: a word is a
   list of morphemes with one cognate id each; splitting every stored alignment at the morpheme
   separator gives one row per morpheme, each row de-gaps to its morpheme (so the stored alignment
   loses nothing, also when a tone letter stands inside a morpheme), the rows of one multi-member
   set share one length, morphemes outside such sets are unchanged *)
Theorem C04_alignments_fuzzy_inv :
  forall (MSA : list (list Z) -> option (list erow)) (ws : list fword) (col : list (nat * erow)),
    msa_contract MSA -> NoDup (map fw_id ws) ->
    align_fuzzy MSA ws = Some col ->
    exists pcol, ungroup ws col = Some pcol /\ column_ok (explode ws) pcol.
Proof. exact align_fuzzy_ok. Qed.
Print Assumptions C04_alignments_fuzzy_inv.

Theorem C04_fuzzy_okb_spec :
  forall (ws : list fword) (col : list (nat * erow)),
    fuzzy_okb ws col = true <-> exists pcol, ungroup ws col = Some pcol /\ column_ok (explode ws) pcol.
Proof. exact fuzzy_okb_spec. Qed.
Print Assumptions C04_fuzzy_okb_spec.

(* ------------------------------------------------------------------ *)
(* non-vacuity: an oracle that meets the contract for every input, and an object *)
Example ex_oracle : oracle_valid (@block_pa num).
Proof. exact block_pa_valid. Qed.

Example ex_oracle_total : oracle_total (@block_pa num).
Proof. intros pA pB _ _. eexists. eexists. reflexivity. Qed.

Example ex_config : config_ok ex_cf.
Proof. apply config_okb_spec. vm_compute. reflexivity. Qed.

Example ex_tree_ok : valid_merge_order (height_of ex_cf) ex_tree.
Proof. apply valid_merge_orderb_spec. vm_compute. reflexivity. Qed.

Example ex_align_returns : align block_pa ex_cf ex_tree = Some ex_state /\ st_int ex_state <> [].
Proof. vm_compute. split; [reflexivity|discriminate]. Qed.

Example ex_state_ok : state_ok ex_cf ex_state.
Proof. exact (align_inv block_pa ex_cf ex_tree ex_state block_pa_valid ex_config ex_tree_ok (proj1 ex_align_returns)). Qed.

Example ex_history_returns :
  exists st, run_history nat Nat.ltb ex_cf true
               [AllSequences nat (ex_env CheckFinal ex_score); SwapCheck nat;
                SimilarGapSites nat (ex_env CheckImmediate ex_score_up);
                Clusters nat [[0; 1]; [2]] (ex_env CheckNone ex_score)] ex_state = Some st
             /\ st <> ex_state.
Proof. eexists. vm_compute. split; [reflexivity|discriminate]. Qed.

(* two cognate codings that partition four words differently, a column with stale gaps, and a
   per-set aligner that meets the contract for every input *)
Definition ex_words : list mword :=
  [ {| mw_id := 7; mw_doc := 0; mw_cogs := [1; 1]; mw_segs := [1; 2; 3]%Z |};
    {| mw_id := 3; mw_doc := 1; mw_cogs := [1; 1]; mw_segs := [1; 2]%Z |};
    {| mw_id := 9; mw_doc := 2; mw_cogs := [2; 1]; mw_segs := [4; 2]%Z |};
    {| mw_id := 4; mw_doc := 0; mw_cogs := [1; 3]; mw_segs := [5]%Z |} ].
Definition ex_col0 : list (nat * erow) :=
  [ (7%nat, [Some 1; Some 2; Some 3; None]); (3%nat, [Some 1; Some 2; None; None]);
    (9%nat, [Some 4; Some 2; None; None]); (4%nat, [None; Some 5]) ]%Z.

Example ex_msa_contract : msa_contract pad_msa.
Proof. exact pad_msa_contract. Qed.

Example ex_history_two_refs :
  mwords_ok ex_words /\ col_inv ex_words ex_col0 /\
  exists st, alm_history ex_words ([AddAlignments 0 false; Align 0 pad_msa; AddAlignments 1 false] ++ [Align 1 pad_msa])
                         {| a_col := ex_col0; a_reg := [] |} = Some st
             /\ a_col st = [ (7%nat, [Some 1; Some 2; Some 3]); (3%nat, [Some 1; Some 2; None]);
                             (9%nat, [Some 4; Some 2; None]); (4%nat, [Some 5]) ]%Z.
Proof.
  split; [|split].
  - unfold mwords_ok. cbn. repeat constructor; cbn; intuition discriminate.
  - apply losslessb_spec. vm_compute. reflexivity.
  - eexists. vm_compute. split; reflexivity.
Qed.

(* align on a ref that was never registered raises (KeyError) *)
Example ex_unregistered_ref_raises :
  alm_step ex_words (Align 1 pad_msa) {| a_col := ex_col0; a_reg := [] |} = None.
Proof. reflexivity. Qed.

(* partial cognates: the first morpheme of words 5 and 2 is one set, the second morphemes another *)
Example ex_fuzzy :
  exists col, align_fuzzy pad_msa
    [ {| fw_id := 5; fw_doc := 0; fw_cogs := [1; 2]; fw_morphs := [[1; 2; 9; 3]; [4]]%Z |};
      {| fw_id := 2; fw_doc := 1; fw_cogs := [1; 2]; fw_morphs := [[1; 2]; [4; 5]]%Z |};
      {| fw_id := 8; fw_doc := 1; fw_cogs := [3]; fw_morphs := [[6; 9; 7; 9]]%Z |} ] = Some col
    /\ col = [ (5%nat, [Some 1; Some 2; Some 9; Some 3; Some 0; Some 4; None]);
               (2%nat, [Some 1; Some 2; None; None; Some 0; Some 4; Some 5]);
               (8%nat, [Some 6; Some 9; Some 7; Some 9]) ]%Z.
Proof. eexists. vm_compute. split; reflexivity. Qed.

Example ex_history_total_hyps :
  Forall (fun t => t <> []) (cf_tokens ex_cf) /\
  Forall (fun c => call_env_ok c /\ forall s, call_idx_ok ex_cf c s)
         [AllSequences nat (ex_env CheckFinal ex_score); SimilarGapSites nat (ex_env CheckImmediate ex_score_up);
          Clusters nat [[0; 1]; [2]] (ex_env CheckNone ex_score); Orphans nat [[1]] (ex_env CheckFinal ex_score);
          SwapCheck nat].
Proof.
  split; [repeat (constructor; [discriminate|]); constructor|].
  assert (E : forall chk sc, env_ok nat (ex_env chk sc) /\ env_total (ex_env chk sc)).
  { intros chk sc. split; [exact block_pa_valid|exact ex_oracle_total]. }
  constructor; [split; [apply E|intros s; exact I]|].
  constructor; [split; [apply E|intros s; exact I]|].
  constructor; [split; [apply E|intros s; right; apply Forall_forall; intros idx Hi; apply idx_okb_spec;
                                 destruct Hi as [<-|[<-|[]]]; reflexivity]|].
  constructor; [split; [apply E|intros s; left; reflexivity]|].
  constructor; [split; [exact I|intros s; exact I]|constructor].
Qed.

(* the guards are real: plain-token mode + a refinement call that reaches the loop raises *)
Example ex_plain_mode_raises :
  run_call nat Nat.ltb ex_cf false (AllSequences nat (ex_env CheckFinal ex_score)) ex_state = None.
Proof. vm_compute. reflexivity. Qed.

(* ---- the oracle contract is met by the model of the REAL profile aligners (added by the lead) ----
   calign.align_profile / talign.align_profile run globalign / semi_globalign / dialign (or the
   secondary twins) on the index lists of the two profiles with an averaged scorer.  For ARBITRARY
   numeric quantities derived from the profiles ([params]: scorer, weights, prosodic strings, scale,
   factor, restricted characters), every profile mode (global, overlap, dialign) and any gop, the
   models of both aligners (Align/Calign.v, tied to the code under C01) satisfy [oracle_valid] and
   [oracle_total] - by the C01 theorems.  Hence, with the real aligner's model as PA, prog_align /
   lib_align return on every valid input and the result is rectangular, lossless, order-preserving. *)
Theorem C04_real_aligners_meet_contract :
  forall (A : Type) (params : mat A -> mat A -> Calign.cin) (gop : QArith_base.Q) (md : Calign.mode), md <> Calign.Local ->
    oracle_valid (calign_oracle A params gop md) /\ oracle_total (calign_oracle A params gop md) /\
    oracle_valid (talign_oracle A params gop md) /\ oracle_total (talign_oracle A params gop md).
Proof.
  exact (fun A params gop md H =>
    conj (calign_oracle_valid A params gop md) (conj (calign_oracle_total A params gop md H)
    (conj (talign_oracle_valid A params gop md) (talign_oracle_total A params gop md H)))).
Qed.
Print Assumptions C04_real_aligners_meet_contract.

Theorem C04_align_total_real_aligner :
  forall (params : mat num -> mat num -> Calign.cin) (gop : QArith_base.Q) (md : Calign.mode), md <> Calign.Local ->
  forall (cf : config) (tree : list (nat * nat)),
    config_ok cf -> Forall (fun t => t <> []) (cf_tokens cf) ->
    valid_merge_order (height_of cf) tree ->
    exists st, align (calign_oracle num params gop md) cf tree = Some st /\ state_ok cf st.
Proof.
  exact (fun params gop md H cf tree =>
    align_total (calign_oracle num params gop md) cf tree
      (calign_oracle_valid num params gop md) (calign_oracle_total num params gop md H)).
Qed.
Print Assumptions C04_align_total_real_aligner.

(* ---- the guide-tree contract is met by the models of the REAL tree builders (lead) ----
   The tree matrices of _upgma and _neighbor (Cluster/Upgma.v, Cluster/Neighbor.v, tied to the code
   under C09) are valid merge orders for EVERY distance matrix (C09's structure theorems). *)
Theorem C04_real_guide_trees_meet_contract :
  (forall (d : nat -> nat -> QArith_base.Q) (n : nat), 1 <= n ->
     valid_merge_order n (pairs_of (Upgma.upgma_rows n d))) /\
  (forall (m : Upgma.mat), 1 <= length m ->
     valid_merge_order (length m) (pairs_of (Neighbor.nj_rows m))).
Proof. exact (conj upgma_tree_valid_merge_order nj_tree_valid_merge_order). Qed.
Print Assumptions C04_real_guide_trees_meet_contract.

(* end to end inside the model: UPGMA guide tree on any distances + the real profile aligner with any
   derived numeric parameters: progressive / library alignment of non-empty sequences always returns
   and the result is rectangular, lossless, order-preserving and duplicate-consistent *)
Theorem C04_align_total_real :
  forall (params : mat num -> mat num -> Calign.cin) (gop : QArith_base.Q) (md : Calign.mode),
    md <> Calign.Local ->
  forall (cf : config) (d : nat -> nat -> QArith_base.Q),
    config_ok cf -> Forall (fun t => t <> []) (cf_tokens cf) -> 1 <= height_of cf ->
    exists st, align (calign_oracle num params gop md) cf (pairs_of (Upgma.upgma_rows (height_of cf) d)) = Some st
               /\ state_ok cf st.
Proof.
  exact (fun params gop md H cf d CO NE Hh =>
    align_total (calign_oracle num params gop md) cf (pairs_of (Upgma.upgma_rows (height_of cf) d))
      (calign_oracle_valid num params gop md) (calign_oracle_total num params gop md H) CO NE
      (upgma_tree_valid_merge_order d (height_of cf) Hh)).
Qed.
Print Assumptions C04_align_total_real.
