(* List / rose-tree lemmas used by the gain-loss proofs. *)
From Coq Require Import ZArith List Bool Lia.
From LV Require Import GainLoss.RoseTree.
Import ListNotations.
Local Open Scope Z_scope.

(* ---------- lookup ---------- *)

Lemma lookup_app {A} (n : Z) (a b : list (Z * A)) :
  lookup n (a ++ b) = match lookup n a with Some e => Some e | None => lookup n b end.
Proof.
  induction a as [|[k v] a IH]; cbn [lookup app]; [reflexivity|].
  destruct (k =? n); [reflexivity|exact IH].
Qed.

Lemma lookup_none {A} (n : Z) (a : list (Z * A)) : ~ In n (keys a) -> lookup n a = None.
Proof.
  induction a as [|[k v] a IH]; cbn [lookup keys map fst In]; intros H; [reflexivity|].
  destruct (Z.eqb_spec k n) as [E|E]; [exfalso; apply H; left; exact E|].
  apply IH. intros I. apply H. right. exact I.
Qed.

Lemma lookup_some_in {A} (n : Z) (a : list (Z * A)) v : lookup n a = Some v -> In (n, v) a.
Proof.
  induction a as [|[k w] a IH]; cbn [lookup In]; intros H; [discriminate|].
  destruct (Z.eqb_spec k n) as [E|E].
  - inversion H; subst. left. reflexivity.
  - right. apply IH. exact H.
Qed.

Lemma lookup_in_keys {A} (n : Z) (a : list (Z * A)) v : lookup n a = Some v -> In n (keys a).
Proof.
  intros H. apply lookup_some_in in H. unfold keys. apply in_map_iff. exists (n, v). split; [reflexivity|exact H].
Qed.

Lemma keys_app {A} (a b : list (Z * A)) : keys (a ++ b) = keys a ++ keys b.
Proof. unfold keys. apply map_app. Qed.

(* ---------- NoDup helpers ---------- *)

Lemma NoDup_app_l {A} (a b : list A) : NoDup (a ++ b) -> NoDup a.
Proof.
  induction a as [|x a IH]; cbn [app]; intros H; [constructor|].
  inversion H as [|y l Hn Hd]; subst. constructor.
  - intros I. apply Hn. apply in_or_app. left. exact I.
  - apply IH. exact Hd.
Qed.

Lemma NoDup_app_r {A} (a b : list A) : NoDup (a ++ b) -> NoDup b.
Proof.
  induction a as [|x a IH]; cbn [app]; intros H; [exact H|].
  inversion H; subst. apply IH. assumption.
Qed.

Lemma NoDup_app_disj {A} (a b : list A) x : NoDup (a ++ b) -> In x a -> In x b -> False.
Proof.
  induction a as [|y a IH]; cbn [app In]; intros H Ha Hb; [exact Ha|].
  inversion H as [|z l Hn Hd]; subst.
  destruct Ha as [E|Ha].
  - subst. apply Hn. apply in_or_app. right. exact Hb.
  - exact (IH Hd Ha Hb).
Qed.

(* ---------- trees ---------- *)

Lemma tname_in_names t : In (tname t) (names t).
Proof. destruct t as [n cs]. cbn [names tname]. left. reflexivity. Qed.

Lemma names_eq t : names t = tname t :: sdesc t.
Proof. destruct t as [n cs]. reflexivity. Qed.

Lemma sdesc_in_names t m : In m (sdesc t) -> In m (names t).
Proof. rewrite names_eq. intros H. right. exact H. Qed.

Lemma in_flat_map_names c cs m : In c cs -> In m (names c) -> In m (flat_map names cs).
Proof. intros Hc Hm. apply in_flat_map. exists c. split; assumption. Qed.

Lemma child_names_in_sdesc n cs c m : In c cs -> In m (names c) -> In m (sdesc (Node n cs)).
Proof. unfold sdesc. cbn [children]. apply in_flat_map_names. Qed.

Lemma NoDup_child n cs c : NoDup (names (Node n cs)) -> In c cs -> NoDup (names c).
Proof.
  cbn [names]. intros H Hc. inversion H as [|x l Hn Hd]; subst. clear H Hn.
  revert Hd Hc. induction cs as [|d cs IH]; intros Hd Hc; [destruct Hc|].
  cbn [flat_map] in Hd. destruct Hc as [E|Hc].
  - subst. exact (NoDup_app_l _ _ Hd).
  - apply IH; [exact (NoDup_app_r _ _ Hd)|exact Hc].
Qed.

Lemma NoDup_forest_child cs c : NoDup (flat_map names cs) -> In c cs -> NoDup (names c).
Proof.
  induction cs as [|d cs IH]; intros Hd Hc; [destruct Hc|].
  cbn [flat_map] in Hd. destruct Hc as [E|Hc].
  - subst. exact (NoDup_app_l _ _ Hd).
  - apply IH; [exact (NoDup_app_r _ _ Hd)|exact Hc].
Qed.

Lemma tname_not_sdesc t : NoDup (names t) -> ~ In (tname t) (sdesc t).
Proof. rewrite names_eq. intros H. inversion H; assumption. Qed.

(* a name belongs to at most one position of a forest with distinct names *)
Lemma forest_unique {B} (cs : list tree) (bs : list B) c b c' b' m :
  NoDup (flat_map names cs) ->
  In (c, b) (combine cs bs) -> In (c', b') (combine cs bs) ->
  In m (names c) -> In m (names c') -> (c, b) = (c', b').
Proof.
  revert bs. induction cs as [|d cs IH]; intros bs Hd H1 H2 M1 M2; [destruct H1|].
  destruct bs as [|e bs]; [destruct H1|].
  cbn [combine In] in H1, H2. cbn [flat_map] in Hd.
  destruct H1 as [E1|H1]; destruct H2 as [E2|H2].
  - congruence.
  - exfalso. inversion E1; subst. apply in_combine_l in H2.
    exact (NoDup_app_disj _ _ m Hd M1 (in_flat_map_names _ _ _ H2 M2)).
  - exfalso. inversion E2; subst. apply in_combine_l in H1.
    exact (NoDup_app_disj _ _ m Hd M2 (in_flat_map_names _ _ _ H1 M1)).
  - exact (IH bs (NoDup_app_r _ _ Hd) H1 H2 M1 M2).
Qed.

Lemma forest_names_disjoint cs c c' m :
  NoDup (flat_map names cs) -> In c cs -> In c' cs -> In m (names c) -> In m (names c') -> c = c'.
Proof.
  intros Hd H1 H2 M1 M2.
  assert (E : (c, c) = (c', c')).
  { apply (forest_unique cs cs c c c' c' m Hd); try assumption.
    - clear -H1. induction cs as [|d cs IH]; [destruct H1|]. cbn [combine In]. destruct H1 as [E|H1]; [left; congruence|right; auto].
    - clear -H2. induction cs as [|d cs IH]; [destruct H2|]. cbn [combine In]. destruct H2 as [E|H2]; [left; congruence|right; auto]. }
  congruence.
Qed.

(* the name of a child is not a strict descendant of any sibling-or-self *)
Lemma child_name_not_in_sdesc cs c c' :
  NoDup (flat_map names cs) -> In c cs -> In c' cs -> ~ In (tname c) (sdesc c').
Proof.
  intros Hd H1 H2 I.
  assert (E : c = c').
  { apply (forest_names_disjoint cs c c' (tname c) Hd H1 H2 (tname_in_names c)). apply sdesc_in_names. exact I. }
  subst. exact (tname_not_sdesc c' (NoDup_forest_child cs c' Hd H2) I).
Qed.

Lemma NoDup_child_names cs : NoDup (flat_map names cs) -> NoDup (map tname cs).
Proof.
  induction cs as [|d cs IH]; intros Hd; cbn [map]; [constructor|].
  cbn [flat_map] in Hd. constructor.
  - intros I. apply in_map_iff in I. destruct I as [c [E Hc]].
    apply (NoDup_app_disj _ _ (tname d) Hd (tname_in_names d)).
    rewrite <- E. exact (in_flat_map_names _ _ _ Hc (tname_in_names c)).
  - apply IH. exact (NoDup_app_r _ _ Hd).
Qed.

(* ---------- sums ---------- *)

Lemma Forall2_length' {A B} (R : A -> B -> Prop) l1 l2 : Forall2 R l1 l2 -> length l1 = length l2.
Proof. induction 1; cbn [length]; congruence. Qed.

Lemma Forall2_combine_in {A B} (R : A -> B -> Prop) l1 l2 a b :
  Forall2 R l1 l2 -> In (a, b) (combine l1 l2) -> R a b.
Proof.
  induction 1 as [|x y l1 l2 Hxy HF IH]; cbn [combine In]; intros H; [destruct H|].
  destruct H as [E|H]; [inversion E; subst; exact Hxy|exact (IH H)].
Qed.

Lemma In_nth_pair {A B} (l1 : list A) (l2 : list B) b :
  length l1 = length l2 -> In b l2 -> exists a, In (a, b) (combine l1 l2).
Proof.
  revert l2. induction l1 as [|x l1 IH]; intros [|y l2] HL Hb; cbn [length] in HL; try discriminate; try destruct Hb.
  - exists x. left. congruence.
  - destruct (IH l2) as [a Ha]; [congruence|assumption|]. exists a. right. exact Ha.
Qed.

Lemma In_nth_pair_l {A B} (l1 : list A) (l2 : list B) a :
  length l1 = length l2 -> In a l1 -> exists b, In (a, b) (combine l1 l2).
Proof.
  revert l2. induction l1 as [|x l1 IH]; intros [|y l2] HL Ha; cbn [length] in HL; try discriminate; try destruct Ha.
  - exists y. left. congruence.
  - destruct (IH l2) as [b Hb]; [congruence|assumption|]. exists b. right. exact Hb.
Qed.
