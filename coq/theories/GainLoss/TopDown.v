(* Executable model of PhyBo._get_GLS_top_down (lingpy/compare/phylogeny.py): the queue
   splitting of Dagan & Martin's top-down method followed by the bottom-up loss filling.
   Exact (same event list in the same order).  No proofs here.

   Python                                        model
   ------                                        -----
   presents (pap >= 1 after recoding)            [tpresent]
   tree = lowestCommonAncestor(pap >= 1)         [lca_sub (present_ge1 ..)]
   queue of (subtree, counter), FIFO             [bfs] with fuel = number of nodes + 1
   one queue element                             [process]
   d[node], ordered_nodes, loss events           [dstate], [ordered], [fill]          *)
From Coq Require Import ZArith List Bool Arith.
From LV Require Import GainLoss.RoseTree GainLoss.GetGls GainLoss.GetGLSr.
Import ListNotations.
Local Open Scope Z_scope.

Definition tpresent (pat : list (Z * Z)) (n : Z) : bool := present_ge1 pat n.

(* --- loss filling --- *)

Fixpoint insert_by (key : tree -> nat) (x : tree) (l : list tree) : list tree :=
  match l with
  | [] => [x]
  | y :: r => if (key x <=? key y)%nat then x :: y :: r else y :: insert_by key x r
  end.
(* stable: fold from the right, an earlier element goes before later ones with the same key *)
Definition sort_by (key : tree -> nat) (l : list tree) : list tree := fold_right (insert_by key) [] l.

(* internal nodes, preorder, self included *)
Fixpoint nontips (t : tree) : list tree :=
  match t with
  | Node n [] => []
  | Node n cs => t :: flat_map nontips cs
  end.

(* sorted(subtree.nontips() + [subtree], key=number of tips) *)
Definition ordered (t : tree) : list tree :=
  sort_by (fun x => length (tips x)) (flat_map nontips (children t) ++ [t]).

Definition dstate (pat : list (Z * Z)) (t : tree) : bool := has_present (present_ge1 pat) t.

Definition fill_node (pat : list (Z * Z)) (x : tree) : list (Z * Z) :=
  let states := map (dstate pat) (children x) in
  if forallb (fun b => b) states || forallb negb states then []
  else flat_map (fun c => if dstate pat c then [] else [(tname c, 0)]) (children x).

Definition fill (pat : list (Z * Z)) (t : tree) : list (Z * Z) :=
  match children t with
  | [] => []
  | _ => flat_map (fill_node pat) (ordered t)
  end.

(* --- the queue --- *)

Definition subset (a b : list Z) : bool := forallb (fun n => memz n b) a.

Definition process (pat : list (Z * Z)) (mode : Z) (u : tree) (k : Z) : list (Z * Z) * list (tree * Z) :=
  let isP := tpresent pat in
  if k >=? mode then
    ((if has_present isP u then [(tname (lca_sub isP u), 1)] else [(tname u, 0)]), [])
  else
    let commons := flat_map (fun c => if has_present isP c then tips (lca_sub isP c) else []) (children u) in
    if subset commons (tips u) && subset (tips u) commons then ([(tname (lca_sub isP u), 1)], [])
    else
      let q := flat_map (fun c => if is_tip c then [] else [(c, k + 1)]) (children u) in
      let tp := filter (fun c => is_tip c && isP (tname c)) (children u) in
      ((if Nat.eqb (length tp) 2 then [(tname u, 1)] else map (fun c => (tname c, 1)) tp), q).

Fixpoint bfs (fuel : nat) (pat : list (Z * Z)) (mode : Z) (queue : list (tree * Z)) : list (Z * Z) :=
  match fuel with
  | O => []
  | S f =>
      match queue with
      | [] => []
      | (u, k) :: rest =>
          let r := process pat mode u k in
          fst r ++ bfs f pat mode (rest ++ snd r)
      end
  end.

Definition top_down (pat : list (Z * Z)) (t : tree) (mode md : Z) : result :=
  let pat' := recode md pat in
  let isP1 := present_ge1 pat' in
  if negb (has_present isP1 t) then Err 1
  else
    let sub := lca_sub isP1 t in
    let scenario := if mode =? 1 then [(tname sub, 1)] else bfs (S (size sub)) pat' mode [(sub, 1)] in
    Ok (flat_map (fun s => s :: match find_node (fst s) sub with
                                | Some x => fill pat' x
                                | None => []
                                end) scenario).
