(* C07 for PhyBo.get_GLS per cognate set: the singleton shortcut and the three modes. *)
From Coq Require Import ZArith List Bool Lia.
From LV Require Import GainLoss.RoseTree GainLoss.TreeLemmas GainLoss.Replay GainLoss.ReplayProofs
  GainLoss.GetGls GainLoss.GetGlsProofs GainLoss.GetGlsTopProofs GainLoss.GetGLSr GainLoss.GetGLSrProofs
  GainLoss.TopDown GainLoss.TopDownProofs GainLoss.PhyBoGlue.
Import ListNotations.
Local Open Scope Z_scope.

(* ---------- a single gain at a tip ---------- *)

Lemma single_gain_absent n t : ~ In n (names t) ->
  forall p, In p (replay false [(n, 1)] t) -> snd p = false.
Proof.
  intros Hn p Hp. unfold replay in Hp.
  assert (E : node_state false (tname t) [(n, 1)] = false).
  { unfold node_state. cbn [lookup]. destruct (Z.eqb_spec n (tname t)) as [E|_]; [|reflexivity].
    exfalso. apply Hn. rewrite E. apply tname_in_names. }
  rewrite E in Hp. destruct (replay_below_no_events t false [(n, 1)]) with (p := p) as [Hs _]; [|exact Hp|exact Hs].
  intros m Hm. cbn [lookup]. destruct (Z.eqb_spec n m) as [E'|_]; [|reflexivity].
  exfalso. apply Hn. rewrite E'. apply sdesc_in_names. exact Hm.
Qed.

Lemma single_gain_replay n t : NoDup (names t) -> In n (tips t) ->
  forall p, In p (replay false [(n, 1)] t) -> snd p = (fst p =? n).
Proof.
  induction t as [m cs IH] using tree_ind'. intros Hd Hn p Hp. destruct cs as [|c0 cs0].
  - cbn in Hn. destruct Hn as [E|[]]. subst m. unfold replay in Hp. cbn [tname replay_below] in Hp.
    destruct Hp as [E|[]]. subst p. cbn [fst snd]. unfold node_state. cbn [lookup]. rewrite !Z.eqb_refl. reflexivity.
  - remember (c0 :: cs0) as cs eqn:Ecs.
    assert (Hnm : m <> n).
    { intros E. apply (tname_not_sdesc (Node m cs) Hd). cbn [tname]. rewrite E.
      change (In n (flat_map tips cs)) in Hn || (rewrite Ecs in Hn; change (In n (flat_map tips (c0 :: cs0))) in Hn; rewrite <- Ecs in Hn).
      apply in_flat_map in Hn. destruct Hn as [c [Hc Hn]].
      exact (child_names_in_sdesc m cs c n Hc (tips_in_names c n Hn)). }
    unfold replay in Hp. cbn [tname] in Hp.
    assert (E : node_state false m [(n, 1)] = false).
    { unfold node_state. cbn [lookup]. destruct (Z.eqb_spec n m); [congruence|reflexivity]. }
    rewrite E in Hp. rewrite Ecs in Hp. rewrite replay_below_node in Hp. rewrite <- Ecs in Hp.
    apply in_flat_map in Hp. destruct Hp as [c [Hc Hp]].
    change (In p (replay false [(n, 1)] c)) in Hp.
    assert (Hdf : NoDup (flat_map names cs)) by (cbn [names] in Hd; inversion Hd; assumption).
    rewrite Ecs in Hn. change (In n (flat_map tips (c0 :: cs0))) in Hn. rewrite <- Ecs in Hn.
    apply in_flat_map in Hn. destruct Hn as [c' [Hc' Hn']].
    destruct (in_dec Z.eq_dec n (names c)) as [Hin|Hout].
    + assert (c' = c) by exact (forest_names_disjoint cs c' c n Hdf Hc' Hc (tips_in_names c' n Hn') Hin).
      subst c'. rewrite Forall_forall in IH. exact (IH c Hc (NoDup_child m cs c Hd Hc) Hn' p Hp).
    + rewrite (single_gain_absent n c Hout p Hp). symmetry. apply Z.eqb_neq. intros E'.
      apply Hout. rewrite <- E'.
      assert (Ht : In (fst p) (tips c)).
      { unfold replay in Hp. rewrite <- (replay_below_tips c (node_state false (tname c) [(n, 1)]) [(n, 1)]).
        apply in_map. exact Hp. }
      exact (tips_in_names c _ Ht).
Qed.

(* ---------- counting the presences ---------- *)

Lemma NoDup_filter {A} (f : A -> bool) l : NoDup l -> NoDup (filter f l).
Proof.
  induction 1 as [|x l Hx Hd IH]; cbn [filter]; [constructor|]. destruct (f x); [|exact IH].
  constructor; [|exact IH]. intros I. apply filter_In in I. exact (Hx (proj1 I)).
Qed.

Lemma NoDup_map_fst_filter (f : Z * Z -> bool) (pat : list (Z * Z)) :
  NoDup (keys pat) -> NoDup (map fst (filter f pat)).
Proof.
  unfold keys. induction pat as [|x pat IH]; cbn [map filter]; intros H; [constructor|].
  inversion H as [|y l Hn Hd]; subst. destruct (f x); [|exact (IH Hd)]. cbn [map]. constructor; [|exact (IH Hd)].
  intros I. apply Hn. apply in_map_iff in I. destruct I as [q [E Hq]]. apply filter_In in Hq.
  apply in_map_iff. exists q. split; [exact E|exact (proj1 Hq)].
Qed.

Lemma lookup_NoDup_in (pat : list (Z * Z)) n s : NoDup (keys pat) -> In (n, s) pat -> lookup n pat = Some s.
Proof.
  unfold keys. induction pat as [|[k v] pat IH]; intros Hd Hin; [destruct Hin|]. cbn [lookup].
  cbn [map fst] in Hd. inversion Hd as [|y l Hn Hd']; subst.
  destruct Hin as [E|Hin].
  - inversion E; subst. rewrite Z.eqb_refl. reflexivity.
  - destruct (Z.eqb_spec k n) as [E|_]; [|exact (IH Hd' Hin)].
    exfalso. apply Hn. subst k. apply in_map_iff. exists (n, s). auto.
Qed.

Section Count.
  Variable pat : list (Z * Z).
  Variable t : tree.
  Hypothesis Hkeys : NoDup (keys pat).
  Hypothesis Htaxa : forall n s, In (n, s) pat -> In n (tips t).
  Hypothesis Hd : NoDup (names t).

  Let present (n : Z) : bool := match lookup n pat with Some s => s =? 1 | None => false end.

  Lemma tips_NoDup : forall u, NoDup (names u) -> NoDup (tips u).
  Proof.
    induction u as [m cs IH] using tree_ind'. intros Hdu. destruct cs as [|c0 cs0]; [repeat constructor; intros []|].
    change (NoDup (flat_map tips (c0 :: cs0))).
    assert (Hdf : NoDup (flat_map names (c0 :: cs0))) by (cbn [names] in Hdu; inversion Hdu; assumption).
    remember (c0 :: cs0) as cs. clear Heqcs Hdu. induction cs as [|c cs IHc]; [constructor|].
    inversion IH as [|y r Hy Hr]; subst. cbn [flat_map] in *.
    assert (H1 := Hy (NoDup_app_l _ _ Hdf)). assert (H2 := IHc Hr (NoDup_app_r _ _ Hdf)).
    clear -H1 H2 Hdf. induction (tips c) as [|x xs IHx] eqn:Et; [exact H2|].
    assert (Hsub : forall z, In z (tips c) -> In z (names c)) by (intros z; apply tips_in_names).
    revert Hsub. rewrite Et. clear Et. intros Hsub. revert H1 Hsub. generalize (x :: xs). clear x xs IHx.
    intros l. induction l as [|z l IHl]; intros H1 Hsub; [exact H2|]. cbn [app]. inversion H1; subst. constructor.
    - intros I. apply in_app_or in I. destruct I as [I|I]; [contradiction|].
      apply in_flat_map in I. destruct I as [c' [Hc' Hz]].
      exact (NoDup_app_disj _ _ z Hdf (Hsub z (or_introl eq_refl)) (in_flat_map_names c' cs z Hc' (tips_in_names c' z Hz))).
    - apply IHl; [assumption|]. intros w Hw. apply Hsub. right. exact Hw.
  Qed.

  Lemma count_presences :
    length (filter (fun p => snd p =? 1) pat) = length (filter present (tips t)).
  Proof.
    rewrite <- (map_length fst (filter (fun p => snd p =? 1) pat)).
    apply Nat.le_antisymm; apply NoDup_incl_length.
    - apply NoDup_map_fst_filter. exact Hkeys.
    - intros n Hn. apply in_map_iff in Hn. destruct Hn as [[m s] [E Hp]]. cbn in E. subst m.
      apply filter_In in Hp. destruct Hp as [Hin Hs]. cbn [snd] in Hs. apply filter_In. split; [exact (Htaxa n s Hin)|].
      unfold present. rewrite (lookup_NoDup_in pat n s Hkeys Hin). exact Hs.
    - apply NoDup_filter. exact (tips_NoDup t Hd).
    - intros n Hn. apply filter_In in Hn. destruct Hn as [_ Hp]. unfold present in Hp.
      destruct (lookup n pat) as [s|] eqn:El; [|discriminate]. apply in_map_iff. exists (n, s). split; [reflexivity|].
      apply filter_In. split; [exact (lookup_some_in n pat s El)|exact Hp].
  Qed.
End Count.

(* ---------- the theorem ---------- *)

(* Guards: node names distinct; the pattern gives every tip a state in {1,0,-1}, lists every taxon
   once and only taxa that are tips (PhyBo builds it with one entry per language of the wordlist);
   missing_data in {0,-1}.  Whatever PhyBo.get_GLS stores for a cognate set - by the singleton shortcut
   or by the function of the chosen mode - reproduces the set's pattern. *)
Theorem phybo_replays pat t m gpl push md ev :
  NoDup (names t) -> pattern_known pat t -> NoDup (keys pat) -> (forall n s, In (n, s) pat -> In n (tips t)) ->
  (md = 0 \/ md = -1) ->
  phybo_per_cog pat t m gpl push md = Ok ev ->
  reproduces md pat t ev.
Proof.
  intros Hd Hpk Hkeys Htaxa Hmd H. unfold phybo_per_cog in H.
  destruct (Z.eqb_spec (Z.of_nat (length (filter (fun p => snd p =? 1) pat))) 1) as [E1|N1].
  - (* the singleton shortcut *)
    destruct (find (fun p => snd p =? 1) pat) as [[n s]|] eqn:Ef; [|discriminate].
    apply find_some in Ef. destruct Ef as [Hin Hs]. cbn [snd] in Hs. apply Z.eqb_eq in Hs. subst s.
    cbn [fst] in H. inversion H; subst ev. clear H.
    assert (Hn : In n (tips t)) by exact (Htaxa n 1 Hin).
    split.
    + intros p Hp. assert (Hst := single_gain_replay n t Hd Hn p Hp).
      assert (Ht : In (fst p) (tips t)).
      { unfold replay in Hp. rewrite <- (replay_below_tips t (node_state false (tname t) [(n, 1)]) [(n, 1)]).
        apply in_map. exact Hp. }
      destruct (Hpk _ Ht) as [s [El Hv]]. exists s. split; [exact El|].
      destruct (Z.eqb_spec (fst p) n) as [En|Nn].
      * left. rewrite En in El. rewrite (lookup_NoDup_in pat n 1 Hkeys Hin) in El. inversion El. auto.
      * assert (s <> 1).
        { intros Es. subst s. assert (Hin' := lookup_some_in _ _ _ El).
          (* two different entries with state 1 contradict the count *)
          assert (Hf1 : In (n, 1) (filter (fun p => snd p =? 1) pat)) by (apply filter_In; auto).
          assert (Hf2 : In (fst p, 1) (filter (fun p => snd p =? 1) pat)) by (apply filter_In; auto).
          destruct (filter (fun p => snd p =? 1) pat) as [|a [|b r]]; cbn [length] in E1; try lia.
          destruct Hf1 as [Ea|[]]. destruct Hf2 as [Eb|[]]. congruence. }
        destruct Hv as [E|[E|E]]; [contradiction| |]; subst s; [right; left; auto|right; right; auto].
    + intros n' e [E|[]]. injection E as Ea Eb. rewrite <- Ea, <- Eb. split; [exact (tips_in_names t n Hn)|auto].
  - destruct m as [g l|r|r].
    + exact (get_gls_replays pat t gpl g l push md ev Hd Hpk Hmd H).
    + exact (get_GLSr_replays pat t (ModeR r) gpl push md ev Hd Hpk Hmd H).
    + apply (top_down_replays_two_presences pat t r md ev Hd Hpk Hmd); [|exact H]. left.
      rewrite <- (count_presences pat t Hkeys Htaxa Hd).
      (* a result means there is a presence; not exactly one: at least two *)
      assert (Hhp : has_present (present_ge1 (recode md pat)) t = true).
      { unfold top_down in H. destruct (has_present (present_ge1 (recode md pat)) t); [reflexivity|discriminate]. }
      assert (H1 : (1 <= length (filter (fun n => match lookup n pat with Some s => (s =? 1)%Z | None => false end) (tips t)))%nat).
      { destruct (filter (fun n => match lookup n pat with Some s => (s =? 1)%Z | None => false end) (tips t)) as [|x xs] eqn:Ef;
          [|cbn [length]; lia]. exfalso.
        assert (Hnone : has_present (present_ge1 (recode md pat)) t = false).
        { destruct (has_present (present_ge1 (recode md pat)) t) eqn:Eh; [|reflexivity]. exfalso.
          assert (Hex : exists x, In x (tips t) /\ present_ge1 (recode md pat) x = true).
          { clear -Eh. induction t as [k cs IH] using tree_ind'. destruct cs as [|c0 cs0].
            - exists k. split; [left; reflexivity|exact Eh].
            - rewrite has_present_node in Eh. apply existsb_exists in Eh. destruct Eh as [c [Hc Hh]].
              rewrite Forall_forall in IH. destruct (IH c Hc Hh) as [x [Hx Hp]]. exists x. split; [|exact Hp].
              exact (tips_child k _ c x Hc Hx). }
          destruct Hex as [x [Hx Hp]].
          assert (Hin : In x (filter (fun n => match lookup n pat with Some s => (s =? 1)%Z | None => false end) (tips t))).
          { apply filter_In. split; [exact Hx|]. destruct (Hpk x Hx) as [s [El Hv]]. rewrite El.
            unfold present_ge1 in Hp. rewrite lookup_recode, El in Hp. cbn [option_map] in Hp.
            destruct Hv as [E|[E|E]]; subst s; [reflexivity|discriminate Hp|]. cbn in Hp. destruct Hmd; subst md; discriminate Hp. }
          rewrite Ef in Hin. destruct Hin. }
        congruence. }
      rewrite (count_presences pat t Hkeys Htaxa Hd) in N1 |- *. lia.
Qed.
