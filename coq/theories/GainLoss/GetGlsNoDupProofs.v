(* No node carries two events in a scenario returned by get_gls: the association lists of the
   model have distinct keys (which is what makes them a faithful picture of the Python dicts,
   and the replay unambiguous). *)
From Coq Require Import ZArith List Bool Lia.
From LV Require Import GainLoss.RoseTree GainLoss.TreeLemmas GainLoss.Replay GainLoss.ReplayProofs
  GainLoss.GetGls GainLoss.GetGlsProofs GainLoss.GetGlsTopProofs.
Import ListNotations.
Local Open Scope Z_scope.

Lemma NoDup_app_intro {A} (a b : list A) :
  NoDup a -> NoDup b -> (forall x, In x a -> ~ In x b) -> NoDup (a ++ b).
Proof.
  induction a as [|x a IH]; intros Ha Hb Hd; [exact Hb|]. cbn [app]. inversion Ha as [|y l Hn Ha']; subst.
  constructor.
  - intros I. apply in_app_or in I. destruct I as [I|I]; [contradiction|]. exact (Hd x (or_introl eq_refl) I).
  - apply IH; [exact Ha'|exact Hb|]. intros z Hz. apply Hd. right. exact Hz.
Qed.

Lemma mark_keys_nodup e ns : forall ss, NoDup ns -> NoDup (keys (mark e ns ss)).
Proof.
  induction ns as [|n ns IH]; intros [|s ss] Hd; cbn [mark]; try constructor.
  inversion Hd as [|y l Hn Hd']; subst. destruct (s =? e); [|exact (IH ss Hd')].
  unfold keys. cbn [map fst]. constructor; [|exact (IH ss Hd')].
  intros I. apply Hn. unfold keys in I. apply in_map_iff in I. destruct I as [p [E Hp]].
  apply mark_in in Hp. rewrite <- E. exact (proj1 Hp).
Qed.

Lemma concat_keys_nodup (cs : list tree) (combo : list scen) :
  Forall2 (fun c (sc : scen) => NoDup (keys (snd sc)) /\ forall p, In p (snd sc) -> In (fst p) (sdesc c)) cs combo ->
  NoDup (flat_map names cs) ->
  NoDup (keys (concat (map snd combo))) /\
  (forall k, In k (keys (concat (map snd combo))) -> exists c, In c cs /\ In k (sdesc c)).
Proof.
  induction 1 as [|c sc cs combo [Hn Hk] HF IH]; intros Hd.
  - split; [constructor|intros k []].
  - cbn [flat_map] in Hd. destruct (IH (NoDup_app_r _ _ Hd)) as [IH1 IH2]. cbn [map concat]. rewrite keys_app. split.
    + apply NoDup_app_intro; [exact Hn|exact IH1|]. intros k Hk1 Hk2.
      unfold keys in Hk1. apply in_map_iff in Hk1. destruct Hk1 as [p [E Hp]]. subst k.
      destruct (IH2 _ Hk2) as [c' [Hc' Hs]].
      apply (NoDup_app_disj _ _ (fst p) Hd).
      * apply sdesc_in_names. exact (Hk p Hp).
      * exact (in_flat_map_names c' cs _ Hc' (sdesc_in_names _ _ Hs)).
    + intros k Hkin. apply in_app_or in Hkin. destruct Hkin as [H1|H2].
      * unfold keys in H1. apply in_map_iff in H1. destruct H1 as [p [E Hp]]. subst k. exists c.
        split; [left; reflexivity|exact (Hk p Hp)].
      * destruct (IH2 _ H2) as [c' [Hc' Hs]]. exists c'. split; [right; exact Hc'|exact Hs].
Qed.

Section KeysNoDup.
  Variable pat : list (Z * Z).
  Variables gpl g l : Z.

  Theorem scen_keys_nodup t : NoDup (names t) -> tips_known pat t ->
    forall sc, In sc (scen_of pat gpl g l t) -> NoDup (keys (snd sc)).
  Proof.
    induction t as [n cs IH] using tree_ind'. intros Hd Hk sc Hin. destruct cs as [|c0 cs0].
    - cbn in Hin. destruct Hin as [E|[]]. subst sc. constructor.
    - apply scen_of_node_in in Hin. destruct Hin as [combo [HF Hc]].
      remember (c0 :: cs0) as cs eqn:Ecs.
      assert (Hdf : NoDup (flat_map names cs)) by (cbn [names] in Hd; inversion Hd; assumption).
      assert (Hsub : forall c, In c cs -> NoDup (names c) /\ tips_known pat c).
      { intros c Hcin. split; [exact (NoDup_child n cs c Hd Hcin)|].
        intros m Hm. apply Hk. rewrite Ecs in Hcin |- *. exact (tips_child n _ c m Hcin Hm). }
      assert (HF2 : Forall2 (fun c (sc : scen) => NoDup (keys (snd sc)) /\ forall p, In p (snd sc) -> In (fst p) (sdesc c)) cs combo).
      { rewrite Forall_forall in IH. apply (Forall2_impl (fun d x => In x (scen_of pat gpl g l d))); [|exact HF].
        intros c sc' Hcin Hsc'. destruct (Hsub c Hcin) as [Hdc Hkc]. split; [exact (IH c Hcin Hdc Hkc sc' Hsc')|].
        intros p Hp. exact (proj1 (proj1 (scen_inv pat gpl g l c Hdc Hkc sc' Hsc') p Hp)). }
      destruct (concat_keys_nodup cs combo HF2 Hdf) as [Hnd Hkeys].
      assert (Hmark : forall e, NoDup (keys (concat (map snd combo) ++ mark e (map tname cs) (map fst combo)))).
      { intros e. rewrite keys_app. apply NoDup_app_intro; [exact Hnd|apply mark_keys_nodup; exact (NoDup_child_names cs Hdf)|].
        intros k Hk1 Hk2. destruct (Hkeys k Hk1) as [c [Hcin Hs]].
        unfold keys in Hk2. apply in_map_iff in Hk2. destruct Hk2 as [p [E Hp]]. apply mark_in in Hp. destruct Hp as [Hp _].
        rewrite E in Hp. apply in_map_iff in Hp. destruct Hp as [c' [E' Hc']]. subst k.
        rewrite <- E' in Hs. exact (child_name_not_in_sdesc cs c' c Hdf Hc' Hcin Hs). }
      unfold combine_node in Hc.
      destruct (forallb isM (map fst combo)); [destruct Hc as [E|[]]; subst sc; exact Hnd|].
      destruct (forallb (fun s => is1 s || isM s) (map fst combo)); [destruct Hc as [E|[]]; subst sc; exact Hnd|].
      destruct (forallb (fun s => is0 s || isM s) (map fst combo)); [destruct Hc as [E|[]]; subst sc; exact Hnd|].
      destruct Hc as [E|[E|[]]]; subst sc; cbn [snd]; apply Hmark.
  Qed.
End KeysNoDup.

Theorem get_gls_events_nodup pat t gpl g l push md ev :
  NoDup (names t) -> pattern_known pat t -> (md = 0 \/ md = -1) ->
  get_gls pat t gpl g l push md = Ok ev -> NoDup (keys ev).
Proof.
  intros Hd Hpk Hmd H. apply get_gls_ok_cases in H.
  set (pat' := recode md pat) in *. set (isP := is_present pat') in *. set (sub := lca_sub isP t) in *.
  destruct H as [_ [_ [[_ Hev]|[_ [sc [Hsc Hev]]]]]].
  - subst ev. repeat constructor. intros [].
  - assert (Hk' : tips_known pat' t) by exact (tips_known_recode md pat t Hmd Hpk).
    assert (Hksub : tips_known pat' sub). { intros m Hm. apply Hk'. exact (tips_subset_lca isP t m Hm). }
    assert (Hdsub : NoDup (names sub)) by exact (NoDup_lca isP t Hd).
    assert (Hn := scen_keys_nodup pat' gpl g l sub Hdsub Hksub sc Hsc).
    assert (HI := scen_inv pat' gpl g l sub Hdsub Hksub sc Hsc). destruct HI as [Hevs _].
    subst ev. unfold finish. destruct (is1 (fst sc)); [|exact Hn].
    rewrite keys_app. apply NoDup_app_intro; [exact Hn|repeat constructor; intros []|].
    intros k Hk1 [E|[]]. cbn in E. subst k. unfold keys in Hk1. apply in_map_iff in Hk1. destruct Hk1 as [p [E Hp]].
    apply (tname_not_sdesc sub Hdsub). rewrite <- E. exact (proj1 (Hevs p Hp)).
Qed.
