(* C07 from the rows of the wordlist: the coding of the patterns means what it should, the
   pattern hash of a run is transparent, and what PhyBo.get_GLS stores for a cognate set
   reproduces the attestation of the set in the rows. *)
From Coq Require Import ZArith List Bool Lia.
From LV Require Import Common.Cases GainLoss.RoseTree GainLoss.TreeLemmas GainLoss.Replay GainLoss.ReplayProofs
  GainLoss.GetGls GainLoss.GetGlsTopProofs GainLoss.GetGLSr GainLoss.TopDown GainLoss.PhyBoGlue
  GainLoss.PhyBoGlueProofs GainLoss.PhyBoRows.
Import ListNotations.
Local Open Scope Z_scope.

Lemma has_reflex_spec rows cog con x :
  has_reflex rows cog con x = true <-> In (x, con, cog) rows.
Proof.
  unfold has_reflex. rewrite existsb_exists. split.
  - intros [[[a b] c] [Hin H]]. unfold r_lang, r_con, r_cog in H. cbn [fst snd] in H.
    apply andb_true_iff in H. destruct H as [H H3]. apply andb_true_iff in H. destruct H as [H1 H2].
    apply Z.eqb_eq in H1, H2, H3. subst. exact Hin.
  - intros Hin. exists (x, con, cog). split; [exact Hin|]. unfold r_lang, r_con, r_cog. cbn [fst snd].
    rewrite !Z.eqb_refl. reflexivity.
Qed.

Lemma has_word_spec rows con x :
  has_word rows con x = true <-> exists cog, In (x, con, cog) rows.
Proof.
  unfold has_word. rewrite existsb_exists. split.
  - intros [[[a b] c] [Hin H]]. unfold r_lang, r_con in H. cbn [fst snd] in H.
    apply andb_true_iff in H. destruct H as [H1 H2]. apply Z.eqb_eq in H1, H2. subst. exists c. exact Hin.
  - intros [cog Hin]. exists (x, con, cog). split; [exact Hin|]. unfold r_lang, r_con. cbn [fst snd].
    rewrite !Z.eqb_refl. reflexivity.
Qed.

Lemma lookup_combine_map (f : Z -> Z) taxa x : In x taxa -> lookup x (combine taxa (map f taxa)) = Some (f x).
Proof.
  induction taxa as [|y taxa IH]; intros Hin; [destruct Hin|]. cbn [map combine lookup].
  destruct (Z.eqb_spec y x) as [E|N]; [subst; reflexivity|]. destruct Hin as [E|Hin]; [contradiction|exact (IH Hin)].
Qed.

Lemma keys_combine_map (f : Z -> Z) taxa : keys (combine taxa (map f taxa)) = taxa.
Proof. unfold keys. induction taxa as [|y taxa IH]; [reflexivity|]. cbn [map combine fst]. rewrite IH. reflexivity. Qed.

(* what the coding means, taxon by taxon *)
Theorem paps_of_rows_spec rows taxa cog con x : In x taxa ->
  exists s, lookup x (combine taxa (paps_of_rows rows taxa cog con)) = Some s /\
    ((s = 1 /\ In (x, con, cog) rows) \/
     (s = 0 /\ ~ In (x, con, cog) rows /\ exists c, In (x, con, c) rows) \/
     (s = -1 /\ forall c, ~ In (x, con, c) rows)).
Proof.
  intros Hin. unfold paps_of_rows. rewrite (lookup_combine_map _ taxa x Hin). eexists. split; [reflexivity|].
  destruct (has_reflex rows cog con x) eqn:E1.
  - left. split; [reflexivity|apply has_reflex_spec; exact E1].
  - assert (N1 : ~ In (x, con, cog) rows) by (intros I; apply has_reflex_spec in I; congruence).
    destruct (has_word rows con x) eqn:E2.
    + right. left. split; [reflexivity|]. split; [exact N1|apply has_word_spec; exact E2].
    + right. right. split; [reflexivity|]. intros c I.
      assert (X : has_word rows con x = true) by (apply has_word_spec; exists c; exact I). congruence.
Qed.

(* the pattern hash of a run is transparent: every cognate set gets what the mode's function
   gives on its own pattern *)
Lemma list_eqb_Z q p : list_eqb Z.eqb q p = true -> q = p.
Proof. apply list_eqb_spec. intros a b. apply Z.eqb_eq. Qed.

Lemma hash_find_sound f h p r :
  (forall q r', In (q, r') h -> r' = f q) -> hash_find p h = Some r -> r = f p.
Proof.
  induction h as [|[q r'] h IH]; intros Hh H; [discriminate|]. cbn [hash_find] in H.
  destruct (list_eqb Z.eqb q p) eqn:E.
  - inversion H; subst. apply list_eqb_Z in E. subst. apply Hh. left. reflexivity.
  - apply IH; [|exact H]. intros q0 r0 Hin. apply Hh. right. exact Hin.
Qed.

Theorem run_cogs_transparent f pats : forall h,
  (forall q r, In (q, r) h -> r = f q) -> run_cogs f h pats = map f pats.
Proof.
  induction pats as [|p pats IH]; intros h Hh; [reflexivity|]. cbn [run_cogs map].
  destruct (hash_find p h) as [r|] eqn:E.
  - rewrite (hash_find_sound f h p r Hh E). f_equal. exact (IH h Hh).
  - f_equal. apply IH. intros q r [Eq|Hin]; [inversion Eq; reflexivity|exact (Hh q r Hin)].
Qed.

(* rows -> pattern -> scenario: the stored scenario reproduces the attestation of the set *)
Theorem phybo_rows_replays rows taxa cog con t m gpl push md ev :
  NoDup (names t) -> NoDup taxa -> (forall x, In x taxa <-> In x (tips t)) ->
  (md = 0 \/ md = -1) ->
  phybo_of_rows rows taxa cog con t m gpl push md = Ok ev ->
  (forall n e, In (n, e) ev -> In n (names t) /\ (e = 1 \/ e = 0)) /\
  forall x b, In (x, b) (replay false ev t) ->
    (In (x, con, cog) rows -> b = true) /\
    (~ In (x, con, cog) rows -> (exists c, In (x, con, c) rows) -> b = false) /\
    ((forall c, ~ In (x, con, c) rows) -> md = 0 -> b = false).
Proof.
  intros Hd Hnd Htaxa Hmd H. unfold phybo_of_rows in H.
  set (pat := combine taxa (paps_of_rows rows taxa cog con)) in *.
  assert (Hpk : pattern_known pat t).
  { intros n Hn. apply Htaxa in Hn. destruct (paps_of_rows_spec rows taxa cog con n Hn) as [s [El Hs]].
    exists s. split; [exact El|]. destruct Hs as [[E _]|[[E _]|[E _]]]; auto. }
  assert (Hkeys : NoDup (keys pat)) by (unfold pat, paps_of_rows; rewrite keys_combine_map; exact Hnd).
  assert (Htips : forall n s, In (n, s) pat -> In n (tips t)).
  { intros n s Hin. apply Htaxa. unfold pat in Hin. apply in_combine_l in Hin. exact Hin. }
  destruct (phybo_replays pat t m gpl push md ev Hd Hpk Hkeys Htips Hmd H) as [Hleaf Hev].
  split; [exact Hev|]. intros x b Hin.
  assert (Hx : In x taxa).
  { apply Htaxa. unfold replay in Hin.
    rewrite <- (replay_below_tips t (node_state false (tname t) ev) ev). apply in_map_iff. exists (x, b). auto. }
  destruct (Hleaf (x, b) Hin) as [s [El Hs]]. cbn [fst snd] in El, Hs.
  destruct (paps_of_rows_spec rows taxa cog con x Hx) as [s' [El' Hs']]. fold pat in El'.
  rewrite El in El'. inversion El'; subst s'. clear El'.
  split; [|split].
  - intros Hr. destruct Hs' as [[E _]|[[E [N _]]|[E N]]]; [|contradiction|exfalso; exact (N cog Hr)].
    subst s. destruct Hs as [[_ Hb]|[[E0 _]|[E0 _]]]; [exact Hb|lia|lia].
  - intros Nr [c Hc]. destruct Hs' as [[E Hr]|[[E _]|[E N]]]; [contradiction| |exfalso; exact (N c Hc)].
    subst s. destruct Hs as [[E1 _]|[[_ Hb]|[E1 _]]]; [lia|exact Hb|lia].
  - intros Nw Emd. destruct Hs' as [[E Hr]|[[E [_ [c Hc]]]|[E _]]]; [exfalso; exact (Nw cog Hr)|exfalso; exact (Nw c Hc)|].
    subst s. destruct Hs as [[E1 _]|[[E1 _]|[_ [Em|Hb]]]]; [lia|lia|lia|exact Hb].
Qed.
