(* Named rose trees: what the harness reads out of a cogent PhyloNode through
   Children / Name.  Node names are mapped to integers by the harness. *)
From Coq Require Import ZArith List Bool.
Import ListNotations.
Local Open Scope Z_scope.

Inductive tree := Node : Z -> list tree -> tree.

Definition tname (t : tree) : Z := match t with Node n _ => n end.
Definition children (t : tree) : list tree := match t with Node _ cs => cs end.
Definition is_tip (t : tree) : bool := match children t with [] => true | _ => false end.

(* preorder list of all node names (PhyloNode.getNodeNames) *)
Fixpoint names (t : tree) : list Z :=
  match t with Node n cs => n :: flat_map names cs end.

(* names of the tips, left to right; a tip is its own only tip
   (PhyloNode.getTipNames as used by get_gls: traverse(False, False) includes self) *)
Fixpoint tips (t : tree) : list Z :=
  match t with
  | Node n [] => [n]
  | Node n cs => flat_map tips cs
  end.

(* names of the strict descendants *)
Definition sdesc (t : tree) : list Z := flat_map names (children t).

Fixpoint size (t : tree) : nat :=
  match t with Node _ cs => S (list_sum (map size cs)) end.

(* all subtrees, preorder *)
Fixpoint subtrees (t : tree) : list tree :=
  match t with Node n cs => t :: flat_map subtrees cs end.

(* association lists keyed by node names: first match, like a dict with unique keys *)
Fixpoint lookup {A} (n : Z) (l : list (Z * A)) : option A :=
  match l with
  | [] => None
  | (k, v) :: r => if k =? n then Some v else lookup n r
  end.

Definition keys {A} (l : list (Z * A)) : list Z := map fst l.

Definition memz (n : Z) (l : list Z) : bool := existsb (Z.eqb n) l.

(* the induction principle Coq does not generate for nested inductives *)
Section tree_ind.
  Variable P : tree -> Prop.
  Hypothesis HN : forall n cs, Forall P cs -> P (Node n cs).
  Fixpoint tree_ind' (t : tree) : P t :=
    match t with
    | Node n cs =>
        HN n cs ((fix go (l : list tree) : Forall P l :=
                    match l with
                    | [] => Forall_nil P
                    | c :: r => Forall_cons c (tree_ind' c) (go r)
                    end) cs)
    end.
End tree_ind.
