(* Executable model of lingpy.compare.phylogeny.get_gls (weighted parsimony
   gain-loss mapping), written to follow the Python text.  No proofs here.

   Python                                   model
   ------                                   -----
   statesD = dict(zip(taxa, pap))           pat : list (Z * Z), first-match [lookup]
   pap[i] == -1 -> missing_data             [recode]
   tree.lowestCommonAncestor(presences)     [lca_sub] (descend while exactly one child has a presence)
   scenarios[node]                          [scen_of] : list (state * story), story = list (node, event)
   itertools.product(children scenarios)    [product] (first child varies slowest)
   new_stories.update(story) ...            concatenation (node names are unique, so keys are disjoint)
   minGains / minLoss / good_nodes          [prune]
   winners[min(winners)], sorted(...)[0]    [select]                                   *)
From Coq Require Import ZArith List Bool.
From LV Require Import GainLoss.RoseTree.
Import ListNotations.
Local Open Scope Z_scope.

Notation story := (list (Z * Z)) (only parsing).          (* (node name, event): 1 = gain, 0 = loss *)
Notation scen := (Z * list (Z * Z))%type (only parsing).       (* state of the node: 1, 0, -1 (all leaves below missing) *)

Inductive result :=
| Ok (ev : story)
| Err (code : nat).     (* 1: no presence (lowestCommonAncestor returns None -> AttributeError)
                           2: a tip of the subtree is not in taxa (KeyError)
                           3: no scenario left at the root (min of an empty dict) *)

(* --- pattern ------------------------------------------------------- *)

Definition recode (md : Z) (pat : list (Z * Z)) : list (Z * Z) :=
  map (fun p => (fst p, if snd p =? -1 then md else snd p)) pat.

Definition is_present (pat : list (Z * Z)) (n : Z) : bool :=
  match lookup n pat with Some s => s =? 1 | None => false end.

Definition state_of (pat : list (Z * Z)) (n : Z) : Z :=
  match lookup n pat with Some s => s | None => 0 end.

(* --- lowest common ancestor of the present tips ------------------- *)

Fixpoint has_present (isP : Z -> bool) (t : tree) : bool :=
  match t with
  | Node n [] => isP n
  | Node n cs => existsb (has_present isP) cs
  end.

Fixpoint lca_sub (isP : Z -> bool) (t : tree) : tree :=
  match t with
  | Node n cs =>
      match flat_map (fun c => if has_present isP c then [lca_sub isP c] else []) cs with
      | [r] => r
      | _ => t
      end
  end.

(* --- combination of child scenarios ------------------------------ *)

Fixpoint product {A} (ls : list (list A)) : list (list A) :=
  match ls with
  | [] => [[]]
  | l :: rest => flat_map (fun x => map (cons x) (product rest)) l
  end.

Definition is1 (s : Z) : bool := s =? 1.
Definition is0 (s : Z) : bool := s =? 0.
Definition isM (s : Z) : bool := s =? -1.

(* events added in the mixed case: (child name, ev) for every child whose state is [ev] *)
Fixpoint mark (ev : Z) (cnames : list Z) (states : list Z) : story :=
  match cnames, states with
  | n :: ns, s :: ss => if s =? ev then (n, ev) :: mark ev ns ss else mark ev ns ss
  | _, _ => []
  end.

Definition combine_node (cnames : list Z) (combo : list scen) : list scen :=
  let states := map fst combo in
  let st := concat (map snd combo) in
  if forallb isM states then [(-1, st)]                                  (* sM == sL *)
  else if forallb (fun s => is1 s || isM s) states then [(1, st)]        (* s1 + sM == sL *)
  else if forallb (fun s => is0 s || isM s) states then [(0, st)]        (* s0 + sM == sL *)
  else [(1, st ++ mark 0 cnames states); (0, st ++ mark 1 cnames states)].

(* --- weights and pruning ------------------------------------------ *)

Definition count_ev (e : Z) (st : story) : Z :=
  Z.of_nat (length (filter (fun p => snd p =? e) st)).
Definition gains := count_ev 1.
Definition losses := count_ev 0.
Definition weight (g l : Z) (st : story) : Z := gains st * g + losses st * l.

Definition min_list (d : Z) (l : list Z) : Z := fold_right Z.min d l.

(* the entries of minimal weight, in order (minGains[min(minGains)]) *)
Definition keep_min (g l : Z) (ss : list scen) : list scen :=
  match ss with
  | [] => []
  | x :: r =>
      let m := min_list (weight g l (snd x)) (map (fun s => weight g l (snd s)) r) in
      filter (fun s => weight g l (snd s) =? m) ss
  end.

Definition gpl_ok (gpl : Z) (s : scen) : bool :=
  negb (is1 (fst s) && (gains (snd s) >? gpl)).

Definition prune (gpl g l : Z) (nn : list scen) : list scen :=
  let ok := filter (gpl_ok gpl) nn in
  filter (fun s => negb (is0 (fst s)) && negb (is1 (fst s))) ok
  ++ keep_min g l (filter (fun s => is0 (fst s)) ok)
  ++ keep_min g l (filter (fun s => is1 (fst s)) ok).

(* --- bottom-up pass ------------------------------------------------ *)

Definition new_nodes (cnames : list Z) (child_scens : list (list scen)) : list scen :=
  flat_map (combine_node cnames) (product child_scens).

Fixpoint scen_of (pat : list (Z * Z)) (gpl g l : Z) (t : tree) : list scen :=
  match t with
  | Node n [] => [(state_of pat n, [])]
  | Node n cs => prune gpl g l (new_nodes (map tname cs) (map (scen_of pat gpl g l) cs))
  end.

(* --- selection at the root ----------------------------------------- *)

Definition finish (root : Z) (s : scen) : story :=
  if is1 (fst s) then snd s ++ [(root, 1)] else snd s.

(* first element with the smallest key = sorted(l, key=key)[0] (stable sort) *)
Fixpoint first_min (key : story -> Z) (best : story) (l : list story) : story :=
  match l with
  | [] => best
  | x :: r => if key x <? key best then first_min key x r else first_min key best r
  end.

Definition select (g l : Z) (push : bool) (fin : list story) : option story :=
  match fin with
  | [] => None
  | x :: r =>
      let m := min_list (weight g l x) (map (weight g l) r) in
      match filter (fun s => weight g l s =? m) fin with
      | [] => None
      | y :: r' => Some (first_min (count_ev (if push then 1 else 0)) y r')
      end
  end.

(* --- get_gls -------------------------------------------------------- *)

Definition get_gls (pat : list (Z * Z)) (t : tree) (gpl g l : Z) (push : bool) (md : Z) : result :=
  let pat' := recode md pat in
  let isP := is_present pat' in
  if negb (has_present isP t) then Err 1
  else
    let sub := lca_sub isP t in
    if negb (forallb (fun n => match lookup n pat' with Some _ => true | None => false end) (tips sub))
    then Err 2
    else if forallb (fun n => state_of pat' n =? 1) (tips sub) then Ok [(tname sub, 1)]
    else match select g l push (map (finish (tname sub)) (scen_of pat' gpl g l sub)) with
         | Some ev => Ok ev
         | None => Err 3
         end.
