(* C07 for PhyBo._get_GLS_top_down (as repaired: presences = pap >= 1): the scenario made of
   the gains found by the queue splitting and the losses filled in bottom-up reproduces the
   pattern.  Architecture:
     A  every event is consistent with d (d v = some leaf below v is present):
        gains only at nodes with d, losses only at nodes without;
     B  below every gain the losses are complete (every child without d of a node with d);
     C  every present leaf lies below (or at) some gain of the queue phase;
   and a replay lemma turning A, B, C into correctness of every leaf. *)
From Coq Require Import ZArith List Bool Lia Arith.
From LV Require Import GainLoss.RoseTree GainLoss.TreeLemmas GainLoss.Replay GainLoss.ReplayProofs
  GainLoss.GetGls GainLoss.GetGlsProofs GainLoss.GetGlsTopProofs GainLoss.GetGLSr GainLoss.GetGLSrProofs
  GainLoss.TopDown.
Import ListNotations.
Local Open Scope Z_scope.

(* ---------- subtrees ---------- *)

Lemma subtrees_self t : In t (subtrees t).
Proof. destruct t as [n cs]. cbn [subtrees]. left. reflexivity. Qed.

Lemma subtrees_node n cs u : In u (subtrees (Node n cs)) <-> u = Node n cs \/ exists c, In c cs /\ In u (subtrees c).
Proof.
  cbn [subtrees In]. rewrite in_flat_map. split; (intros [E|H]; [left; congruence|right; exact H]).
Qed.

Lemma subtrees_child n cs c u : In c cs -> In u (subtrees c) -> In u (subtrees (Node n cs)).
Proof. intros Hc Hu. apply subtrees_node. right. exists c. auto. Qed.

Lemma subtrees_trans t : forall u a, In u (subtrees t) -> In a (subtrees u) -> In a (subtrees t).
Proof.
  induction t as [n cs IH] using tree_ind'. intros u a Hu Ha. apply subtrees_node in Hu.
  destruct Hu as [E|[c [Hc Hu]]]; [subst u; exact Ha|].
  rewrite Forall_forall in IH. exact (subtrees_child n cs c a Hc (IH c Hc u a Hu Ha)).
Qed.

Lemma subtrees_names t : forall u, In u (subtrees t) -> forall m, In m (names u) -> In m (names t).
Proof.
  induction t as [n cs IH] using tree_ind'. intros u Hu m Hm. apply subtrees_node in Hu.
  destruct Hu as [E|[c [Hc Hu]]]; [subst u; exact Hm|].
  rewrite Forall_forall in IH. cbn [names]. right. exact (in_flat_map_names c cs m Hc (IH c Hc u Hu m Hm)).
Qed.

Lemma subtrees_tips t : forall u, In u (subtrees t) -> forall m, In m (tips u) -> In m (tips t).
Proof.
  induction t as [n cs IH] using tree_ind'. intros u Hu m Hm. apply subtrees_node in Hu.
  destruct Hu as [E|[c [Hc Hu]]]; [subst u; exact Hm|].
  rewrite Forall_forall in IH. exact (tips_child n cs c m Hc (IH c Hc u Hu m Hm)).
Qed.

Lemma subtrees_NoDup t : NoDup (names t) -> forall u, In u (subtrees t) -> NoDup (names u).
Proof.
  induction t as [n cs IH] using tree_ind'. intros Hd u Hu. apply subtrees_node in Hu.
  destruct Hu as [E|[c [Hc Hu]]]; [subst u; exact Hd|].
  rewrite Forall_forall in IH. exact (IH c Hc (NoDup_child n cs c Hd Hc) u Hu).
Qed.

Lemma tips_in_names t m : In m (tips t) -> In m (names t).
Proof.
  revert m. induction t as [n cs IH] using tree_ind'. intros m Hm. destruct cs as [|c0 cs0].
  - cbn in Hm. destruct Hm as [E|[]]. subst. cbn. auto.
  - change (In m (flat_map tips (c0 :: cs0))) in Hm. apply in_flat_map in Hm. destruct Hm as [c [Hc Hm]].
    rewrite Forall_forall in IH. cbn [names]. right. exact (in_flat_map_names c _ m Hc (IH c Hc m Hm)).
Qed.

(* distinct names: a name identifies a subtree *)
Lemma subtrees_name_unique t : NoDup (names t) ->
  forall u u', In u (subtrees t) -> In u' (subtrees t) -> tname u = tname u' -> u = u'.
Proof.
  induction t as [n cs IH] using tree_ind'. intros Hd u u' Hu Hu' E.
  apply subtrees_node in Hu. apply subtrees_node in Hu'.
  assert (Hroot : forall v c, In c cs -> In v (subtrees c) -> tname v <> n).
  { intros v c Hc Hv Ev. apply (tname_not_sdesc (Node n cs) Hd). cbn [tname]. rewrite <- Ev.
    apply (child_names_in_sdesc n cs c _ Hc). exact (subtrees_names c v Hv _ (tname_in_names v)). }
  destruct Hu as [Eu|[c [Hc Hu]]]; destruct Hu' as [Eu'|[c' [Hc' Hu']]].
  - congruence.
  - subst u. exfalso. apply (Hroot u' c' Hc' Hu'). cbn [tname] in E. congruence.
  - subst u'. exfalso. apply (Hroot u c Hc Hu). cbn [tname] in E. congruence.
  - assert (Hdf : NoDup (flat_map names cs)) by (cbn [names] in Hd; inversion Hd; assumption).
    assert (Ecc : c = c').
    { apply (forest_names_disjoint cs c c' (tname u) Hdf Hc Hc').
      - exact (subtrees_names c u Hu _ (tname_in_names u)).
      - rewrite E. exact (subtrees_names c' u' Hu' _ (tname_in_names u')). }
    subst c'. rewrite Forall_forall in IH. exact (IH c Hc (NoDup_child n cs c Hd Hc) u u' Hu Hu' E).
Qed.

Lemma find_node_node m n cs :
  find_node m (Node n cs) =
  if n =? m then Some (Node n cs)
  else (fix go (l : list tree) : option tree :=
          match l with
          | [] => None
          | c :: r => match find_node m c with Some x => Some x | None => go r end
          end) cs.
Proof. reflexivity. Qed.

Lemma find_node_none t : forall m, ~ In m (names t) -> find_node m t = None.
Proof.
  induction t as [n cs IH] using tree_ind'. intros m Hm. rewrite find_node_node.
  destruct (Z.eqb_spec n m) as [E|_]; [exfalso; apply Hm; cbn; auto|].
  assert (Hm' : ~ In m (flat_map names cs)) by (intros I; apply Hm; cbn [names]; right; exact I).
  clear Hm. induction cs as [|c cs IHc]; [reflexivity|]. inversion IH as [|y r Hy Hr]; subst.
  rewrite (Hy m); [apply (IHc Hr)|]; intros I; apply Hm'; cbn [flat_map]; apply in_or_app; auto.
Qed.

Lemma find_node_correct t : NoDup (names t) -> forall u, In u (subtrees t) -> find_node (tname u) t = Some u.
Proof.
  induction t as [n cs IH] using tree_ind'. intros Hd u Hu. rewrite find_node_node.
  apply subtrees_node in Hu. destruct Hu as [E|[c [Hc Hu]]].
  - subst u. cbn [tname]. rewrite Z.eqb_refl. reflexivity.
  - assert (Hne : n <> tname u).
    { intros E. apply (tname_not_sdesc (Node n cs) Hd). cbn [tname]. rewrite E.
      apply (child_names_in_sdesc n cs c _ Hc). exact (subtrees_names c u Hu _ (tname_in_names u)). }
    destruct (Z.eqb_spec n (tname u)) as [E|_]; [contradiction|].
    assert (Hdf : NoDup (flat_map names cs)) by (cbn [names] in Hd; inversion Hd; assumption).
    clear Hd Hne. induction cs as [|c0 cs IHc]; [destruct Hc|]. inversion IH as [|y r Hy Hr]; subst.
    cbn [flat_map] in Hdf. destruct Hc as [E|Hc].
    + subst c0. rewrite (Hy (NoDup_app_l _ _ Hdf) u Hu). reflexivity.
    + rewrite (find_node_none c0).
      * exact (IHc Hr Hc (NoDup_app_r _ _ Hdf)).
      * intros I. apply (NoDup_app_disj _ _ (tname u) Hdf I).
        exact (in_flat_map_names c cs _ Hc (subtrees_names c u Hu _ (tname_in_names u))).
Qed.

(* ---------- the order of the loss filling ---------- *)

Lemma insert_by_in key x l y : In y (insert_by key x l) <-> y = x \/ In y l.
Proof.
  induction l as [|z l IH]; cbn [insert_by].
  - cbn. intuition.
  - destruct (key x <=? key z)%nat; cbn [In]; [intuition|]. rewrite IH. intuition.
Qed.

Lemma sort_by_in key l y : In y (sort_by key l) <-> In y l.
Proof.
  induction l as [|x l IH]; cbn [sort_by fold_right]; [reflexivity|].
  fold (sort_by key l). rewrite insert_by_in, IH. cbn. intuition.
Qed.

Lemma nontips_node n c cs : nontips (Node n (c :: cs)) = Node n (c :: cs) :: flat_map nontips (c :: cs).
Proof. reflexivity. Qed.

Lemma nontips_sub t : forall p, In p (nontips t) -> In p (subtrees t) /\ is_tip p = false.
Proof.
  induction t as [n cs IH] using tree_ind'. intros p Hp. destruct cs as [|c0 cs0]; [destruct Hp|].
  rewrite nontips_node in Hp. destruct Hp as [E|Hp].
  - subst p. split; [apply subtrees_self|reflexivity].
  - apply in_flat_map in Hp. destruct Hp as [c [Hc Hp]]. rewrite Forall_forall in IH.
    destruct (IH c Hc p Hp) as [H1 H2]. split; [exact (subtrees_child n _ c p Hc H1)|exact H2].
Qed.

Lemma nontips_complete t : forall p, In p (subtrees t) -> is_tip p = false -> In p (nontips t).
Proof.
  induction t as [n cs IH] using tree_ind'. intros p Hp Hi. apply subtrees_node in Hp.
  destruct cs as [|c0 cs0].
  - destruct Hp as [E|[c [[] _]]]. subst p. discriminate Hi.
  - rewrite nontips_node. destruct Hp as [E|[c [Hc Hp]]]; [left; auto|]. right.
    apply in_flat_map. exists c. split; [exact Hc|]. rewrite Forall_forall in IH. exact (IH c Hc p Hp Hi).
Qed.

Lemma ordered_in t p : is_tip t = false -> (In p (ordered t) <-> In p (subtrees t) /\ is_tip p = false).
Proof.
  intros Ht. unfold ordered. rewrite sort_by_in, in_app_iff. destruct t as [n cs]. cbn [children]. split.
  - intros [H|[E|[]]].
    + apply in_flat_map in H. destruct H as [c [Hc H]]. destruct (nontips_sub c p H) as [H1 H2].
      split; [exact (subtrees_child n cs c p Hc H1)|exact H2].
    + subst p. split; [apply subtrees_self|exact Ht].
  - intros [H Hi]. apply subtrees_node in H. destruct H as [E|[c [Hc H]]]; [right; left; auto|].
    left. apply in_flat_map. exists c. split; [exact Hc|exact (nontips_complete c p H Hi)].
Qed.

(* ---------- from A, B, C to the replay ---------- *)

Lemma lookup_in_some {A} (n : Z) (l : list (Z * A)) e : In (n, e) l -> exists e', lookup n l = Some e'.
Proof.
  induction l as [|[k v] l IH]; intros H; [destruct H|]. cbn [lookup].
  destruct (Z.eqb_spec k n) as [E|N]; [eexists; reflexivity|].
  destruct H as [E|H]; [inversion E; congruence|exact (IH H)].
Qed.

Section ReplayABC.
  Variable pat : list (Z * Z).       (* recoded pattern *)
  Variable ev : list (Z * Z).
  Let P := present_ge1 pat.
  Let d := has_present P.

  Definition consistent_in (v : tree) : Prop :=
    forall u e, In u (subtrees v) -> In (tname u, e) ev -> (e = 1 /\ d u = true) \/ (e = 0 /\ d u = false).
  Definition losses_in (v : tree) : Prop :=
    forall p c, In p (subtrees v) -> d p = true -> In c (children p) -> d c = false -> In (tname c, 0) ev.
  Definition gains_cover (v : tree) : Prop :=
    forall x, In x (tips v) -> P x = true ->
      exists a, In a (subtrees v) /\ In x (tips a) /\ In (tname a, 1) ev.
  Definition gain_filled (v : tree) : Prop :=
    forall a, In a (subtrees v) -> In (tname a, 1) ev -> losses_in a.
  Definition Inv (v : tree) (s : bool) : Prop :=
    (s = true -> d v = true /\ losses_in v) /\ (s = false -> gains_cover v).

  Lemma lookup_consistent v u e : consistent_in v -> In u (subtrees v) -> In (tname u, e) ev ->
    lookup (tname u) ev = Some e.
  Proof.
    intros Hc Hu Hin. destruct (lookup_in_some _ _ _ Hin) as [e' El]. rewrite El. f_equal.
    assert (Hin' := lookup_some_in _ _ _ El).
    destruct (Hc u e Hu Hin) as [[E1 D1]|[E1 D1]]; destruct (Hc u e' Hu Hin') as [[E2 D2]|[E2 D2]]; congruence.
  Qed.

  Lemma node_state_cases v u b : consistent_in v -> In u (subtrees v) ->
    (In (tname u, 1) ev /\ d u = true /\ node_state b (tname u) ev = true) \/
    (In (tname u, 0) ev /\ d u = false /\ node_state b (tname u) ev = false) \/
    (lookup (tname u) ev = None /\ node_state b (tname u) ev = b).
  Proof.
    intros Hc Hu. unfold node_state. destruct (lookup (tname u) ev) as [e|] eqn:El; [|right; right; auto].
    assert (Hin := lookup_some_in _ _ _ El). destruct (Hc u e Hu Hin) as [[E D]|[E D]]; subst e.
    - left. auto.
    - right. left. auto.
  Qed.

  Lemma consistent_child n cs c : In c cs -> consistent_in (Node n cs) -> consistent_in c.
  Proof. intros Hc H u e Hu. apply H. exact (subtrees_child n cs c u Hc Hu). Qed.

  Lemma gain_filled_child n cs c : In c cs -> gain_filled (Node n cs) -> gain_filled c.
  Proof. intros Hc H a Ha. apply H. exact (subtrees_child n cs c a Hc Ha). Qed.

  Lemma losses_in_child n cs c : In c cs -> losses_in (Node n cs) -> losses_in c.
  Proof. intros Hc H p c' Hp. apply H. exact (subtrees_child n cs c p Hc Hp). Qed.

  Theorem replay_ABC v : NoDup (names v) -> tips_known pat v -> consistent_in v -> gain_filled v ->
    forall b, Inv v (node_state b (tname v) ev) -> forallb (okb pat) (replay b ev v) = true.
  Proof.
    induction v as [n cs IH] using tree_ind'. intros Hd Hk Hc Hgf b HI. unfold replay. cbn [tname] in *.
    set (s := node_state b n ev) in *.
    destruct cs as [|c0 cs0].
    - (* a leaf *)
      cbn [replay_below forallb]. rewrite andb_true_r. unfold okb, leaf_okb. cbn [fst snd].
      destruct (Hk n (or_introl eq_refl)) as [st [El Hst]]. rewrite El.
      assert (Hd' : d (Node n []) = (st >=? 1)). { unfold d. cbn [has_present]. unfold P, present_ge1. rewrite El. reflexivity. }
      destruct HI as [HT HF]. destruct s eqn:Es.
      + destruct (HT eq_refl) as [Hdv _]. rewrite Hd' in Hdv.
        destruct Hst as [E|[E|E]]; subst st; [reflexivity|discriminate|discriminate].
      + assert (Np : P n = false).
        { destruct (P n) eqn:Ep; [|reflexivity]. exfalso.
          destruct (HF eq_refl n (or_introl eq_refl) Ep) as [a [Ha [_ Hg]]].
          cbn [subtrees flat_map] in Ha. destruct Ha as [E|[]]. subst a. cbn [tname] in Hg.
          assert (El' := lookup_consistent (Node n []) (Node n []) 1 Hc (subtrees_self _) Hg). cbn [tname] in El'.
          unfold s, node_state in Es. rewrite El' in Es. discriminate. }
        unfold P, present_ge1 in Np. rewrite El in Np.
        destruct Hst as [E|[E|E]]; subst st; [discriminate|reflexivity|reflexivity].
    - rewrite replay_below_node. remember (c0 :: cs0) as cs eqn:Ecs.
      rewrite forallb_flat_map. apply forallb_forall. intros c Hcin.
      change (forallb (okb pat) (replay s ev c) = true).
      rewrite Forall_forall in IH.
      assert (Hsubc : In c (subtrees (Node n cs))) by exact (subtrees_child n cs c c Hcin (subtrees_self c)).
      apply (IH c Hcin (NoDup_child n cs c Hd Hcin)).
      + intros m Hm. apply Hk. exact (tips_child n cs c m Hcin Hm).
      + exact (consistent_child n cs c Hcin Hc).
      + exact (gain_filled_child n cs c Hcin Hgf).
      + destruct HI as [HT HF].
        destruct (node_state_cases (Node n cs) c s Hc Hsubc) as [[Hg [Hdc Ens]]|[[Hl [Hdc Ens]]|[Hnone Ens]]]; rewrite Ens.
        * split; [|discriminate]. intros _. split; [exact Hdc|]. exact (Hgf c Hsubc Hg).
        * split; [discriminate|]. intros _ x Hx Hpx. exfalso.
          assert (X := no_present_tips P c Hdc x Hx). congruence.
        * destruct s eqn:Es.
          -- split; [|discriminate]. intros _. destruct (HT eq_refl) as [Hdv Hlv]. split.
             ++ destruct (d c) eqn:Edc; [reflexivity|]. exfalso.
                assert (Hin := Hlv (Node n cs) c (subtrees_self _) Hdv Hcin Edc).
                destruct (lookup_in_some _ _ _ Hin) as [e' El]. congruence.
             ++ exact (losses_in_child n cs c Hcin Hlv).
          -- split; [discriminate|]. intros _ x Hx Hpx.
             destruct (HF eq_refl x (tips_child n cs c x Hcin Hx) Hpx) as [a [Ha [Hxa Hg]]].
             apply subtrees_node in Ha. destruct Ha as [E|[c' [Hc' Ha]]].
             ++ exfalso. subst a. cbn [tname] in Hg.
                assert (El' := lookup_consistent (Node n cs) (Node n cs) 1 Hc (subtrees_self _) Hg). cbn [tname] in El'.
                unfold s, node_state in Es. rewrite El' in Es. discriminate.
             ++ assert (Hdf : NoDup (flat_map names cs)) by (cbn [names] in Hd; inversion Hd; assumption).
                assert (Ecc : c' = c).
                { apply (forest_names_disjoint cs c' c x Hdf Hc' Hcin).
                  - apply tips_in_names. exact (subtrees_tips c' a Ha x Hxa).
                  - apply tips_in_names. exact Hx. }
                subst c'. exists a. auto.
  Qed.
End ReplayABC.

(* ---------- more about the common ancestor ---------- *)

Lemma lca_in_subtrees isP t : In (lca_sub isP t) (subtrees t).
Proof.
  induction t as [n cs IH] using tree_ind'. rewrite lca_sub_node.
  destruct (flat_map (lca_step isP) cs) as [|r [|r2 rest]] eqn:E; try apply subtrees_self.
  destruct (lca_step_single isP cs r E) as [pre [c [post [E1 [_ [_ [_ E5]]]]]]]. subst r.
  assert (Hc : In c cs) by (subst cs; apply in_or_app; right; left; reflexivity).
  rewrite Forall_forall in IH. exact (subtrees_child n cs c _ Hc (IH c Hc)).
Qed.

Lemma present_tip_has_present isP t : forall x, In x (tips t) -> isP x = true -> has_present isP t = true.
Proof.
  induction t as [n cs IH] using tree_ind'. intros x Hx Hp. destruct cs as [|c0 cs0].
  - cbn in Hx. destruct Hx as [E|[]]. subst. exact Hp.
  - rewrite has_present_node. change (In x (flat_map tips (c0 :: cs0))) in Hx. apply in_flat_map in Hx.
    destruct Hx as [c [Hc Hx]]. apply existsb_exists. exists c. split; [exact Hc|].
    rewrite Forall_forall in IH. exact (IH c Hc x Hx Hp).
Qed.

(* every present tip of t lies below the common ancestor *)
Lemma lca_covers isP t : forall x, In x (tips t) -> isP x = true -> In x (tips (lca_sub isP t)).
Proof.
  induction t as [n cs IH] using tree_ind'. intros x Hx Hp. rewrite lca_sub_node.
  destruct (flat_map (lca_step isP) cs) as [|r [|r2 rest]] eqn:E; try exact Hx.
  destruct (lca_step_single isP cs r E) as [pre [c [post [E1 [E2 [E3 [E4 E5]]]]]]]. subst r.
  assert (Hc : In c cs) by (subst cs; apply in_or_app; right; left; reflexivity).
  destruct cs as [|c0 cs0]; [destruct Hc|]. change (In x (flat_map tips (c0 :: cs0))) in Hx.
  apply in_flat_map in Hx. destruct Hx as [c' [Hc' Hx]].
  assert (Ecc : c' = c).
  { rewrite E1 in Hc'. apply in_app_or in Hc'. destruct Hc' as [H|[H|H]]; [|auto|].
    - rewrite Forall_forall in E2. assert (X := no_present_tips isP c' (E2 c' H) x Hx). congruence.
    - rewrite Forall_forall in E3. assert (X := no_present_tips isP c' (E3 c' H) x Hx). congruence. }
  subst c'. rewrite Forall_forall in IH. exact (IH c Hc x Hx Hp).
Qed.

Lemma tips_nonempty t : tips t <> [].
Proof.
  induction t as [n cs IH] using tree_ind'. destruct cs as [|c0 cs0]; [discriminate|].
  change (flat_map tips (c0 :: cs0) <> []). cbn [flat_map]. inversion IH as [|y r Hy Hr]; subst.
  destruct (tips c0); [contradiction|discriminate].
Qed.

(* ---------- the loss filling ---------- *)

Section TD.
  Variable pat : list (Z * Z).       (* recoded pattern *)
  Let P := present_ge1 pat.
  Let d := has_present P.

  Lemma d_node n c cs : d (Node n (c :: cs)) = existsb d (c :: cs).
  Proof. reflexivity. Qed.

  Lemma fill_node_in p n e : In (n, e) (fill_node pat p) ->
    exists c, In c (children p) /\ n = tname c /\ e = 0 /\ d c = false.
  Proof.
    unfold fill_node. destruct (forallb (fun b => b) (map (dstate pat) (children p)) || forallb negb (map (dstate pat) (children p)));
      [intros []|].
    intros H. apply in_flat_map in H. destruct H as [c [Hc H]]. exists c. split; [exact Hc|].
    destruct (dstate pat c) eqn:E; [destruct H|]. destruct H as [E'|[]]. inversion E'. auto.
  Qed.

  Lemma fill_in w n e : In (n, e) (fill pat w) ->
    exists p c, In p (subtrees w) /\ In c (children p) /\ n = tname c /\ e = 0 /\ d c = false.
  Proof.
    unfold fill. destruct (children w) as [|c0 cs0] eqn:Ech; [intros []|]. intros H.
    apply in_flat_map in H. destruct H as [p [Hp H]].
    assert (Hw : is_tip w = false) by (unfold is_tip; rewrite Ech; reflexivity).
    apply (ordered_in w p Hw) in Hp. destruct (fill_node_in p n e H) as [c Hc]. exists p, c. tauto.
  Qed.

  Lemma fill_complete w : is_tip w = false ->
    forall p c, In p (subtrees w) -> d p = true -> In c (children p) -> d c = false -> In (tname c, 0) (fill pat w).
  Proof.
    intros Hw p c Hp Hdp Hc Hdc. unfold fill. destruct (children w) as [|c0 cs0] eqn:Ech; [unfold is_tip in Hw; rewrite Ech in Hw; discriminate|].
    apply in_flat_map. exists p. split.
    - apply (ordered_in w p Hw). split; [exact Hp|]. unfold is_tip. destruct (children p); [destruct Hc|reflexivity].
    - unfold fill_node.
      assert (E1 : forallb (fun b => b) (map (dstate pat) (children p)) = false).
      { apply not_true_is_false. intros X. rewrite forallb_forall in X.
        assert (Y := X (dstate pat c) (in_map _ _ _ Hc)). unfold dstate in Y. fold P in Y. fold d in Y. congruence. }
      assert (E2 : forallb negb (map (dstate pat) (children p)) = false).
      { apply not_true_is_false. intros X. rewrite forallb_forall in X.
        destruct p as [m [|c1 cs1]]; [destruct Hc|]. rewrite d_node in Hdp. apply existsb_exists in Hdp.
        destruct Hdp as [c' [Hc' Hd']]. cbn [children] in X.
        assert (Y := X (dstate pat c') (in_map _ _ _ Hc')). unfold dstate in Y. fold P in Y. fold d in Y.
        rewrite Hd' in Y. discriminate. }
      rewrite E1, E2. cbn [orb]. apply in_flat_map. exists c. split; [exact Hc|].
      unfold dstate. fold P. fold d. rewrite Hdc. left. reflexivity.
  Qed.

  (* ---------- one queue element ---------- *)

  Variable mode : Z.

  Definition ev_ok (u : tree) (p : Z * Z) : Prop :=
    exists a, In a (subtrees u) /\ tname a = fst p /\ ((snd p = 1 /\ d a = true) \/ (snd p = 0 /\ d a = false)).

  Lemma tip_child_present c : is_tip c = true -> d c = P (tname c) /\ tips c = [tname c].
  Proof. destruct c as [m [|c1 cs1]]; [intros _; split; reflexivity|discriminate]. Qed.

  Lemma process_spec u k :
    (forall p, In p (fst (process pat mode u k)) -> ev_ok u p) /\
    (forall q, In q (snd (process pat mode u k)) -> In (fst q) (children u) /\ is_tip (fst q) = false) /\
    (is_tip u = false -> forall x, In x (tips u) -> P x = true ->
       (exists a, In a (subtrees u) /\ In x (tips a) /\ In (tname a, 1) (fst (process pat mode u k))) \/
       (exists q, In q (snd (process pat mode u k)) /\ In x (tips (fst q)))).
  Proof.
    unfold process. change (tpresent pat) with P. change (has_present P) with d.
    destruct (k >=? mode).
    { destruct (d u) eqn:Edu; cbn [fst snd]; (split; [|split; [intros q []|]]).
      - intros p [E|[]]. subst p. exists (lca_sub P u). split; [apply lca_in_subtrees|]. split; [reflexivity|].
        left. split; [reflexivity|]. exact (lca_has_present P u Edu).
      - intros _ x Hx Hp. left. exists (lca_sub P u). split; [apply lca_in_subtrees|].
        split; [exact (lca_covers P u x Hx Hp)|left; reflexivity].
      - intros p [E|[]]. subst p. exists u. split; [apply subtrees_self|]. split; [reflexivity|]. right. auto.
      - intros _ x Hx Hp. exfalso. assert (X := no_present_tips P u Edu x Hx). congruence. }
    set (commons := flat_map (fun c => if d c then tips (lca_sub P c) else []) (children u)).
    destruct (subset commons (tips u) && subset (tips u) commons) eqn:Eset; cbn [fst snd].
    { apply andb_true_iff in Eset. destruct Eset as [_ Hsub].
      assert (Hdu : d u = true).
      { unfold subset in Hsub. rewrite forallb_forall in Hsub.
        destruct (tips u) as [|x0 xs] eqn:Et; [exfalso; exact (tips_nonempty u Et)|].
        assert (Hm := Hsub x0 (or_introl eq_refl)). apply memz_spec in Hm. unfold commons in Hm.
        apply in_flat_map in Hm. destruct Hm as [c [Hc Hm]]. destruct (d c) eqn:Edc; [|destruct Hm].
        destruct u as [n [|c1 cs1]]; [destruct Hc|]. rewrite d_node. apply existsb_exists. exists c. auto. }
      split; [|split; [intros q []|]].
      - intros p [E|[]]. subst p. exists (lca_sub P u). split; [apply lca_in_subtrees|]. split; [reflexivity|].
        left. split; [reflexivity|]. exact (lca_has_present P u Hdu).
      - intros _ x Hx Hp. left. exists (lca_sub P u). split; [apply lca_in_subtrees|].
        split; [exact (lca_covers P u x Hx Hp)|left; reflexivity]. }
    set (tp := filter (fun c => is_tip c && P (tname c)) (children u)).
    set (q := flat_map (fun c => if is_tip c then [] else [(c, k + 1)]) (children u)).
    assert (Htp : forall c, In c tp -> In c (children u) /\ is_tip c = true /\ P (tname c) = true).
    { intros c Hc. unfold tp in Hc. apply filter_In in Hc. destruct Hc as [H1 H2]. apply andb_true_iff in H2. tauto. }
    split; [|split].
    - intros p Hp. destruct (Nat.eqb (length tp) 2) eqn:E2.
      + destruct Hp as [E|[]]. subst p. exists u. split; [apply subtrees_self|]. split; [reflexivity|]. left.
        split; [reflexivity|]. destruct tp as [|c1 tp'] eqn:Etp; [discriminate|].
        destruct (Htp c1 (or_introl eq_refl)) as [H1 [H2 H3]].
        destruct u as [n [|c0 cs0]]; [destruct H1|]. rewrite d_node. apply existsb_exists. exists c1. split; [exact H1|].
        rewrite (proj1 (tip_child_present c1 H2)). exact H3.
      + apply in_map_iff in Hp. destruct Hp as [c [E Hc]]. subst p. destruct (Htp c Hc) as [H1 [H2 H3]].
        exists c. split; [|split; [reflexivity|left; split; [reflexivity|]]].
        * destruct u as [n cs]. exact (subtrees_child n cs c c H1 (subtrees_self c)).
        * rewrite (proj1 (tip_child_present c H2)). exact H3.
    - intros [c k'] Hq. unfold q in Hq. apply in_flat_map in Hq. destruct Hq as [c' [Hc' Hq]].
      destruct (is_tip c') eqn:Et; [destruct Hq|]. destruct Hq as [E|[]]. inversion E; subst. cbn [fst]. auto.
    - intros Hu x Hx Hp. destruct u as [n [|c0 cs0]]; [discriminate|]. cbn [children] in *.
      change (In x (flat_map tips (c0 :: cs0))) in Hx. apply in_flat_map in Hx. destruct Hx as [c [Hc Hx]].
      destruct (is_tip c) eqn:Et.
      + left. destruct (tip_child_present c Et) as [_ Htips]. rewrite Htips in Hx. destruct Hx as [E|[]]. subst x.
        assert (Hctp : In c tp). { unfold tp. apply filter_In. split; [exact Hc|]. rewrite Et, Hp. reflexivity. }
        destruct (Nat.eqb (length tp) 2).
        * exists (Node n (c0 :: cs0)). split; [apply subtrees_self|]. split; [|left; reflexivity].
          apply (tips_child n (c0 :: cs0) c _ Hc). rewrite Htips. left. reflexivity.
        * exists c. split; [exact (subtrees_child n _ c c Hc (subtrees_self c))|]. split; [rewrite Htips; left; reflexivity|].
          apply in_map_iff. exists c. auto.
      + right. exists (c, k + 1). split; [|exact Hx]. unfold q. apply in_flat_map. exists c. split; [exact Hc|].
        rewrite Et. left. reflexivity.
  Qed.
End TD.

(* ---------- the queue ---------- *)

Section Queue.
  Variable pat : list (Z * Z).
  Variable mode : Z.
  Let P := present_ge1 pat.
  Let d := has_present P.

  Definition qsize (queue : list (tree * Z)) : nat := list_sum (map (fun q => size (fst q)) queue).

  Lemma qsize_app a b : qsize (a ++ b) = (qsize a + qsize b)%nat.
  Proof. unfold qsize. rewrite map_app, list_sum_app. reflexivity. Qed.

  Lemma qsize_cons u k rest : qsize ((u, k) :: rest) = (size u + qsize rest)%nat.
  Proof. reflexivity. Qed.

  Lemma size_pos t : (1 <= size t)%nat.
  Proof. destruct t. cbn [size]. lia. Qed.

  Lemma process_qsize u k : (qsize (snd (process pat mode u k)) < size u)%nat.
  Proof.
    unfold process. pose proof (size_pos u) as Hp.
    destruct (k >=? mode); [cbn [snd]; unfold qsize; cbn [map]; change (list_sum []) with 0%nat; lia|].
    match goal with |- context [if ?c then _ else _] => destruct c end;
      [cbn [snd]; unfold qsize; cbn [map]; change (list_sum []) with 0%nat; lia|].
    cbn [snd]. destruct u as [n cs]. cbn [children size].
    assert (H : (qsize (flat_map (fun c => if is_tip c then [] else [(c, (k + 1)%Z)]) cs) <= list_sum (map size cs))%nat).
    { clear Hp. induction cs as [|c cs IH]; [cbn; lia|]. cbn [flat_map map]. rewrite qsize_app.
      change (list_sum (size c :: map size cs)) with (size c + list_sum (map size cs))%nat.
      destruct (is_tip c).
      - change (qsize []) with 0%nat. lia.
      - change (qsize [(c, (k + 1)%Z)]) with (size c + 0)%nat. lia. }
    lia.
  Qed.

  Lemma bfs_step f u k rest :
    bfs (S f) pat mode ((u, k) :: rest) =
    fst (process pat mode u k) ++ bfs f pat mode (rest ++ snd (process pat mode u k)).
  Proof. reflexivity. Qed.

  (* S1: every event of the queue phase is consistent with d and names a node of sub *)
  Lemma bfs_ok sub fuel : forall queue,
    (forall q, In q queue -> In (fst q) (subtrees sub)) ->
    forall p, In p (bfs fuel pat mode queue) -> ev_ok pat sub p.
  Proof.
    induction fuel as [|f IH]; intros queue Hq p Hp; [destruct Hp|].
    destruct queue as [|[u k] rest]; [destruct Hp|]. rewrite bfs_step in Hp.
    destruct (process_spec pat mode u k) as [H1 [H2 _]].
    assert (Hu : In u (subtrees sub)) by exact (Hq (u, k) (or_introl eq_refl)).
    apply in_app_or in Hp. destruct Hp as [Hp|Hp].
    - destruct (H1 p Hp) as [a [Ha Hrest]]. exists a. split; [exact (subtrees_trans sub u a Hu Ha)|exact Hrest].
    - apply (IH (rest ++ snd (process pat mode u k))); [|exact Hp].
      intros q Hin. apply in_app_or in Hin. destruct Hin as [Hin|Hin]; [apply Hq; right; exact Hin|].
      destruct (H2 q Hin) as [Hc _]. destruct u as [n cs].
      exact (subtrees_trans sub (Node n cs) (fst q) Hu (subtrees_child n cs (fst q) _ Hc (subtrees_self _))).
  Qed.

  (* S2: every present leaf below a queue element ends up below a gain *)
  Lemma bfs_cover fuel : forall queue, (qsize queue < fuel)%nat ->
    (forall q, In q queue -> is_tip (fst q) = false) ->
    forall q x, In q queue -> In x (tips (fst q)) -> P x = true ->
      exists a, In a (subtrees (fst q)) /\ In x (tips a) /\ In (tname a, 1) (bfs fuel pat mode queue).
  Proof.
    induction fuel as [|f IH]; intros queue Hsz Hint q x Hq Hx Hp; [lia|].
    destruct queue as [|[u k] rest]; [destruct Hq|]. rewrite bfs_step.
    destruct (process_spec pat mode u k) as [_ [H2 H3]].
    assert (Hsz' : (qsize (rest ++ snd (process pat mode u k)) < f)%nat).
    { rewrite qsize_app. pose proof (process_qsize u k). rewrite qsize_cons in Hsz. lia. }
    assert (Hint' : forall q', In q' (rest ++ snd (process pat mode u k)) -> is_tip (fst q') = false).
    { intros q' Hin. apply in_app_or in Hin. destruct Hin as [Hin|Hin]; [apply Hint; right; exact Hin|exact (proj2 (H2 q' Hin))]. }
    destruct Hq as [E|Hq].
    - subst q. cbn [fst] in *.
      destruct (H3 (Hint (u, k) (or_introl eq_refl)) x Hx Hp) as [[a [Ha [Hxa Hg]]]|[q' [Hq' Hxq']]].
      + exists a. split; [exact Ha|]. split; [exact Hxa|]. apply in_or_app. left. exact Hg.
      + destruct (IH _ Hsz' Hint' q' x (in_or_app _ _ _ (or_intror Hq')) Hxq' Hp) as [a [Ha [Hxa Hg]]].
        exists a. split; [|split; [exact Hxa|apply in_or_app; right; exact Hg]].
        destruct (H2 q' Hq') as [Hc _]. destruct u as [n cs]. exact (subtrees_child n cs (fst q') a Hc Ha).
    - destruct (IH _ Hsz' Hint' q x (in_or_app _ _ _ (or_introl Hq)) Hx Hp) as [a [Ha [Hxa Hg]]].
      exists a. split; [exact Ha|]. split; [exact Hxa|]. apply in_or_app. right. exact Hg.
  Qed.
End Queue.

(* ---------- the output: scenario plus fillings ---------- *)

Section Out.
  Variable pat : list (Z * Z).
  Variable sub : tree.
  Variable scenario : list (Z * Z).
  Let P := present_ge1 pat.
  Let d := has_present P.
  Hypothesis Hd : NoDup (names sub).
  Hypothesis S1 : forall p, In p scenario -> ev_ok pat sub p.
  Hypothesis S2 : forall x, In x (tips sub) -> P x = true ->
    exists a, In a (subtrees sub) /\ In x (tips a) /\ In (tname a, 1) scenario.

  Definition fill_of (s : Z * Z) : list (Z * Z) :=
    match find_node (fst s) sub with Some x => fill pat x | None => [] end.
  Definition output : list (Z * Z) := flat_map (fun s => s :: fill_of s) scenario.

  Lemma output_in p : In p output <-> exists s, In s scenario /\ (p = s \/ In p (fill_of s)).
  Proof.
    unfold output. rewrite in_flat_map. split; intros [s [Hs H]]; exists s; (split; [exact Hs|]).
    - destruct H as [E|H]; [left; auto|right; exact H].
    - destruct H as [E|H]; [left; auto|right; exact H].
  Qed.

  (* an event of a filling: a loss at a node of sub without d *)
  Lemma fill_of_in s p : In s scenario -> In p (fill_of s) ->
    exists c, In c (subtrees sub) /\ fst p = tname c /\ snd p = 0 /\ d c = false.
  Proof.
    intros Hs Hp. destruct (S1 s Hs) as [a [Ha [En _]]]. unfold fill_of in Hp. rewrite <- En in Hp.
    rewrite (find_node_correct sub Hd a Ha) in Hp. destruct p as [n e].
    destruct (fill_in pat a n e Hp) as [q [c [Hq [Hc [E1 [E2 E3]]]]]]. exists c. cbn [fst snd].
    split; [|auto]. apply (subtrees_trans sub a c Ha). destruct q as [m cs]. cbn [children] in Hc.
    exact (subtrees_trans a (Node m cs) c Hq (subtrees_child m cs c c Hc (subtrees_self c))).
  Qed.

  Lemma out_consistent : consistent_in pat output sub.
  Proof.
    intros u e Hu Hin. apply output_in in Hin. destruct Hin as [s [Hs [E|Hf]]].
    - subst s. destruct (S1 _ Hs) as [a [Ha [En Hcase]]]. cbn [fst snd] in *.
      assert (a = u) by exact (subtrees_name_unique sub Hd a u Ha Hu En). subst a. exact Hcase.
    - destruct (fill_of_in s (tname u, e) Hs Hf) as [c [Hc [En [Ee Hdc]]]]. cbn [fst snd] in *.
      assert (c = u) by exact (subtrees_name_unique sub Hd c u Hc Hu (eq_sym En)). subst c. right. auto.
  Qed.

  Lemma out_gain_filled : gain_filled pat output sub.
  Proof.
    intros a Ha Hg p c Hp Hdp Hc Hdc. apply output_in in Hg. destruct Hg as [s [Hs [E|Hf]]].
    - subst s. apply output_in. exists (tname a, 1). split; [exact Hs|]. right.
      unfold fill_of. cbn [fst]. rewrite (find_node_correct sub Hd a Ha).
      assert (Htip : is_tip a = false).
      { unfold is_tip. destruct a as [m [|a0 as0]]; [|reflexivity].
        cbn [subtrees flat_map] in Hp. destruct Hp as [E|[]]. subst p. destruct Hc. }
      exact (fill_complete pat a Htip p c Hp Hdp Hc Hdc).
    - destruct (fill_of_in s (tname a, 1) Hs Hf) as [c' [_ [_ [E _]]]]. cbn in E. discriminate.
  Qed.

  Lemma out_gains_cover : gains_cover pat output sub.
  Proof.
    intros x Hx Hp. destruct (S2 x Hx Hp) as [a [Ha [Hxa Hg]]]. exists a. split; [exact Ha|]. split; [exact Hxa|].
    apply output_in. exists (tname a, 1). auto.
  Qed.

  Lemma out_names p : In p output -> In (fst p) (names sub) /\ (snd p = 1 \/ snd p = 0).
  Proof.
    intros Hin. apply output_in in Hin. destruct Hin as [s [Hs [E|Hf]]].
    - subst s. destruct (S1 _ Hs) as [a [Ha [En Hcase]]]. rewrite <- En. split.
      + exact (subtrees_names sub a Ha _ (tname_in_names a)).
      + destruct Hcase as [[E _]|[E _]]; auto.
    - destruct (fill_of_in s p Hs Hf) as [c [Hc [En [Ee _]]]]. rewrite En. split; [|auto].
      exact (subtrees_names sub c Hc _ (tname_in_names c)).
  Qed.
End Out.

(* ---------- the theorem ---------- *)

(* Guard: the common ancestor of the presences is an internal node (there are at least two
   presences) or the restriction is 1.  PhyBo.get_GLS answers single-presence patterns itself;
   called directly with a single presence and restriction >= 2 the method returns []. *)
Theorem top_down_replays pat t mode md ev :
  NoDup (names t) -> pattern_known pat t -> (md = 0 \/ md = -1) ->
  (is_tip (lca_sub (present_ge1 (recode md pat)) t) = false \/ mode = 1) ->
  top_down pat t mode md = Ok ev ->
  reproduces md pat t ev.
Proof.
  intros Hd Hpk Hmd Hguard H. unfold top_down in H.
  set (pat' := recode md pat) in *.
  assert (Hk' : tips_known pat' t) by exact (tips_known_recode md pat t Hmd Hpk).
  assert (Hext : forall n, In n (tips t) -> present_ge1 pat' n = is_present pat' n)
    by exact (present_ge1_is_present pat' t Hk').
  set (P := present_ge1 pat') in *. set (sub := lca_sub P t) in *.
  destruct (has_present P t) eqn:Ehp; [|discriminate]. cbn [negb] in H. injection H as Hev.
  assert (Esub : sub = lca_sub (is_present pat') t) by exact (lca_sub_ext_tips _ _ t Hext).
  assert (Hksub : tips_known pat' sub).
  { intros m Hm. apply Hk'. rewrite Esub in Hm. exact (tips_subset_lca _ t m Hm). }
  assert (Hdsub : NoDup (names sub)) by (rewrite Esub; exact (NoDup_lca _ t Hd)).
  assert (Hdsubp : has_present P sub = true) by exact (lca_has_present P t Ehp).
  set (scenario := if mode =? 1 then [(tname sub, 1)] else bfs (S (size sub)) pat' mode [(sub, 1)]) in *.
  assert (S1 : forall p, In p scenario -> ev_ok pat' sub p).
  { intros p Hp. unfold scenario in Hp. destruct (mode =? 1).
    - destruct Hp as [E|[]]. subst p. exists sub. split; [apply subtrees_self|]. split; [reflexivity|]. left. auto.
    - apply (bfs_ok pat' mode sub (S (size sub)) [(sub, 1)]); [|exact Hp]. intros q [E|[]]. subst q. apply subtrees_self. }
  assert (S2 : forall x, In x (tips sub) -> P x = true ->
                 exists a, In a (subtrees sub) /\ In x (tips a) /\ In (tname a, 1) scenario).
  { intros x Hx Hp. unfold scenario. destruct (Z.eqb_spec mode 1) as [E1|N1].
    - exists sub. split; [apply subtrees_self|]. split; [exact Hx|left; reflexivity].
    - destruct Hguard as [Hg|Hg]; [|contradiction].
      apply (bfs_cover pat' mode (S (size sub)) [(sub, 1)]) with (q := (sub, 1)).
      + rewrite qsize_cons. change (qsize []) with 0%nat. lia.
      + intros q [E|[]]. subst q. exact Hg.
      + left. reflexivity.
      + exact Hx.
      + exact Hp. }
  change (output pat' sub scenario = ev) in Hev. subst ev.
  assert (Hok : forallb (okb pat') (replay false (output pat' sub scenario) sub) = true).
  { apply (replay_ABC pat' (output pat' sub scenario) sub Hdsub Hksub
             (out_consistent pat' sub scenario Hdsub S1) (out_gain_filled pat' sub scenario Hdsub S1)).
    split.
    - intros Es. unfold node_state in Es.
      destruct (lookup (tname sub) (output pat' sub scenario)) as [e|] eqn:El; [|discriminate].
      assert (Hin := lookup_some_in _ _ _ El).
      destruct (out_consistent pat' sub scenario Hdsub S1 sub e (subtrees_self _) Hin) as [[E D]|[E D]].
      + subst e. split; [exact D|]. exact (out_gain_filled pat' sub scenario Hdsub S1 sub (subtrees_self _) Hin).
      + subst e. cbn in Es. discriminate.
    - intros _. exact (out_gains_cover pat' sub scenario S2). }
  assert (Hnames := out_names pat' sub scenario Hdsub S1).
  rewrite Esub in Hok, Hnames |- *.
  split.
  - intros p Hp. apply leaf_okb_spec. rewrite (leaf_okb_recode md pat p Hmd).
    assert (Hall := whole_tree_ok pat' t _ Hd Hk' (fun q Hq => proj1 (Hnames q Hq)) Hok).
    rewrite forallb_forall in Hall. exact (Hall p Hp).
  - intros n e Hin. destruct (Hnames (n, e) Hin) as [Ha Hb]. split; [|exact Hb].
    exact (lca_names_subset _ t n Ha).
Qed.

(* ---------- the guard in terms of the pattern: at least two present leaves ---------- *)

Lemma filter_absent isP t : has_present isP t = false -> filter isP (tips t) = [].
Proof.
  intros H. assert (Hn := no_present_tips isP t H). induction (tips t) as [|x xs IH]; [reflexivity|].
  cbn [filter]. rewrite (Hn x (or_introl eq_refl)). apply IH. intros m Hm. apply Hn. right. exact Hm.
Qed.

Lemma lca_internal_if_two_present isP t :
  (2 <= length (filter isP (tips t)))%nat -> is_tip (lca_sub isP t) = false.
Proof.
  induction t as [n cs IH] using tree_ind'. intros H2. rewrite lca_sub_node.
  assert (Hself : is_tip (Node n cs) = false).
  { destruct cs as [|c0 cs0]; [|reflexivity]. cbn [tips filter] in H2. destruct (isP n); cbn [length] in H2; lia. }
  destruct (flat_map (lca_step isP) cs) as [|r [|r2 rest]] eqn:E; try exact Hself.
  destruct (lca_step_single isP cs r E) as [pre [c [post [E1 [E2 [E3 [E4 E5]]]]]]]. subst r.
  assert (Hc : In c cs) by (subst cs; apply in_or_app; right; left; reflexivity).
  rewrite Forall_forall in IH. apply (IH c Hc).
  destruct cs as [|c0 cs0]; [destruct Hc|]. change (tips (Node n (c0 :: cs0))) with (flat_map tips (c0 :: cs0)) in H2.
  rewrite E1 in H2. rewrite flat_map_app in H2. cbn [flat_map] in H2. rewrite !filter_app in H2.
  assert (Habs : forall ds, Forall (fun d => has_present isP d = false) ds -> filter isP (flat_map tips ds) = []).
  { intros ds Hds. induction Hds as [|d ds Hd _ IHd]; [reflexivity|]. cbn [flat_map]. rewrite filter_app, (filter_absent isP d Hd), IHd. reflexivity. }
  rewrite (Habs pre E2), (Habs post E3) in H2. cbn [app] in H2. rewrite app_nil_r in H2. exact H2.
Qed.

Corollary top_down_replays_two_presences pat t mode md ev :
  NoDup (names t) -> pattern_known pat t -> (md = 0 \/ md = -1) ->
  ((2 <= length (filter (fun n => match lookup n pat with Some s => (s =? 1)%Z | None => false end) (tips t)))%nat
   \/ mode = 1) ->
  top_down pat t mode md = Ok ev ->
  reproduces md pat t ev.
Proof.
  intros Hd Hpk Hmd Hguard. apply top_down_replays; try assumption.
  destruct Hguard as [H2|H1]; [left|right; exact H1].
  apply lca_internal_if_two_present.
  assert (E : filter (present_ge1 (recode md pat)) (tips t) =
              filter (fun n => match lookup n pat with Some s => s =? 1 | None => false end) (tips t)).
  { apply filter_ext_in. intros n Hn. destruct (Hpk n Hn) as [s [El Hs]]. unfold present_ge1.
    rewrite lookup_recode, El. cbn [option_map].
    destruct Hs as [E|[E|E]]; subst s; cbn; try reflexivity. destruct Hmd; subst md; reflexivity. }
  rewrite E. exact H2.
Qed.
