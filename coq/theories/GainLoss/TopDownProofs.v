(* C07 for PhyBo._get_GLS_top_down (as repaired: presences = pap >= 1): the scenario made of
   the gains found by the queue splitting and the losses filled in bottom-up reproduces the
   pattern.  Architecture:
     A  every event is consistent with d (d v = some leaf below v is present):
        gains only at nodes with d, losses only at nodes without;
     B  below every gain the losses are complete (every child without d of a node with d);
     C  every present leaf lies below (or at) some gain of the queue phase;
   and a replay lemma turning A, B, C into correctness of every leaf. *)
From Coq Require Import ZArith List Bool Lia Arith.
From LV Require Import GainLoss.RoseTree GainLoss.TreeLemmas GainLoss.Replay GainLoss.ReplayProofs
  GainLoss.GetGls GainLoss.GetGlsProofs GainLoss.GetGlsTopProofs GainLoss.GetGLSr GainLoss.GetGLSrProofs
  GainLoss.TopDown.
Import ListNotations.
Local Open Scope Z_scope.

(* ---------- subtrees ---------- *)

Lemma subtrees_self t : In t (subtrees t).
Proof. destruct t as [n cs]. cbn [subtrees]. left. reflexivity. Qed.

Lemma subtrees_node n cs u : In u (subtrees (Node n cs)) <-> u = Node n cs \/ exists c, In c cs /\ In u (subtrees c).
Proof.
  cbn [subtrees In]. rewrite in_flat_map. split; (intros [E|H]; [left; congruence|right; exact H]).
Qed.

Lemma subtrees_child n cs c u : In c cs -> In u (subtrees c) -> In u (subtrees (Node n cs)).
Proof. intros Hc Hu. apply subtrees_node. right. exists c. auto. Qed.

Lemma subtrees_trans t : forall u a, In u (subtrees t) -> In a (subtrees u) -> In a (subtrees t).
Proof.
  induction t as [n cs IH] using tree_ind'. intros u a Hu Ha. apply subtrees_node in Hu.
  destruct Hu as [E|[c [Hc Hu]]]; [subst u; exact Ha|].
  rewrite Forall_forall in IH. exact (subtrees_child n cs c a Hc (IH c Hc u a Hu Ha)).
Qed.

Lemma subtrees_names t : forall u, In u (subtrees t) -> forall m, In m (names u) -> In m (names t).
Proof.
  induction t as [n cs IH] using tree_ind'. intros u Hu m Hm. apply subtrees_node in Hu.
  destruct Hu as [E|[c [Hc Hu]]]; [subst u; exact Hm|].
  rewrite Forall_forall in IH. cbn [names]. right. exact (in_flat_map_names c cs m Hc (IH c Hc u Hu m Hm)).
Qed.

Lemma subtrees_tips t : forall u, In u (subtrees t) -> forall m, In m (tips u) -> In m (tips t).
Proof.
  induction t as [n cs IH] using tree_ind'. intros u Hu m Hm. apply subtrees_node in Hu.
  destruct Hu as [E|[c [Hc Hu]]]; [subst u; exact Hm|].
  rewrite Forall_forall in IH. exact (tips_child n cs c m Hc (IH c Hc u Hu m Hm)).
Qed.

Lemma subtrees_NoDup t : NoDup (names t) -> forall u, In u (subtrees t) -> NoDup (names u).
Proof.
  induction t as [n cs IH] using tree_ind'. intros Hd u Hu. apply subtrees_node in Hu.
  destruct Hu as [E|[c [Hc Hu]]]; [subst u; exact Hd|].
  rewrite Forall_forall in IH. exact (IH c Hc (NoDup_child n cs c Hd Hc) u Hu).
Qed.

Lemma tips_in_names t m : In m (tips t) -> In m (names t).
Proof.
  revert m. induction t as [n cs IH] using tree_ind'. intros m Hm. destruct cs as [|c0 cs0].
  - cbn in Hm. destruct Hm as [E|[]]. subst. cbn. auto.
  - change (In m (flat_map tips (c0 :: cs0))) in Hm. apply in_flat_map in Hm. destruct Hm as [c [Hc Hm]].
    rewrite Forall_forall in IH. cbn [names]. right. exact (in_flat_map_names c _ m Hc (IH c Hc m Hm)).
Qed.

(* distinct names: a name identifies a subtree *)
Lemma subtrees_name_unique t : NoDup (names t) ->
  forall u u', In u (subtrees t) -> In u' (subtrees t) -> tname u = tname u' -> u = u'.
Proof.
  induction t as [n cs IH] using tree_ind'. intros Hd u u' Hu Hu' E.
  apply subtrees_node in Hu. apply subtrees_node in Hu'.
  assert (Hroot : forall v c, In c cs -> In v (subtrees c) -> tname v <> n).
  { intros v c Hc Hv Ev. apply (tname_not_sdesc (Node n cs) Hd). cbn [tname]. rewrite <- Ev.
    apply (child_names_in_sdesc n cs c _ Hc). exact (subtrees_names c v Hv _ (tname_in_names v)). }
  destruct Hu as [Eu|[c [Hc Hu]]]; destruct Hu' as [Eu'|[c' [Hc' Hu']]].
  - congruence.
  - subst u. exfalso. apply (Hroot u' c' Hc' Hu'). cbn [tname] in E. congruence.
  - subst u'. exfalso. apply (Hroot u c Hc Hu). cbn [tname] in E. congruence.
  - assert (Hdf : NoDup (flat_map names cs)) by (cbn [names] in Hd; inversion Hd; assumption).
    assert (Ecc : c = c').
    { apply (forest_names_disjoint cs c c' (tname u) Hdf Hc Hc').
      - exact (subtrees_names c u Hu _ (tname_in_names u)).
      - rewrite E. exact (subtrees_names c' u' Hu' _ (tname_in_names u')). }
    subst c'. rewrite Forall_forall in IH. exact (IH c Hc (NoDup_child n cs c Hd Hc) u u' Hu Hu' E).
Qed.

Lemma find_node_node m n cs :
  find_node m (Node n cs) =
  if n =? m then Some (Node n cs)
  else (fix go (l : list tree) : option tree :=
          match l with
          | [] => None
          | c :: r => match find_node m c with Some x => Some x | None => go r end
          end) cs.
Proof. reflexivity. Qed.

Lemma find_node_none t : forall m, ~ In m (names t) -> find_node m t = None.
Proof.
  induction t as [n cs IH] using tree_ind'. intros m Hm. rewrite find_node_node.
  destruct (Z.eqb_spec n m) as [E|_]; [exfalso; apply Hm; cbn; auto|].
  assert (Hm' : ~ In m (flat_map names cs)) by (intros I; apply Hm; cbn [names]; right; exact I).
  clear Hm. induction cs as [|c cs IHc]; [reflexivity|]. inversion IH as [|y r Hy Hr]; subst.
  rewrite (Hy m); [apply (IHc Hr)|]; intros I; apply Hm'; cbn [flat_map]; apply in_or_app; auto.
Qed.

Lemma find_node_correct t : NoDup (names t) -> forall u, In u (subtrees t) -> find_node (tname u) t = Some u.
Proof.
  induction t as [n cs IH] using tree_ind'. intros Hd u Hu. rewrite find_node_node.
  apply subtrees_node in Hu. destruct Hu as [E|[c [Hc Hu]]].
  - subst u. cbn [tname]. rewrite Z.eqb_refl. reflexivity.
  - assert (Hne : n <> tname u).
    { intros E. apply (tname_not_sdesc (Node n cs) Hd). cbn [tname]. rewrite E.
      apply (child_names_in_sdesc n cs c _ Hc). exact (subtrees_names c u Hu _ (tname_in_names u)). }
    destruct (Z.eqb_spec n (tname u)) as [E|_]; [contradiction|].
    assert (Hdf : NoDup (flat_map names cs)) by (cbn [names] in Hd; inversion Hd; assumption).
    clear Hd Hne. induction cs as [|c0 cs IHc]; [destruct Hc|]. inversion IH as [|y r Hy Hr]; subst.
    cbn [flat_map] in Hdf. destruct Hc as [E|Hc].
    + subst c0. rewrite (Hy (NoDup_app_l _ _ Hdf) u Hu). reflexivity.
    + rewrite (find_node_none c0).
      * exact (IHc Hr Hc (NoDup_app_r _ _ Hdf)).
      * intros I. apply (NoDup_app_disj _ _ (tname u) Hdf I).
        exact (in_flat_map_names c cs _ Hc (subtrees_names c u Hu _ (tname_in_names u))).
Qed.

(* ---------- the order of the loss filling ---------- *)

Lemma insert_by_in key x l y : In y (insert_by key x l) <-> y = x \/ In y l.
Proof.
  induction l as [|z l IH]; cbn [insert_by].
  - cbn. intuition.
  - destruct (key x <=? key z)%nat; cbn [In]; [intuition|]. rewrite IH. intuition.
Qed.

Lemma sort_by_in key l y : In y (sort_by key l) <-> In y l.
Proof.
  induction l as [|x l IH]; cbn [sort_by fold_right]; [reflexivity|].
  fold (sort_by key l). rewrite insert_by_in, IH. cbn. intuition.
Qed.

Lemma nontips_node n c cs : nontips (Node n (c :: cs)) = Node n (c :: cs) :: flat_map nontips (c :: cs).
Proof. reflexivity. Qed.

Lemma nontips_sub t : forall p, In p (nontips t) -> In p (subtrees t) /\ is_tip p = false.
Proof.
  induction t as [n cs IH] using tree_ind'. intros p Hp. destruct cs as [|c0 cs0]; [destruct Hp|].
  rewrite nontips_node in Hp. destruct Hp as [E|Hp].
  - subst p. split; [apply subtrees_self|reflexivity].
  - apply in_flat_map in Hp. destruct Hp as [c [Hc Hp]]. rewrite Forall_forall in IH.
    destruct (IH c Hc p Hp) as [H1 H2]. split; [exact (subtrees_child n _ c p Hc H1)|exact H2].
Qed.

Lemma nontips_complete t : forall p, In p (subtrees t) -> is_tip p = false -> In p (nontips t).
Proof.
  induction t as [n cs IH] using tree_ind'. intros p Hp Hi. apply subtrees_node in Hp.
  destruct cs as [|c0 cs0].
  - destruct Hp as [E|[c [[] _]]]. subst p. discriminate Hi.
  - rewrite nontips_node. destruct Hp as [E|[c [Hc Hp]]]; [left; auto|]. right.
    apply in_flat_map. exists c. split; [exact Hc|]. rewrite Forall_forall in IH. exact (IH c Hc p Hp Hi).
Qed.

Lemma ordered_in t p : is_tip t = false -> (In p (ordered t) <-> In p (subtrees t) /\ is_tip p = false).
Proof.
  intros Ht. unfold ordered. rewrite sort_by_in, in_app_iff. destruct t as [n cs]. cbn [children]. split.
  - intros [H|[E|[]]].
    + apply in_flat_map in H. destruct H as [c [Hc H]]. destruct (nontips_sub c p H) as [H1 H2].
      split; [exact (subtrees_child n cs c p Hc H1)|exact H2].
    + subst p. split; [apply subtrees_self|exact Ht].
  - intros [H Hi]. apply subtrees_node in H. destruct H as [E|[c [Hc H]]]; [right; left; auto|].
    left. apply in_flat_map. exists c. split; [exact Hc|exact (nontips_complete c p H Hi)].
Qed.

(* ---------- from A, B, C to the replay ---------- *)

Lemma lookup_in_some {A} (n : Z) (l : list (Z * A)) e : In (n, e) l -> exists e', lookup n l = Some e'.
Proof.
  induction l as [|[k v] l IH]; intros H; [destruct H|]. cbn [lookup].
  destruct (Z.eqb_spec k n) as [E|N]; [eexists; reflexivity|].
  destruct H as [E|H]; [inversion E; congruence|exact (IH H)].
Qed.

Section ReplayABC.
  Variable pat : list (Z * Z).       (* recoded pattern *)
  Variable ev : list (Z * Z).
  Let P := present_ge1 pat.
  Let d := has_present P.

  Definition consistent_in (v : tree) : Prop :=
    forall u e, In u (subtrees v) -> In (tname u, e) ev -> (e = 1 /\ d u = true) \/ (e = 0 /\ d u = false).
  Definition losses_in (v : tree) : Prop :=
    forall p c, In p (subtrees v) -> d p = true -> In c (children p) -> d c = false -> In (tname c, 0) ev.
  Definition gains_cover (v : tree) : Prop :=
    forall x, In x (tips v) -> P x = true ->
      exists a, In a (subtrees v) /\ In x (tips a) /\ In (tname a, 1) ev.
  Definition gain_filled (v : tree) : Prop :=
    forall a, In a (subtrees v) -> In (tname a, 1) ev -> losses_in a.
  Definition Inv (v : tree) (s : bool) : Prop :=
    (s = true -> d v = true /\ losses_in v) /\ (s = false -> gains_cover v).

  Lemma lookup_consistent v u e : consistent_in v -> In u (subtrees v) -> In (tname u, e) ev ->
    lookup (tname u) ev = Some e.
  Proof.
    intros Hc Hu Hin. destruct (lookup_in_some _ _ _ Hin) as [e' El]. rewrite El. f_equal.
    assert (Hin' := lookup_some_in _ _ _ El).
    destruct (Hc u e Hu Hin) as [[E1 D1]|[E1 D1]]; destruct (Hc u e' Hu Hin') as [[E2 D2]|[E2 D2]]; congruence.
  Qed.

  Lemma node_state_cases v u b : consistent_in v -> In u (subtrees v) ->
    (In (tname u, 1) ev /\ d u = true /\ node_state b (tname u) ev = true) \/
    (In (tname u, 0) ev /\ d u = false /\ node_state b (tname u) ev = false) \/
    (lookup (tname u) ev = None /\ node_state b (tname u) ev = b).
  Proof.
    intros Hc Hu. unfold node_state. destruct (lookup (tname u) ev) as [e|] eqn:El; [|right; right; auto].
    assert (Hin := lookup_some_in _ _ _ El). destruct (Hc u e Hu Hin) as [[E D]|[E D]]; subst e.
    - left. auto.
    - right. left. auto.
  Qed.

  Lemma consistent_child n cs c : In c cs -> consistent_in (Node n cs) -> consistent_in c.
  Proof. intros Hc H u e Hu. apply H. exact (subtrees_child n cs c u Hc Hu). Qed.

  Lemma gain_filled_child n cs c : In c cs -> gain_filled (Node n cs) -> gain_filled c.
  Proof. intros Hc H a Ha. apply H. exact (subtrees_child n cs c a Hc Ha). Qed.

  Lemma losses_in_child n cs c : In c cs -> losses_in (Node n cs) -> losses_in c.
  Proof. intros Hc H p c' Hp. apply H. exact (subtrees_child n cs c p Hc Hp). Qed.

  Theorem replay_ABC v : NoDup (names v) -> tips_known pat v -> consistent_in v -> gain_filled v ->
    forall b, Inv v (node_state b (tname v) ev) -> forallb (okb pat) (replay b ev v) = true.
  Proof.
    induction v as [n cs IH] using tree_ind'. intros Hd Hk Hc Hgf b HI. unfold replay. cbn [tname] in *.
    set (s := node_state b n ev) in *.
    destruct cs as [|c0 cs0].
    - (* a leaf *)
      cbn [replay_below forallb]. rewrite andb_true_r. unfold okb, leaf_okb. cbn [fst snd].
      destruct (Hk n (or_introl eq_refl)) as [st [El Hst]]. rewrite El.
      assert (Hd' : d (Node n []) = (st >=? 1)). { unfold d. cbn [has_present]. unfold P, present_ge1. rewrite El. reflexivity. }
      destruct HI as [HT HF]. destruct s eqn:Es.
      + destruct (HT eq_refl) as [Hdv _]. rewrite Hd' in Hdv.
        destruct Hst as [E|[E|E]]; subst st; [reflexivity|discriminate|discriminate].
      + assert (Np : P n = false).
        { destruct (P n) eqn:Ep; [|reflexivity]. exfalso.
          destruct (HF eq_refl n (or_introl eq_refl) Ep) as [a [Ha [_ Hg]]].
          cbn [subtrees flat_map] in Ha. destruct Ha as [E|[]]. subst a. cbn [tname] in Hg.
          assert (El' := lookup_consistent (Node n []) (Node n []) 1 Hc (subtrees_self _) Hg). cbn [tname] in El'.
          unfold s, node_state in Es. rewrite El' in Es. discriminate. }
        unfold P, present_ge1 in Np. rewrite El in Np.
        destruct Hst as [E|[E|E]]; subst st; [discriminate|reflexivity|reflexivity].
    - rewrite replay_below_node. remember (c0 :: cs0) as cs eqn:Ecs.
      rewrite forallb_flat_map. apply forallb_forall. intros c Hcin.
      change (forallb (okb pat) (replay s ev c) = true).
      rewrite Forall_forall in IH.
      assert (Hsubc : In c (subtrees (Node n cs))) by exact (subtrees_child n cs c c Hcin (subtrees_self c)).
      apply (IH c Hcin (NoDup_child n cs c Hd Hcin)).
      + intros m Hm. apply Hk. exact (tips_child n cs c m Hcin Hm).
      + exact (consistent_child n cs c Hcin Hc).
      + exact (gain_filled_child n cs c Hcin Hgf).
      + destruct HI as [HT HF].
        destruct (node_state_cases (Node n cs) c s Hc Hsubc) as [[Hg [Hdc Ens]]|[[Hl [Hdc Ens]]|[Hnone Ens]]]; rewrite Ens.
        * split; [|discriminate]. intros _. split; [exact Hdc|]. exact (Hgf c Hsubc Hg).
        * split; [discriminate|]. intros _ x Hx Hpx. exfalso.
          assert (X := no_present_tips P c Hdc x Hx). congruence.
        * destruct s eqn:Es.
          -- split; [|discriminate]. intros _. destruct (HT eq_refl) as [Hdv Hlv]. split.
             ++ destruct (d c) eqn:Edc; [reflexivity|]. exfalso.
                assert (Hin := Hlv (Node n cs) c (subtrees_self _) Hdv Hcin Edc).
                destruct (lookup_in_some _ _ _ Hin) as [e' El]. congruence.
             ++ exact (losses_in_child n cs c Hcin Hlv).
          -- split; [discriminate|]. intros _ x Hx Hpx.
             destruct (HF eq_refl x (tips_child n cs c x Hcin Hx) Hpx) as [a [Ha [Hxa Hg]]].
             apply subtrees_node in Ha. destruct Ha as [E|[c' [Hc' Ha]]].
             ++ exfalso. subst a. cbn [tname] in Hg.
                assert (El' := lookup_consistent (Node n cs) (Node n cs) 1 Hc (subtrees_self _) Hg). cbn [tname] in El'.
                unfold s, node_state in Es. rewrite El' in Es. discriminate.
             ++ assert (Hdf : NoDup (flat_map names cs)) by (cbn [names] in Hd; inversion Hd; assumption).
                assert (Ecc : c' = c).
                { apply (forest_names_disjoint cs c' c x Hdf Hc' Hcin).
                  - apply tips_in_names. exact (subtrees_tips c' a Ha x Hxa).
                  - apply tips_in_names. exact Hx. }
                subst c'. exists a. auto.
  Qed.
End ReplayABC.
