(* Facts about replaying scenarios; specification of the replay checker. *)
From Coq Require Import ZArith List Bool Lia.
From LV Require Import GainLoss.RoseTree GainLoss.TreeLemmas GainLoss.Replay.
Import ListNotations.
Local Open Scope Z_scope.

Lemma memz_spec n l : memz n l = true <-> In n l.
Proof.
  unfold memz. rewrite existsb_exists. split.
  - intros [x [Hx E]]. apply Z.eqb_eq in E. subst. exact Hx.
  - intros H. exists n. split; [exact H|apply Z.eqb_refl].
Qed.

Lemma node_state_ext b n ev ev' : lookup n ev = lookup n ev' -> node_state b n ev = node_state b n ev'.
Proof. unfold node_state. intros ->. reflexivity. Qed.

Lemma flat_map_ext_in {A B} (f g : A -> list B) l : (forall x, In x l -> f x = g x) -> flat_map f l = flat_map g l.
Proof.
  induction l as [|x l IH]; intros H; cbn [flat_map]; [reflexivity|].
  rewrite (H x (or_introl eq_refl)). f_equal. apply IH. intros y Hy. apply H. right. exact Hy.
Qed.

(* only the events on strict descendants matter below a node *)
Lemma replay_below_ext t : forall s ev ev',
  (forall m, In m (sdesc t) -> lookup m ev = lookup m ev') -> replay_below s ev t = replay_below s ev' t.
Proof.
  induction t as [n cs IH] using tree_ind'. intros s ev ev' H.
  destruct cs as [|c0 cs0]; [reflexivity|].
  remember (c0 :: cs0) as cs eqn:Ecs.
  change (replay_below s ev (Node n cs)) with
    (match cs with [] => [(n, s)] | _ => flat_map (fun c => replay_below (node_state s (tname c) ev) ev c) cs end).
  change (replay_below s ev' (Node n cs)) with
    (match cs with [] => [(n, s)] | _ => flat_map (fun c => replay_below (node_state s (tname c) ev') ev' c) cs end).
  rewrite Ecs. rewrite <- Ecs.
  apply flat_map_ext_in. intros c Hc.
  rewrite (node_state_ext s (tname c) ev ev').
  - rewrite Forall_forall in IH. apply (IH c Hc). intros m Hm. apply H.
    apply (child_names_in_sdesc n cs c m Hc). apply sdesc_in_names. exact Hm.
  - apply H. apply (child_names_in_sdesc n cs c _ Hc). apply tname_in_names.
Qed.

Lemma replay_below_node s ev n c cs :
  replay_below s ev (Node n (c :: cs)) =
  flat_map (fun d => replay_below (node_state s (tname d) ev) ev d) (c :: cs).
Proof. reflexivity. Qed.

(* a scenario without events on [t] or below leaves every leaf in the inherited state *)
Lemma replay_below_no_events t : forall s ev,
  (forall m, In m (sdesc t) -> lookup m ev = None) ->
  forall p, In p (replay_below s ev t) -> snd p = s /\ In (fst p) (tips t).
Proof.
  induction t as [n cs IH] using tree_ind'. intros s ev H p Hp.
  destruct cs as [|c0 cs0].
  - cbn in Hp. destruct Hp as [E|[]]. subst. cbn. auto.
  - rewrite replay_below_node in Hp. apply in_flat_map in Hp. destruct Hp as [c [Hc Hp]].
    rewrite Forall_forall in IH.
    assert (Hst : node_state s (tname c) ev = s).
    { unfold node_state. rewrite H; [reflexivity|]. apply (child_names_in_sdesc n _ c _ Hc). apply tname_in_names. }
    rewrite Hst in Hp.
    destruct (IH c Hc s ev) with (p := p) as [E I].
    + intros m Hm. apply H. apply (child_names_in_sdesc n _ c m Hc). apply sdesc_in_names. exact Hm.
    + exact Hp.
    + split; [exact E|]. change (In (fst p) (flat_map tips (c0 :: cs0))). apply in_flat_map. exists c. auto.
Qed.

(* the replayed leaves are exactly the tips *)
Lemma replay_below_tips t : forall s ev, map fst (replay_below s ev t) = tips t.
Proof.
  induction t as [n cs IH] using tree_ind'. intros s ev.
  destruct cs as [|c0 cs0]; [reflexivity|].
  rewrite replay_below_node. change (tips (Node n (c0 :: cs0))) with (flat_map tips (c0 :: cs0)).
  remember (c0 :: cs0) as cs. clear Heqcs. induction cs as [|c cs IHc]; [reflexivity|].
  cbn [flat_map]. rewrite map_app. inversion IH as [|x l Hx Hl]; subst. rewrite Hx. f_equal. exact (IHc Hl).
Qed.

(* ---------- the checker ---------- *)

(* What "the scenario reproduces the pattern" means: every leaf whose state is
   known is replayed to that state (a missing leaf is unconstrained if
   missing data is treated as such, md = -1, and must be absent otherwise),
   and every event is a gain or a loss at a node of the tree. *)
Definition leaf_agrees (md : Z) (pat : list (Z * Z)) (p : Z * bool) : Prop :=
  exists s, lookup (fst p) pat = Some s /\
    ((s = 1 /\ snd p = true) \/ (s = 0 /\ snd p = false) \/
     (s = -1 /\ (md = -1 \/ snd p = false))).

Definition reproduces (md : Z) (pat : list (Z * Z)) (t : tree) (ev : list (Z * Z)) : Prop :=
  (forall p, In p (replay false ev t) -> leaf_agrees md pat p) /\
  (forall n e, In (n, e) ev -> In n (names t) /\ (e = 1 \/ e = 0)).

Lemma leaf_okb_spec md pat p : leaf_okb md pat p = true <-> leaf_agrees md pat p.
Proof.
  unfold leaf_okb, leaf_agrees. destruct (lookup (fst p) pat) as [s|].
  - destruct (Z.eqb_spec s 1) as [E1|N1].
    { split; [intros H; exists s; split; [reflexivity|left; auto]|].
      intros [s' [E [[_ H]|[[H _]|[H _]]]]]; inversion E; subst; try lia; exact H. }
    destruct (Z.eqb_spec s 0) as [E0|N0].
    { split.
      - intros H. exists s. split; [reflexivity|]. right. left. split; [exact E0|]. destruct (snd p); [discriminate|reflexivity].
      - intros [s' [E [[H _]|[[_ H]|[H _]]]]]; inversion E; subst; try lia. rewrite H. reflexivity. }
    destruct (Z.eqb_spec s (-1)) as [EM|NM].
    { destruct (Z.eqb_spec md (-1)) as [Emd|Nmd].
      - split; [intros _; exists s; split; [reflexivity|right; right; auto]|reflexivity].
      - split.
        + intros H. exists s. split; [reflexivity|]. right. right. split; [exact EM|]. right. destruct (snd p); [discriminate|reflexivity].
        + intros [s' [E [[H _]|[[H _]|[_ [H|H]]]]]]; inversion E; subst; try lia. rewrite H. reflexivity. }
    split; [discriminate|].
    intros [s' [E [[H _]|[[H _]|[H _]]]]]; inversion E; subst; lia.
  - split; [discriminate|]. intros [s [E _]]. discriminate.
Qed.

Theorem replay_okb_spec md pat t ev : replay_okb md pat t ev = true <-> reproduces md pat t ev.
Proof.
  unfold replay_okb, reproduces. rewrite andb_true_iff, !forallb_forall. split.
  - intros [H1 H2]. split.
    + intros p Hp. apply leaf_okb_spec. exact (H1 p Hp).
    + intros n e Hin. specialize (H2 (n, e) Hin). unfold event_okb in H2. cbn [fst snd] in H2.
      apply andb_true_iff in H2. destruct H2 as [Hm He]. split; [apply memz_spec; exact Hm|].
      apply orb_true_iff in He. destruct He as [He|He]; apply Z.eqb_eq in He; auto.
  - intros [H1 H2]. split.
    + intros p Hp. apply leaf_okb_spec. exact (H1 p Hp).
    + intros [n e] Hin. destruct (H2 n e Hin) as [Hm He]. unfold event_okb. cbn [fst snd].
      apply andb_true_iff. split; [apply memz_spec; exact Hm|].
      apply orb_true_iff. destruct He as [He|He]; subst; auto.
Qed.
