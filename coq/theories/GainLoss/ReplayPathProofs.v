(* A declarative reading of [replay]: the state of a leaf is decided by the nearest node on the
   path from the root to the leaf (the leaf itself included) that carries an event - present if that
   event is a gain, absent if it is a loss - and it is absent if no node on the path carries one. *)
From Coq Require Import ZArith List Bool Lia.
From LV Require Import GainLoss.RoseTree GainLoss.TreeLemmas GainLoss.Replay GainLoss.ReplayProofs.
Import ListNotations.
Local Open Scope Z_scope.

(* root-to-leaf paths, as lists of node names, root first, in tip order *)
Fixpoint paths (t : tree) : list (list Z) :=
  match t with
  | Node n [] => [[n]]
  | Node n cs => map (cons n) (flat_map paths cs)
  end.

Definition has_event (ev : list (Z * Z)) (n : Z) : bool :=
  match lookup n ev with Some e => (e =? 1) || (e =? 0) | None => false end.

(* the nearest event on the path, looking from the leaf upwards *)
Definition nearest_event (ev : list (Z * Z)) (path : list Z) : option Z :=
  match find (has_event ev) (rev path) with
  | Some n => lookup n ev
  | None => None
  end.

Definition path_state (b : bool) (ev : list (Z * Z)) (path : list Z) : bool :=
  match nearest_event ev path with
  | Some e => e =? 1
  | None => b
  end.

Definition leaf_of (path : list Z) : Z := last path 0.

Lemma node_state_event b n ev :
  node_state b n ev = if has_event ev n then (match lookup n ev with Some e => e =? 1 | None => false end) else b.
Proof.
  unfold node_state, has_event. destruct (lookup n ev) as [e|]; [|reflexivity].
  destruct (Z.eqb_spec e 1); [reflexivity|]. destruct (Z.eqb_spec e 0); reflexivity.
Qed.

Lemma path_state_snoc b ev path n :
  path_state b ev (path ++ [n]) =
  if has_event ev n then (match lookup n ev with Some e => e =? 1 | None => false end) else path_state b ev path.
Proof.
  unfold path_state, nearest_event. rewrite rev_app_distr. cbn [rev app find].
  destruct (has_event ev n) eqn:E; [|reflexivity].
  unfold has_event in E. destruct (lookup n ev); [reflexivity|discriminate].
Qed.

Lemma path_state_cons b ev n path :
  path_state b ev (n :: path) = path_state (node_state b n ev) ev path.
Proof.
  revert b n. induction path as [|m path IH] using rev_ind; intros b n.
  - change [n] with ([] ++ [n]). rewrite path_state_snoc. unfold path_state at 1 2, nearest_event. cbn [rev find].
    rewrite node_state_event. reflexivity.
  - rewrite app_comm_cons, !path_state_snoc. destruct (has_event ev m); [reflexivity|]. apply IH.
Qed.

Lemma leaf_of_cons n p : p <> [] -> leaf_of (n :: p) = leaf_of p.
Proof. unfold leaf_of. destruct p; [contradiction|reflexivity]. Qed.

Lemma paths_nonempty t : forall p, In p (paths t) -> p <> [].
Proof.
  destruct t as [n [|c cs]]; intros p Hp.
  - destruct Hp as [E|[]]. subst. discriminate.
  - change (In p (map (cons n) (flat_map paths (c :: cs)))) in Hp. apply in_map_iff in Hp.
    destruct Hp as [q [E _]]. subst. discriminate.
Qed.

(* [replay_below s ev t]: t in state s *)
Lemma replay_below_paths t : forall s ev,
  replay_below s ev t = map (fun p => (leaf_of p, path_state s ev (tl p))) (paths t).
Proof.
  induction t as [n cs IH] using tree_ind'. intros s ev. destruct cs as [|c0 cs0]; [reflexivity|].
  rewrite replay_below_node. change (paths (Node n (c0 :: cs0))) with (map (cons n) (flat_map paths (c0 :: cs0))).
  rewrite map_map. remember (c0 :: cs0) as cs. clear Heqcs.
  induction cs as [|c cs IHc]; [reflexivity|]. inversion IH as [|y r Hy Hr]; subst.
  cbn [flat_map]. rewrite map_app, <- (IHc Hr). f_equal.
  rewrite (Hy (node_state s (tname c) ev) ev). apply map_ext_in. intros p Hp. cbn [tl].
  rewrite (leaf_of_cons n p (paths_nonempty c p Hp)). f_equal.
  destruct c as [m ds]. assert (Hhd : exists q, p = m :: q).
  { destruct ds as [|d ds]; [destruct Hp as [E|[]]; subst; eexists; reflexivity|].
    change (In p (map (cons m) (flat_map paths (d :: ds)))) in Hp. apply in_map_iff in Hp.
    destruct Hp as [q [E _]]. exists q. auto. }
  destruct Hhd as [q Eq]. subst p. cbn [tl tname]. rewrite path_state_cons. reflexivity.
Qed.

(* the replay from an absent virtual parent: leaf by leaf, the nearest event on its path decides *)
Theorem replay_paths t ev :
  replay false ev t = map (fun p => (leaf_of p, path_state false ev p)) (paths t).
Proof.
  unfold replay. rewrite replay_below_paths. apply map_ext_in. intros p Hp. f_equal.
  destruct t as [n cs]. assert (Hhd : exists q, p = n :: q).
  { destruct cs as [|d ds]; [destruct Hp as [E|[]]; subst; eexists; reflexivity|].
    change (In p (map (cons n) (flat_map paths (d :: ds)))) in Hp. apply in_map_iff in Hp.
    destruct Hp as [q [E _]]. exists q. auto. }
  destruct Hhd as [q Eq]. subst p. cbn [tl tname]. rewrite path_state_cons. reflexivity.
Qed.
