(* PhyBo.get_GLS, per cognate set: the singleton shortcut, then the function of the chosen
   mode (lingpy/compare/phylogeny.py, get_GLS).  The per-pattern cache returns what was
   computed for an equal pattern, i.e. the same function of the pattern.  No proofs here. *)
From Coq Require Import ZArith List Bool.
From LV Require Import GainLoss.RoseTree GainLoss.GetGls GainLoss.GetGLSr GainLoss.TopDown.
Import ListNotations.
Local Open Scope Z_scope.

Inductive glmode := GWeighted (g l : Z) | GRestriction (r : Z) | GTopDown (r : Z).

Definition phybo_per_cog (pat : list (Z * Z)) (t : tree) (m : glmode) (gpl : Z) (push : bool) (md : Z) : result :=
  if Z.of_nat (length (filter (fun p => snd p =? 1) pat)) =? 1 then      (* sum([x for x in paps if x == 1]) == 1 *)
    match find (fun p => snd p =? 1) pat with
    | Some p => Ok [(fst p, 1)]                                          (* taxa[paps.index(1)] *)
    | None => Err 9
    end
  else match m with
       | GWeighted g l => get_gls pat t gpl g l push md
       | GRestriction r => get_GLSr pat t (ModeR r) gpl push md
       | GTopDown r => top_down pat t r md
       end.
