(* Weighted parsimony on a rose tree: what "minimum over all assignments of
   present/absent states to the internal nodes (and to missing leaves)" means,
   an exhaustive enumeration of those assignments, and the dynamic programme
   that computes the minimum.  Definitions only; proofs in ParsimonyProofs.v. *)
From Coq Require Import ZArith List Bool.
From LV Require Import GainLoss.RoseTree GainLoss.Replay.
Import ListNotations.
Local Open Scope Z_scope.

(* --- labelled trees: an assignment of a state to every node --- *)

Inductive ltree := LNode : Z -> bool -> list ltree -> ltree.

Definition lstate (x : ltree) : bool := match x with LNode _ s _ => s end.

Fixpoint erase (x : ltree) : tree :=
  match x with LNode n _ cs => Node n (map erase cs) end.

Definition edge_cost (g l : Z) (parent child : bool) : Z :=
  if parent then (if child then 0 else l) else (if child then g else 0).

Definition sumZ (l : list Z) : Z := fold_right Z.add 0 l.

(* cost of the state changes on the edges inside [x] plus the edge from a parent in state [b] *)
Fixpoint lcost (g l : Z) (b : bool) (x : ltree) : Z :=
  match x with
  | LNode n s cs => edge_cost g l b s + sumZ (map (lcost g l s) cs)
  end.

(* the leaves of the labelled tree carry the observed states (missing leaves are free when md = -1) *)
Fixpoint lconsistentb (md : Z) (pat : list (Z * Z)) (x : ltree) : bool :=
  match x with
  | LNode n s [] => leaf_okb md pat (n, s)
  | LNode n s cs => forallb (lconsistentb md pat) cs
  end.

(* exhaustive enumeration of all assignments *)
Fixpoint labellings (t : tree) : list ltree :=
  match t with
  | Node n cs =>
      let kids := (fix prod (l : list tree) : list (list ltree) :=
                     match l with
                     | [] => [[]]
                     | c :: r => flat_map (fun x => map (cons x) (prod r)) (labellings c)
                     end) cs in
      map (LNode n true) kids ++ map (LNode n false) kids
  end.

Definition min_opt (l : list Z) : option Z :=
  match l with [] => None | x :: r => Some (fold_right Z.min x r) end.

(* the minimum by exhaustive enumeration: the virtual parent of the root is absent *)
Definition opt_brute (g l md : Z) (pat : list (Z * Z)) (t : tree) : option Z :=
  min_opt (map (lcost g l false) (filter (lconsistentb md pat) (labellings t))).

(* --- the dynamic programme: cost of the subtree as seen from a parent in state 1 / 0 --- *)

Definition leaf_views (g l md : Z) (pat : list (Z * Z)) (n : Z) : Z * Z :=   (* (view1, view0) *)
  match lookup n pat with
  | Some s => if s =? 1 then (0, g)
              else if (s =? -1) && (md =? -1) then (0, 0)
              else (l, 0)
  | None => (l, 0)
  end.

Fixpoint views (g l md : Z) (pat : list (Z * Z)) (t : tree) : Z * Z :=
  match t with
  | Node n [] => leaf_views g l md pat n
  | Node n cs =>
      let vs := map (views g l md pat) cs in
      let o1 := sumZ (map fst vs) in
      let o0 := sumZ (map snd vs) in
      (Z.min o1 (o0 + l), Z.min o0 (o1 + g))
  end.

Definition opt (g l md : Z) (pat : list (Z * Z)) (t : tree) : Z := snd (views g l md pat t).

Definition weight_ev (g l : Z) (ev : list (Z * Z)) : Z :=
  Z.of_nat (length (filter (fun p => snd p =? 1) ev)) * g
  + Z.of_nat (length (filter (fun p => snd p =? 0) ev)) * l.
