(* The dynamic programme [views] computes the minimum, over all assignments of a
   state to every node that agree with the observed leaves, of the weighted number of
   state changes (the virtual parent of the root being absent). *)
From Coq Require Import ZArith List Bool Lia.
From LV Require Import GainLoss.RoseTree GainLoss.TreeLemmas GainLoss.Replay GainLoss.ReplayProofs GainLoss.Parsimony.
Import ListNotations.
Local Open Scope Z_scope.

Section ltree_ind.
  Variable P : ltree -> Prop.
  Hypothesis HN : forall n s cs, Forall P cs -> P (LNode n s cs).
  Fixpoint ltree_ind' (x : ltree) : P x :=
    match x with
    | LNode n s cs =>
        HN n s cs ((fix go (l : list ltree) : Forall P l :=
                      match l with
                      | [] => Forall_nil P
                      | c :: r => Forall_cons c (ltree_ind' c) (go r)
                      end) cs)
    end.
End ltree_ind.

Lemma sumZ_cons' x r : sumZ (x :: r) = x + sumZ r.
Proof. reflexivity. Qed.

Lemma sumZ_app a b : sumZ (a ++ b) = sumZ a + sumZ b.
Proof. induction a as [|x a IH]; cbn [app]; rewrite ?sumZ_cons', ?IH; [cbn|]; lia. Qed.

Section Min.
  Variables g l md : Z.
  Variable pat : list (Z * Z).
  Hypothesis Hg : 0 <= g.
  Hypothesis Hl : 0 <= l.

  Definition view (b : bool) (t : tree) : Z :=
    if b then fst (views g l md pat t) else snd (views g l md pat t).

  Lemma view_node b n c cs :
    view b (Node n (c :: cs)) =
    if b then Z.min (sumZ (map (view true) (c :: cs))) (sumZ (map (view false) (c :: cs)) + l)
    else Z.min (sumZ (map (view false) (c :: cs))) (sumZ (map (view true) (c :: cs)) + g).
  Proof.
    unfold view at 1. change (views g l md pat (Node n (c :: cs))) with
      (let vs := map (views g l md pat) (c :: cs) in
       (Z.min (sumZ (map fst vs)) (sumZ (map snd vs) + l), Z.min (sumZ (map snd vs)) (sumZ (map fst vs) + g))).
    cbv zeta. destruct b; cbn [fst snd]; rewrite !map_map; reflexivity.
  Qed.

  Lemma view_leaf b n : view b (Node n []) = if b then fst (leaf_views g l md pat n) else snd (leaf_views g l md pat n).
  Proof. reflexivity. Qed.

  Lemma erase_node n s cs : erase (LNode n s cs) = Node n (map erase cs).
  Proof. reflexivity. Qed.

  Lemma lcost_node b n s cs : lcost g l b (LNode n s cs) = edge_cost g l b s + sumZ (map (lcost g l s) cs).
  Proof. reflexivity. Qed.

  Lemma lconsistentb_node n s c cs :
    lconsistentb md pat (LNode n s (c :: cs)) = forallb (lconsistentb md pat) (c :: cs).
  Proof. reflexivity. Qed.

  Lemma edge_cost_nonneg b s : 0 <= edge_cost g l b s.
  Proof. unfold edge_cost. destruct b, s; lia. Qed.

  (* lower bound: no consistent assignment is cheaper than the view *)
  Theorem view_lower x : forall b, lconsistentb md pat x = true -> view b (erase x) <= lcost g l b x.
  Proof.
    induction x as [n s cs IH] using ltree_ind'. intros b Hc.
    destruct cs as [|c0 cs0].
    - rewrite erase_node. cbn [map]. rewrite view_leaf, lcost_node. cbn [map sumZ fold_right].
      cbn [lconsistentb] in Hc. unfold leaf_okb in Hc. cbn [fst snd] in Hc. unfold leaf_views.
      destruct (lookup n pat) as [st|]; [|discriminate].
      destruct (Z.eqb_spec st 1) as [E1|N1].
      { subst s. unfold edge_cost. destruct b; cbn; lia. }
      destruct (Z.eqb_spec st 0) as [E0|N0].
      { destruct s; [discriminate|]. destruct (Z.eqb_spec st (-1)); [lia|]. cbn [andb]. unfold edge_cost. destruct b; cbn; lia. }
      destruct (Z.eqb_spec st (-1)) as [EM|NM]; [|discriminate].
      destruct (Z.eqb_spec md (-1)) as [Emd|Nmd]; cbn [andb].
      + unfold edge_cost. destruct b, s; cbn; lia.
      + destruct s; [discriminate|]. unfold edge_cost. destruct b; cbn; lia.
    - rewrite erase_node. cbn [map]. rewrite view_node, lcost_node.
      rewrite lconsistentb_node in Hc. remember (c0 :: cs0) as cs eqn:Ecs.
      change (erase c0 :: map erase cs0) with (map erase (c0 :: cs0)). rewrite <- Ecs. clear Ecs.
      assert (Hs : forall s', sumZ (map (view s') (map erase cs)) <= sumZ (map (lcost g l s') cs)).
      { intros s'. clear -IH Hc. induction cs as [|c cs IHc]; [cbn; lia|].
        cbn [map forallb] in *. apply andb_true_iff in Hc. destruct Hc as [Hc1 Hc2].
        inversion IH as [|y r Hy Hr]; subst. rewrite !sumZ_cons'. specialize (Hy s' Hc1). specialize (IHc Hr Hc2). lia. }
      pose proof (Hs true) as H1. pose proof (Hs false) as H0.
      unfold edge_cost. destruct b, s; lia.
  Qed.

  (* an assignment that attains the view *)
  Fixpoint best (b : bool) (t : tree) : ltree :=
    match t with
    | Node n [] =>
        LNode n (match lookup n pat with
                 | Some s => if s =? 1 then true else if (s =? -1) && (md =? -1) then b else false
                 | None => false
                 end) []
    | Node n cs =>
        let o1 := sumZ (map (view true) cs) in
        let o0 := sumZ (map (view false) cs) in
        let s := if b then (o1 <=? o0 + l) else negb (o0 <=? o1 + g) in
        LNode n s (map (best s) cs)
    end.

  Lemma best_node b n c cs :
    best b (Node n (c :: cs)) =
    let o1 := sumZ (map (view true) (c :: cs)) in
    let o0 := sumZ (map (view false) (c :: cs)) in
    let s := if b then (o1 <=? o0 + l) else negb (o0 <=? o1 + g) in
    LNode n s (map (best s) (c :: cs)).
  Proof. reflexivity. Qed.

  Lemma erase_best t : forall b, erase (best b t) = t.
  Proof.
    induction t as [n cs IH] using tree_ind'. intros b. destruct cs as [|c0 cs0]; [reflexivity|].
    rewrite best_node. cbv zeta. rewrite erase_node. f_equal. rewrite map_map.
    remember (c0 :: cs0) as cs. clear Heqcs.
    match goal with |- map (fun x => erase (best ?s x)) cs = cs => generalize s end. intros s.
    induction cs as [|c cs IHc]; [reflexivity|]. inversion IH as [|y r Hy Hr]; subst. cbn [map]. rewrite Hy, (IHc Hr). reflexivity.
  Qed.

  Definition known (t : tree) : Prop :=
    forall n, In n (tips t) -> exists s, lookup n pat = Some s /\ (s = 1 \/ s = 0 \/ s = -1).

  Lemma best_consistent t : forall b, known t -> lconsistentb md pat (best b t) = true.
  Proof.
    induction t as [n cs IH] using tree_ind'. intros b Hk. destruct cs as [|c0 cs0].
    - cbn [best lconsistentb]. unfold leaf_okb. cbn [fst snd].
      destruct (Hk n (or_introl eq_refl)) as [s [El Hs]]. rewrite El.
      destruct Hs as [E|[E|E]]; subst s; cbn; try reflexivity.
      destruct (md =? -1); reflexivity.
    - rewrite best_node. cbv zeta. cbn [map]. rewrite lconsistentb_node.
      change (forallb (lconsistentb md pat) (map (best (if b then sumZ (map (view true) (c0 :: cs0)) <=? sumZ (map (view false) (c0 :: cs0)) + l else negb (sumZ (map (view false) (c0 :: cs0)) <=? sumZ (map (view true) (c0 :: cs0)) + g))) (c0 :: cs0)) = true).
      rewrite forallb_forall. intros x Hx. apply in_map_iff in Hx. destruct Hx as [c [E Hc]]. subst x.
      rewrite Forall_forall in IH. apply (IH c Hc). intros m Hm. apply Hk.
      change (In m (flat_map tips (c0 :: cs0))). apply in_flat_map. exists c. auto.
  Qed.

  Theorem best_cost t : forall b, lcost g l b (best b t) = view b t.
  Proof.
    induction t as [n cs IH] using tree_ind'. intros b. destruct cs as [|c0 cs0].
    - cbn [best]. rewrite lcost_node, view_leaf. cbn [map sumZ fold_right]. unfold leaf_views.
      destruct (lookup n pat) as [s|]; [|unfold edge_cost; destruct b; cbn; lia].
      destruct (Z.eqb_spec s 1); [unfold edge_cost; destruct b; cbn; lia|].
      destruct ((s =? -1) && (md =? -1)); unfold edge_cost; destruct b; cbn; lia.
    - rewrite best_node, view_node. cbv zeta. rewrite lcost_node. rewrite map_map.
      remember (c0 :: cs0) as cs. clear Heqcs.
      assert (Hs : forall s, sumZ (map (fun x => lcost g l s (best s x)) cs) = sumZ (map (view s) cs)).
      { intros s. clear -IH. induction cs as [|c cs IHc]; [reflexivity|]. inversion IH as [|y r Hy Hr]; subst.
        cbn [map]. rewrite !sumZ_cons', Hy, (IHc Hr). reflexivity. }
      destruct b.
      + destruct (Z.leb_spec (sumZ (map (view true) cs)) (sumZ (map (view false) cs) + l)); rewrite Hs; unfold edge_cost; lia.
      + destruct (Z.leb_spec (sumZ (map (view false) cs)) (sumZ (map (view true) cs) + g)); cbn [negb]; rewrite Hs; unfold edge_cost; lia.
  Qed.

  (* m is the minimum, over all assignments of states to the nodes of t that agree with the
     known leaves, of the cost with an absent virtual parent above the root *)
  Definition is_min_cost (t : tree) (m : Z) : Prop :=
    (exists x, erase x = t /\ lconsistentb md pat x = true /\ lcost g l false x = m) /\
    (forall x, erase x = t -> lconsistentb md pat x = true -> m <= lcost g l false x).

  Theorem opt_is_min t : known t -> is_min_cost t (opt g l md pat t).
  Proof.
    intros Hk. split.
    - exists (best false t). split; [apply erase_best|]. split; [apply best_consistent; exact Hk|].
      rewrite best_cost. reflexivity.
    - intros x Ex Hc. change (opt g l md pat t) with (view false t). rewrite <- Ex. apply view_lower. exact Hc.
  Qed.

  (* ----- the enumeration used by the brute-force checker is complete ----- *)

  Definition lab_prod : list tree -> list (list ltree) :=
    fix prod (cs : list tree) : list (list ltree) :=
      match cs with
      | [] => [[]]
      | c :: r => flat_map (fun x => map (cons x) (prod r)) (labellings c)
      end.

  Lemma labellings_node n cs :
    labellings (Node n cs) = map (LNode n true) (lab_prod cs) ++ map (LNode n false) (lab_prod cs).
  Proof. reflexivity. Qed.

  Lemma labellings_complete x : In x (labellings (erase x)).
  Proof.
    induction x as [n s cs IH] using ltree_ind'. rewrite erase_node, labellings_node.
    assert (Hp : In cs (lab_prod (map erase cs))).
    { clear -IH. induction cs as [|c cs IHc]; [left; reflexivity|]. inversion IH as [|y r Hy Hr]; subst.
      cbn [map lab_prod]. apply in_flat_map. exists c. split; [exact Hy|]. apply in_map. exact (IHc Hr). }
    apply in_or_app. destruct s; [left|right]; apply in_map; exact Hp.
  Qed.

  Lemma labellings_sound t : forall x, In x (labellings t) -> erase x = t.
  Proof.
    induction t as [n cs IH] using tree_ind'. intros x Hx. rewrite labellings_node in Hx.
    assert (Hp : forall ks, In ks (lab_prod cs) -> map erase ks = cs).
    { clear -IH. induction cs as [|c cs IHc]; intros ks Hks.
      - destruct Hks as [E|[]]. subst. reflexivity.
      - inversion IH as [|y r Hy Hr]; subst. cbn [lab_prod] in Hks. apply in_flat_map in Hks.
        destruct Hks as [k [Hk Hks]]. apply in_map_iff in Hks. destruct Hks as [ks' [E Hks']]. subst ks.
        cbn [map]. rewrite (Hy k Hk), (IHc Hr ks' Hks'). reflexivity. }
    apply in_app_or in Hx. destruct Hx as [Hx|Hx]; apply in_map_iff in Hx; destruct Hx as [ks [E Hks]]; subst x;
      rewrite erase_node, (Hp ks Hks); reflexivity.
  Qed.

  Lemma min_opt_spec (xs : list Z) m :
    In m xs -> (forall y, In y xs -> m <= y) -> min_opt xs = Some m.
  Proof.
    intros Hin Hle. destruct xs as [|x r]; [destruct Hin|]. cbn [min_opt]. f_equal.
    assert (H1 : forall d r', fold_right Z.min d r' <= d /\ forall y, In y r' -> fold_right Z.min d r' <= y).
    { intros d r'. induction r' as [|z r' [I1 I2]]; cbn [fold_right]; [split; [lia|intros y []]|].
      split; [lia|]. intros y [E|H]; [subst; lia|]. specialize (I2 y H). lia. }
    assert (H2 : forall d r', fold_right Z.min d r' = d \/ In (fold_right Z.min d r') r').
    { intros d r'. induction r' as [|z r' I]; cbn [fold_right]; [left; reflexivity|].
      destruct (Z.min_spec z (fold_right Z.min d r')) as [[_ E]|[_ E]]; rewrite E; [right; left; reflexivity|].
      destruct I as [I|I]; [left; exact I|right; right; exact I]. }
    destruct (H1 x r) as [L1 L2].
    assert (Hlow : fold_right Z.min x r <= m). { destruct Hin as [E|H]; [subst; exact L1|exact (L2 m H)]. }
    assert (Hup : m <= fold_right Z.min x r).
    { destruct (H2 x r) as [E|H]; [rewrite E; apply Hle; left; reflexivity|apply Hle; right; exact H]. }
    lia.
  Qed.

  (* exhaustive enumeration gives the same number as the dynamic programme *)
  Theorem opt_brute_correct t : known t -> opt_brute g l md pat t = Some (opt g l md pat t).
  Proof.
    intros Hk. unfold opt_brute. destruct (opt_is_min t Hk) as [[x [Ex [Hc Hcost]]] Hmin].
    apply min_opt_spec.
    - apply in_map_iff. exists x. split; [exact Hcost|]. apply filter_In. split; [|exact Hc].
      rewrite <- Ex. apply labellings_complete.
    - intros y Hy. apply in_map_iff in Hy. destruct Hy as [x' [E Hx']]. subst y. apply filter_In in Hx'.
      destruct Hx' as [Hx' Hc']. apply Hmin; [exact (labellings_sound t x' Hx')|exact Hc'].
  Qed.
End Min.
