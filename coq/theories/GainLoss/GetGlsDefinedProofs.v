(* get_gls returns a scenario (never runs into min() of an empty dictionary) whenever the pattern
   has a presence and gpl >= 0: at every node some scenario survives the pruning. *)
From Coq Require Import ZArith List Bool Lia.
From LV Require Import GainLoss.RoseTree GainLoss.TreeLemmas GainLoss.Replay GainLoss.ReplayProofs
  GainLoss.GetGls GainLoss.GetGlsProofs GainLoss.GetGlsTopProofs GainLoss.Parsimony GainLoss.GetGlsOptProofs
  GainLoss.GetGlsOptTopProofs.
Import ListNotations.
Local Open Scope Z_scope.

Lemma product_nonempty {A} (ls : list (list A)) : Forall (fun l => l <> []) ls -> exists combo, In combo (product ls).
Proof.
  induction 1 as [|l ls Hl _ [combo IH]]; [exists []; left; reflexivity|].
  destruct l as [|x l]; [contradiction|]. exists (x :: combo). cbn [product]. apply in_flat_map.
  exists x. split; [left; reflexivity|]. apply in_map. exact IH.
Qed.

Lemma concat_nil {A} (ls : list (list A)) : (forall l, In l ls -> l = []) -> concat ls = [].
Proof.
  induction ls as [|l ls IH]; intros H; [reflexivity|]. cbn [concat]. rewrite (H l (or_introl eq_refl)).
  apply IH. intros l' Hl'. apply H. right. exact Hl'.
Qed.

Section Defined.
  Variable pat : list (Z * Z).
  Variables gpl g l : Z.
  Hypothesis Hgpl : 0 <= gpl.

  (* a state-0 scenario is never filtered and the pruning keeps one of them *)
  Lemma prune_keeps_zero nn sc : In sc nn -> fst sc = 0 -> exists sc', In sc' (prune gpl g l nn) /\ fst sc' = 0.
  Proof.
    intros Hin H0. unfold prune.
    assert (Hok : In sc (filter (gpl_ok gpl) nn)).
    { apply filter_In. split; [exact Hin|]. unfold gpl_ok, is1. rewrite H0. reflexivity. }
    destruct (keep_min_exists g l (filter (fun s => is0 (fst s)) (filter (gpl_ok gpl) nn)) sc) as [sc' [H1 _]].
    { apply filter_In. split; [exact Hok|]. unfold is0. rewrite H0. reflexivity. }
    exists sc'. split; [apply in_or_app; right; apply in_or_app; left; exact H1|].
    apply keep_min_in in H1. apply filter_In in H1. destruct H1 as [_ H1]. unfold is0 in H1. apply Z.eqb_eq in H1. exact H1.
  Qed.

  (* an eventless scenario is never filtered (gpl >= 0); the pruning keeps something *)
  Lemma prune_nonempty_eventless nn : nn <> [] -> (forall sc, In sc nn -> snd sc = []) -> prune gpl g l nn <> [].
  Proof.
    intros Hne Hev. destruct nn as [|sc nn']; [contradiction|].
    assert (Hall : forallb (gpl_ok gpl) (sc :: nn') = true).
    { apply forallb_forall. intros x Hx. unfold gpl_ok. rewrite (Hev x Hx). unfold gains, count_ev. cbn [filter length].
      assert (E : (Z.of_nat 0 >? gpl) = false) by (rewrite Z.gtb_ltb; apply Z.ltb_ge; cbn; lia).
      rewrite E. rewrite andb_false_r. reflexivity. }
    destruct (prune_keeps gpl g l (sc :: nn') sc Hall (or_introl eq_refl)) as [sc' [H1 _]].
    intros E. rewrite E in H1. destruct H1.
  Qed.

  Definition R (t : tree) : Prop :=
    (exists sc, In sc (scen_of pat gpl g l t) /\ fst sc = 0) \/
    (scen_of pat gpl g l t <> [] /\ forall sc, In sc (scen_of pat gpl g l t) -> snd sc = [] /\ fst sc <> 0).

  Lemma R_nonempty t : R t -> scen_of pat gpl g l t <> [].
  Proof. intros [[sc [Hin _]]|[H _]]; [intros E; rewrite E in Hin; destruct Hin|exact H]. Qed.

  Theorem scen_never_empty t : tips_known pat t -> R t.
  Proof.
    induction t as [n cs IH] using tree_ind'. intros Hk. destruct cs as [|c0 cs0].
    - cbn [scen_of]. destruct (Z.eq_dec (state_of pat n) 0) as [E|N].
      + left. eexists. split; [left; reflexivity|exact E].
      + right. split; [discriminate|]. intros sc [E|[]]. subst sc. cbn. auto.
    - remember (c0 :: cs0) as cs eqn:Ecs.
      assert (HR : Forall R cs).
      { rewrite Forall_forall in IH |- *. intros c Hc. apply (IH c Hc). intros m Hm. apply Hk.
        rewrite Ecs in Hc |- *. exact (tips_child n _ c m Hc Hm). }
      assert (Hne : Forall (fun ls => ls <> []) (map (scen_of pat gpl g l) cs)).
      { apply Forall_forall. intros ls Hls. apply in_map_iff in Hls. destruct Hls as [c [E Hc]]. subst ls.
        rewrite Forall_forall in HR. exact (R_nonempty c (HR c Hc)). }
      assert (Hscen : scen_of pat gpl g l (Node n cs) =
                      prune gpl g l (new_nodes (map tname cs) (map (scen_of pat gpl g l) cs))).
      { rewrite Ecs. reflexivity. }
      destruct (Exists_dec (fun c => exists sc, In sc (scen_of pat gpl g l c) /\ fst sc = 0) cs) as [Hex|Hno].
      { intros c. destruct (existsb (fun sc => fst sc =? 0) (scen_of pat gpl g l c)) eqn:E.
        - left. apply existsb_exists in E. destruct E as [sc [H1 H2]]. exists sc. split; [exact H1|apply Z.eqb_eq; exact H2].
        - right. intros [sc [H1 H2]]. assert (X : existsb (fun sc => fst sc =? 0) (scen_of pat gpl g l c) = true).
          { apply existsb_exists. exists sc. split; [exact H1|apply Z.eqb_eq; exact H2]. } congruence. }
      + (* some child has a state-0 scenario: the node gets one too *)
        left.
        assert (Hcombo : exists combo, Forall2 (fun c x => In x (scen_of pat gpl g l c)) cs combo /\
                                       exists x, In x combo /\ fst x = 0).
        { clear -Hex HR. induction cs as [|c cs IHc]; [inversion Hex|]. inversion HR as [|y r Hy Hr]; subst.
          apply Exists_cons in Hex. destruct Hex as [[sc [H1 H2]]|Hex].
          - assert (Hrest : exists combo, Forall2 (fun c x => In x (scen_of pat gpl g l c)) cs combo).
            { clear -Hr. induction cs as [|c' cs IH']; [exists []; constructor|]. inversion Hr as [|y r Hy Hr']; subst.
              destruct (IH' Hr') as [combo Hc]. pose proof (R_nonempty c' Hy) as Hn.
              destruct (scen_of pat gpl g l c') as [|x xs] eqn:E; [contradiction|].
              exists (x :: combo). constructor; [rewrite E; left; reflexivity|exact Hc]. }
            destruct Hrest as [combo Hc]. exists (sc :: combo). split; [constructor; assumption|].
            exists sc. split; [left; reflexivity|exact H2].
          - destruct (IHc Hr Hex) as [combo [Hc [x [Hx1 Hx2]]]]. pose proof (R_nonempty c Hy) as Hn.
            destruct (scen_of pat gpl g l c) as [|z zs] eqn:E; [contradiction|].
            exists (z :: combo). split; [constructor; [rewrite E; left; reflexivity|exact Hc]|].
            exists x. split; [right; exact Hx1|exact Hx2]. }
        destruct Hcombo as [combo [HF [x [Hx Hx0]]]].
        assert (Hnew : exists sc, In sc (combine_node (map tname cs) combo) /\ fst sc = 0).
        { assert (Hst : In 0 (map fst combo)) by (rewrite <- Hx0; apply in_map; exact Hx).
          destruct (produced_cases (map tname cs) combo) as [EM E|C0 C1 E|C1 C0 E|X1 X0 E]; rewrite E.
          - exfalso. rewrite forallb_forall in EM. specialize (EM 0 Hst). discriminate EM.
          - exfalso. pose proof (cnt_pos 0 _ 0 Hst eq_refl). lia.
          - eexists. split; [left; reflexivity|reflexivity].
          - eexists. split; [right; left; reflexivity|reflexivity]. }
        destruct Hnew as [sc [Hsc Hs0]].
        destruct (prune_keeps_zero _ sc (in_new_nodes pat g l gpl cs combo sc HF Hsc) Hs0) as [sc' [H1 H2]].
        exists sc'. rewrite Hscen. auto.
      + (* no child has a state-0 scenario: all scenarios of all children are eventless *)
        right.
        assert (Hkids : forall c, In c cs -> forall sc, In sc (scen_of pat gpl g l c) -> snd sc = [] /\ fst sc <> 0).
        { intros c Hc. rewrite Forall_forall in HR. destruct (HR c Hc) as [Hz|[_ H]]; [|exact H].
          exfalso. apply Hno. apply Exists_exists. exists c. auto. }
        assert (Hnn : forall sc, In sc (new_nodes (map tname cs) (map (scen_of pat gpl g l) cs)) ->
                                 snd sc = [] /\ fst sc <> 0).
        { intros sc Hin. unfold new_nodes in Hin. apply in_flat_map in Hin. destruct Hin as [combo [Hcombo Hsc]].
          apply product_in in Hcombo. apply Forall2_map_l in Hcombo.
          assert (Hall : forall x, In x combo -> snd x = [] /\ fst x <> 0).
          { intros x Hx. destruct (In_nth_pair cs combo x (Forall2_length' _ _ _ Hcombo) Hx) as [c Hc].
            exact (Hkids c (in_combine_l _ _ _ _ Hc) x (Forall2_combine_in _ _ _ _ _ Hcombo Hc)). }
          assert (Hst : concat (map snd combo) = []).
          { apply concat_nil. intros st Hst. apply in_map_iff in Hst. destruct Hst as [x [E Hx]]. subst st.
            exact (proj1 (Hall x Hx)). }
          assert (Hno0 : cnt 0 (map fst combo) = 0).
          { clear -Hall. induction combo as [|x combo IHc]; [reflexivity|]. cbn [map]. rewrite cnt_cons.
            destruct (Z.eqb_spec (fst x) 0) as [E|_]; [exfalso; exact (proj2 (Hall x (or_introl eq_refl)) E)|].
            rewrite IHc; [reflexivity|]. intros y Hy. apply Hall. right. exact Hy. }
          destruct (produced_cases (map tname cs) combo) as [EM E|C0 C1 E|C1 C0 E|X1 X0 E]; rewrite E in Hsc.
          - destruct Hsc as [Es|[]]. subst sc. cbn [fst snd]. rewrite Hst. split; [reflexivity|discriminate].
          - destruct Hsc as [Es|[]]. subst sc. cbn [fst snd]. rewrite Hst. split; [reflexivity|discriminate].
          - exfalso. lia.
          - (* mixed needs a state outside {1,-1}, impossible here: every state is 1 or -1 *)
            exfalso. destruct (forallb_false_exists _ _ X1) as [s [Hs Hf]].
            apply in_map_iff in Hs. destruct Hs as [x [Ex Hx]].
            destruct (In_nth_pair cs combo x (Forall2_length' _ _ _ Hcombo) Hx) as [c Hc].
            assert (Hxin := Forall2_combine_in _ _ _ _ _ Hcombo Hc).
            assert (Hkc : tips_known pat c).
            { intros m Hm. apply Hk. rewrite Ecs. rewrite Ecs in Hc.
              exact (tips_child n _ c m (in_combine_l _ _ _ _ Hc) Hm). }
            destruct (gains_bound pat gpl g l c Hkc x Hxin) as [Hv _].
            apply orb_false_iff in Hf. destruct Hf as [F1 FM]. unfold is1, isM in *. rewrite Ex in Hv.
            apply Z.eqb_neq in F1. apply Z.eqb_neq in FM. destruct (Hall x Hx) as [_ N0]. rewrite Ex in N0. lia. }
        rewrite Hscen. split.
        * apply prune_nonempty_eventless.
          -- destruct (product_nonempty _ Hne) as [combo Hcombo]. intros E.
             assert (Hc : combine_node (map tname cs) combo <> []).
             { destruct (produced_cases (map tname cs) combo) as [_ E'|_ _ E'|_ _ E'|_ _ E']; rewrite E'; discriminate. }
             destruct (combine_node (map tname cs) combo) as [|sc r] eqn:Ec; [contradiction|].
             assert (X : In sc (new_nodes (map tname cs) (map (scen_of pat gpl g l) cs))).
             { unfold new_nodes. apply in_flat_map. exists combo. split; [exact Hcombo|rewrite Ec; left; reflexivity]. }
             rewrite E in X. destruct X.
          -- intros sc Hsc. exact (proj1 (Hnn sc Hsc)).
        * intros sc Hsc. apply Hnn. exact (prune_in gpl g l _ sc Hsc).
  Qed.
End Defined.

Theorem get_gls_defined pat t gpl g l push md :
  pattern_known pat t -> (md = 0 \/ md = -1) -> 0 <= gpl ->
  has_present (is_present pat) t = true ->
  exists ev, get_gls pat t gpl g l push md = Ok ev.
Proof.
  intros Hpk Hmd Hgpl Hhp. unfold get_gls.
  set (pat' := recode md pat).
  assert (Hext : forall n, is_present pat' n = is_present pat n).
  { intros n. apply is_present_recode. destruct Hmd; lia. }
  rewrite (has_present_ext _ _ t Hext), Hhp. cbn [negb].
  set (sub := lca_sub (is_present pat') t).
  assert (Hk' : tips_known pat' t) by exact (tips_known_recode md pat t Hmd Hpk).
  assert (Hksub : tips_known pat' sub). { intros m Hm. apply Hk'. exact (tips_subset_lca _ t m Hm). }
  assert (E2 : forallb (fun n => match lookup n pat' with Some _ => true | None => false end) (tips sub) = true).
  { apply forallb_forall. intros n Hn. destruct (Hksub n Hn) as [s [El _]]. rewrite El. reflexivity. }
  rewrite E2. cbn [negb].
  destruct (forallb (fun n => state_of pat' n =? 1) (tips sub)); [eexists; reflexivity|].
  assert (Hne : map (finish (tname sub)) (scen_of pat' gpl g l sub) <> []).
  { pose proof (R_nonempty pat' gpl g l sub (scen_never_empty pat' gpl g l Hgpl sub Hksub)) as H.
    destruct (scen_of pat' gpl g l sub); [contradiction|discriminate]. }
  destruct (select_some g l push _ Hne) as [ev Hev]. rewrite Hev. exists ev. reflexivity.
Qed.
