(* C08 through PhyBo.get_GLS: in the weighted mode the singleton shortcut agrees with get_gls,
   so what the object stores for a cognate set is get_gls's scenario for the pattern coded from
   the rows, and has minimum weight. *)
From Coq Require Import ZArith List Bool Lia.
From LV Require Import Common.Cases GainLoss.RoseTree GainLoss.TreeLemmas GainLoss.Replay GainLoss.ReplayProofs
  GainLoss.GetGls GainLoss.GetGlsProofs GainLoss.GetGlsTopProofs GainLoss.Parsimony GainLoss.ParsimonyProofs
  GainLoss.GetGlsOptProofs GainLoss.GetGlsOptTopProofs GainLoss.GetGLSr GainLoss.GetGLSrProofs GainLoss.TopDown
  GainLoss.TopDownProofs GainLoss.PhyBoGlue GainLoss.PhyBoGlueProofs GainLoss.PhyBoRows GainLoss.PhyBoRowsProofs.
Import ListNotations.
Local Open Scope Z_scope.

Lemma present_nonempty isP t : has_present isP t = true -> (1 <= length (filter isP (tips t)))%nat.
Proof.
  induction t as [n cs IH] using tree_ind'. intros H. destruct cs as [|c0 cs0].
  - cbn in H. cbn [tips filter]. rewrite H. cbn. lia.
  - rewrite has_present_node in H. apply existsb_exists in H. destruct H as [c [Hc Hp]].
    change (tips (Node n (c0 :: cs0))) with (flat_map tips (c0 :: cs0)).
    rewrite Forall_forall in IH. specialize (IH c Hc Hp). remember (c0 :: cs0) as cs. clear Heqcs.
    induction cs as [|d cs IHc]; [destruct Hc|]. cbn [flat_map]. rewrite filter_app, app_length.
    destruct Hc as [E|Hc]; [subst; lia|specialize (IHc Hc); lia].
Qed.

Lemma lca_step_count isP cs :
  (length (flat_map (lca_step isP) cs) <= length (filter isP (flat_map tips cs)))%nat.
Proof.
  induction cs as [|c cs IH]; [cbn; lia|]. cbn [flat_map]. rewrite filter_app, !app_length.
  unfold lca_step at 1. destruct (has_present isP c) eqn:E.
  - pose proof (present_nonempty isP c E). cbn [length]. lia.
  - cbn [length]. lia.
Qed.

(* an internal common ancestor has at least two present leaves below it *)
Lemma lca_internal_two isP t : has_present isP t = true -> is_tip (lca_sub isP t) = false ->
  (2 <= length (filter isP (tips t)))%nat.
Proof.
  induction t as [n cs IH] using tree_ind'. intros Hp Ht. rewrite lca_sub_node in Ht.
  destruct (flat_map (lca_step isP) cs) as [|r [|r2 rest]] eqn:E.
  - (* no child with a presence: then t itself must be a present tip, which is not internal *)
    destruct cs as [|c0 cs0]; [discriminate Ht|]. exfalso.
    rewrite has_present_node in Hp. apply existsb_exists in Hp. destruct Hp as [c [Hc Hh]].
    assert (X := lca_step_nil isP _ E). rewrite Forall_forall in X. rewrite (X c Hc) in Hh. discriminate.
  - destruct (lca_step_single isP cs r E) as [pre [c [post [E1 [_ [_ [E4 E5]]]]]]]. subst r.
    assert (Hc : In c cs) by (subst cs; apply in_or_app; right; left; reflexivity).
    rewrite Forall_forall in IH. specialize (IH c Hc E4 Ht).
    destruct cs as [|c0 cs0]; [destruct Hc|]. change (tips (Node n (c0 :: cs0))) with (flat_map tips (c0 :: cs0)).
    rewrite E1, flat_map_app. cbn [flat_map]. rewrite !filter_app, !app_length. lia.
  - destruct cs as [|c0 cs0]; [discriminate E|]. change (tips (Node n (c0 :: cs0))) with (flat_map tips (c0 :: cs0)).
    pose proof (lca_step_count isP (c0 :: cs0)) as H. rewrite E in H. cbn [length] in H. lia.
Qed.

(* the singleton shortcut of PhyBo.get_GLS returns what get_gls returns *)
Theorem phybo_weighted_is_get_gls pat t g l gpl push md :
  NoDup (names t) -> NoDup (keys pat) -> (forall n s, In (n, s) pat -> In n (tips t)) ->
  (md = 0 \/ md = -1) ->
  phybo_per_cog pat t (GWeighted g l) gpl push md = get_gls pat t gpl g l push md.
Proof.
  intros Hd Hkeys Htaxa Hmd. unfold phybo_per_cog.
  destruct (Z.eqb_spec (Z.of_nat (length (filter (fun p => snd p =? 1) pat))) 1) as [E1|N1]; [|reflexivity].
  destruct (find (fun p => snd p =? 1) pat) as [[n s]|] eqn:Ef.
  - apply find_some in Ef. destruct Ef as [Hin Hs]. cbn [snd] in Hs. apply Z.eqb_eq in Hs. subst s. cbn [fst].
    assert (Hn : In n (tips t)) by exact (Htaxa n 1 Hin).
    assert (Hl : lookup n pat = Some 1) by exact (lookup_NoDup_in pat n 1 Hkeys Hin).
    assert (Hpn : is_present pat n = true) by (unfold is_present; rewrite Hl; reflexivity).
    assert (Hhp : has_present (is_present pat) t = true) by exact (present_tip_has_present _ t n Hn Hpn).
    assert (Hcount : length (filter (is_present pat) (tips t)) = 1%nat).
    { unfold is_present. rewrite <- (count_presences pat t Hkeys Htaxa Hd). lia. }
    assert (Htip : is_tip (lca_sub (is_present pat) t) = true).
    { destruct (is_tip (lca_sub (is_present pat) t)) eqn:Et; [reflexivity|].
      pose proof (lca_internal_two _ t Hhp Et). lia. }
    assert (Hcov := lca_covers (is_present pat) t n Hn Hpn).
    destruct (lca_sub (is_present pat) t) as [k [|c cs]] eqn:Esub; [|discriminate Htip].
    cbn [tips] in Hcov. destruct Hcov as [Ek|[]]. subst k.
    rewrite (single_gain pat t gpl g l push md Hmd Hhp).
    + rewrite Esub. reflexivity.
    + rewrite Esub. intros m [Em|[]]. subst m. exact Hl.
  - exfalso. destruct (filter (fun p => snd p =? 1) pat) as [|a r] eqn:Efil; [cbn in E1; lia|].
    assert (Ha : In a (a :: r)) by (left; reflexivity). rewrite <- Efil in Ha. apply filter_In in Ha.
    destruct Ha as [Ha1 Ha2]. pose proof (find_none _ _ Ef a Ha1) as X. cbv beta in X. congruence.
Qed.

(* the pattern coded from the rows satisfies the guards of the get_gls theorems *)
Lemma coded_pattern_guards rows taxa cog con t :
  NoDup taxa -> (forall x, In x taxa <-> In x (tips t)) ->
  let pat := combine taxa (paps_of_rows rows taxa cog con) in
  pattern_known pat t /\ NoDup (keys pat) /\ (forall n s, In (n, s) pat -> In n (tips t)).
Proof.
  intros Hnd Htaxa pat. split; [|split].
  - intros n Hn. apply Htaxa in Hn. destruct (paps_of_rows_spec rows taxa cog con n Hn) as [s [El Hs]].
    exists s. split; [exact El|]. destruct Hs as [[E _]|[[E _]|[E _]]]; auto.
  - unfold pat, paps_of_rows. rewrite keys_combine_map. exact Hnd.
  - intros n s Hin. apply Htaxa. unfold pat in Hin. apply in_combine_l in Hin. exact Hin.
Qed.

Section RowsWeighted.
  Variables (rows : list row) (taxa : list Z) (cog con : Z) (t : tree) (g l gpl : Z) (push : bool) (md : Z)
            (ev : list (Z * Z)).
  Hypothesis Hd : NoDup (names t).
  Hypothesis Hnd : NoDup taxa.
  Hypothesis Htaxa : forall x, In x taxa <-> In x (tips t).
  Hypothesis Hmd : md = 0 \/ md = -1.
  Hypothesis Hg : 0 <= g.
  Hypothesis Hl : 0 <= l.
  Hypothesis Hres : phybo_of_rows rows taxa cog con t (GWeighted g l) gpl push md = Ok ev.

  Let pat := combine taxa (paps_of_rows rows taxa cog con).

  Lemma rows_is_get_gls : get_gls pat t gpl g l push md = Ok ev.
  Proof.
    destruct (coded_pattern_guards rows taxa cog con t Hnd Htaxa) as [_ [Hk Ht]].
    rewrite <- (phybo_weighted_is_get_gls pat t g l gpl push md Hd Hk Ht Hmd). exact Hres.
  Qed.

  (* any gpl: never below the minimum for the attested pattern *)
  Theorem phybo_rows_weight_ge_min : exists m, is_min_cost g l md pat t m /\ m <= weight_ev g l ev.
  Proof.
    destruct (coded_pattern_guards rows taxa cog con t Hnd Htaxa) as [Hpk _].
    exists (opt g l md pat t). split; [exact (opt_is_min g l md pat Hg Hl t Hpk)|].
    exact (gls_weight_ge_opt pat t gpl g l push md ev Hpk Hmd Hg Hl rows_is_get_gls).
  Qed.

  (* gpl at least the number of languages: the stored scenario has minimum weight *)
  Theorem phybo_rows_weight_is_min : Z.of_nat (length (tips t)) <= gpl -> is_min_cost g l md pat t (weight_ev g l ev).
  Proof.
    intros Hgpl. destruct (coded_pattern_guards rows taxa cog con t Hnd Htaxa) as [Hpk _].
    rewrite (gls_weight_eq_opt_leaves pat t gpl g l push md ev Hpk Hmd Hg Hl rows_is_get_gls Hgpl).
    exact (opt_is_min g l md pat Hg Hl t Hpk).
  Qed.
End RowsWeighted.
