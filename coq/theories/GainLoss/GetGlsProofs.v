(* C07 for get_gls: every scenario kept at any node replays correctly inside that
   node's subtree; the returned scenario reproduces the pattern on the whole tree. *)
From Coq Require Import ZArith List Bool Lia.
From LV Require Import GainLoss.RoseTree GainLoss.TreeLemmas GainLoss.Replay GainLoss.ReplayProofs GainLoss.GetGls.
Import ListNotations.
Local Open Scope Z_scope.

(* ---------- cartesian product ---------- *)

Lemma product_in {A} (ls : list (list A)) : forall combo,
  In combo (product ls) <-> Forall2 (fun l x => In x l) ls combo.
Proof.
  induction ls as [|l ls IH]; intros combo; cbn [product].
  - split.
    + intros [E|[]]. subst. constructor.
    + intros H. inversion H. left. reflexivity.
  - rewrite in_flat_map. split.
    + intros [x [Hx Hc]]. apply in_map_iff in Hc. destruct Hc as [r [E Hr]]. subst.
      constructor; [exact Hx|apply IH; exact Hr].
    + intros H. inversion H as [|l' x ls' r Hx Hr]; subst. exists x. split; [exact Hx|].
      apply in_map_iff. exists r. split; [reflexivity|apply IH; exact Hr].
Qed.

Lemma Forall2_map_l {A B C} (R : B -> C -> Prop) (f : A -> B) l1 l2 :
  Forall2 R (map f l1) l2 <-> Forall2 (fun a c => R (f a) c) l1 l2.
Proof.
  revert l2. induction l1 as [|a l1 IH]; intros l2; cbn [map].
  - split; intros H; inversion H; constructor.
  - split; intros H; inversion H; subst; constructor; try assumption; apply IH; assumption.
Qed.

Lemma Forall2_and_Forall_l {A B} (P : A -> Prop) (R : A -> B -> Prop) l1 l2 :
  Forall P l1 -> Forall2 R l1 l2 -> Forall2 (fun a b => P a /\ R a b) l1 l2.
Proof. intros HP HR. induction HR; inversion HP; subst; constructor; auto. Qed.

Lemma Forall2_impl {A B} (R S : A -> B -> Prop) l1 l2 :
  (forall a b, In a l1 -> R a b -> S a b) -> Forall2 R l1 l2 -> Forall2 S l1 l2.
Proof.
  intros H HR. induction HR as [|a b l1 l2 Hab HR IH]; constructor.
  - apply H; [left; reflexivity|exact Hab].
  - apply IH. intros a' b' Ha'. apply H. right. exact Ha'.
Qed.

(* ---------- pruning keeps a sublist ---------- *)

Lemma keep_min_in g l ss sc : In sc (keep_min g l ss) -> In sc ss.
Proof.
  unfold keep_min. destruct ss as [|x r]; [intros []|]. intros H. apply filter_In in H. exact (proj1 H).
Qed.

Lemma prune_in gpl g l nn sc : In sc (prune gpl g l nn) -> In sc nn.
Proof.
  unfold prune. intros H. apply in_app_or in H. destruct H as [H|H].
  - apply filter_In in H. destruct H as [H _]. apply filter_In in H. exact (proj1 H).
  - apply in_app_or in H. destruct H as [H|H]; apply keep_min_in in H; apply filter_In in H;
      destruct H as [H _]; apply filter_In in H; exact (proj1 H).
Qed.

Lemma scen_of_node pat gpl g l n c cs :
  scen_of pat gpl g l (Node n (c :: cs)) =
  prune gpl g l (new_nodes (map tname (c :: cs)) (map (scen_of pat gpl g l) (c :: cs))).
Proof. reflexivity. Qed.

Lemma scen_of_node_in pat gpl g l n c cs sc :
  In sc (scen_of pat gpl g l (Node n (c :: cs))) ->
  exists combo, Forall2 (fun d x => In x (scen_of pat gpl g l d)) (c :: cs) combo /\
                In sc (combine_node (map tname (c :: cs)) combo).
Proof.
  rewrite scen_of_node. intros H. apply prune_in in H. unfold new_nodes in H.
  apply in_flat_map in H. destruct H as [combo [Hc Hs]]. exists combo. split; [|exact Hs].
  apply product_in in Hc. apply Forall2_map_l in Hc. exact Hc.
Qed.

(* ---------- lookups in combined stories ---------- *)

Lemma lookup_concat_other (sts : list story) m :
  (forall st, In st sts -> ~ In m (keys st)) -> lookup m (concat sts) = None.
Proof.
  intros H. apply lookup_none. intros I. unfold keys in I. rewrite concat_map in I.
  apply in_concat in I. destruct I as [ks [Hks Hm]]. apply in_map_iff in Hks.
  destruct Hks as [st [E Hst]]. subst. exact (H st Hst Hm).
Qed.

(* the events of one child's story are found unchanged in the concatenation *)
Lemma lookup_concat_child (cs : list tree) (combo : list scen) :
  Forall2 (fun c sc => forall p, In p (snd sc) -> In (fst p) (sdesc c)) cs combo ->
  NoDup (flat_map names cs) ->
  forall c sc m, In (c, sc) (combine cs combo) -> In m (names c) ->
    lookup m (concat (map snd combo)) = lookup m (snd sc).
Proof.
  induction 1 as [|c0 sc0 cs combo H0 HF IH]; intros Hd c sc m Hin Hm; [destruct Hin|].
  cbn [combine In] in Hin. cbn [map concat]. rewrite lookup_app. cbn [flat_map] in Hd.
  destruct Hin as [E|Hin].
  - inversion E; subst. destruct (lookup m (snd sc)) as [e|]; [reflexivity|].
    apply lookup_concat_other. intros st Hst I. apply in_map_iff in Hst. destruct Hst as [sc' [E' Hsc']]. subst.
    destruct (In_nth_pair cs combo sc' (Forall2_length' _ _ _ HF) Hsc') as [c' Hc'].
    assert (Hk := Forall2_combine_in _ _ _ _ _ HF Hc').
    unfold keys in I. apply in_map_iff in I. destruct I as [p [Ep Hp]]. subst.
    apply (NoDup_app_disj _ _ (fst p) Hd Hm).
    apply (in_flat_map_names c'); [exact (in_combine_l _ _ _ _ Hc')|]. apply sdesc_in_names. exact (Hk p Hp).
  - destruct (lookup m (snd sc0)) as [e|] eqn:E0.
    + exfalso. apply lookup_in_keys in E0. unfold keys in E0. apply in_map_iff in E0.
      destruct E0 as [p [Ep Hp]]. subst.
      apply (NoDup_app_disj _ _ (fst p) Hd).
      * apply sdesc_in_names. exact (H0 p Hp).
      * exact (in_flat_map_names c _ _ (in_combine_l _ _ _ _ Hin) Hm).
    + apply (IH (NoDup_app_r _ _ Hd) c sc m Hin Hm).
Qed.

Lemma mark_in e ns ss p : In p (mark e ns ss) -> In (fst p) ns /\ snd p = e.
Proof.
  revert ss. induction ns as [|n ns IH]; intros [|s ss]; cbn [mark]; try (intros []).
  destruct (s =? e).
  - intros [E|H]; [subst; cbn; auto|]. destruct (IH ss H) as [H1 H2]. split; [right; exact H1|exact H2].
  - intros H. destruct (IH ss H) as [H1 H2]. split; [right; exact H1|exact H2].
Qed.

Lemma lookup_mark e (cs : list tree) : forall (combo : list scen) c sc,
  NoDup (map tname cs) -> In (c, sc) (combine cs combo) ->
  lookup (tname c) (mark e (map tname cs) (map fst combo)) = if fst sc =? e then Some e else None.
Proof.
  induction cs as [|c0 cs IH]; intros [|sc0 combo] c sc Hd Hin; try destruct Hin.
  - inversion H; subst. cbn [map mark]. destruct (fst sc =? e).
    + cbn [lookup]. rewrite Z.eqb_refl. reflexivity.
    + apply lookup_none. intros I. unfold keys in I. apply in_map_iff in I. destruct I as [p [Ep Hp]].
      apply mark_in in Hp. cbn [map] in Hd. inversion Hd as [|x l Hn Hd']; subst. apply Hn. rewrite <- Ep. exact (proj1 Hp).
  - cbn [map] in Hd. inversion Hd as [|x l Hn Hd']; subst.
    assert (Hne : tname c0 <> tname c).
    { intros E. apply Hn. rewrite E. apply in_map. exact (in_combine_l _ _ _ _ H). }
    cbn [map mark]. destruct (fst sc0 =? e).
    + cbn [lookup]. destruct (Z.eqb_spec (tname c0) (tname c)) as [E|_]; [contradiction|]. exact (IH combo c sc Hd' H).
    + exact (IH combo c sc Hd' H).
Qed.

(* ---------- the invariant of the bottom-up pass ---------- *)

Section Invariant.
  Variable pat : list (Z * Z).          (* the recoded pattern: -1 = free leaf *)

  Definition okb : Z * bool -> bool := leaf_okb (-1) pat.
  Definition all_ok (st : story) (b : bool) (t : tree) : Prop :=
    forallb okb (replay_below b st t) = true.
  Definition state_allows (s : Z) (b : bool) : Prop := (s = 1 -> b = true) /\ (s = 0 -> b = false).

  (* a scenario (state, story) kept at node t: its events are gains/losses at
     strict descendants of t, and replaying it below t, with t in the scenario's
     state (either state if the scenario says "all missing"), gives every known leaf its state *)
  Definition SInv (t : tree) (sc : scen) : Prop :=
    (forall p, In p (snd sc) -> In (fst p) (sdesc t) /\ (snd p = 1 \/ snd p = 0)) /\
    (fst sc = 1 \/ fst sc = 0 \/ fst sc = -1) /\
    (forall b, state_allows (fst sc) b -> all_ok (snd sc) b t).

  Definition tips_known (t : tree) : Prop :=
    forall n, In n (tips t) -> exists s, lookup n pat = Some s /\ (s = 1 \/ s = 0 \/ s = -1).

  Lemma tips_child n cs c m : In c cs -> In m (tips c) -> In m (tips (Node n cs)).
  Proof.
    intros Hc Hm. destruct cs as [|c0 cs0]; [destruct Hc|].
    change (In m (flat_map tips (c0 :: cs0))). apply in_flat_map. exists c. auto.
  Qed.

  Lemma forest_replay cs combo : Forall2 SInv cs combo -> forall ev b,
    (forall c sc, In (c, sc) (combine cs combo) ->
       (forall m, In m (sdesc c) -> lookup m ev = lookup m (snd sc)) /\
       state_allows (fst sc) (node_state b (tname c) ev)) ->
    forallb okb (flat_map (fun c => replay_below (node_state b (tname c) ev) ev c) cs) = true.
  Proof.
    induction 1 as [|c0 sc0 cs combo H0 HF IH]; intros ev b H; [reflexivity|].
    cbn [flat_map]. rewrite forallb_app. apply andb_true_iff. split.
    - destruct (H c0 sc0 (or_introl eq_refl)) as [Hl Hs].
      rewrite (replay_below_ext c0 _ ev (snd sc0) Hl).
      destruct H0 as [_ [_ H0]]. exact (H0 _ Hs).
    - apply IH. intros c sc Hin. apply H. right. exact Hin.
  Qed.

  (* the story built for a node from one scenario per child, plus events on children *)
  Lemma combo_story_ok n cs combo extras b :
    Forall2 SInv cs combo -> NoDup (flat_map names cs) -> cs <> [] ->
    (forall p, In p extras -> In (fst p) (map tname cs)) ->
    (forall c sc, In (c, sc) (combine cs combo) -> state_allows (fst sc) (node_state b (tname c) extras)) ->
    all_ok (concat (map snd combo) ++ extras) b (Node n cs).
  Proof.
    intros HF Hd Hne Hk Hs. unfold all_ok.
    destruct cs as [|c0 cs0]; [contradiction|]. rewrite replay_below_node.
    remember (c0 :: cs0) as cs eqn:Ecs. clear Ecs Hne.
    assert (HK : Forall2 (fun c (sc : scen) => forall p, In p (snd sc) -> In (fst p) (sdesc c)) cs combo).
    { apply (Forall2_impl SInv); [|exact HF]. intros a sc _ [Ha _] p Hp. exact (proj1 (Ha p Hp)). }
    apply (forest_replay cs combo HF). intros c sc Hin. split.
    - intros m Hm. rewrite lookup_app.
      rewrite (lookup_concat_child cs combo HK Hd c sc m Hin (sdesc_in_names _ _ Hm)).
      destruct (lookup m (snd sc)) as [e|]; [reflexivity|].
      apply lookup_none. intros I. unfold keys in I. apply in_map_iff in I. destruct I as [p [Ep Hp]].
      apply Hk in Hp. rewrite Ep in Hp. apply in_map_iff in Hp. destruct Hp as [c' [E' Hc']].
      apply (child_name_not_in_sdesc cs c' c Hd Hc' (in_combine_l _ _ _ _ Hin)). rewrite E'. exact Hm.
    - assert (E : node_state b (tname c) (concat (map snd combo) ++ extras) = node_state b (tname c) extras).
      { apply node_state_ext. rewrite lookup_app. rewrite lookup_concat_other; [reflexivity|].
        intros st Hst I. apply in_map_iff in Hst. destruct Hst as [sc' [E' Hsc']]. subst.
        destruct (In_nth_pair cs combo sc' (Forall2_length' _ _ _ HF) Hsc') as [c' Hc'].
        assert (Hk' := Forall2_combine_in _ _ _ _ _ HK Hc').
        unfold keys in I. apply in_map_iff in I. destruct I as [p [Ep Hp]].
        apply (child_name_not_in_sdesc cs c c' Hd (in_combine_l _ _ _ _ Hin) (in_combine_l _ _ _ _ Hc')).
        rewrite <- Ep. exact (Hk' p Hp). }
      rewrite E. exact (Hs c sc Hin).
  Qed.

  Lemma combo_events n cs combo p :
    Forall2 SInv cs combo -> In p (concat (map snd combo)) ->
    In (fst p) (sdesc (Node n cs)) /\ (snd p = 1 \/ snd p = 0).
  Proof.
    intros HF Hp. apply in_concat in Hp. destruct Hp as [st [Hst Hp]].
    apply in_map_iff in Hst. destruct Hst as [sc [E Hsc]]. subst.
    destruct (In_nth_pair cs combo sc (Forall2_length' _ _ _ HF) Hsc) as [c Hc].
    destruct (Forall2_combine_in _ _ _ _ _ HF Hc) as [Ha _]. destruct (Ha p Hp) as [H1 H2].
    split; [|exact H2]. apply (child_names_in_sdesc n cs c _ (in_combine_l _ _ _ _ Hc)). apply sdesc_in_names. exact H1.
  Qed.

  Lemma mark_events n cs (combo : list scen) e p : (e = 1 \/ e = 0) ->
    In p (mark e (map tname cs) (map fst combo)) -> In (fst p) (sdesc (Node n cs)) /\ (snd p = 1 \/ snd p = 0).
  Proof.
    intros He Hp. apply mark_in in Hp. destruct Hp as [H1 H2]. split.
    - apply in_map_iff in H1. destruct H1 as [c [E Hc]]. rewrite <- E.
      apply (child_names_in_sdesc n cs c _ Hc). apply tname_in_names.
    - rewrite H2. exact He.
  Qed.

  Lemma state_in_states (cs : list tree) (combo : list scen) c sc :
    In (c, sc) (combine cs combo) -> In (fst sc) (map fst combo).
  Proof. intros H. apply in_map. exact (in_combine_r _ _ _ _ H). Qed.

  (* every scenario produced for a node from valid child scenarios is valid *)
  Lemma combine_node_inv n cs combo sc :
    Forall2 SInv cs combo -> NoDup (names (Node n cs)) -> cs <> [] ->
    In sc (combine_node (map tname cs) combo) -> SInv (Node n cs) sc.
  Proof.
    intros HF Hdn Hne Hin.
    assert (Hd : NoDup (flat_map names cs)). { cbn [names] in Hdn. inversion Hdn; assumption. }
    assert (Hvalid : forall c sc', In (c, sc') (combine cs combo) -> fst sc' = 1 \/ fst sc' = 0 \/ fst sc' = -1).
    { intros c sc' H. exact (proj1 (proj2 (Forall2_combine_in _ _ _ _ _ HF H))). }
    unfold combine_node in Hin.
    destruct (forallb isM (map fst combo)) eqn:EM.
    { (* all missing *)
      destruct Hin as [E|[]]. subst sc. rewrite forallb_forall in EM. split; [|split].
      - cbn [snd]. intros p Hp. exact (combo_events n cs combo p HF Hp).
      - cbn. auto.
      - cbn [fst snd]. intros b _. rewrite <- (app_nil_r (concat (map snd combo))).
        apply combo_story_ok; try assumption; [intros p []|].
        intros c sc' H. specialize (EM _ (state_in_states _ _ _ _ H)). unfold isM in EM. apply Z.eqb_eq in EM.
        split; intros; lia. }
    destruct (forallb (fun s => is1 s || isM s) (map fst combo)) eqn:E1.
    { destruct Hin as [E|[]]. subst sc. rewrite forallb_forall in E1. split; [|split].
      - cbn [snd]. intros p Hp. exact (combo_events n cs combo p HF Hp).
      - cbn. auto.
      - cbn [fst snd]. intros b [Hb _]. rewrite (Hb eq_refl). rewrite <- (app_nil_r (concat (map snd combo))).
        apply combo_story_ok; try assumption; [intros p []|].
        intros c sc' H. specialize (E1 _ (state_in_states _ _ _ _ H)). unfold is1, isM in E1.
        apply orb_true_iff in E1. cbn. split; [reflexivity|]. intros E0. destruct E1 as [E1|E1]; apply Z.eqb_eq in E1; lia. }
    destruct (forallb (fun s => is0 s || isM s) (map fst combo)) eqn:E0.
    { destruct Hin as [E|[]]. subst sc. rewrite forallb_forall in E0. split; [|split].
      - cbn [snd]. intros p Hp. exact (combo_events n cs combo p HF Hp).
      - cbn. auto.
      - cbn [fst snd]. intros b [_ Hb]. rewrite (Hb eq_refl). rewrite <- (app_nil_r (concat (map snd combo))).
        apply combo_story_ok; try assumption; [intros p []|].
        intros c sc' H. specialize (E0 _ (state_in_states _ _ _ _ H)). unfold is0, isM in E0.
        apply orb_true_iff in E0. cbn. split; [|reflexivity]. intros E1'. destruct E0 as [E0|E0]; apply Z.eqb_eq in E0; lia. }
    (* mixed *)
    assert (Hdn' := NoDup_child_names cs Hd).
    destruct Hin as [E|[E|[]]]; subst sc; (split; [|split]).
    - cbn [snd]. intros p Hp. apply in_app_or in Hp. destruct Hp as [Hp|Hp];
        [exact (combo_events n cs combo p HF Hp)|exact (mark_events n cs combo 0 p (or_intror eq_refl) Hp)].
    - cbn. auto.
    - cbn [fst snd]. intros b [Hb _]. rewrite (Hb eq_refl).
      apply combo_story_ok; try assumption.
      + intros p Hp. exact (proj1 (mark_in _ _ _ _ Hp)).
      + intros c sc' H. unfold node_state. rewrite (lookup_mark 0 cs combo c sc' Hdn' H).
        destruct (Z.eqb_spec (fst sc') 0) as [Es|Ns]; cbn; split; intros; try reflexivity; lia.
    - cbn [snd]. intros p Hp. apply in_app_or in Hp. destruct Hp as [Hp|Hp];
        [exact (combo_events n cs combo p HF Hp)|exact (mark_events n cs combo 1 p (or_introl eq_refl) Hp)].
    - cbn. auto.
    - cbn [fst snd]. intros b [_ Hb]. rewrite (Hb eq_refl).
      apply combo_story_ok; try assumption.
      + intros p Hp. exact (proj1 (mark_in _ _ _ _ Hp)).
      + intros c sc' H. unfold node_state. rewrite (lookup_mark 1 cs combo c sc' Hdn' H).
        destruct (Z.eqb_spec (fst sc') 1) as [Es|Ns]; cbn; split; intros; try reflexivity; lia.
  Qed.

  Variables gpl g l : Z.

  (* every scenario kept at any node replays correctly inside that node's subtree *)
  Theorem scen_inv t : NoDup (names t) -> tips_known t ->
    forall sc, In sc (scen_of pat gpl g l t) -> SInv t sc.
  Proof.
    induction t as [n cs IH] using tree_ind'. intros Hd Hk sc Hin.
    destruct cs as [|c0 cs0].
    - cbn in Hin. destruct Hin as [E|[]]. subst sc.
      destruct (Hk n (or_introl eq_refl)) as [s [El Hs]].
      unfold state_of. rewrite El. split; [|split].
      + intros p [].
      + exact Hs.
      + cbn [fst snd]. intros b [H1 H0]. unfold all_ok. cbn. unfold okb, leaf_okb. cbn [fst snd]. rewrite El.
        destruct (Z.eqb_spec s 1) as [E1|N1]; [rewrite (H1 E1); reflexivity|].
        destruct (Z.eqb_spec s 0) as [E0|N0]; [rewrite (H0 E0); reflexivity|].
        destruct (Z.eqb_spec s (-1)) as [EM|NM]; [reflexivity|lia].
    - apply scen_of_node_in in Hin. destruct Hin as [combo [HF Hc]].
      apply (combine_node_inv n (c0 :: cs0) combo sc); [|exact Hd|discriminate|exact Hc].
      rewrite Forall_forall in IH.
      apply (Forall2_impl (fun d x => In x (scen_of pat gpl g l d))); [|exact HF].
      intros c sc' Hcin Hsc'. apply (IH c Hcin); [exact (NoDup_child n _ c Hd Hcin)| |exact Hsc'].
      intros m Hm. apply Hk. exact (tips_child n _ c m Hcin Hm).
  Qed.
End Invariant.
