(* C07 for get_gls, top level: from the per-node invariant to the returned
   scenario on the whole tree (common ancestor, root gain, selection). *)
From Coq Require Import ZArith List Bool Lia.
From LV Require Import GainLoss.RoseTree GainLoss.TreeLemmas GainLoss.Replay GainLoss.ReplayProofs
  GainLoss.GetGls GainLoss.GetGlsProofs.
Import ListNotations.
Local Open Scope Z_scope.

(* ---------- the common ancestor ---------- *)

Definition lca_step (isP : Z -> bool) (c : tree) : list tree :=
  if has_present isP c then [lca_sub isP c] else [].

Lemma lca_sub_node isP n cs :
  lca_sub isP (Node n cs) =
  match flat_map (lca_step isP) cs with [r] => r | _ => Node n cs end.
Proof. reflexivity. Qed.

Lemma lca_step_nil isP cs : flat_map (lca_step isP) cs = [] -> Forall (fun d => has_present isP d = false) cs.
Proof.
  induction cs as [|d cs IH]; intros H; [constructor|].
  cbn [flat_map] in H. unfold lca_step at 1 in H. destruct (has_present isP d) eqn:E; [discriminate|].
  constructor; [exact E|exact (IH H)].
Qed.

Lemma lca_step_single isP cs r : flat_map (lca_step isP) cs = [r] ->
  exists pre c post, cs = pre ++ c :: post /\
    Forall (fun d => has_present isP d = false) pre /\ Forall (fun d => has_present isP d = false) post /\
    has_present isP c = true /\ r = lca_sub isP c.
Proof.
  induction cs as [|d cs IH]; intros H; [discriminate|].
  cbn [flat_map] in H. unfold lca_step at 1 in H. destruct (has_present isP d) eqn:E.
  - cbn [app] in H. inversion H as [[Hr Hnil]]. exists [], d, cs. cbn [app].
    repeat split; [constructor|exact (lca_step_nil isP cs Hnil)|exact E].
  - cbn [app] in H. destruct (IH H) as [pre [c [post [E1 [E2 [E3 [E4 E5]]]]]]].
    exists (d :: pre), c, post. subst cs. repeat split; try assumption. constructor; assumption.
Qed.

Lemma has_present_node isP n c cs : has_present isP (Node n (c :: cs)) = existsb (has_present isP) (c :: cs).
Proof. reflexivity. Qed.

Lemma no_present_tips isP t : has_present isP t = false -> forall m, In m (tips t) -> isP m = false.
Proof.
  induction t as [n cs IH] using tree_ind'. intros H m Hm.
  destruct cs as [|c0 cs0].
  - cbn in H, Hm. destruct Hm as [E|[]]. subst. exact H.
  - rewrite has_present_node in H. change (In m (flat_map tips (c0 :: cs0))) in Hm.
    apply in_flat_map in Hm. destruct Hm as [c [Hc Hm]]. rewrite Forall_forall in IH. apply (IH c Hc); [|exact Hm].
    destruct (has_present isP c) eqn:E; [|reflexivity].
    assert (X : existsb (has_present isP) (c0 :: cs0) = true) by (apply existsb_exists; exists c; auto). congruence.
Qed.

Lemma lca_names_subset isP t : forall m, In m (names (lca_sub isP t)) -> In m (names t).
Proof.
  induction t as [n cs IH] using tree_ind'. intros m Hm. rewrite lca_sub_node in Hm.
  destruct (flat_map (lca_step isP) cs) as [|r [|r2 rest]] eqn:E; try exact Hm.
  destruct (lca_step_single isP cs r E) as [pre [c [post [E1 [_ [_ [_ E5]]]]]]]. subst r cs.
  rewrite Forall_forall in IH. cbn [names]. right. apply (in_flat_map_names c).
  - apply in_or_app. right. left. reflexivity.
  - apply IH; [apply in_or_app; right; left; reflexivity|exact Hm].
Qed.

(* has_present is inherited by the common ancestor *)
Lemma lca_has_present isP t : has_present isP t = true -> has_present isP (lca_sub isP t) = true.
Proof.
  induction t as [n cs IH] using tree_ind'. intros H. rewrite lca_sub_node.
  destruct (flat_map (lca_step isP) cs) as [|r [|r2 rest]] eqn:E; try exact H.
  destruct (lca_step_single isP cs r E) as [pre [c [post [E1 [_ [_ [E4 E5]]]]]]]. subst r cs.
  rewrite Forall_forall in IH. apply IH; [apply in_or_app; right; left; reflexivity|exact E4].
Qed.

Section Top.
  Variable pat : list (Z * Z).      (* recoded pattern *)
  Let isP := is_present pat.

  Lemma absent_subtree_ok ev d :
    tips_known pat d -> has_present isP d = false ->
    (forall m, In m (names d) -> lookup m ev = None) ->
    forallb (okb pat) (replay false ev d) = true.
  Proof.
    intros Hk Hp Hn. apply forallb_forall. intros p Hin. unfold replay in Hin.
    assert (E : node_state false (tname d) ev = false).
    { unfold node_state. rewrite (Hn _ (tname_in_names d)). reflexivity. }
    rewrite E in Hin.
    destruct (replay_below_no_events d false ev) with (p := p) as [Hs Ht].
    - intros m Hm. apply Hn. apply sdesc_in_names. exact Hm.
    - exact Hin.
    - destruct (Hk _ Ht) as [s [El Hv]]. unfold okb, leaf_okb. rewrite El. rewrite Hs.
      assert (N1 : s <> 1).
      { intros E1. assert (X := no_present_tips isP d Hp _ Ht). unfold isP, is_present in X. rewrite El in X.
        subst s. discriminate. }
      destruct (Z.eqb_spec s 1); [contradiction|].
      destruct (Z.eqb_spec s 0); [reflexivity|].
      destruct (Z.eqb_spec s (-1)); [reflexivity|lia].
  Qed.

  Lemma forallb_flat_map {A B} (f : B -> bool) (h : A -> list B) l :
    forallb f (flat_map h l) = forallb (fun a => forallb f (h a)) l.
  Proof. induction l as [|a l IH]; cbn [flat_map forallb]; [reflexivity|]. rewrite forallb_app, IH. reflexivity. Qed.

  (* outside the subtree of the common ancestor nothing happens and nothing is present *)
  Lemma whole_tree_ok t : forall ev,
    NoDup (names t) -> tips_known pat t ->
    (forall p, In p ev -> In (fst p) (names (lca_sub isP t))) ->
    forallb (okb pat) (replay false ev (lca_sub isP t)) = true ->
    forallb (okb pat) (replay false ev t) = true.
  Proof.
    induction t as [n cs IH] using tree_ind'. intros ev Hd Hk Hev Hok.
    rewrite lca_sub_node in Hev, Hok.
    destruct (flat_map (lca_step isP) cs) as [|r [|r2 rest]] eqn:E; try exact Hok.
    destruct (lca_step_single isP cs r E) as [pre [c [post [E1 [E2 [E3 [E4 E5]]]]]]]. subst r.
    assert (Hc : In c cs) by (subst cs; apply in_or_app; right; left; reflexivity).
    assert (Hdf : NoDup (flat_map names cs)) by (cbn [names] in Hd; inversion Hd; assumption).
    assert (Hkeys : forall m, In m (keys ev) -> In m (names c)).
    { intros m Hm. unfold keys in Hm. apply in_map_iff in Hm. destruct Hm as [p [Ep Hp]]. subst m.
      apply (lca_names_subset isP c). exact (Hev p Hp). }
    assert (En : node_state false n ev = false).
    { unfold node_state. rewrite lookup_none; [reflexivity|]. intros I. apply Hkeys in I.
      apply (tname_not_sdesc (Node n cs) Hd). cbn [tname]. exact (child_names_in_sdesc n cs c n Hc I). }
    unfold replay. cbn [tname]. rewrite En.
    destruct cs as [|c0 cs0]; [destruct Hc|]. rewrite replay_below_node.
    remember (c0 :: cs0) as cs eqn:Ecs. clear Ecs.
    rewrite forallb_flat_map. apply forallb_forall. intros d Hdin.
    change (forallb (okb pat) (replay false ev d) = true).
    assert (Hkd : tips_known pat d). { intros m Hm. apply Hk. exact (tips_child n cs d m Hdin Hm). }
    destruct (has_present isP d) eqn:Ed.
    - (* d must be c *)
      assert (d = c).
      { subst cs. apply in_app_or in Hdin. destruct Hdin as [Hin|[Hin|Hin]]; [|auto|].
        - rewrite Forall_forall in E2. rewrite (E2 d Hin) in Ed. discriminate.
        - rewrite Forall_forall in E3. rewrite (E3 d Hin) in Ed. discriminate. }
      subst d. rewrite Forall_forall in IH. apply (IH c Hc); try assumption.
      exact (NoDup_child n cs c Hd Hc).
    - apply absent_subtree_ok; try assumption.
      intros m Hm. apply lookup_none. intros I. apply Hkeys in I.
      assert (X : d = c) by exact (forest_names_disjoint cs d c m Hdf Hdin Hc Hm I).
      subst d. congruence.
  Qed.
End Top.

(* ---------- selection ---------- *)

Lemma first_min_in key best l : first_min key best l = best \/ In (first_min key best l) l.
Proof.
  revert best. induction l as [|x r IH]; intros best; cbn [first_min]; [left; reflexivity|].
  destruct (key x <? key best).
  - destruct (IH x) as [E|H]; [right; left; auto|right; right; exact H].
  - destruct (IH best) as [E|H]; [left; exact E|right; right; exact H].
Qed.

Lemma select_in g l push fin ev : select g l push fin = Some ev -> In ev fin.
Proof.
  unfold select. destruct fin as [|x r]; [discriminate|].
  destruct (filter _ (x :: r)) as [|y r'] eqn:E; [discriminate|].
  intros H. inversion H; subst. clear H.
  assert (Hsub : forall z, In z (y :: r') -> In z (x :: r)).
  { intros z Hz. rewrite <- E in Hz. apply filter_In in Hz. exact (proj1 Hz). }
  apply Hsub. destruct (first_min_in (count_ev (if push then 1 else 0)) y r') as [H|H]; [left; auto|right; exact H].
Qed.

(* ---------- recoding of missing data ---------- *)

Lemma lookup_recode md pat n :
  lookup n (recode md pat) = option_map (fun s => if s =? -1 then md else s) (lookup n pat).
Proof.
  induction pat as [|[k v] pat IH]; [reflexivity|].
  cbn [recode map lookup fst snd]. destruct (k =? n); [reflexivity|exact IH].
Qed.

Lemma leaf_okb_recode md pat p : md = 0 \/ md = -1 ->
  leaf_okb md pat p = leaf_okb (-1) (recode md pat) p.
Proof.
  intros Hmd. unfold leaf_okb. rewrite lookup_recode. destruct (lookup (fst p) pat) as [s|]; [|reflexivity].
  cbn [option_map]. destruct (Z.eqb_spec s (-1)) as [EM|NM].
  - subst s. cbn. destruct Hmd; subst md; reflexivity.
  - destruct (Z.eqb_spec s 1); [reflexivity|]. destruct (Z.eqb_spec s 0); [reflexivity|].
    destruct (Z.eqb_spec s (-1)); [contradiction|reflexivity].
Qed.

Definition pattern_known (pat : list (Z * Z)) (t : tree) : Prop :=
  forall n, In n (tips t) -> exists s, lookup n pat = Some s /\ (s = 1 \/ s = 0 \/ s = -1).

Lemma tips_known_recode md pat t : md = 0 \/ md = -1 -> pattern_known pat t -> tips_known (recode md pat) t.
Proof.
  intros Hmd H n Hn. destruct (H n Hn) as [s [El Hs]]. rewrite lookup_recode, El. cbn [option_map].
  eexists. split; [reflexivity|]. destruct (Z.eqb_spec s (-1)); lia.
Qed.

Lemma tips_subset_lca isP t m : In m (tips (lca_sub isP t)) -> In m (tips t).
Proof.
  revert m. induction t as [n cs IH] using tree_ind'. intros m Hm. rewrite lca_sub_node in Hm.
  destruct (flat_map (lca_step isP) cs) as [|r [|r2 rest]] eqn:E; try exact Hm.
  destruct (lca_step_single isP cs r E) as [pre [c [post [E1 [_ [_ [_ E5]]]]]]]. subst r.
  assert (Hc : In c cs) by (subst cs; apply in_or_app; right; left; reflexivity).
  rewrite Forall_forall in IH. exact (tips_child n cs c m Hc (IH c Hc m Hm)).
Qed.

Lemma NoDup_lca isP t : NoDup (names t) -> NoDup (names (lca_sub isP t)).
Proof.
  induction t as [n cs IH] using tree_ind'. intros Hd. rewrite lca_sub_node.
  destruct (flat_map (lca_step isP) cs) as [|r [|r2 rest]] eqn:E; try exact Hd.
  destruct (lca_step_single isP cs r E) as [pre [c [post [E1 [_ [_ [_ E5]]]]]]]. subst r.
  assert (Hc : In c cs) by (subst cs; apply in_or_app; right; left; reflexivity).
  rewrite Forall_forall in IH. exact (IH c Hc (NoDup_child n cs c Hd Hc)).
Qed.

(* ---------- the theorem ---------- *)

(* the result of get_gls, when it is a scenario, is built from a kept root scenario *)
Lemma get_gls_ok_cases pat t gpl g l push md ev :
  get_gls pat t gpl g l push md = Ok ev ->
  has_present (is_present (recode md pat)) t = true /\
  (forall n, In n (tips (lca_sub (is_present (recode md pat)) t)) -> lookup n (recode md pat) <> None) /\
  ((forallb (fun n => state_of (recode md pat) n =? 1) (tips (lca_sub (is_present (recode md pat)) t)) = true /\
    ev = [(tname (lca_sub (is_present (recode md pat)) t), 1)]) \/
   (forallb (fun n => state_of (recode md pat) n =? 1) (tips (lca_sub (is_present (recode md pat)) t)) = false /\
    exists sc, In sc (scen_of (recode md pat) gpl g l (lca_sub (is_present (recode md pat)) t)) /\
               ev = finish (tname (lca_sub (is_present (recode md pat)) t)) sc)).
Proof.
  unfold get_gls. intros H.
  set (pat' := recode md pat) in *. set (sub := lca_sub (is_present pat') t) in *.
  destruct (has_present (is_present pat') t) eqn:E1; [|discriminate]. cbn [negb] in H.
  destruct (forallb (fun n => match lookup n pat' with Some _ => true | None => false end) (tips sub)) eqn:E2;
    [|discriminate]. cbn [negb] in H.
  split; [reflexivity|]. split.
  { intros n Hn. rewrite forallb_forall in E2. specialize (E2 n Hn). destruct (lookup n pat'); [discriminate|discriminate E2]. }
  destruct (forallb (fun n => state_of pat' n =? 1) (tips sub)) eqn:E3.
  - left. inversion H. auto.
  - right. split; [reflexivity|].
    destruct (select g l push (map (finish (tname sub)) (scen_of pat' gpl g l sub))) as [ev'|] eqn:E4; [|discriminate].
    inversion H; subst ev'. apply select_in in E4. apply in_map_iff in E4. destruct E4 as [sc [E Hsc]].
    exists sc. auto.
Qed.

Theorem get_gls_replays pat t gpl g l push md ev :
  NoDup (names t) -> pattern_known pat t -> (md = 0 \/ md = -1) ->
  get_gls pat t gpl g l push md = Ok ev ->
  reproduces md pat t ev.
Proof.
  intros Hd Hpk Hmd H. apply get_gls_ok_cases in H.
  set (pat' := recode md pat) in *. set (isP := is_present pat') in *. set (sub := lca_sub isP t) in *.
  destruct H as [Hhp [Hlk Hcases]].
  assert (Hk' : tips_known pat' t) by exact (tips_known_recode md pat t Hmd Hpk).
  assert (Hksub : tips_known pat' sub). { intros m Hm. apply Hk'. exact (tips_subset_lca isP t m Hm). }
  assert (Hdsub : NoDup (names sub)) by exact (NoDup_lca isP t Hd).
  assert (Hgoal : (forall p, In p ev -> In (fst p) (names sub) /\ (snd p = 1 \/ snd p = 0)) /\
                  forallb (okb pat') (replay false ev sub) = true).
  { destruct Hcases as [[Hall Hev]|[_ [sc [Hsc Hev]]]].
    - (* single origin *)
      subst ev. split.
      + intros p [E|[]]. subst p. cbn [fst snd]. split; [apply tname_in_names|auto].
      + unfold replay. assert (En : node_state false (tname sub) [(tname sub, 1)] = true).
        { unfold node_state. cbn [lookup]. rewrite Z.eqb_refl. reflexivity. }
        rewrite En. apply forallb_forall. intros p Hp.
        destruct (replay_below_no_events sub true [(tname sub, 1)]) with (p := p) as [Hs Ht].
        * intros m Hm. cbn [lookup]. destruct (Z.eqb_spec (tname sub) m) as [E|_]; [|reflexivity].
          exfalso. apply (tname_not_sdesc sub Hdsub). rewrite E. exact Hm.
        * exact Hp.
        * rewrite forallb_forall in Hall. specialize (Hall _ Ht). apply Z.eqb_eq in Hall.
          destruct (Hksub _ Ht) as [s [El _]]. unfold state_of in Hall. rewrite El in Hall. subst s.
          unfold okb, leaf_okb. rewrite El, Hs. reflexivity.
    - assert (HI := scen_inv pat' gpl g l sub Hdsub Hksub sc Hsc). destruct HI as [Hevs [Hst Hrep]].
      unfold finish in Hev. destruct (Z.eqb_spec (fst sc) 1) as [E1|N1]; unfold is1 in Hev.
      + rewrite E1 in Hev. cbn in Hev. subst ev. split.
        * intros p Hp. apply in_app_or in Hp. destruct Hp as [Hp|[E|[]]].
          -- destruct (Hevs p Hp) as [Ha Hb]. split; [apply sdesc_in_names; exact Ha|exact Hb].
          -- subst p. cbn. split; [apply tname_in_names|auto].
        * assert (Hnone : lookup (tname sub) (snd sc) = None).
          { apply lookup_none. intros I. unfold keys in I. apply in_map_iff in I. destruct I as [p [Ep Hp]].
            apply (tname_not_sdesc sub Hdsub). rewrite <- Ep. exact (proj1 (Hevs p Hp)). }
          unfold replay. assert (En : node_state false (tname sub) (snd sc ++ [(tname sub, 1)]) = true).
          { unfold node_state. rewrite lookup_app, Hnone. cbn [lookup]. rewrite Z.eqb_refl. reflexivity. }
          rewrite En. rewrite (replay_below_ext sub true _ (snd sc)).
          -- apply Hrep. split; [reflexivity|lia].
          -- intros m Hm. rewrite lookup_app. destruct (lookup m (snd sc)); [reflexivity|]. cbn [lookup].
             destruct (Z.eqb_spec (tname sub) m) as [E|_]; [|reflexivity].
             exfalso. apply (tname_not_sdesc sub Hdsub). rewrite E. exact Hm.
      + assert (Hf : (fst sc =? 1) = false) by (apply Z.eqb_neq; exact N1). rewrite Hf in Hev. subst ev. split.
        * intros p Hp. destruct (Hevs p Hp) as [Ha Hb]. split; [apply sdesc_in_names; exact Ha|exact Hb].
        * assert (Hnone : lookup (tname sub) (snd sc) = None).
          { apply lookup_none. intros I. unfold keys in I. apply in_map_iff in I. destruct I as [p [Ep Hp]].
            apply (tname_not_sdesc sub Hdsub). rewrite <- Ep. exact (proj1 (Hevs p Hp)). }
          unfold replay. unfold node_state at 1. rewrite Hnone. apply Hrep. split; [intros; contradiction|reflexivity]. }
  destruct Hgoal as [Hnames Hok]. split.
  - intros p Hp. apply leaf_okb_spec. rewrite (leaf_okb_recode md pat p Hmd).
    assert (Hall := whole_tree_ok pat' t ev Hd Hk' (fun q Hq => proj1 (Hnames q Hq)) Hok).
    rewrite forallb_forall in Hall. exact (Hall p Hp).
  - intros n e Hin. destruct (Hnames (n, e) Hin) as [Ha Hb]. split; [|exact Hb].
    exact (lca_names_subset isP t n Ha).
Qed.
