(* Replaying a gain-loss scenario on a rose tree, and the boolean checker that
   is run on implementation outputs (C07). *)
From Coq Require Import ZArith List Bool.
From LV Require Import GainLoss.RoseTree.
Import ListNotations.
Local Open Scope Z_scope.

(* --- replay of a scenario: absent until a gain, present below a gain until a loss --- *)

Definition node_state (parent : bool) (n : Z) (ev : list (Z * Z)) : bool :=
  match lookup n ev with
  | Some e => if e =? 1 then true else if e =? 0 then false else parent
  | None => parent
  end.

(* states of the leaves below [t] when [t] itself has state [s] *)
Fixpoint replay_below (s : bool) (ev : list (Z * Z)) (t : tree) : list (Z * bool) :=
  match t with
  | Node n [] => [(n, s)]
  | Node n cs => flat_map (fun c => replay_below (node_state s (tname c) ev) ev c) cs
  end.

(* states of the leaves of [t] when the parent of [t] has state [b] *)
Definition replay (b : bool) (ev : list (Z * Z)) (t : tree) : list (Z * bool) :=
  replay_below (node_state b (tname t) ev) ev t.

(* a replayed leaf state agrees with the observed one; [md] = how missing leaves are treated *)
Definition leaf_okb (md : Z) (pat : list (Z * Z)) (p : Z * bool) : bool :=
  match lookup (fst p) pat with
  | Some s => if s =? 1 then snd p
              else if s =? 0 then negb (snd p)
              else if s =? -1 then (if md =? -1 then true else negb (snd p))
              else false
  | None => false
  end.

Definition event_okb (t : tree) (p : Z * Z) : bool :=
  memz (fst p) (names t) && ((snd p =? 1) || (snd p =? 0)).

(* the checker run on implementation outputs (C07) *)
Definition replay_okb (md : Z) (pat : list (Z * Z)) (t : tree) (ev : list (Z * Z)) : bool :=
  forallb (leaf_okb md pat) (replay false ev t) && forallb (event_okb t) ev.

