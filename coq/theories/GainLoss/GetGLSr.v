(* Executable model of PhyBo._get_GLS (lingpy/compare/phylogeny.py) in its two modes:
   'w' (weights r = (r0, r1)) and 'r' (restriction r, negative = restriction on losses).
   Deterministic and exact: the same scenario lists, in the same order, as the Python code.
   No proofs here.

   Python                                     model
   ------                                     -----
   d[node] = [(state, story, maxG, maxL)]     [rnode] lists, [rnodes]
   itertools.product of tmp_nodes            [product]
   the three-way split (the `elif states_m == states_len` branch is unreachable)   [rstep]
   an empty list at any node -> KeyError / min([]) ValueError                      [None]
   gls_list / tracer / selection              [rselect_w], [rselect_r]              *)
From Coq Require Import ZArith List Bool.
From LV Require Import GainLoss.RoseTree GainLoss.GetGls.
Import ListNotations.
Local Open Scope Z_scope.

Inductive gmode := ModeW (r0 r1 : Z) | ModeR (r : Z).

Record rnode := { rs : Z; rst : list (Z * Z); rmg : Z; rml : Z }.

Definition max_list (d : Z) (l : list Z) : Z := fold_right Z.max d l.
Definition max_of (l : list Z) : Z := match l with [] => 0 | x :: r => max_list x r end.

(* events added in the mixed case: gains on children in state 1 or -1, losses on 0 or -1 *)
Fixpoint rmark (ev : Z) (cnames : list Z) (states : list Z) : list (Z * Z) :=
  match cnames, states with
  | n :: ns, s :: ss => if (s =? ev) || (s =? -1) then (n, ev) :: rmark ev ns ss else rmark ev ns ss
  | _, _ => []
  end.

Definition rstep (mode : gmode) (gpl : Z) (cnames : list Z) (combo : list rnode) : list rnode :=
  let states := map rs combo in
  let maxGain := max_of (map rmg combo) in
  let maxLoss := max_of (map rml combo) in
  let rstv := match mode with
              | ModeW r0 r1 => Z.min (maxGain * r0 + r1) (maxLoss * r1 + r0)
              | ModeR r => Z.abs r
              end in
  let st := concat (map rst combo) in
  if forallb (fun s => is1 s || isM s) states then
    let w := match mode with
             | ModeW r0 r1 => (gains st + 1) * r0 + losses st * r1
             | ModeR r => if r <? 0 then losses st else gains st + 2
             end in
    if (w <=? rstv) && (gains st <? gpl)
    then [ {| rs := 1; rst := st;
              rmg := match mode with ModeW _ _ => maxGain - 1 | ModeR _ => maxGain end; rml := maxLoss |} ]
    else []
  else if forallb (fun s => is0 s || isM s) states then
    let w := match mode with
             | ModeW r0 r1 => gains st * r0 + losses st * r1
             | ModeR r => if r <? 0 then losses st else gains st
             end in
    if w <=? rstv then [ {| rs := 0; rst := st; rmg := maxGain; rml := maxLoss - 1 |} ] else []
  else
    let tmpA := st ++ rmark 1 cnames states in
    let tmpB := st ++ rmark 0 cnames states in
    let wA := match mode with
              | ModeW r0 r1 => gains tmpA * r0 + losses tmpA * r1
              | ModeR r => if r <? 0 then losses tmpA else gains tmpA
              end in
    let wB := match mode with
              | ModeW r0 r1 => (gains tmpB + 1) * r0 + losses tmpB * r1
              | ModeR r => if r <? 0 then losses tmpB else gains tmpB + 1
              end in
    (if wA <=? rstv then [ {| rs := 0; rst := tmpA; rmg := maxGain; rml := maxLoss |} ] else [])
    ++ (if (wB <=? rstv) && negb (gains tmpB >=? gpl)
        then [ {| rs := 1; rst := tmpB; rmg := maxGain; rml := maxLoss |} ] else []).

Fixpoint all_some {A} (l : list (option A)) : option (list A) :=
  match l with
  | [] => Some []
  | None :: _ => None
  | Some x :: r => match all_some r with Some xs => Some (x :: xs) | None => None end
  end.

(* pat: recoded pattern; maxG / maxL: counted over the tips of the subtree *)
Fixpoint rnodes (pat : list (Z * Z)) (mode : gmode) (gpl maxG maxL : Z) (t : tree) : option (list rnode) :=
  match t with
  | Node n [] =>
      let p := state_of pat n in
      Some [ {| rs := if p >=? 1 then 1 else p; rst := []; rmg := maxG; rml := maxL |} ]
  | Node n cs =>
      match all_some (map (rnodes pat mode gpl maxG maxL) cs) with
      | None => None
      | Some ls =>
          match flat_map (rstep mode gpl (map tname cs)) (product ls) with
          | [] => None
          | nn => Some nn
          end
      end
  end.

(* --- selection --- *)

Definition rfinish (root : Z) (x : rnode) : list (Z * Z) :=
  if rs x =? 1 then (root, 1) :: rst x else rst x.

(* sorted(best, key=number of gains, reverse=push)[0]: the first element with the largest
   (push) / smallest (not push) number of gains *)
Fixpoint first_best (better : Z -> Z -> bool) (key : list (Z * Z) -> Z) (best : list (Z * Z))
         (l : list (list (Z * Z))) : list (Z * Z) :=
  match l with
  | [] => best
  | x :: r => if better (key x) (key best) then first_best better key x r else first_best better key best r
  end.

Definition rselect_w (r0 r1 : Z) (push : bool) (fin : list (list (Z * Z))) : option (list (Z * Z)) :=
  match fin with
  | [] => None
  | x :: r =>
      let sc := fun s => r0 * gains s + r1 * losses s in
      let m := min_list (sc x) (map sc r) in
      match filter (fun s => sc s =? m) fin with
      | [] => None
      | y :: r' => Some (first_best (if push then Z.gtb else Z.ltb) gains y r')
      end
  end.

Fixpoint find_node (n : Z) (t : tree) : option tree :=
  match t with
  | Node m cs =>
      if m =? n then Some t
      else (fix go (l : list tree) : option tree :=
              match l with
              | [] => None
              | c :: r => match find_node n c with Some x => Some x | None => go r end
              end) cs
  end.

Definition ntips_of (whole : tree) (n : Z) : Z :=
  match find_node n whole with Some x => Z.of_nat (length (tips x)) | None => 0 end.

Fixpoint sumZl (l : list Z) : Z := match l with [] => 0 | x :: r => x + sumZl r end.

Definition rselect_r (whole : tree) (ntaxa : Z) (fin : list (list (Z * Z))) : option (list (Z * Z)) :=
  match fin with
  | [] => None
  | x :: r =>
      let sc := fun s => gains s + losses s in
      let m := min_list (sc x) (map sc r) in
      let mg := filter (fun s => sc s =? m) fin in
      let minGains := fold_left (fun acc s => if gains s <=? acc then gains s else acc) mg ntaxa in
      let mg2 := filter (fun s => gains s =? minGains) mg in
      let span := fun s => sumZl (map (fun p => if snd p =? 1 then ntips_of whole (fst p) else 0) s) in
      match mg2 with
      | [] => None
      | y :: r' =>
          (* the first line whose gains span the fewest tips, provided that is fewer than ntaxa + 1 *)
          Some (snd (fold_left (fun (acc : Z * list (Z * Z)) s =>
                                  if span s <? fst acc then (span s, s) else acc)
                               mg2 (ntaxa + 1, y)))
      end
  end.

(* --- _get_GLS --- *)

Definition present_ge1 (pat : list (Z * Z)) (n : Z) : bool :=
  match lookup n pat with Some s => s >=? 1 | None => false end.

Definition get_GLSr (pat : list (Z * Z)) (t : tree) (mode : gmode) (gpl : Z) (push : bool) (md : Z) : result :=
  let pat' := recode md pat in
  let isP := present_ge1 pat' in
  if negb (has_present isP t) then Err 1
  else
    let sub := lca_sub isP t in
    let tipsS := if is_tip sub then [] else tips sub in      (* tree.tips() does not include a tip itself *)
    if negb (forallb (fun n => match lookup n pat' with Some _ => true | None => false end) tipsS) then Err 2
    else
      let inl := fun (vals : list Z) n => existsb (Z.eqb (state_of pat' n)) vals in
      let maxG := Z.of_nat (length (filter (inl [1; -1]) tipsS)) in
      let maxL := Z.of_nat (length (filter (inl [0; -1]) tipsS)) in
      if forallb (fun n => state_of pat' n >=? 1) tipsS then Ok [(tname sub, 1)]
      else match rnodes pat' mode gpl maxG maxL sub with
           | None => Err 3
           | Some roots =>
               let fin := map (rfinish (tname sub)) roots in
               match (match mode with
                      | ModeW r0 r1 => rselect_w r0 r1 push fin
                      | ModeR r => rselect_r t (Z.of_nat (length pat)) fin
                      end) with
               | Some ev => Ok ev
               | None => Err 4
               end
           end.
