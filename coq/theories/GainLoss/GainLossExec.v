(* Correspondence cases for the gain-loss component (C07, C08): the harness
   renders (input, implementation output) as a record; [*_case_code] computes a
   bit mask (see harness/comp/gainloss.py BITS). *)
From Coq Require Import ZArith List Bool.
From LV Require Import Common.Cases GainLoss.RoseTree GainLoss.Replay GainLoss.GetGls GainLoss.Parsimony
  GainLoss.GetGLSr GainLoss.TopDown GainLoss.PhyBoGlue GainLoss.PhyBoRows.
Import ListNotations.
Local Open Scope Z_scope.

Definition story_eqb : story -> story -> bool := list_eqb (pair_eqb Z.eqb Z.eqb).

Definition result_eqb (r : result) (o : story) : bool :=
  match r with Ok ev => story_eqb ev o | Err _ => false end.

(* some node carries both a gain and a loss (the replay reads the first; reported separately) *)
Definition conflictb (ev : story) : bool :=
  existsb (fun p => existsb (fun q => (fst p =? fst q) && negb (snd p =? snd q)) ev) ev.

(* get_gls: stand-alone function, called twice on the SAME pattern object (a list or a numpy
   array) with two missing_data settings; both results are compared with the model on the
   ORIGINAL pattern *)
Record gls_case := {
  gc_tree : tree;
  gc_pat : list (Z * Z);       (* zip(taxa, paps), taxa order; the pattern as it was before the calls *)
  gc_gpl : Z;
  gc_g : Z;
  gc_l : Z;
  gc_push : bool;
  gc_md : Z;
  gc_out : story;              (* what the implementation returned, first call *)
  gc_md2 : Z;
  gc_out2 : story              (* second call, missing_data = gc_md2 *)
}.

(* all tips below the common ancestor of the presences are present *)
Definition all_present_below_lca (pat : list (Z * Z)) (t : tree) : option Z :=
  let isP := is_present pat in
  let sub := lca_sub isP t in
  if has_present isP t && forallb isP (tips sub) then Some (tname sub) else None.

Definition single_gain_okb (c : gls_case) (out : story) : bool :=
  match all_present_below_lca (gc_pat c) (gc_tree c) with
  | Some r => story_eqb out [(r, 1)]
  | None => true
  end.

Definition gls_call_code (c : gls_case) (md : Z) (out : story) : nat :=
  let w := weight_ev (gc_g c) (gc_l c) out in
  let o := opt (gc_g c) (gc_l c) md (gc_pat c) (gc_tree c) in
  bit 0 (result_eqb (get_gls (gc_pat c) (gc_tree c) (gc_gpl c) (gc_g c) (gc_l c) (gc_push c) md) out)
  + bit 1 (replay_okb md (gc_pat c) (gc_tree c) out)
  + bit 2 (o <=? w)
  + bit 3 (negb (Z.of_nat (length (tips (gc_tree c))) <=? gc_gpl c) || (w =? o))
  + bit 4 (single_gain_okb c out)
  + bit 6 (negb (conflictb out)).

Definition gls_case_code (c : gls_case) : nat :=
  Nat.lor (gls_call_code c (gc_md c) (gc_out c)) (gls_call_code c (gc_md2 c) (gc_out2 c)).

(* brute-force cross-check of the dynamic programme (thorough tier, small trees) *)
Definition gls_brute_code (c : gls_case) : nat :=
  bit 5 (match opt_brute (gc_g c) (gc_l c) (gc_md c) (gc_pat c) (gc_tree c) with
         | Some m => m =? opt (gc_g c) (gc_l c) (gc_md c) (gc_pat c) (gc_tree c)
         | None => false
         end).

(* result of a run that may raise: None = the implementation raised *)
Definition result_opt_eqb (r : result) (o : option story) : bool :=
  match r, o with
  | Ok ev, Some out => story_eqb ev out
  | Err _, None => true
  | _, _ => false
  end.

(* PhyBo._get_GLS, modes 'w' and 'r' *)
Record glsr_case := {
  rc_tree : tree;
  rc_pat : list (Z * Z);
  rc_mode : gmode;
  rc_gpl : Z;
  rc_push : bool;
  rc_md : Z;
  rc_out : option story
}.

Definition glsr_case_code (c : glsr_case) : nat :=
  bit 0 (result_opt_eqb (get_GLSr (rc_pat c) (rc_tree c) (rc_mode c) (rc_gpl c) (rc_push c) (rc_md c)) (rc_out c))
  + bit 1 (match rc_out c with
           | Some ev => replay_okb (rc_md c) (rc_pat c) (rc_tree c) ev
           | None => true
           end)
  + bit 6 (match rc_out c with Some ev => negb (conflictb ev) | None => true end).

(* PhyBo._get_GLS_top_down *)
Record td_case := {
  tc_tree : tree;
  tc_pat : list (Z * Z);
  tc_mode : Z;
  tc_md : Z;
  tc_out : option story
}.

Definition td_case_code (c : td_case) : nat :=
  bit 0 (result_opt_eqb (top_down (tc_pat c) (tc_tree c) (tc_mode c) (tc_md c)) (tc_out c))
  + bit 1 (match tc_out c with
           | Some ev => replay_okb (tc_md c) (tc_pat c) (tc_tree c) ev
           | None => true
           end)
  + bit 6 (match tc_out c with Some ev => negb (conflictb ev) | None => true end).

(* PhyBo.get_GLS on a generated dataset: one item per (mode, cognate set).  The rows of the wordlist are
   part of the case; the pattern a stored scenario must reproduce is computed HERE from the rows by the
   model of get_paps ([paps_of_rows]), not by the harness and not read from phy.paps. *)
Record phybo_item := {
  pi_mode : glmode;
  pi_gpl : Z;
  pi_push : bool;
  pi_md : Z;
  pi_cog : Z;                  (* the cognate id and the concept of the set ("<cogid>:<glid>") *)
  pi_con : Z;
  pi_paps0 : list Z;           (* phy.paps[cog] as first built by get_paps *)
  pi_paps : list Z;            (* phy.paps[cog] immediately before the call: input of the model *)
  pi_exact : bool;             (* compare with the model (false for top-down: the result depends on
                                  the cognate sets processed before, see notes/design/C07.md) *)
  pi_out : story               (* phy.gls[glm][cog][0] *)
}.

Record phybo_case := {
  pc_tree : tree;
  pc_taxa : list Z;
  pc_rows : list row;          (* (language, concept, cognate id) of every row of the wordlist file *)
  pc_singletons : bool;        (* PhyBo(..., singletons=...) *)
  pc_cogs : list (Z * Z);      (* phy.cogs as (cognate id, concept) *)
  pc_items : list phybo_item
}.

Definition phybo_item_code (t : tree) (taxa : list Z) (rows : list row) (i : phybo_item) : nat :=
  let pat := combine taxa (pi_paps i) in
  let coded := paps_of_rows rows taxa (pi_cog i) (pi_con i) in
  let obs := combine taxa coded in
  bit 0 (negb (pi_exact i) ||
         result_eqb (phybo_per_cog pat t (pi_mode i) (pi_gpl i) (pi_push i) (pi_md i)) (pi_out i))
  + bit 1 (replay_okb (pi_md i) obs t (pi_out i))
  + bit 6 (negb (conflictb (pi_out i)))
  + bit 7 (Nat.eqb (length taxa) (length (pi_paps i)))
  + bit 8 (list_eqb Z.eqb (pi_paps0 i) coded)
  (* C08 through PhyBo.get_GLS, weighted mode: the weight of the stored scenario against the verified
     optimum for the pattern coded from the rows, under this call's missing_data *)
  + match pi_mode i with
    | GWeighted g l =>
        let w := weight_ev g l (pi_out i) in
        let o := opt g l (pi_md i) obs t in
        bit 2 (o <=? w)
        + bit 3 (negb (Z.of_nat (length (tips t)) <=? pi_gpl i) || (w =? o))
        + bit 4 (match all_present_below_lca obs t with
                 | Some r => story_eqb (pi_out i) [(r, 1)]
                 | None => true
                 end)
    | _ => 0%nat
    end.

(* the cognate sets PhyBo analyses: every (cognate id, concept) of the rows, minus the singletons
   when singletons=True *)
Definition expected_cogs (c : phybo_case) : list (Z * Z) :=
  filter (fun k => negb (pc_singletons c && is_singleton (paps_of_rows (pc_rows c) (pc_taxa c) (fst k) (snd k))))
         (map (fun r => (r_cog r, r_con r)) (pc_rows c)).

Definition same_set (a b : list (Z * Z)) : bool :=
  let mem := fun k l => existsb (fun k' => (fst k =? fst k') && (snd k =? snd k')) l in
  forallb (fun k => mem k b) a && forallb (fun k => mem k a) b.

Definition phybo_case_code (c : phybo_case) : nat :=
  Nat.lor (bit 9 (same_set (pc_cogs c) (expected_cogs c)))
    (fold_right (fun i acc => Nat.lor (phybo_item_code (pc_tree c) (pc_taxa c) (pc_rows c) i) acc) 0%nat (pc_items c)).
