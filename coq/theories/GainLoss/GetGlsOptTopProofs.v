(* C08 for get_gls, top level: the weight of the returned scenario against the optimum
   of the whole tree. *)
From Coq Require Import ZArith List Bool Lia.
From LV Require Import GainLoss.RoseTree GainLoss.TreeLemmas GainLoss.Replay GainLoss.ReplayProofs
  GainLoss.GetGls GainLoss.GetGlsProofs GainLoss.GetGlsTopProofs GainLoss.Parsimony GainLoss.ParsimonyProofs
  GainLoss.GetGlsOptProofs.
Import ListNotations.
Local Open Scope Z_scope.

(* ---------- recoding ---------- *)

Lemma leaf_views_recode g l md pat n : md = 0 \/ md = -1 ->
  leaf_views g l md pat n = leaf_views g l (-1) (recode md pat) n.
Proof.
  intros Hmd. unfold leaf_views. rewrite lookup_recode. destruct (lookup n pat) as [s|]; [|reflexivity].
  cbn [option_map]. destruct (Z.eqb_spec s (-1)) as [EM|NM].
  - subst s. destruct Hmd; subst md; reflexivity.
  - destruct (Z.eqb_spec s 1); [reflexivity|]. destruct (Z.eqb_spec s (-1)); [contradiction|reflexivity].
Qed.

Lemma views_recode g l md pat t : md = 0 \/ md = -1 ->
  views g l md pat t = views g l (-1) (recode md pat) t.
Proof.
  intros Hmd. induction t as [n cs IH] using tree_ind'. destruct cs as [|c0 cs0].
  - cbn [views]. apply leaf_views_recode. exact Hmd.
  - change (views g l md pat (Node n (c0 :: cs0))) with
      (let vs := map (views g l md pat) (c0 :: cs0) in
       (Z.min (sumZ (map fst vs)) (sumZ (map snd vs) + l), Z.min (sumZ (map snd vs)) (sumZ (map fst vs) + g))).
    change (views g l (-1) (recode md pat) (Node n (c0 :: cs0))) with
      (let vs := map (views g l (-1) (recode md pat)) (c0 :: cs0) in
       (Z.min (sumZ (map fst vs)) (sumZ (map snd vs) + l), Z.min (sumZ (map snd vs)) (sumZ (map fst vs) + g))).
    cbv zeta. assert (E : map (views g l md pat) (c0 :: cs0) = map (views g l (-1) (recode md pat)) (c0 :: cs0)).
    { apply map_ext_in. intros c Hc. rewrite Forall_forall in IH. exact (IH c Hc). }
    rewrite E. reflexivity.
Qed.

Lemma is_present_recode md pat n : md <> 1 -> is_present (recode md pat) n = is_present pat n.
Proof.
  intros Hmd. unfold is_present. rewrite lookup_recode. destruct (lookup n pat) as [s|]; [|reflexivity].
  cbn [option_map]. destruct (Z.eqb_spec s (-1)) as [E|N]; [|reflexivity].
  subst s. cbn. apply Z.eqb_neq. exact Hmd.
Qed.

(* ---------- views outside the common ancestor ---------- *)

Section Path.
  Variable pat : list (Z * Z).     (* recoded *)
  Variables g l : Z.
  Hypothesis Hg : 0 <= g.
  Hypothesis Hl : 0 <= l.
  Let isP := is_present pat.
  Notation V1 := (V1 pat g l).
  Notation V0 := (V0 pat g l).

  Lemma V1_leaf n : V1 (Node n []) = fst (leaf_views g l (-1) pat n).
  Proof. reflexivity. Qed.
  Lemma V0_leaf n : V0 (Node n []) = snd (leaf_views g l (-1) pat n).
  Proof. reflexivity. Qed.

  Lemma absent_views t : has_present isP t = false -> V0 t = 0 /\ 0 <= V1 t.
  Proof.
    induction t as [n cs IH] using tree_ind'. intros Hp. destruct cs as [|c0 cs0].
    - rewrite V1_leaf, V0_leaf. unfold leaf_views. cbn [has_present] in Hp. unfold isP, is_present in Hp.
      destruct (lookup n pat) as [s|]; [|cbn [fst snd]; lia].
      rewrite Hp. destruct ((s =? -1) && (-1 =? -1)); cbn [fst snd]; lia.
    - rewrite V0_node, V1_node. rewrite has_present_node in Hp.
      remember (c0 :: cs0) as cs. clear Heqcs.
      assert (Hs : sumZ (map V0 cs) = 0 /\ 0 <= sumZ (map V1 cs)).
      { clear -IH Hp. induction cs as [|c cs IHc]; [cbn; lia|]. cbn [existsb] in Hp. apply orb_false_iff in Hp.
        destruct Hp as [Hp1 Hp2]. inversion IH as [|y r Hy Hr]; subst. cbn [map]. rewrite !sumZ_cons.
        destruct (Hy Hp1). destruct (IHc Hr Hp2). lia. }
      destruct Hs. lia.
  Qed.

  Lemma view_gap t : V0 t <= V1 t + g.
  Proof.
    destruct t as [n [|c0 cs0]].
    - rewrite V1_leaf, V0_leaf. unfold leaf_views. destruct (lookup n pat) as [s|]; [|cbn [fst snd]; lia].
      destruct (s =? 1); [cbn [fst snd]; lia|]. destruct ((s =? -1) && (-1 =? -1)); cbn [fst snd]; lia.
    - rewrite V0_node, V1_node. lia.
  Qed.

  Lemma lca_views t : has_present isP t = true -> V0 t = V0 (lca_sub isP t).
  Proof.
    induction t as [n cs IH] using tree_ind'. intros Hp. rewrite lca_sub_node.
    destruct (flat_map (lca_step isP) cs) as [|r [|r2 rest]] eqn:E; try reflexivity.
    destruct (lca_step_single isP cs r E) as [pre [c [post [E1 [E2 [E3 [E4 E5]]]]]]]. subst r.
    assert (Hc : In c cs) by (subst cs; apply in_or_app; right; left; reflexivity).
    rewrite Forall_forall in IH. rewrite <- (IH c Hc E4).
    destruct cs as [|c0 cs0]; [destruct Hc|]. rewrite V0_node. rewrite E1.
    assert (Habs : forall ds, Forall (fun d => has_present isP d = false) ds ->
                              sumZ (map V0 ds) = 0 /\ 0 <= sumZ (map V1 ds)).
    { intros ds Hds. induction Hds as [|d ds Hd _ IHd]; [cbn; lia|]. cbn [map]. rewrite !sumZ_cons.
      destruct (absent_views d Hd). lia. }
    rewrite !map_app. cbn [map]. rewrite !sumZ_app, !sumZ_cons.
    destruct (Habs pre E2). destruct (Habs post E3). pose proof (view_gap c). lia.
  Qed.

  (* a subtree whose leaves are all present *)
  Lemma present_views t : (forall m, In m (tips t) -> lookup m pat = Some 1) -> V1 t = 0 /\ V0 t = g.
  Proof.
    induction t as [n cs IH] using tree_ind'. intros Hall. destruct cs as [|c0 cs0].
    - rewrite V1_leaf, V0_leaf. unfold leaf_views. rewrite (Hall n (or_introl eq_refl)). cbn. auto.
    - rewrite V0_node, V1_node. remember (c0 :: cs0) as cs.
      assert (Hs : sumZ (map V1 cs) = 0 /\ g <= sumZ (map V0 cs)).
      { assert (Hne : cs <> []) by (subst cs; discriminate).
        assert (Hall' : forall c, In c cs -> forall m, In m (tips c) -> lookup m pat = Some 1).
        { intros c Hc m Hm. apply Hall. exact (tips_child n cs c m Hc Hm). }
        clear -IH Hall' Hne Hg. induction cs as [|c cs IHc]; [contradiction|]. inversion IH as [|y r Hy Hr]; subst.
        cbn [map]. rewrite !sumZ_cons. destruct (Hy (Hall' c (or_introl eq_refl))) as [A B].
        destruct cs as [|c' cs'].
        - cbn. lia.
        - destruct (IHc Hr) as [C D]; [discriminate|intros d Hd; apply Hall'; right; exact Hd|]. lia. }
      destruct Hs. lia.
  Qed.
End Path.

(* ---------- selection picks a minimum-weight scenario ---------- *)

Lemma select_min g l push fin ev : select g l push fin = Some ev ->
  In ev fin /\ forall x, In x fin -> weight g l ev <= weight g l x.
Proof.
  intros H. split; [exact (select_in g l push fin ev H)|].
  unfold select in H. destruct fin as [|x0 r]; [discriminate|].
  set (m := min_list (weight g l x0) (map (weight g l) r)) in *.
  destruct (filter (fun s => weight g l s =? m) (x0 :: r)) as [|y r'] eqn:E; [discriminate|].
  inversion H; subst ev. clear H.
  assert (Hin : In (first_min (count_ev (if push then 1 else 0)) y r') (y :: r')).
  { destruct (first_min_in (count_ev (if push then 1 else 0)) y r') as [E'|H']; [left; auto|right; exact H']. }
  rewrite <- E in Hin. apply filter_In in Hin. destruct Hin as [_ Hw]. apply Z.eqb_eq in Hw. rewrite Hw.
  destruct (min_list_le (weight g l x0) (map (weight g l) r)) as [L1 L2]. fold m in L1, L2.
  intros x [Ex|Hx]; [subst; exact L1|]. apply L2. apply in_map. exact Hx.
Qed.

Lemma select_some g l push fin : fin <> [] -> exists ev, select g l push fin = Some ev.
Proof.
  intros Hne. unfold select. destruct fin as [|x0 r]; [contradiction|].
  set (m := min_list (weight g l x0) (map (weight g l) r)).
  assert (Hex : exists y, In y (x0 :: r) /\ weight g l y = m).
  { destruct (min_list_in (weight g l x0) (map (weight g l) r)) as [E|H]; fold m in E || fold m in H.
    - exists x0. split; [left; reflexivity|symmetry; exact E].
    - apply in_map_iff in H. destruct H as [y [E Hy]]. exists y. split; [right; exact Hy|exact E]. }
  destruct Hex as [y [Hy Ey]].
  destruct (filter (fun s => weight g l s =? m) (x0 :: r)) as [|z r'] eqn:E.
  - exfalso. assert (X : In y (filter (fun s => weight g l s =? m) (x0 :: r))).
    { apply filter_In. split; [exact Hy|apply Z.eqb_eq; exact Ey]. }
    rewrite E in X. destruct X.
  - eexists. reflexivity.
Qed.

Lemma weight_ev_eq g l ev : weight_ev g l ev = weight g l ev.
Proof. reflexivity. Qed.

Lemma weight_finish g l root sc : weight g l (finish root sc) = cost0 g (fst sc) (wt g l sc).
Proof.
  unfold finish, cost0, wt, is1. destruct (fst sc =? 1); [|reflexivity].
  rewrite weight_app. unfold weight at 2.
  replace (gains [(root, 1)]) with 1 by reflexivity. replace (losses [(root, 1)]) with 0 by reflexivity. lia.
Qed.

(* ---------- the gains-per-lineage limit ---------- *)

Section Gains.
  Variable pat : list (Z * Z).     (* recoded *)
  Variables gpl g l : Z.

  Definition npres (t : tree) : Z := Z.of_nat (length (filter (is_present pat) (tips t))).

  Lemma npres_node n c cs : npres (Node n (c :: cs)) = sumZ (map npres (c :: cs)).
  Proof.
    unfold npres. change (tips (Node n (c :: cs))) with (flat_map tips (c :: cs)).
    remember (c :: cs) as ds. clear. induction ds as [|d ds IH]; [reflexivity|].
    cbn [flat_map map]. rewrite filter_app, app_length, Nat2Z.inj_add, sumZ_cons, IH. reflexivity.
  Qed.

  Lemma npres_le_tips t : npres t <= Z.of_nat (length (tips t)).
  Proof.
    unfold npres. apply inj_le. induction (tips t) as [|x xs IH]; cbn [filter length]; [lia|].
    destruct (is_present pat x); cbn [length]; lia.
  Qed.

  Definition ind1 (s : Z) : Z := if s =? 1 then 1 else 0.
  (* a kept scenario of state 1 has fewer gains than there are present leaves below the node *)
  Definition GB (t : tree) (sc : scen) : Prop :=
    (fst sc = 1 \/ fst sc = 0 \/ fst sc = -1) /\ gains (snd sc) + ind1 (fst sc) <= npres t.

  Lemma gains_app a b : gains (a ++ b) = gains a + gains b.
  Proof. apply count_ev_app. Qed.

  Lemma gains_concat (sts : list story) : gains (concat sts) = sumZ (map gains sts).
  Proof. induction sts as [|st sts IH]; [reflexivity|]. cbn [concat map]. rewrite gains_app, sumZ_cons, IH. reflexivity. Qed.

  Lemma sum_ind1 (combo : list scen) : sumZ (map (fun sc => ind1 (fst sc)) combo) = cnt 1 (map fst combo).
  Proof.
    induction combo as [|sc combo IH]; [reflexivity|]. cbn [map]. rewrite sumZ_cons, cnt_cons, IH. reflexivity.
  Qed.

  Lemma forallb_false_exists {A} (f : A -> bool) xs : forallb f xs = false -> exists x, In x xs /\ f x = false.
  Proof.
    induction xs as [|x xs IH]; cbn [forallb]; [discriminate|]. intros H. destruct (f x) eqn:E.
    - destruct (IH H) as [y [Hy Hf]]. exists y. split; [right; exact Hy|exact Hf].
    - exists x. split; [left; reflexivity|exact E].
  Qed.

  Lemma gains_bound_step cs combo sc :
    Forall2 GB cs combo -> In sc (combine_node (map tname cs) combo) ->
    (fst sc = 1 \/ fst sc = 0 \/ fst sc = -1) /\ gains (snd sc) + ind1 (fst sc) <= sumZ (map npres cs).
  Proof.
    intros HF Hin.
    assert (HL : length (map tname cs) = length (map fst combo)).
    { rewrite !map_length. exact (Forall2_length' _ _ _ HF). }
    assert (Hsum : sumZ (map (fun sc => gains (snd sc)) combo) + cnt 1 (map fst combo) <= sumZ (map npres cs)).
    { rewrite <- sum_ind1. clear -HF. induction HF as [|c sc' cs combo [_ H] _ IH]; [cbn; lia|].
      cbn [map]. rewrite !sumZ_cons. lia. }
    assert (Hst : gains (concat (map snd combo)) = sumZ (map (fun sc => gains (snd sc)) combo)).
    { rewrite gains_concat, map_map. reflexivity. }
    pose proof (cnt_nonneg 1 (map fst combo)) as N1.
    destruct (produced_cases (map tname cs) combo) as [EM E|C0 C1 E|C1 C0 E|X1 X0 E]; rewrite E in Hin.
    - destruct Hin as [Hs|[]]. subst sc. cbn [fst snd]. rewrite Hst. unfold ind1. cbn. split; [auto|lia].
    - destruct Hin as [Hs|[]]. subst sc. cbn [fst snd]. rewrite Hst. unfold ind1. cbn. split; [auto|lia].
    - destruct Hin as [Hs|[]]. subst sc. cbn [fst snd]. rewrite Hst. unfold ind1. cbn. split; [auto|lia].
    - assert (P1 : 1 <= cnt 1 (map fst combo)).
      { destruct (forallb_false_exists _ _ X0) as [s [Hs Hf]]. apply (cnt_pos 1 _ s Hs).
        apply in_map_iff in Hs. destruct Hs as [sc' [Es Hsc']].
        destruct (In_nth_pair cs combo sc' (Forall2_length' _ _ _ HF) Hsc') as [c Hc].
        destruct (Forall2_combine_in _ _ _ _ _ HF Hc) as [Hv _]. rewrite Es in Hv.
        apply orb_false_iff in Hf. destruct Hf as [F0 FM]. unfold is0, isM in *.
        apply Z.eqb_neq in F0. apply Z.eqb_neq in FM. lia. }
      destruct Hin as [Hs|[Hs|[]]]; subst sc; cbn [fst snd]; rewrite gains_app, Hst.
      + rewrite (gains_mark0 _ _ HL). unfold ind1. cbn. split; [auto|lia].
      + rewrite (gains_mark1 _ _ HL). unfold ind1. cbn. split; [auto|lia].
  Qed.

  Theorem gains_bound t : tips_known pat t ->
    forall sc, In sc (scen_of pat gpl g l t) -> GB t sc.
  Proof.
    induction t as [n cs IH] using tree_ind'. intros Hk sc Hin. destruct cs as [|c0 cs0].
    - cbn in Hin. destruct Hin as [E|[]]. subst sc. destruct (Hk n (or_introl eq_refl)) as [s [El Hs]].
      unfold GB, state_of, npres. rewrite El. cbn [fst snd tips filter]. unfold is_present. rewrite El.
      split; [exact Hs|]. unfold ind1, gains, count_ev. cbn. destruct (s =? 1); cbn; lia.
    - apply scen_of_node_in in Hin. destruct Hin as [combo [HF Hc]].
      unfold GB. rewrite npres_node. apply (gains_bound_step (c0 :: cs0) combo sc); [|exact Hc].
      rewrite Forall_forall in IH. apply (Forall2_impl (fun d x => In x (scen_of pat gpl g l d))); [|exact HF].
      intros c sc' Hcin Hsc'. apply (IH c Hcin); [|exact Hsc'].
      intros m Hm. apply Hk. exact (tips_child n _ c m Hcin Hm).
  Qed.

  (* so the filter cannot fire when gpl is at least the number of leaves *)
  Theorem nofire_if_gpl_large t : tips_known pat t -> Z.of_nat (length (tips t)) <= gpl ->
    nofire pat g l gpl t = true.
  Proof.
    induction t as [n cs IH] using tree_ind'. intros Hk Hgpl. destruct cs as [|c0 cs0]; [reflexivity|].
    rewrite nofire_node. apply andb_true_iff. split.
    - apply forallb_forall. intros sc Hin. unfold new_nodes in Hin. apply in_flat_map in Hin.
      destruct Hin as [combo [Hcombo Hsc]]. apply product_in in Hcombo. apply Forall2_map_l in Hcombo.
      assert (HG : Forall2 GB (c0 :: cs0) combo).
      { apply (Forall2_impl (fun d x => In x (scen_of pat gpl g l d))); [|exact Hcombo].
        intros c sc' Hcin Hsc'. apply gains_bound; [|exact Hsc'].
        intros m Hm. apply Hk. exact (tips_child n _ c m Hcin Hm). }
      destruct (gains_bound_step (c0 :: cs0) combo sc HG Hsc) as [_ Hb].
      rewrite <- npres_node with (n := n) in Hb. pose proof (npres_le_tips (Node n (c0 :: cs0))) as Hle.
      unfold gpl_ok, is1. unfold ind1 in Hb. destruct (fst sc =? 1); [|reflexivity]. cbn [andb negb].
      apply negb_true_iff. rewrite Z.gtb_ltb. apply Z.ltb_ge. lia.
    - apply forallb_forall. intros c Hc. rewrite Forall_forall in IH. apply (IH c Hc).
      + intros m Hm. apply Hk. exact (tips_child n _ c m Hc Hm).
      + assert (Hsub : Z.of_nat (length (tips c)) <= Z.of_nat (length (tips (Node n (c0 :: cs0))))).
        { apply inj_le. change (tips (Node n (c0 :: cs0))) with (flat_map tips (c0 :: cs0)).
          remember (c0 :: cs0) as ds. clear -Hc. induction ds as [|d ds IHd]; [destruct Hc|].
          cbn [flat_map]. rewrite app_length. destruct Hc as [E|Hc]; [subst; lia|specialize (IHd Hc); lia]. }
        lia.
  Qed.
End Gains.

(* ---------- the theorems ---------- *)

Lemma has_present_ext isP isP' t : (forall n, isP n = isP' n) -> has_present isP t = has_present isP' t.
Proof.
  intros H. induction t as [n cs IH] using tree_ind'. destruct cs as [|c0 cs0]; [cbn; apply H|].
  rewrite !has_present_node. remember (c0 :: cs0) as cs. clear Heqcs.
  induction cs as [|c cs IHc]; [reflexivity|]. inversion IH as [|y r Hy Hr]; subst. cbn [existsb]. rewrite Hy, (IHc Hr). reflexivity.
Qed.

Lemma lca_sub_ext isP isP' t : (forall n, isP n = isP' n) -> lca_sub isP t = lca_sub isP' t.
Proof.
  intros H. induction t as [n cs IH] using tree_ind'. rewrite !lca_sub_node.
  assert (E : flat_map (lca_step isP) cs = flat_map (lca_step isP') cs).
  { induction cs as [|c cs IHc]; [reflexivity|]. inversion IH as [|y r Hy Hr]; subst. cbn [flat_map].
    unfold lca_step at 1 3. rewrite (has_present_ext isP isP' c H), Hy, (IHc Hr). reflexivity. }
  rewrite E. reflexivity.
Qed.

Lemma tips_lca_length isP t : (length (tips (lca_sub isP t)) <= length (tips t))%nat.
Proof.
  induction t as [n cs IH] using tree_ind'. rewrite lca_sub_node.
  destruct (flat_map (lca_step isP) cs) as [|r [|r2 rest]] eqn:E; try lia.
  destruct (lca_step_single isP cs r E) as [pre [c [post [E1 [_ [_ [_ E5]]]]]]]. subst r.
  assert (Hc : In c cs) by (subst cs; apply in_or_app; right; left; reflexivity).
  rewrite Forall_forall in IH. specialize (IH c Hc).
  destruct cs as [|c0 cs0]; [destruct Hc|]. change (tips (Node n (c0 :: cs0))) with (flat_map tips (c0 :: cs0)).
  rewrite E1. rewrite flat_map_app. cbn [flat_map]. rewrite !app_length. lia.
Qed.

(* what get_gls returns, with the selection made visible *)
Lemma get_gls_ok_select pat t gpl g l push md ev :
  get_gls pat t gpl g l push md = Ok ev ->
  has_present (is_present (recode md pat)) t = true /\
  (forall n, In n (tips (lca_sub (is_present (recode md pat)) t)) -> lookup n (recode md pat) <> None) /\
  ((forallb (fun n => state_of (recode md pat) n =? 1) (tips (lca_sub (is_present (recode md pat)) t)) = true /\
    ev = [(tname (lca_sub (is_present (recode md pat)) t), 1)]) \/
   (select g l push (map (finish (tname (lca_sub (is_present (recode md pat)) t)))
                         (scen_of (recode md pat) gpl g l (lca_sub (is_present (recode md pat)) t))) = Some ev)).
Proof.
  unfold get_gls. intros H.
  set (pat' := recode md pat) in *. set (sub := lca_sub (is_present pat') t) in *.
  destruct (has_present (is_present pat') t) eqn:E1; [|discriminate]. cbn [negb] in H.
  destruct (forallb (fun n => match lookup n pat' with Some _ => true | None => false end) (tips sub)) eqn:E2;
    [|discriminate]. cbn [negb] in H.
  split; [reflexivity|]. split.
  { intros n Hn. rewrite forallb_forall in E2. specialize (E2 n Hn). destruct (lookup n pat'); [discriminate|discriminate E2]. }
  destruct (forallb (fun n => state_of pat' n =? 1) (tips sub)) eqn:E3.
  - left. inversion H. auto.
  - right. destruct (select g l push (map (finish (tname sub)) (scen_of pat' gpl g l sub))) as [ev'|] eqn:E4; [|discriminate].
    inversion H; subst ev'. reflexivity.
Qed.

Section Final.
  Variables (pat : list (Z * Z)) (t : tree) (gpl g l : Z) (push : bool) (md : Z) (ev : list (Z * Z)).
  Hypothesis Hpk : pattern_known pat t.
  Hypothesis Hmd : md = 0 \/ md = -1.
  Hypothesis Hg : 0 <= g.
  Hypothesis Hl : 0 <= l.
  Hypothesis Hres : get_gls pat t gpl g l push md = Ok ev.

  Let pat' := recode md pat.
  Let isP := is_present pat'.
  Let sub := lca_sub isP t.

  Lemma opt_is_V0_sub : opt g l md pat t = V0 pat' g l sub.
  Proof.
    destruct (get_gls_ok_select _ _ _ _ _ _ _ _ Hres) as [Hhp _].
    unfold opt. rewrite (views_recode g l md pat t Hmd).
    change (snd (views g l (-1) (recode md pat) t)) with (V0 pat' g l t).
    exact (lca_views pat' g l Hg Hl t Hhp).
  Qed.

  Lemma sub_known : tips_known pat' sub.
  Proof.
    intros m Hm. apply (tips_known_recode md pat t Hmd Hpk). exact (tips_subset_lca isP t m Hm).
  Qed.

  (* with any gains-per-lineage limit the weight is never below the optimum *)
  Theorem gls_weight_ge_opt : opt g l md pat t <= weight_ev g l ev.
  Proof.
    rewrite opt_is_V0_sub, weight_ev_eq.
    destruct (get_gls_ok_select _ _ _ _ _ _ _ _ Hres) as [Hhp [Hlk [[Hall Hev]|Hsel]]].
    - fold pat' isP sub in Hall, Hev, Hlk. subst ev.
      destruct (present_views pat' g l Hg Hl sub) as [_ E].
      { intros m Hm. rewrite forallb_forall in Hall. specialize (Hall m Hm). apply Z.eqb_eq in Hall.
        unfold state_of in Hall. specialize (Hlk m Hm). destruct (lookup m pat') as [s|]; [subst s; reflexivity|contradiction]. }
      rewrite E. unfold weight. replace (gains [(tname sub, 1)]) with 1 by reflexivity.
      replace (losses [(tname sub, 1)]) with 0 by reflexivity. lia.
    - fold pat' isP sub in Hsel. apply select_in in Hsel. apply in_map_iff in Hsel. destruct Hsel as [sc [E Hsc]].
      subst ev. rewrite weight_finish.
      exact (proj2 (kept_ge_views pat' g l gpl sub sub_known sc Hsc)).
  Qed.

  (* if the filter never fires, the weight is the optimum *)
  Theorem gls_weight_eq_opt : nofire pat' g l gpl sub = true -> weight_ev g l ev = opt g l md pat t.
  Proof.
    intros Hnf. apply Z.le_antisymm; [|exact gls_weight_ge_opt].
    rewrite opt_is_V0_sub, weight_ev_eq.
    destruct (get_gls_ok_select _ _ _ _ _ _ _ _ Hres) as [Hhp [Hlk [[Hall Hev]|Hsel]]].
    - fold pat' isP sub in Hall, Hev, Hlk. subst ev.
      destruct (present_views pat' g l Hg Hl sub) as [_ E].
      { intros m Hm. rewrite forallb_forall in Hall. specialize (Hall m Hm). apply Z.eqb_eq in Hall.
        unfold state_of in Hall. specialize (Hlk m Hm). destruct (lookup m pat') as [s|]; [subst s; reflexivity|contradiction]. }
      rewrite E. unfold weight. replace (gains [(tname sub, 1)]) with 1 by reflexivity.
      replace (losses [(tname sub, 1)]) with 0 by reflexivity. lia.
    - fold pat' isP sub in Hsel. apply select_min in Hsel. destruct Hsel as [_ Hmin].
      destruct (views_attained pat' g l gpl sub Hg Hl Hnf) as [_ [sc0 [Hsc0 Hc0]]].
      specialize (Hmin (finish (tname sub) sc0) (in_map _ _ _ Hsc0)). rewrite weight_finish in Hmin. lia.
  Qed.

  (* the property's own bound: gpl at least the number of leaves *)
  Theorem gls_weight_eq_opt_leaves : Z.of_nat (length (tips t)) <= gpl -> weight_ev g l ev = opt g l md pat t.
  Proof.
    intros Hgpl. apply gls_weight_eq_opt. apply nofire_if_gpl_large; [exact sub_known|].
    pose proof (tips_lca_length isP t) as H. fold sub in H. lia.
  Qed.
End Final.

(* all leaves below the common ancestor of the presences are present: the single gain there *)
Theorem single_gain pat t gpl g l push md :
  (md = 0 \/ md = -1) -> has_present (is_present pat) t = true ->
  (forall n, In n (tips (lca_sub (is_present pat) t)) -> lookup n pat = Some 1) ->
  get_gls pat t gpl g l push md = Ok [(tname (lca_sub (is_present pat) t), 1)].
Proof.
  intros Hmd Hhp Hall. unfold get_gls.
  assert (Hext : forall n, is_present (recode md pat) n = is_present pat n).
  { intros n. apply is_present_recode. destruct Hmd; lia. }
  rewrite (has_present_ext _ _ t Hext), Hhp. cbn [negb].
  rewrite (lca_sub_ext _ _ t Hext).
  assert (Hlk : forall n, In n (tips (lca_sub (is_present pat) t)) -> lookup n (recode md pat) = Some 1).
  { intros n Hn. rewrite lookup_recode, (Hall n Hn). reflexivity. }
  assert (E2 : forallb (fun n => match lookup n (recode md pat) with Some _ => true | None => false end)
                       (tips (lca_sub (is_present pat) t)) = true).
  { apply forallb_forall. intros n Hn. rewrite (Hlk n Hn). reflexivity. }
  rewrite E2. cbn [negb].
  assert (E3 : forallb (fun n => state_of (recode md pat) n =? 1) (tips (lca_sub (is_present pat) t)) = true).
  { apply forallb_forall. intros n Hn. unfold state_of. rewrite (Hlk n Hn). reflexivity. }
  rewrite E3. reflexivity.
Qed.
