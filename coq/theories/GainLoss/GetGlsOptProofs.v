(* C08 for get_gls, algorithm side: the weights of the kept scenarios against the
   dynamic programme [views] (Parsimony.v).
     J1  every kept scenario costs at least what the parent's view of the node says;
     J2  if the gains-per-lineage filter never fires, for each of the two parent's views
         some kept scenario attains it
   (K(v,s) = OPT(v,s) is false for this algorithm; the parent's views are exact). *)
From Coq Require Import ZArith List Bool Lia.
From LV Require Import GainLoss.RoseTree GainLoss.TreeLemmas GainLoss.Replay GainLoss.GetGls
  GainLoss.GetGlsProofs GainLoss.Parsimony.
Import ListNotations.
Local Open Scope Z_scope.

(* ---------- weights ---------- *)

Lemma count_ev_app e a b : count_ev e (a ++ b) = count_ev e a + count_ev e b.
Proof. unfold count_ev. rewrite filter_app, app_length, Nat2Z.inj_add. reflexivity. Qed.

Lemma weight_app g l a b : weight g l (a ++ b) = weight g l a + weight g l b.
Proof. unfold weight, gains, losses. rewrite !count_ev_app. lia. Qed.

Lemma weight_nil g l : weight g l [] = 0.
Proof. reflexivity. Qed.

Lemma sumZ_cons x r : sumZ (x :: r) = x + sumZ r.
Proof. reflexivity. Qed.

Lemma weight_concat g l (sts : list story) : weight g l (concat sts) = sumZ (map (weight g l) sts).
Proof.
  induction sts as [|st sts IH]; [reflexivity|]. cbn [concat map]. rewrite weight_app, sumZ_cons, IH. reflexivity.
Qed.

Definition cnt (e : Z) (ss : list Z) : Z := Z.of_nat (length (filter (fun s => s =? e) ss)).

Lemma cnt_cons e s ss : cnt e (s :: ss) = (if s =? e then 1 else 0) + cnt e ss.
Proof. unfold cnt. cbn [filter]. destruct (s =? e); cbn [length]; lia. Qed.

Lemma cnt_nonneg e ss : 0 <= cnt e ss.
Proof. unfold cnt. lia. Qed.

Lemma count_ev_cons e p st : count_ev e (p :: st) = (if snd p =? e then 1 else 0) + count_ev e st.
Proof. unfold count_ev. cbn [filter]. destruct (snd p =? e); cbn [length]; lia. Qed.

Lemma count_ev_mark e e' ns : forall ss, length ns = length ss ->
  count_ev e' (mark e ns ss) = if e =? e' then cnt e ss else 0.
Proof.
  induction ns as [|n ns IH]; intros [|s ss] HL; cbn [length] in HL; try discriminate.
  - cbn. destruct (e =? e'); reflexivity.
  - cbn [mark]. rewrite cnt_cons. assert (HL' : length ns = length ss) by lia. specialize (IH ss HL').
    destruct (s =? e).
    + rewrite count_ev_cons. cbn [snd]. rewrite IH. destruct (e =? e'); lia.
    + rewrite IH. destruct (e =? e'); lia.
Qed.

Lemma weight_mark0 g l ns ss : length ns = length ss -> weight g l (mark 0 ns ss) = l * cnt 0 ss.
Proof.
  intros HL. unfold weight, gains, losses. rewrite !(count_ev_mark 0 _ ns ss HL). cbn. lia.
Qed.

Lemma weight_mark1 g l ns ss : length ns = length ss -> weight g l (mark 1 ns ss) = g * cnt 1 ss.
Proof.
  intros HL. unfold weight, gains, losses. rewrite !(count_ev_mark 1 _ ns ss HL). cbn. lia.
Qed.

Lemma gains_mark0 ns ss : length ns = length ss -> gains (mark 0 ns ss) = 0.
Proof. intros HL. unfold gains. rewrite (count_ev_mark 0 1 ns ss HL). reflexivity. Qed.

Lemma gains_mark1 ns ss : length ns = length ss -> gains (mark 1 ns ss) = cnt 1 ss.
Proof. intros HL. unfold gains. rewrite (count_ev_mark 1 1 ns ss HL). reflexivity. Qed.

(* ---------- minima of lists ---------- *)

Lemma min_list_le d l : min_list d l <= d /\ forall x, In x l -> min_list d l <= x.
Proof.
  induction l as [|y l [IH1 IH2]]; cbn [min_list fold_right]; [split; [lia|intros x []]|].
  fold (min_list d l). split; [lia|]. intros x [E|H]; [subst; lia|]. specialize (IH2 x H). lia.
Qed.

Lemma min_list_in d l : min_list d l = d \/ In (min_list d l) l.
Proof.
  induction l as [|y l IH]; cbn [min_list fold_right]; [left; reflexivity|]. fold (min_list d l).
  destruct (Z.min_spec y (min_list d l)) as [[_ E]|[_ E]]; rewrite E.
  - right. left. reflexivity.
  - destruct IH as [IH|IH]; [left; exact IH|right; right; exact IH].
Qed.

Lemma keep_min_exists g l ss sc : In sc ss ->
  exists sc', In sc' (keep_min g l ss) /\ weight g l (snd sc') <= weight g l (snd sc).
Proof.
  intros Hin. unfold keep_min. destruct ss as [|x r]; [destruct Hin|].
  set (w := fun s : scen => weight g l (snd s)). set (m := min_list (w x) (map w r)).
  destruct (min_list_le (w x) (map w r)) as [L1 L2]. fold m in L1, L2.
  assert (Hm : forall y, In y (x :: r) -> m <= w y).
  { intros y [E|H]; [subst; exact L1|]. apply L2. apply in_map. exact H. }
  assert (Hex : exists y, In y (x :: r) /\ w y = m).
  { destruct (min_list_in (w x) (map w r)) as [E|H]; fold m in E || fold m in H.
    - exists x. split; [left; reflexivity|symmetry; exact E].
    - apply in_map_iff in H. destruct H as [y [E Hy]]. exists y. split; [right; exact Hy|exact E]. }
  destruct Hex as [y [Hy Ey]]. exists y. split.
  - apply filter_In. split; [exact Hy|]. apply Z.eqb_eq. exact Ey.
  - change (w y <= w sc). rewrite Ey. exact (Hm sc Hin).
Qed.

Lemma filter_all {A} (f : A -> bool) l : forallb f l = true -> filter f l = l.
Proof.
  induction l as [|x l IH]; cbn [forallb filter]; [reflexivity|]. intros H. apply andb_true_iff in H.
  destruct H as [H1 H2]. rewrite H1, (IH H2). reflexivity.
Qed.

(* without the gpl filter, pruning keeps for every scenario one of the same state and at most its weight *)
Lemma prune_keeps gpl g l nn sc : forallb (gpl_ok gpl) nn = true -> In sc nn ->
  exists sc', In sc' (prune gpl g l nn) /\ fst sc' = fst sc /\ weight g l (snd sc') <= weight g l (snd sc).
Proof.
  intros Hall Hin. unfold prune. rewrite (filter_all _ _ Hall).
  destruct (is0 (fst sc)) eqn:E0.
  - destruct (keep_min_exists g l (filter (fun s => is0 (fst s)) nn) sc) as [sc' [H1 H2]].
    { apply filter_In. split; assumption. }
    exists sc'. split; [apply in_or_app; right; apply in_or_app; left; exact H1|]. split; [|exact H2].
    apply keep_min_in in H1. apply filter_In in H1. destruct H1 as [_ H1]. unfold is0 in *.
    apply Z.eqb_eq in H1, E0. congruence.
  - destruct (is1 (fst sc)) eqn:E1.
    + destruct (keep_min_exists g l (filter (fun s => is1 (fst s)) nn) sc) as [sc' [H1 H2]].
      { apply filter_In. split; assumption. }
      exists sc'. split; [apply in_or_app; right; apply in_or_app; right; exact H1|]. split; [|exact H2].
      apply keep_min_in in H1. apply filter_In in H1. destruct H1 as [_ H1]. unfold is1 in *.
      apply Z.eqb_eq in H1, E1. congruence.
    + exists sc. split; [|split; [reflexivity|lia]]. apply in_or_app. left. apply filter_In. split; [exact Hin|].
      rewrite E0, E1. reflexivity.
Qed.

(* ---------- costs as seen from the parent ---------- *)

Section Opt.
  Variable pat : list (Z * Z).          (* recoded pattern: -1 = free leaf *)
  Variables g l : Z.

  Definition V1 (t : tree) : Z := fst (views g l (-1) pat t).
  Definition V0 (t : tree) : Z := snd (views g l (-1) pat t).

  Lemma V1_node n c cs : V1 (Node n (c :: cs)) =
    Z.min (sumZ (map V1 (c :: cs))) (sumZ (map V0 (c :: cs)) + l).
  Proof.
    unfold V1 at 1. change (views g l (-1) pat (Node n (c :: cs))) with
      (let vs := map (views g l (-1) pat) (c :: cs) in
       (Z.min (sumZ (map fst vs)) (sumZ (map snd vs) + l), Z.min (sumZ (map snd vs)) (sumZ (map fst vs) + g))).
    cbv zeta. cbn [fst]. rewrite !map_map. reflexivity.
  Qed.

  Lemma V0_node n c cs : V0 (Node n (c :: cs)) =
    Z.min (sumZ (map V0 (c :: cs))) (sumZ (map V1 (c :: cs)) + g).
  Proof.
    unfold V0 at 1. change (views g l (-1) pat (Node n (c :: cs))) with
      (let vs := map (views g l (-1) pat) (c :: cs) in
       (Z.min (sumZ (map fst vs)) (sumZ (map snd vs) + l), Z.min (sumZ (map snd vs)) (sumZ (map fst vs) + g))).
    cbv zeta. cbn [snd]. rewrite !map_map. reflexivity.
  Qed.

  Definition cost1 (s W : Z) : Z := if s =? 0 then W + l else W.
  Definition cost0 (s W : Z) : Z := if s =? 1 then W + g else W.
  Definition wt (sc : scen) : Z := weight g l (snd sc).

  Definition S1 (combo : list scen) : Z := sumZ (map (fun sc => cost1 (fst sc) (wt sc)) combo).
  Definition S0 (combo : list scen) : Z := sumZ (map (fun sc => cost0 (fst sc) (wt sc)) combo).
  Definition SW (combo : list scen) : Z := sumZ (map wt combo).

  Lemma S1_eq combo : S1 combo = SW combo + l * cnt 0 (map fst combo).
  Proof.
    induction combo as [|sc combo IH]; [cbn; lia|].
    unfold S1, SW in *. cbn [map]. rewrite !sumZ_cons, cnt_cons, IH. unfold cost1. destruct (fst sc =? 0); lia.
  Qed.

  Lemma S0_eq combo : S0 combo = SW combo + g * cnt 1 (map fst combo).
  Proof.
    induction combo as [|sc combo IH]; [cbn; lia|].
    unfold S0, SW in *. cbn [map]. rewrite !sumZ_cons, cnt_cons, IH. unfold cost0. destruct (fst sc =? 1); lia.
  Qed.

  Lemma weight_story combo : weight g l (concat (map snd combo)) = SW combo.
  Proof. rewrite weight_concat, map_map. reflexivity. Qed.

  Lemma forallb_cnt0 (f : Z -> bool) ss e : (forall s, f s = true -> s <> e) -> forallb f ss = true -> cnt e ss = 0.
  Proof.
    intros Hf. induction ss as [|s ss IH]; [reflexivity|]. cbn [forallb]. intros H. apply andb_true_iff in H.
    destruct H as [H1 H2]. rewrite cnt_cons, (IH H2). destruct (Z.eqb_spec s e) as [E|_]; [|reflexivity].
    exfalso. exact (Hf s H1 E).
  Qed.

  Lemma not_all_exists (f h : Z -> bool) ss :
    forallb f ss = false -> forallb (fun s => h s || f s) ss = true -> exists s, In s ss /\ h s = true.
  Proof.
    induction ss as [|s ss IH]; cbn [forallb]; [discriminate|]. intros H1 H2.
    apply andb_true_iff in H2. destruct H2 as [H2 H3].
    destruct (f s) eqn:Ef.
    - cbn in H1. destruct (IH H1 H3) as [s' [Hin Hs]]. exists s'. split; [right; exact Hin|exact Hs].
    - exists s. split; [left; reflexivity|]. rewrite orb_false_r in H2. exact H2.
  Qed.

  Lemma cnt_pos e ss s : In s ss -> s = e -> 1 <= cnt e ss.
  Proof.
    intros Hin E. subst s. induction ss as [|s ss IH]; [destruct Hin|]. rewrite cnt_cons.
    destruct Hin as [E|Hin]; [subst; rewrite Z.eqb_refl; pose proof (cnt_nonneg e ss); lia|].
    specialize (IH Hin). destruct (s =? e); lia.
  Qed.

  (* the scenarios produced from one combination, classified *)
  Inductive produced (cnames : list Z) (combo : list scen) : Prop :=
  | PM : forallb isM (map fst combo) = true ->
         combine_node cnames combo = [(-1, concat (map snd combo))] -> produced cnames combo
  | P1 : cnt 0 (map fst combo) = 0 -> 1 <= cnt 1 (map fst combo) ->
         combine_node cnames combo = [(1, concat (map snd combo))] -> produced cnames combo
  | P0 : cnt 1 (map fst combo) = 0 -> 1 <= cnt 0 (map fst combo) ->
         combine_node cnames combo = [(0, concat (map snd combo))] -> produced cnames combo
  | PX : forallb (fun s => is1 s || isM s) (map fst combo) = false ->
         forallb (fun s => is0 s || isM s) (map fst combo) = false ->
         combine_node cnames combo =
           [(1, concat (map snd combo) ++ mark 0 cnames (map fst combo));
            (0, concat (map snd combo) ++ mark 1 cnames (map fst combo))] -> produced cnames combo.

  Lemma produced_cases cnames combo : produced cnames combo.
  Proof.
    unfold combine_node.
    destruct (forallb isM (map fst combo)) eqn:EM; [apply PM; [exact EM|]; unfold combine_node; rewrite EM; reflexivity|].
    destruct (forallb (fun s => is1 s || isM s) (map fst combo)) eqn:E1.
    { apply P1; [| |unfold combine_node; rewrite EM, E1; reflexivity].
      - apply (forallb_cnt0 _ _ 0) in E1; [exact E1|]. intros s Hs E. subst s. discriminate Hs.
      - destruct (not_all_exists isM is1 _ EM E1) as [s [Hin Hs]]. unfold is1 in Hs. apply Z.eqb_eq in Hs.
        exact (cnt_pos 1 _ s Hin Hs). }
    destruct (forallb (fun s => is0 s || isM s) (map fst combo)) eqn:E0.
    { apply P0; [| |unfold combine_node; rewrite EM, E1, E0; reflexivity].
      - apply (forallb_cnt0 _ _ 1) in E0; [exact E0|]. intros s Hs E. subst s. discriminate Hs.
      - destruct (not_all_exists isM is0 _ EM E0) as [s [Hin Hs]]. unfold is0 in Hs. apply Z.eqb_eq in Hs.
        exact (cnt_pos 0 _ s Hin Hs). }
    apply PX; [exact E1|exact E0|]. unfold combine_node. rewrite EM, E1, E0. reflexivity.
  Qed.

  Lemma allM_cnt ss e : e <> -1 -> forallb isM ss = true -> cnt e ss = 0.
  Proof. intros He. apply forallb_cnt0. intros s Hs E. unfold isM in Hs. apply Z.eqb_eq in Hs. lia. Qed.

  (* J1, one step: a produced scenario of state 1 costs at least S1 (the sum seen from a
     present node), one of state 0 at least S0, an all-missing one at least both *)
  Lemma produced_ge cnames combo sc : length cnames = length combo ->
    In sc (combine_node cnames combo) ->
    (fst sc = 1 /\ S1 combo <= wt sc) \/ (fst sc = 0 /\ S0 combo <= wt sc) \/
    (fst sc = -1 /\ S1 combo <= wt sc /\ S0 combo <= wt sc).
  Proof.
    intros HL Hin. assert (HL' : length cnames = length (map fst combo)) by (rewrite map_length; exact HL).
    rewrite S1_eq, S0_eq.
    destruct (produced_cases cnames combo) as [EM E|C0 C1 E|C1 C0 E|_ _ E]; rewrite E in Hin.
    - destruct Hin as [Hs|[]]. subst sc. unfold wt. cbn [fst snd]. rewrite weight_story.
      rewrite (allM_cnt _ 0 ltac:(lia) EM), (allM_cnt _ 1 ltac:(lia) EM). right. right. lia.
    - destruct Hin as [Hs|[]]. subst sc. unfold wt. cbn [fst snd]. rewrite weight_story, C0. left. lia.
    - destruct Hin as [Hs|[]]. subst sc. unfold wt. cbn [fst snd]. rewrite weight_story, C1. right. left. lia.
    - destruct Hin as [Hs|[Hs|[]]]; subst sc; unfold wt; cbn [fst snd]; rewrite weight_app, weight_story.
      + rewrite (weight_mark0 g l _ _ HL'). left. lia.
      + rewrite (weight_mark1 g l _ _ HL'). right. left. lia.
  Qed.

  (* J2, one step: for each parent's view something is produced that costs no more
     than the sum (needs non-negative weights) *)
  Lemma produced_le cnames combo : length cnames = length combo -> 0 <= g -> 0 <= l ->
    (exists sc, In sc (combine_node cnames combo) /\ cost1 (fst sc) (wt sc) <= S1 combo) /\
    (exists sc, In sc (combine_node cnames combo) /\ cost1 (fst sc) (wt sc) <= S0 combo + l) /\
    (exists sc, In sc (combine_node cnames combo) /\ cost0 (fst sc) (wt sc) <= S0 combo) /\
    (exists sc, In sc (combine_node cnames combo) /\ cost0 (fst sc) (wt sc) <= S1 combo + g).
  Proof.
    intros HL Hg Hl. assert (HL' : length cnames = length (map fst combo)) by (rewrite map_length; exact HL).
    rewrite S1_eq, S0_eq.
    pose proof (cnt_nonneg 0 (map fst combo)) as N0. pose proof (cnt_nonneg 1 (map fst combo)) as N1.
    destruct (produced_cases cnames combo) as [EM E|C0 C1 E|C1 C0 E|_ _ E]; rewrite E.
    - repeat split; exists (-1, concat (map snd combo)); (split; [left; reflexivity|]);
        unfold wt; cbn [fst snd]; rewrite weight_story; unfold cost1, cost0; cbn; nia.
    - repeat split; exists (1, concat (map snd combo)); (split; [left; reflexivity|]);
        unfold wt; cbn [fst snd]; rewrite weight_story; unfold cost1, cost0; cbn; nia.
    - repeat split; exists (0, concat (map snd combo)); (split; [left; reflexivity|]);
        unfold wt; cbn [fst snd]; rewrite weight_story; unfold cost1, cost0; cbn; nia.
    - split; [|split; [|split]].
      + exists (1, concat (map snd combo) ++ mark 0 cnames (map fst combo)). split; [left; reflexivity|].
        unfold wt. cbn [fst snd]. rewrite weight_app, weight_story, (weight_mark0 g l _ _ HL'). unfold cost1. cbn. lia.
      + exists (0, concat (map snd combo) ++ mark 1 cnames (map fst combo)). split; [right; left; reflexivity|].
        unfold wt. cbn [fst snd]. rewrite weight_app, weight_story, (weight_mark1 g l _ _ HL'). unfold cost1. cbn. lia.
      + exists (0, concat (map snd combo) ++ mark 1 cnames (map fst combo)). split; [right; left; reflexivity|].
        unfold wt. cbn [fst snd]. rewrite weight_app, weight_story, (weight_mark1 g l _ _ HL'). unfold cost0. cbn. lia.
      + exists (1, concat (map snd combo) ++ mark 0 cnames (map fst combo)). split; [left; reflexivity|].
        unfold wt. cbn [fst snd]. rewrite weight_app, weight_story, (weight_mark0 g l _ _ HL'). unfold cost0. cbn. lia.
  Qed.

  Lemma sumZ_le {A B} (f : A -> Z) (h : B -> Z) l1 l2 :
    Forall2 (fun a b => f a <= h b) l1 l2 -> sumZ (map f l1) <= sumZ (map h l2).
  Proof. induction 1; cbn [map]; rewrite ?sumZ_cons; [cbn|]; lia. Qed.

  Variable gpl : Z.

  Definition J1 (t : tree) (sc : scen) : Prop :=
    V1 t <= cost1 (fst sc) (wt sc) /\ V0 t <= cost0 (fst sc) (wt sc).

  (* J1: every kept scenario costs at least the parent's view of the node (any gpl) *)
  Theorem kept_ge_views t : tips_known pat t ->
    forall sc, In sc (scen_of pat gpl g l t) -> J1 t sc.
  Proof.
    induction t as [n cs IH] using tree_ind'. intros Hk sc Hin.
    destruct cs as [|c0 cs0].
    - cbn in Hin. destruct Hin as [E|[]]. subst sc. unfold J1, V1, V0, wt. cbn [views fst snd]. rewrite weight_nil.
      destruct (Hk n (or_introl eq_refl)) as [s [El Hs]]. unfold state_of, leaf_views. rewrite El.
      unfold cost1, cost0.
      destruct Hs as [E|[E|E]]; subst s; cbn; lia.
    - apply scen_of_node_in in Hin. destruct Hin as [combo [HF Hc]].
      assert (HL : length (map tname (c0 :: cs0)) = length combo).
      { rewrite map_length. exact (Forall2_length' _ _ _ HF). }
      pose proof (produced_ge _ combo sc HL Hc) as G.
      assert (HJ : Forall2 (fun c sc' => J1 c sc') (c0 :: cs0) combo).
      { rewrite Forall_forall in IH. apply (Forall2_impl (fun d x => In x (scen_of pat gpl g l d))); [|exact HF].
        intros c sc' Hcin Hsc'. apply (IH c Hcin); [|exact Hsc'].
        intros m Hm. apply Hk. exact (tips_child n _ c m Hcin Hm). }
      assert (L1 : sumZ (map V1 (c0 :: cs0)) <= S1 combo).
      { unfold S1. apply sumZ_le. apply (Forall2_impl _ _ _ _ (fun a b _ H => proj1 H) HJ). }
      assert (L0 : sumZ (map V0 (c0 :: cs0)) <= S0 combo).
      { unfold S0. apply sumZ_le. apply (Forall2_impl _ _ _ _ (fun a b _ H => proj2 H) HJ). }
      unfold J1. rewrite V1_node, V0_node.
      remember (sumZ (map V1 (c0 :: cs0))) as o1. remember (sumZ (map V0 (c0 :: cs0))) as o0.
      unfold cost1, cost0. destruct G as [[Es G]|[[Es G]|[Es [G G']]]]; rewrite Es; cbn; lia.
  Qed.

  (* the gains-per-lineage filter never fires in the subtree *)
  Fixpoint nofire (t : tree) : bool :=
    match t with
    | Node n [] => true
    | Node n cs =>
        forallb (gpl_ok gpl) (new_nodes (map tname cs) (map (scen_of pat gpl g l) cs)) && forallb nofire cs
    end.

  Lemma nofire_node n c cs : nofire (Node n (c :: cs)) =
    forallb (gpl_ok gpl) (new_nodes (map tname (c :: cs)) (map (scen_of pat gpl g l) (c :: cs)))
    && forallb nofire (c :: cs).
  Proof. reflexivity. Qed.

  Definition E1 (t : tree) : Prop := exists sc, In sc (scen_of pat gpl g l t) /\ cost1 (fst sc) (wt sc) <= V1 t.
  Definition E0 (t : tree) : Prop := exists sc, In sc (scen_of pat gpl g l t) /\ cost0 (fst sc) (wt sc) <= V0 t.

  Lemma Forall_exists_Forall2 {A B} (P : A -> B -> Prop) xs :
    Forall (fun a => exists b, P a b) xs -> exists bs, Forall2 P xs bs.
  Proof.
    induction 1 as [|a xs [b Hb] _ [bs IH]]; [exists []; constructor|]. exists (b :: bs). constructor; assumption.
  Qed.

  Lemma in_new_nodes cs combo sc :
    Forall2 (fun d x => In x (scen_of pat gpl g l d)) cs combo ->
    In sc (combine_node (map tname cs) combo) ->
    In sc (new_nodes (map tname cs) (map (scen_of pat gpl g l) cs)).
  Proof.
    intros HF Hin. unfold new_nodes. apply in_flat_map. exists combo. split; [|exact Hin].
    apply product_in. apply Forall2_map_l. exact HF.
  Qed.

  Lemma cost1_mono s W W' : W <= W' -> cost1 s W <= cost1 s W'.
  Proof. unfold cost1. destruct (s =? 0); lia. Qed.
  Lemma cost0_mono s W W' : W <= W' -> cost0 s W <= cost0 s W'.
  Proof. unfold cost0. destruct (s =? 1); lia. Qed.

  (* J2: without the filter, each parent's view is attained by a kept scenario *)
  Theorem views_attained t : 0 <= g -> 0 <= l -> nofire t = true -> E1 t /\ E0 t.
  Proof.
    intros Hg Hl. induction t as [n cs IH] using tree_ind'. intros Hnf.
    destruct cs as [|c0 cs0].
    - unfold E1, E0, V1, V0, wt. cbn [scen_of views]. unfold leaf_views, state_of.
      split; exists (match lookup n pat with Some s => s | None => 0 end, []); (split; [left; reflexivity|]);
        cbn [fst snd]; rewrite weight_nil; unfold cost1, cost0; destruct (lookup n pat) as [s|]; cbn;
        try lia;
        destruct (Z.eqb_spec s 1); cbn; try lia; destruct (Z.eqb_spec s (-1)); cbn; try lia;
        destruct (Z.eqb_spec s 0); cbn; lia.
    - rewrite nofire_node in Hnf. apply andb_true_iff in Hnf. destruct Hnf as [Hok Hkids].
      remember (c0 :: cs0) as cs eqn:Ecs.
      assert (HE : Forall (fun c => E1 c /\ E0 c) cs).
      { rewrite Forall_forall in IH |- *. rewrite forallb_forall in Hkids. intros c Hc. exact (IH c Hc (Hkids c Hc)). }
      assert (step : forall (bound : Z) (combo : list scen) (cost : Z -> Z -> Z),
                 (forall s W W', W <= W' -> cost s W <= cost s W') ->
                 Forall2 (fun d x => In x (scen_of pat gpl g l d)) cs combo ->
                 (exists sc, In sc (combine_node (map tname cs) combo) /\ cost (fst sc) (wt sc) <= bound) ->
                 exists sc, In sc (scen_of pat gpl g l (Node n cs)) /\ cost (fst sc) (wt sc) <= bound).
      { intros bound combo cost Hmono HF [sc [Hin Hle]].
        destruct (prune_keeps gpl g l _ sc Hok (in_new_nodes cs combo sc HF Hin)) as [sc' [H1 [H2 H3]]].
        exists sc'. split; [subst cs; exact H1|]. rewrite H2. unfold wt in *. specialize (Hmono (fst sc) _ _ H3). lia. }
      assert (pick1 : exists combo, Forall2 (fun d x => In x (scen_of pat gpl g l d)) cs combo /\
                                    S1 combo <= sumZ (map V1 cs)).
      { destruct (Forall_exists_Forall2 (fun c sc => In sc (scen_of pat gpl g l c) /\ cost1 (fst sc) (wt sc) <= V1 c) cs)
          as [combo HF].
        { apply (Forall_impl _ (fun c H => proj1 H) HE). }
        exists combo. split; [exact (Forall2_impl _ _ _ _ (fun a b _ H => proj1 H) HF)|].
        unfold S1. clear -HF. induction HF as [|c sc cs combo [_ H] _ IH]; cbn [map]; rewrite ?sumZ_cons; [cbn; lia|lia]. }
      assert (pick0 : exists combo, Forall2 (fun d x => In x (scen_of pat gpl g l d)) cs combo /\
                                    S0 combo <= sumZ (map V0 cs)).
      { destruct (Forall_exists_Forall2 (fun c sc => In sc (scen_of pat gpl g l c) /\ cost0 (fst sc) (wt sc) <= V0 c) cs)
          as [combo HF].
        { apply (Forall_impl _ (fun c H => proj2 H) HE). }
        exists combo. split; [exact (Forall2_impl _ _ _ _ (fun a b _ H => proj1 H) HF)|].
        unfold S0. clear -HF. induction HF as [|c sc cs combo [_ H] _ IH]; cbn [map]; rewrite ?sumZ_cons; [cbn; lia|lia]. }
      destruct pick1 as [combo1 [HF1 B1]]. destruct pick0 as [combo0 [HF0 B0]].
      assert (HL1 : length (map tname cs) = length combo1) by (rewrite map_length; exact (Forall2_length' _ _ _ HF1)).
      assert (HL0 : length (map tname cs) = length combo0) by (rewrite map_length; exact (Forall2_length' _ _ _ HF0)).
      destruct (produced_le _ combo1 HL1 Hg Hl) as [A1 [_ [_ D1]]].
      destruct (produced_le _ combo0 HL0 Hg Hl) as [_ [B0' [C0 _]]].
      assert (EV1 : V1 (Node n cs) = Z.min (sumZ (map V1 cs)) (sumZ (map V0 cs) + l)) by (subst cs; apply V1_node).
      assert (EV0 : V0 (Node n cs) = Z.min (sumZ (map V0 cs)) (sumZ (map V1 cs) + g)) by (subst cs; apply V0_node).
      unfold E1, E0. rewrite EV1, EV0.
      remember (sumZ (map V1 cs)) as o1. remember (sumZ (map V0 cs)) as o0.
      split.
      + destruct (Z.min_spec o1 (o0 + l)) as [[_ Em]|[_ Em]]; rewrite Em.
        * apply (step o1 combo1 cost1 cost1_mono HF1). destruct A1 as [sc [Hi Hc]]. exists sc. split; [exact Hi|lia].
        * apply (step (o0 + l) combo0 cost1 cost1_mono HF0). destruct B0' as [sc [Hi Hc]]. exists sc. split; [exact Hi|lia].
      + destruct (Z.min_spec o0 (o1 + g)) as [[_ Em]|[_ Em]]; rewrite Em.
        * apply (step o0 combo0 cost0 cost0_mono HF0). destruct C0 as [sc [Hi Hc]]. exists sc. split; [exact Hi|lia].
        * apply (step (o1 + g) combo1 cost0 cost0_mono HF1). destruct D1 as [sc [Hi Hc]]. exists sc. split; [exact Hi|lia].
  Qed.
End Opt.
