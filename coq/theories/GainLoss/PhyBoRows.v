(* From the rows of a wordlist to the patterns PhyBo analyses, and the bookkeeping of one
   PhyBo.get_GLS run.  Models (no proofs here):
     Wordlist.get_paps (basic/wordlist.py) as PhyBo uses it: ref = the 'pap' column
       "<cogid>:<glid>", i.e. one cognate set of ONE concept, missing marker -1:
       1  = the language has a reflex (one or more rows) of that set for that concept,
       -1 = the language has no word at all for the concept,
       0  = it has a word for the concept, but none in the set;
     PhyBo.__init__: cognate sets with exactly one value >= 1 are excluded when singletons=True;
     PhyBo.get_GLS: the loop over self.cogs with the per-run pattern -> (scenario, origins) hash. *)
From Coq Require Import ZArith List Bool.
From LV Require Import Common.Cases GainLoss.RoseTree GainLoss.GetGls GainLoss.GetGLSr GainLoss.TopDown GainLoss.PhyBoGlue.
Import ListNotations.
Local Open Scope Z_scope.

(* a row of the wordlist: (language, concept, cognate id) *)
Definition row := (Z * Z * Z)%type.
Definition r_lang (r : row) : Z := fst (fst r).
Definition r_con (r : row) : Z := snd (fst r).
Definition r_cog (r : row) : Z := snd r.

Definition has_reflex (rows : list row) (cog con x : Z) : bool :=
  existsb (fun r => (r_lang r =? x) && (r_con r =? con) && (r_cog r =? cog)) rows.
Definition has_word (rows : list row) (con x : Z) : bool :=
  existsb (fun r => (r_lang r =? x) && (r_con r =? con)) rows.

(* get_paps(ref='pap', missing=-1)[(cog, con)], one entry per taxon *)
Definition paps_of_rows (rows : list row) (taxa : list Z) (cog con : Z) : list Z :=
  map (fun x => if has_reflex rows cog con x then 1 else if has_word rows con x then 0 else -1) taxa.

(* PhyBo.__init__: sum([1 for p in paps[key] if p >= 1]) == 1 *)
Definition is_singleton (paps : list Z) : bool :=
  Z.of_nat (length (filter (fun p => p >=? 1) paps)) =? 1.

(* --- one run of get_GLS over the cognate sets, with the pattern hash --- *)

Definition noo (r : result) : Z :=        (* number of origins = sum of the event values *)
  match r with Ok ev => gains ev | Err _ => 0 end.

Fixpoint hash_find (p : list Z) (h : list (list Z * result)) : option result :=
  match h with
  | [] => None
  | (q, r) :: rest => if Cases.list_eqb Z.eqb q p then Some r else hash_find p rest
  end.

Fixpoint run_cogs (f : list Z -> result) (h : list (list Z * result)) (pats : list (list Z)) : list result :=
  match pats with
  | [] => []
  | p :: rest =>
      match hash_find p h with
      | Some r => r :: run_cogs f h rest                  (* "Skipping already calculated pattern" *)
      | None => let r := f p in r :: run_cogs f ((p, r) :: h) rest
      end
  end.

(* the whole pipeline for one cognate set: rows -> pattern -> scenario *)
Definition phybo_of_rows (rows : list row) (taxa : list Z) (cog con : Z) (t : tree) (m : glmode)
           (gpl : Z) (push : bool) (md : Z) : result :=
  phybo_per_cog (combine taxa (paps_of_rows rows taxa cog con)) t m gpl push md.
