(* C07 for PhyBo._get_GLS (modes 'w' and 'r'): whatever scenario survives the weight /
   restriction / gains-per-lineage filters and the final selection reproduces the pattern.
   The proof does not look at the filters: every candidate the three-way split can
   produce satisfies the replay invariant [SInv] of GetGlsProofs.v. *)
From Coq Require Import ZArith List Bool Lia.
From LV Require Import GainLoss.RoseTree GainLoss.TreeLemmas GainLoss.Replay GainLoss.ReplayProofs
  GainLoss.GetGls GainLoss.GetGlsProofs GainLoss.GetGlsTopProofs GainLoss.GetGLSr.
Import ListNotations.
Local Open Scope Z_scope.

(* ---------- extensionality on the tips ---------- *)

Lemma has_present_ext_tips isP isP' t :
  (forall n, In n (tips t) -> isP n = isP' n) -> has_present isP t = has_present isP' t.
Proof.
  induction t as [n cs IH] using tree_ind'. intros H. destruct cs as [|c0 cs0]; [cbn; apply H; left; reflexivity|].
  rewrite !has_present_node. remember (c0 :: cs0) as cs eqn:Ecs.
  assert (Hc : forall c, In c cs -> forall m, In m (tips c) -> isP m = isP' m).
  { intros c Hc m Hm. apply H. rewrite Ecs in Hc |- *. exact (tips_child n _ c m Hc Hm). }
  clear Ecs H. induction cs as [|c cs IHc]; [reflexivity|]. inversion IH as [|y r Hy Hr]; subst. cbn [existsb].
  rewrite (Hy (Hc c (or_introl eq_refl))), (IHc Hr); [reflexivity|]. intros d Hd. apply Hc. right. exact Hd.
Qed.

Lemma lca_sub_ext_tips isP isP' t :
  (forall n, In n (tips t) -> isP n = isP' n) -> lca_sub isP t = lca_sub isP' t.
Proof.
  induction t as [n cs IH] using tree_ind'. intros H. rewrite !lca_sub_node.
  assert (E : flat_map (lca_step isP) cs = flat_map (lca_step isP') cs).
  { destruct cs as [|c0 cs0]; [reflexivity|]. remember (c0 :: cs0) as cs' eqn:Ecs.
    assert (Hc : forall c, In c cs' -> forall m, In m (tips c) -> isP m = isP' m).
    { intros c Hc m Hm. apply H. rewrite Ecs in Hc |- *. exact (tips_child n _ c m Hc Hm). }
    clear Ecs H. induction cs' as [|c cs' IHc]; [reflexivity|]. inversion IH as [|y r Hy Hr]; subst. cbn [flat_map].
    unfold lca_step at 1 3.
    rewrite (has_present_ext_tips isP isP' c (Hc c (or_introl eq_refl))), (Hy (Hc c (or_introl eq_refl))).
    rewrite (IHc Hr); [reflexivity|]. intros d Hd. apply Hc. right. exact Hd. }
  rewrite E. reflexivity.
Qed.

Lemma present_ge1_is_present pat t : tips_known pat t ->
  forall n, In n (tips t) -> present_ge1 pat n = is_present pat n.
Proof.
  intros Hk n Hn. destruct (Hk n Hn) as [s [El Hs]]. unfold present_ge1, is_present. rewrite El.
  destruct Hs as [E|[E|E]]; subst s; reflexivity.
Qed.

(* ---------- helpers ---------- *)

Definition to_scen (x : rnode) : scen := (rs x, rst x).

Lemma all_some_spec {A} (l : list (option A)) : forall xs, all_some l = Some xs -> Forall2 (fun o x => o = Some x) l xs.
Proof.
  induction l as [|o l IH]; intros xs H; cbn [all_some] in H.
  - inversion H. constructor.
  - destruct o as [x|]; [|discriminate]. destruct (all_some l) as [ys|]; [|discriminate]. inversion H; subst.
    constructor; [reflexivity|apply IH; reflexivity].
Qed.

Lemma Forall2_map_r {A B C} (R : A -> C -> Prop) (f : B -> C) l1 l2 :
  Forall2 R l1 (map f l2) <-> Forall2 (fun a b => R a (f b)) l1 l2.
Proof.
  revert l2. induction l1 as [|a l1 IH]; intros l2; destruct l2 as [|b l2]; cbn [map]; split; intros HH;
    inversion HH; subst; constructor; try assumption; apply IH; assumption.
Qed.

Lemma in_combine_map_r {A B C} (f : B -> C) (l1 : list A) (l2 : list B) a c :
  In (a, c) (combine l1 (map f l2)) -> exists b, c = f b /\ In (a, b) (combine l1 l2).
Proof.
  revert l2. induction l1 as [|x l1 IH]; intros l2; destruct l2 as [|y l2]; cbn [map combine In]; intros Hin;
    try contradiction.
  destruct Hin as [E|Hin]; [inversion E; subst; exists y; auto|]. destruct (IH l2 Hin) as [b [Eb Hb]]. exists b. auto.
Qed.

Lemma rmark_in e ns ss p : In p (rmark e ns ss) -> In (fst p) ns /\ snd p = e.
Proof.
  revert ss. induction ns as [|n ns IH]; intros ss; destruct ss as [|s ss]; cbn [rmark]; try (intros HF; contradiction).
  destruct ((s =? e) || (s =? -1)).
  - intros [E|H]; [subst; cbn; auto|]. destruct (IH ss H) as [H1 H2]. split; [right; exact H1|exact H2].
  - intros H. destruct (IH ss H) as [H1 H2]. split; [right; exact H1|exact H2].
Qed.

Lemma lookup_rmark e (cs : list tree) : forall (combo : list rnode) c x,
  NoDup (map tname cs) -> In (c, x) (combine cs combo) ->
  lookup (tname c) (rmark e (map tname cs) (map rs combo)) = if (rs x =? e) || (rs x =? -1) then Some e else None.
Proof.
  induction cs as [|c0 cs IH]; intros [|x0 combo] c x Hd Hin; try destruct Hin.
  - inversion H; subst. cbn [map rmark]. destruct ((rs x =? e) || (rs x =? -1)).
    + cbn [lookup]. rewrite Z.eqb_refl. reflexivity.
    + apply lookup_none. intros I. unfold keys in I. apply in_map_iff in I. destruct I as [p [Ep Hp]].
      apply rmark_in in Hp. cbn [map] in Hd. inversion Hd as [|y l Hn Hd']; subst. apply Hn. rewrite <- Ep. exact (proj1 Hp).
  - cbn [map] in Hd. inversion Hd as [|y l Hn Hd']; subst.
    assert (Hne : tname c0 <> tname c).
    { intros E. apply Hn. rewrite E. apply in_map. exact (in_combine_l _ _ _ _ H). }
    cbn [map rmark]. destruct ((rs x0 =? e) || (rs x0 =? -1)).
    + cbn [lookup]. destruct (Z.eqb_spec (tname c0) (tname c)) as [E|_]; [contradiction|]. exact (IH combo c x Hd' H).
    + exact (IH combo c x Hd' H).
Qed.

Section RInv.
  Variable pat : list (Z * Z).        (* recoded pattern *)
  Variable mode : gmode.
  Variable gpl : Z.

  Lemma rst_concat (combo : list rnode) : concat (map rst combo) = concat (map snd (map to_scen combo)).
  Proof. rewrite map_map. reflexivity. Qed.

  Lemma rs_states (combo : list rnode) : map rs combo = map fst (map to_scen combo).
  Proof. rewrite map_map. reflexivity. Qed.

  (* every candidate of the three-way split is a valid scenario for the node *)
  Lemma rstep_inv n cs combo x :
    Forall2 (fun c y => SInv pat c (to_scen y)) cs combo -> NoDup (names (Node n cs)) -> cs <> [] ->
    In x (rstep mode gpl (map tname cs) combo) -> SInv pat (Node n cs) (to_scen x).
  Proof.
    intros HF0 Hdn Hne Hin.
    assert (HF : Forall2 (SInv pat) cs (map to_scen combo)) by (apply Forall2_map_r; exact HF0).
    assert (Hd : NoDup (flat_map names cs)). { cbn [names] in Hdn. inversion Hdn; assumption. }
    assert (Hdn' := NoDup_child_names cs Hd).
    assert (Hst : forall c sc, In (c, sc) (combine cs (map to_scen combo)) -> In (fst sc) (map rs combo)).
    { intros c sc H. destruct (in_combine_map_r _ _ _ _ _ H) as [y [E Hy]]. subst sc. cbn [to_scen fst].
      apply in_map. exact (in_combine_r _ _ _ _ Hy). }
    unfold rstep in Hin.
    destruct (forallb (fun s => is1 s || isM s) (map rs combo)) eqn:E1.
    { match type of Hin with In x (if ?c then _ else _) => destruct c end; [|destruct Hin].
      destruct Hin as [E|[]]. subst x. unfold to_scen. cbn [rs rst]. rewrite forallb_forall in E1. split; [|split].
      - cbn [snd]. intros p Hp. rewrite rst_concat in Hp. exact (combo_events pat n cs _ p HF Hp).
      - cbn. auto.
      - cbn [fst snd]. intros b [Hb _]. rewrite (Hb eq_refl). rewrite rst_concat, <- (app_nil_r (concat _)).
        apply combo_story_ok; try assumption; [intros p []|].
        intros c sc H. specialize (E1 _ (Hst c sc H)). unfold is1, isM in E1. apply orb_true_iff in E1.
        cbn. split; [reflexivity|]. intros E0. destruct E1 as [E1|E1]; apply Z.eqb_eq in E1; lia. }
    destruct (forallb (fun s => is0 s || isM s) (map rs combo)) eqn:E0.
    { match type of Hin with In x (if ?c then _ else _) => destruct c end; [|destruct Hin].
      destruct Hin as [E|[]]. subst x. unfold to_scen. cbn [rs rst]. rewrite forallb_forall in E0. split; [|split].
      - cbn [snd]. intros p Hp. rewrite rst_concat in Hp. exact (combo_events pat n cs _ p HF Hp).
      - cbn. auto.
      - cbn [fst snd]. intros b [_ Hb]. rewrite (Hb eq_refl). rewrite rst_concat, <- (app_nil_r (concat _)).
        apply combo_story_ok; try assumption; [intros p []|].
        intros c sc H. specialize (E0 _ (Hst c sc H)). unfold is0, isM in E0. apply orb_true_iff in E0.
        cbn. split; [|reflexivity]. intros E1'. destruct E0 as [E0|E0]; apply Z.eqb_eq in E0; lia. }
    (* mixed *)
    assert (Hmark : forall e p, (e = 1 \/ e = 0) -> In p (rmark e (map tname cs) (map rs combo)) ->
                                In (fst p) (sdesc (Node n cs)) /\ (snd p = 1 \/ snd p = 0)).
    { intros e p He Hp. apply rmark_in in Hp. destruct Hp as [H1 H2]. split; [|rewrite H2; exact He].
      apply in_map_iff in H1. destruct H1 as [c [E Hc]]. rewrite <- E.
      apply (child_names_in_sdesc n cs c _ Hc). apply tname_in_names. }
    apply in_app_or in Hin. destruct Hin as [Hin|Hin];
      (match type of Hin with In x (if ?c then _ else _) => destruct c end; [|destruct Hin]);
      destruct Hin as [E|[]]; subst x; unfold to_scen; cbn [rs rst]; (split; [|split]).
    - cbn [snd]. intros p Hp. apply in_app_or in Hp. destruct Hp as [Hp|Hp].
      + rewrite rst_concat in Hp. exact (combo_events pat n cs _ p HF Hp).
      + exact (Hmark 1 p (or_introl eq_refl) Hp).
    - cbn. auto.
    - cbn [fst snd]. intros b [_ Hb]. rewrite (Hb eq_refl). rewrite rst_concat.
      apply combo_story_ok; try assumption.
      + intros p Hp. exact (proj1 (rmark_in _ _ _ _ Hp)).
      + intros c sc H. destruct (in_combine_map_r _ _ _ _ _ H) as [y [Ey Hy]]. subst sc. cbn [to_scen fst].
        unfold node_state. rewrite (lookup_rmark 1 cs combo c y Hdn' Hy).
        destruct (Z.eqb_spec (rs y) 1) as [Es|Ns]; cbn [orb]; [cbn; split; intros; [reflexivity|lia]|].
        destruct (Z.eqb_spec (rs y) (-1)) as [Em|Nm]; cbn; split; intros; try reflexivity; lia.
    - cbn [snd]. intros p Hp. apply in_app_or in Hp. destruct Hp as [Hp|Hp].
      + rewrite rst_concat in Hp. exact (combo_events pat n cs _ p HF Hp).
      + exact (Hmark 0 p (or_intror eq_refl) Hp).
    - cbn. auto.
    - cbn [fst snd]. intros b [Hb _]. rewrite (Hb eq_refl). rewrite rst_concat.
      apply combo_story_ok; try assumption.
      + intros p Hp. exact (proj1 (rmark_in _ _ _ _ Hp)).
      + intros c sc H. destruct (in_combine_map_r _ _ _ _ _ H) as [y [Ey Hy]]. subst sc. cbn [to_scen fst].
        unfold node_state. rewrite (lookup_rmark 0 cs combo c y Hdn' Hy).
        destruct (Z.eqb_spec (rs y) 0) as [Es|Ns]; cbn [orb]; [cbn; split; intros; [lia|reflexivity]|].
        destruct (Z.eqb_spec (rs y) (-1)) as [Em|Nm]; cbn; split; intros; try reflexivity; lia.
  Qed.

  Variables maxG maxL : Z.

  Lemma rnodes_node n c cs :
    rnodes pat mode gpl maxG maxL (Node n (c :: cs)) =
    match all_some (map (rnodes pat mode gpl maxG maxL) (c :: cs)) with
    | None => None
    | Some ls => match flat_map (rstep mode gpl (map tname (c :: cs))) (product ls) with
                 | [] => None
                 | nn => Some nn
                 end
    end.
  Proof. reflexivity. Qed.

  (* every scenario kept at any node replays correctly inside that node's subtree *)
  Theorem rnodes_inv t : NoDup (names t) -> tips_known pat t ->
    forall l, rnodes pat mode gpl maxG maxL t = Some l -> forall x, In x l -> SInv pat t (to_scen x).
  Proof.
    induction t as [n cs IH] using tree_ind'. intros Hd Hk l Hl x Hx. destruct cs as [|c0 cs0].
    - cbn [rnodes] in Hl. inversion Hl; subst l. destruct Hx as [E|[]]. subst x. unfold to_scen. cbn [rs rst].
      destruct (Hk n (or_introl eq_refl)) as [s [El Hs]]. unfold state_of. rewrite El.
      assert (Es : (if s >=? 1 then 1 else s) = s) by (destruct Hs as [E|[E|E]]; subst s; reflexivity).
      rewrite Es. split; [|split].
      + intros p [].
      + exact Hs.
      + cbn [fst snd]. intros b [H1 H0]. unfold all_ok. cbn. unfold okb, leaf_okb. cbn [fst snd]. rewrite El.
        destruct (Z.eqb_spec s 1) as [E1|N1]; [rewrite (H1 E1); reflexivity|].
        destruct (Z.eqb_spec s 0) as [E0|N0]; [rewrite (H0 E0); reflexivity|].
        destruct (Z.eqb_spec s (-1)) as [EM|NM]; [reflexivity|lia].
    - rewrite rnodes_node in Hl.
      destruct (all_some (map (rnodes pat mode gpl maxG maxL) (c0 :: cs0))) as [ls|] eqn:Els; [|discriminate].
      assert (Hnn : In x (flat_map (rstep mode gpl (map tname (c0 :: cs0))) (product ls))).
      { destruct (flat_map (rstep mode gpl (map tname (c0 :: cs0))) (product ls)) as [|y r]; [discriminate|].
        inversion Hl; subst l. exact Hx. }
      apply in_flat_map in Hnn. destruct Hnn as [combo [Hcombo Hstep]].
      apply product_in in Hcombo. apply all_some_spec in Els. apply Forall2_map_l in Els.
      apply (rstep_inv n (c0 :: cs0) combo x); [|exact Hd|discriminate|exact Hstep].
      rewrite Forall_forall in IH. clear -IH Els Hcombo Hd Hk.
      remember (c0 :: cs0) as cs eqn:Ecs.
      assert (Hsub : forall c, In c cs -> NoDup (names c) /\ tips_known pat c).
      { intros c Hc. split; [exact (NoDup_child n cs c Hd Hc)|].
        intros m Hm. apply Hk. rewrite Ecs in Hc |- *. exact (tips_child n _ c m Hc Hm). }
      clear Ecs Hd Hk. revert combo Hcombo. induction Els as [|c l cs ls Hcl Hrest IHl]; intros combo Hcombo.
      + inversion Hcombo. constructor.
      + inversion Hcombo as [|l' y ls' combo' Hy Hr]; subst. constructor.
        * destruct (Hsub c (or_introl eq_refl)) as [Hdc Hkc]. exact (IH c (or_introl eq_refl) Hdc Hkc l Hcl y Hy).
        * apply IHl; [intros d Hd; apply IH; right; exact Hd|intros d Hd; apply Hsub; right; exact Hd|exact Hr].
  Qed.
End RInv.

(* ---------- selection returns one of the candidates ---------- *)

Lemma first_best_in better key best l : first_best better key best l = best \/ In (first_best better key best l) l.
Proof.
  revert best. induction l as [|x r IH]; intros best; cbn [first_best]; [left; reflexivity|].
  destruct (better (key x) (key best)).
  - destruct (IH x) as [E|H]; [right; left; auto|right; right; exact H].
  - destruct (IH best) as [E|H]; [left; exact E|right; right; exact H].
Qed.

Lemma rselect_w_in r0 r1 push fin ev : rselect_w r0 r1 push fin = Some ev -> In ev fin.
Proof.
  unfold rselect_w. destruct fin as [|x r]; [discriminate|].
  destruct (filter _ (x :: r)) as [|y r'] eqn:E; [discriminate|]. intros H. inversion H; subst. clear H.
  assert (Hsub : forall z, In z (y :: r') -> In z (x :: r)).
  { intros z Hz. rewrite <- E in Hz. apply filter_In in Hz. exact (proj1 Hz). }
  apply Hsub. destruct (first_best_in (if push then Z.gtb else Z.ltb) gains y r') as [H|H]; [left; auto|right; exact H].
Qed.

Lemma fold_pick_in {A} (f : A -> Z) (l : list A) : forall acc,
  snd (fold_left (fun (a : Z * A) s => if f s <? fst a then (f s, s) else a) l acc) = snd acc \/
  In (snd (fold_left (fun (a : Z * A) s => if f s <? fst a then (f s, s) else a) l acc)) l.
Proof.
  induction l as [|x l IH]; intros acc; cbn [fold_left]; [left; reflexivity|].
  destruct (f x <? fst acc).
  - destruct (IH (f x, x)) as [E|H]; [right; left; cbn in E; auto|right; right; exact H].
  - destruct (IH acc) as [E|H]; [left; exact E|right; right; exact H].
Qed.

Lemma rselect_r_in whole ntaxa fin ev : rselect_r whole ntaxa fin = Some ev -> In ev fin.
Proof.
  unfold rselect_r. destruct fin as [|x r]; [discriminate|]. cbv zeta.
  match goal with |- match ?X with [] => None | _ => _ end = _ -> _ => destruct X as [|y r'] eqn:E end; [discriminate|].
  intros H. inversion H; subst ev. clear H.
  assert (Hsub : forall z, In z (y :: r') -> In z (x :: r)).
  { intros z Hz. rewrite <- E in Hz. apply filter_In in Hz. destruct Hz as [Hz _].
    apply filter_In in Hz. exact (proj1 Hz). }
  apply Hsub.
  match goal with |- In (snd (fold_left ?F r' ?acc)) _ =>
    destruct (fold_pick_in (fun s => sumZl (map (fun p => if snd p =? 1 then ntips_of whole (fst p) else 0) s)) r' acc)
      as [Ea|Ha] end.
  - left. rewrite Ea. match goal with |- y = snd (if ?c then _ else _) => destruct c end; reflexivity.
  - right. exact Ha.
Qed.

(* ---------- the theorem ---------- *)

Theorem get_GLSr_replays pat t mode gpl push md ev :
  NoDup (names t) -> pattern_known pat t -> (md = 0 \/ md = -1) ->
  get_GLSr pat t mode gpl push md = Ok ev ->
  reproduces md pat t ev.
Proof.
  intros Hd Hpk Hmd H. unfold get_GLSr in H.
  set (pat' := recode md pat) in *.
  assert (Hk' : tips_known pat' t) by exact (tips_known_recode md pat t Hmd Hpk).
  assert (Hext : forall n, In n (tips t) -> present_ge1 pat' n = is_present pat' n)
    by exact (present_ge1_is_present pat' t Hk').
  rewrite (has_present_ext_tips _ _ t Hext) in H. rewrite (lca_sub_ext_tips _ _ t Hext) in H.
  set (isP := is_present pat') in *. set (sub := lca_sub isP t) in *.
  destruct (has_present isP t) eqn:Ehp; [|discriminate]. cbn [negb] in H.
  assert (Hksub : tips_known pat' sub). { intros m Hm. apply Hk'. exact (tips_subset_lca isP t m Hm). }
  assert (Hdsub : NoDup (names sub)) by exact (NoDup_lca isP t Hd).
  assert (Hgoal : (forall p, In p ev -> In (fst p) (names sub) /\ (snd p = 1 \/ snd p = 0)) /\
                  forallb (okb pat') (replay false ev sub) = true).
  { match type of H with (if negb ?c then _ else _) = _ => destruct c end; [|discriminate]. cbn [negb] in H.
    match type of H with (if ?c then _ else _) = _ => destruct c eqn:Eall end.
    - (* single origin *)
      inversion H; subst ev. clear H. split.
      + intros p [E|[]]. subst p. cbn [fst snd]. split; [apply tname_in_names|auto].
      + unfold replay. assert (En : node_state false (tname sub) [(tname sub, 1)] = true).
        { unfold node_state. cbn [lookup]. rewrite Z.eqb_refl. reflexivity. }
        rewrite En. apply forallb_forall. intros p Hp.
        destruct (replay_below_no_events sub true [(tname sub, 1)]) with (p := p) as [Hs Ht].
        * intros m Hm. cbn [lookup]. destruct (Z.eqb_spec (tname sub) m) as [E|_]; [|reflexivity].
          exfalso. apply (tname_not_sdesc sub Hdsub). rewrite E. exact Hm.
        * exact Hp.
        * destruct (Hksub _ Ht) as [s [El Hs']]. unfold okb, leaf_okb. rewrite El, Hs.
          assert (E1 : s = 1).
          { destruct (is_tip sub) eqn:Etip.
            - (* the subtree is a single tip: it is the presence *)
              destruct sub as [m [|c cs]] eqn:Esub; [|discriminate Etip]. cbn in Ht. destruct Ht as [E|[]].
              assert (Hp' := lca_has_present isP t Ehp). fold sub in Hp'. rewrite Esub in Hp'. cbn in Hp'.
              unfold isP, is_present in Hp'. rewrite E in Hp'. rewrite El in Hp'. apply Z.eqb_eq in Hp'. exact Hp'.
            - rewrite forallb_forall in Eall. specialize (Eall _ Ht). unfold state_of in Eall. rewrite El in Eall.
              destruct Hs' as [E|[E|E]]; subst s; [reflexivity|discriminate|discriminate]. }
          subst s. reflexivity.
    - destruct (rnodes pat' mode gpl _ _ sub) as [roots|] eqn:Er; [|discriminate].
      assert (Hin : In ev (map (rfinish (tname sub)) roots)).
      { destruct mode as [r0 r1|r].
        - destruct (rselect_w r0 r1 push (map (rfinish (tname sub)) roots)) as [ev'|] eqn:Es; [|discriminate].
          inversion H; subst ev'. exact (rselect_w_in _ _ _ _ _ Es).
        - destruct (rselect_r t (Z.of_nat (length pat)) (map (rfinish (tname sub)) roots)) as [ev'|] eqn:Es; [|discriminate].
          inversion H; subst ev'. exact (rselect_r_in _ _ _ _ Es). }
      apply in_map_iff in Hin. destruct Hin as [x [Ex Hx]].
      assert (HI := rnodes_inv pat' mode gpl _ _ sub Hdsub Hksub roots Er x Hx).
      destruct HI as [Hevs [Hst Hrep]]. unfold to_scen in *. cbn [fst snd] in *.
      assert (Hnone : lookup (tname sub) (rst x) = None).
      { apply lookup_none. intros I. unfold keys in I. apply in_map_iff in I. destruct I as [p [Ep Hp]].
        apply (tname_not_sdesc sub Hdsub). rewrite <- Ep. exact (proj1 (Hevs p Hp)). }
      unfold rfinish in Ex. destruct (Z.eqb_spec (rs x) 1) as [E1|N1].
      + subst ev. split.
        * intros p [E|Hp]; [subst p; cbn; split; [apply tname_in_names|auto]|].
          destruct (Hevs p Hp) as [Ha Hb]. split; [apply sdesc_in_names; exact Ha|exact Hb].
        * unfold replay. assert (En : node_state false (tname sub) ((tname sub, 1) :: rst x) = true).
          { unfold node_state. cbn [lookup]. rewrite Z.eqb_refl. reflexivity. }
          rewrite En. rewrite (replay_below_ext sub true _ (rst x)).
          -- apply Hrep. split; [reflexivity|lia].
          -- intros m Hm. cbn [lookup]. destruct (Z.eqb_spec (tname sub) m) as [E|_]; [|reflexivity].
             exfalso. apply (tname_not_sdesc sub Hdsub). rewrite E. exact Hm.
      + subst ev. split.
        * intros p Hp. destruct (Hevs p Hp) as [Ha Hb]. split; [apply sdesc_in_names; exact Ha|exact Hb].
        * unfold replay. unfold node_state at 1. rewrite Hnone. apply Hrep. split; [intros; contradiction|reflexivity]. }
  destruct Hgoal as [Hnames Hok]. split.
  - intros p Hp. apply leaf_okb_spec. rewrite (leaf_okb_recode md pat p Hmd).
    assert (Hall := whole_tree_ok pat' t ev Hd Hk' (fun q Hq => proj1 (Hnames q Hq)) Hok).
    rewrite forallb_forall in Hall. exact (Hall p Hp).
  - intros n e Hin. destruct (Hnames (n, e) Hin) as [Ha Hb]. split; [|exact Hb].
    exact (lca_names_subset isP t n Ha).
Qed.
