"""C20 - sound-class models load correctly whatever state the user cache is in.

proof obligations (Props/C20.v over Runtime/Cache*.v, with the sequence regenerated from settings.py)
+ fault enumeration against the real files, compared inside Coq with the model (harness/comp/cache.py)."""
import glob
import itertools
import json
import multiprocessing
import os
import pathlib
import random
import shutil
import traceback
from concurrent.futures import ThreadPoolExecutor

from ..comp import cache as comp
from ..lib import coqrun, driver, env, proofs, report
from ..translate import settings_models

PROP = "C20"
PROP_BITS = (1, 2, 3, 4, 5, 6)
CORPUS = os.path.join(env.VERIF, "corpus", "cache")


def inproc(family, faults, rmdir=False, starts=2):
    return {"kind": "inproc", "family": family, "rounds": [{"faults": dict(faults), "rmdir": rmdir, "starts": starts}]}


def ops(*calls):
    return {"ops": [list(c) for c in calls]}


def entry_file(call):
    return (("dvt_el" if call[1] in ("el", "evolaemp") else "dvt") if call[0] == "dvt" else call[1] + ".converter") + ".pkl"


def cut_offsets(size, n, rng):
    """n truncation points in 1..size-1, always including 1 and size-1."""
    pts = {1, size - 1} if size > 2 else {1}
    pool = list(range(2, size - 1))
    rng.shuffle(pool)
    for k in pool:
        if len(pts) >= n:
            break
        pts.add(k)
    return sorted(p for p in pts if 0 < p < size)


def random_faults(rng, files, sizes, p=None):
    p = p if p is not None else rng.choice([0.15, 0.3, 0.5, 0.8, 1.0])
    faults = {}
    for f in files:
        if rng.random() < p:
            c = rng.random()
            if c < 0.35:
                faults[f] = ("del",)
            elif c < 0.6:
                faults[f] = ("cut", 0)
            else:
                faults[f] = ("cut", rng.choice([1, sizes[f] - 1, rng.randrange(1, sizes[f]), rng.randrange(1, sizes[f])]))
    return faults


def build_streams(lab, tier, seed, consulted):
    rng = random.Random(seed)
    files = sorted(lab.ref_bytes)
    sizes = {f: len(b) for f, b in lab.ref_bytes.items()}
    pool_entries = {entry_file(c) for c in lab.pool}
    quick = tier == "quick"
    # 1. every file x {deleted, emptied, truncated}
    every = ops(*lab.pool)                                      # every modelled call, twice: the 2nd is quiet
    single = [inproc("intact", {}), inproc("intact", {}, starts=[every, every, "import"])]
    for f in files:
        st = 2 if f in lab.import_files else [every, every]
        single.append(inproc("deleted", {f: ("del",)}, starts=st))
        single.append(inproc("emptied", {f: ("cut", 0)}, starts=st))
        if quick:
            pts = cut_offsets(sizes[f], 16, rng)
            if f in consulted or f in pool_entries:     # every early byte position (headers, framing)
                pts = sorted(set(pts) | set(range(1, min(64, sizes[f]))))
        elif f in consulted or f in pool_entries:
            pts = list(range(1, sizes[f]))                     # every byte offset
        else:
            pts = cut_offsets(sizes[f], 250, rng)              # dense sample of the never-read entries
        single += [inproc("truncated", {f: ("cut", k)}, starts=st) for k in pts]
    # 2. all subsets of the consulted files x {deleted, emptied}; thorough: all 3^n mixed states
    subsets = []
    cons = sorted(consulted)
    if quick:
        for r in range(2, len(cons) + 1):
            for sub in itertools.combinations(cons, r):
                subsets.append(inproc("subset-deleted", {f: ("del",) for f in sub}))
                if rng.random() < 0.4:                                   # quick: a sample of the emptied subsets
                    subsets.append(inproc("subset-emptied", {f: ("cut", 0) for f in sub}))
    else:
        for combo in itertools.product((None, ("del",), ("cut", 0)), repeat=len(cons)):
            fl = {f: op for f, op in zip(cons, combo) if op}
            if len(fl) >= 2:
                subsets.append(inproc("subset-mixed", fl))
    subsets.append(inproc("directory-removed", {}, rmdir=True))
    subsets.append(inproc("directory-removed", {}, rmdir="parent"))
    subsets.append(inproc("all-deleted", {f: ("del",) for f in files}))
    subsets.append(inproc("all-emptied", {f: ("cut", 0) for f in files}))
    # 3. random multi-file states (all 13 files, truncations, foreign files)
    rand = []
    for _ in range(250 if quick else 2000):
        fl = random_faults(rng, files, sizes)
        if rng.random() < 0.15:
            fl["notes.txt" if rng.random() < 0.5 else "old.converter.pkl"] = ("add", rng.randrange(0, 5))
        st = 2
        if rng.random() < 0.5:          # calls outside the import sequence first, then restarts
            st = [ops(*[rng.choice(lab.pool) for _ in range(rng.randrange(1, 7))]), "import", "import"]
        rand.append(inproc("random", fl, rmdir=False, starts=st))
    # 3b. call histories: load_dvt with every accepted spelling of its path / the *_el models on a damaged
    #     entry, then a restart whose inventories and models are compared with the reference, then another
    hist = []
    aliases = [c for c in lab.pool if c[0] == "dvt"]
    models = [c for c in lab.pool if c[0] == "model"]
    for a in aliases:
        f = entry_file(a)
        for dmg in [{}, {f: ("del",)}, {f: ("cut", 0)}, {f: ("cut", 1)}, {f: ("cut", sizes[f] - 1)},
                    {f: ("cut", rng.randrange(1, sizes[f]))}, {"dvt.pkl": ("del",), "dvt_el.pkl": ("del",)},
                    {"dvt.pkl": ("cut", 0), "dvt_el.pkl": ("cut", rng.randrange(1, sizes["dvt_el.pkl"]))}]:
            hist.append(inproc("alias-history", dmg, starts=[ops(a), "import", "import"]))
            hist.append(inproc("alias-history", dmg, starts=[ops(a), ops(*aliases), "import"]))
        hist.append(inproc("alias-history", {}, rmdir=True, starts=[ops(a), "import", "import"]))
    el = [c for c in lab.pool if c == ("dvt", "el") or c[1].endswith("_el")]
    for _ in range(40 if quick else 1500):
        fl = random_faults(rng, files, sizes)
        k = rng.random()
        calls = el if k < 0.3 else [rng.choice(lab.pool) for _ in range(rng.randrange(1, 6))]
        again = [rng.choice(lab.pool) for _ in range(rng.randrange(1, 4))]
        hist.append(inproc("call-history", fl, rmdir=(rng.random() < 0.05),
                           starts=[ops(*calls), "import", ops(*again), "import"]))
    # 3c. sessions: rc(schema=v) for every spelling of every branch (and an unknown one) on damaged
    #     entries of that branch, switching back and forth, then restarts
    spellings = [n for b in lab.schemas for n in b["names"]] + ["no-such-schema"]
    for v in spellings:
        bfiles = sorted({entry_file(c) for c in lab.expand([("schema", v)])})
        dmgs = [{}] + [{f: op} for f in bfiles[:3] for op in (("del",), ("cut", 0), ("cut", rng.randrange(1, sizes[f])))]
        dmgs.append({f: rng.choice([("del",), ("cut", 0), ("cut", 1)]) for f in bfiles})
        for dmg in (dmgs if (not quick or v in ("asjp", "ipa", "evolaemp")) else dmgs[:3] + dmgs[-1:]):
            other = rng.choice(spellings)
            hist.append(inproc("schema-session", dmg, starts=[ops(("schema", v)), ops(("schema", v)), "import"]))
            hist.append(inproc("schema-session", dmg, starts=["import", ops(("schema", v), ("schema", other), ("schema", v)),
                                                              "import"]))
    for _ in range(25 if quick else 600):
        hist.append(inproc("schema-session", random_faults(rng, files, sizes),
                           starts=["import", ops(*[("schema", rng.choice(spellings)) for _ in range(rng.randrange(1, 4))]),
                                   ops(*[rng.choice(lab.pool + [("schema", rng.choice(spellings))]) for _ in range(3)]),
                                   "import"]))
    for m in models:
        f = entry_file(m)
        hist.append(inproc("model-call", {f: ("cut", rng.randrange(0, sizes[f]))}, starts=[ops(m), ops(m), "import"]))
    # 4. real interpreters: random multi-file states and restart sequences
    subs = []
    for i in range(30 if quick else 500):
        nr = rng.choice([1, 2, 2, 3]) if quick else rng.choice([1, 2, 3, 4, 5])
        rounds = []
        for j in range(nr):
            c = rng.random()
            rd = {"faults": random_faults(rng, files, sizes), "rmdir": False, "starts": 1 if rng.random() < 0.7 else 2}
            if rng.random() < 0.35:      # calls after the import in the same interpreter, then a restart
                rd["starts"] = [ops(*[rng.choice(aliases if rng.random() < 0.5 else
                                                 [("schema", sp) for sp in spellings] if rng.random() < 0.6 else lab.pool)
                                      for _ in range(rng.randrange(1, 4))]), "import"]
            if c < 0.08:
                rd["rmdir"] = rng.choice([True, "parent"])
            rounds.append(rd)
        case = {"kind": "sub", "family": "restarts", "id": "s%d" % i, "rounds": rounds,
                "hashseed": rng.choice([0, 1, 12345, "random"]),
                "seed_state": "absent" if rng.random() < 0.2 else "reference"}
        if case["seed_state"] == "absent":
            rounds[0]["faults"] = {}
            rounds[0]["rmdir"] = False
        subs.append(case)
    return [("cache_single_file", single), ("cache_subsets", subsets), ("cache_random", rand),
            ("cache_call_histories", hist),
            ("cache_interpreter_restarts", subs)]


def corpus_cases():
    out = []
    for p in sorted(glob.glob(os.path.join(CORPUS, "*.json"))):
        c = comp.from_json(json.load(open(p)))
        c.setdefault("family", "corpus:" + os.path.basename(p))
        out.append(c)
    return out


def start_subs(lab, cases):
    """The interpreter-level cases run in worker threads (they only wait for child processes)
    while the main thread does the in-process streams.  Returns a function that waits for them."""
    def work(c):
        try:
            return c["id"], comp.run_case(lab, c)
        except Exception as e:      # reported by run_stream as "implementation raised"
            return c["id"], e
    ex = ThreadPoolExecutor(max_workers=max(1, env.JOBS // 2))
    futs = [ex.submit(work, c) for c in cases]

    def wait(cancel=False):
        if cancel:
            ex.shutdown(wait=True, cancel_futures=True)
            return
        for f in futs:
            cid, r = f.result()
            comp.SUB_RESULTS[cid] = r
        ex.shutdown()
    return wait


def _worker_init():
    """Forked worker: lingpy is imported and comp.LAB is set up; only the scratch directory differs."""
    lab = comp.LAB
    lab.work = pathlib.Path(lab.root, "inproc-%d" % os.getpid(), lab.version_dir)


def _worker_run(case):
    try:
        return case["id"], comp.run_case(comp.LAB, case)
    except Exception as e:
        return case["id"], RuntimeError("%s: %s" % (type(e).__name__, e))


def setup_lab(run, tag=""):
    """Translator + first start on an absent cache.  Returns (lab, info) or (None, None) after reporting."""
    try:
        info = settings_models.extract()
    except Exception as e:
        run.violation({"kind": "translator failed", "no_longer_checks": "harness/translate/settings_models.py: " + str(e)},
                      no_input=True)
        return None, None
    for st in info["steps"]:
        files = dict(info["dirs"]).get(st["arg"], [])
        if st["kind"] == "model" and "scorer" in files and "matrix" not in files:
            # starting the library would write a `matrix` file into the package: never do that
            run.violation({"kind": "outside the modelled fragment", "no_longer_checks":
                           "settings.py instantiates Model(%r) whose directory has a scorer tree but no matrix; "
                           "compile_model would write into the package data" % st["arg"]}, no_input=True)
            return None, None
    lab = comp.Lab(env.SRC, info["steps"], tag, dirs=info["dirs"], schemas=info["schemas"])
    try:
        lab.boot()
    except BaseException as e:      # noqa: `import lingpy` itself failed on an absent cache directory
        if isinstance(e, (KeyboardInterrupt, SystemExit)):
            raise
        run.violation({"kind": "the start on an absent cache directory raised, or built objects that differ from what the data files say (first `import lingpy`, "
                               "XDG_CACHE_HOME pointing at an empty directory)",
                       "case": {"kind": "sub", "rounds": [{"faults": {}, "rmdir": True, "starts": 1}]},
                       "error": "%s: %s" % (type(e).__name__, e), "traceback": traceback.format_exc()[-2500:]},
                      no_input=False)
        lab.close()
        return None, None
    comp.LAB = lab
    return lab, info


def main(tier, seed):
    run = report.Run(PROP, tier, seed)
    pr = proofs.check_property(PROP, gen=[settings_models.generate])
    proofs_ok = run.proofs(pr)
    lab, info = setup_lab(run)
    total_prop = total_corr = 0
    counts = {}
    if lab is not None:
        try:
            consulted = {("dvt_el" if s["arg"] in ("el", "evolaemp") else "dvt") + ".pkl" if s["kind"] == "dvt"
                         else s["arg"] + ".converter.pkl" for s in info["steps"]}
            streams = build_streams(lab, tier, seed, consulted)
            corp = corpus_cases()
            if corp:
                streams.insert(0, ("cache_corpus", corp))
            subs = [c for _, cs in streams for c in cs if c["kind"] == "sub"]
            n = 0
            for _, cs in streams:
                for c in cs:
                    if c["kind"] == "inproc":
                        n += 1
                        c["id"] = "i%d" % n
            # worker processes are forked before any thread exists
            pool = multiprocessing.get_context("fork").Pool(max(1, env.JOBS - env.JOBS // 2), initializer=_worker_init)
            wait_subs = start_subs(lab, subs)
            d = coqrun.rundir(PROP)
            try:
                streams.sort(key=lambda nc: any(c["kind"] == "sub" for c in nc[1]))   # interpreter cases last
                for name, cases in streams:
                    if wait_subs and any(c["kind"] == "sub" for c in cases):
                        wait_subs()
                        wait_subs = None
                        counts["interpreter_starts"] = sum(
                            len(r["starts"]) for c in subs if isinstance(comp.SUB_RESULTS[c["id"]], dict)
                            for r in comp.SUB_RESULTS[c["id"]]["rounds"])
                    for cid, r in pool.imap_unordered(_worker_run, [c for c in cases if c["kind"] == "inproc"],
                                                      chunksize=8):
                        comp.SUB_RESULTS[cid] = r
                    st = driver.run_stream(run, comp, cases, d, name, "cache_case", "cache_case_code", PROP_BITS,
                                           shard=150)
                    total_prop += st["prop_fail"] + st["impl_errors"]
                    total_corr += st["corr_fail"]
            except coqrun.CoqError as e:
                run.violation({"kind": "model does not evaluate", "no_longer_checks": "Runtime/CacheExec.v",
                               "error": str(e)[-2000:]}, no_input=True)
            finally:
                pool.terminate()
                pool.join()
                if wait_subs:
                    wait_subs(cancel=True)
                shutil.rmtree(d, ignore_errors=True)
            pool_entries = {entry_file(c) for c in lab.pool}
            unconsulted = sorted(f for f in lab.ref_bytes if f not in consulted and f not in pool_entries)
            c = run.coverage
            c["consulted_entries"] = sorted(consulted)
            c["entries_consulted_by_calls_outside_the_import_sequence"] = sorted(pool_entries - consulted)
            c["modelled_calls"] = [list(x) for x in lab.pool]
            c["unconsulted_entries_written_but_never_read"] = unconsulted
            c["reference_file_sizes"] = {f: len(b) for f, b in lab.ref_bytes.items()}
            c["interpreter_level"] = counts
            c["decoder_hypothesis_checks"] = dict(lab.dec_checks)
        finally:
            lab.close()
    if not proofs_ok and not total_prop and all(no_input for _, no_input in run.violations):
        run.violation({"kind": "proof obligation broken", "no_longer_checks": pr["broken"], "log": pr["log"][-1500:]},
                      no_input=True)
    c = run.coverage
    c["rule"] = (
        "a case = the reference cache (the files written by a start on an absent cache plus those written by the "
        "calls outside the import sequence: load_dvt('' / 'el' / 'evolaemp'), Model(d) for every well-formed data "
        "directory) + damage + a history of starts (`import lingpy`) and such calls, every object handed out being "
        "compared over all keys with what the data files say (read without lingpy code, NFC). "
        "Streams: every file x {deleted, emptied, truncated at %s}; %s of the consulted files; seeded random "
        "multi-file states incl. foreign files and a removed directory; call histories (each path alias of load_dvt "
        "on a damaged entry, then restarts; the *_el family; random calls between restarts; sessions with "
        "rc(schema=v) for every accepted spelling and an unknown one, the branch being selected inside Coq from the "
        "regenerated if/elif chain of settings.rc); %d real interpreters (`import lingpy`, "
        "XDG_CACHE_HOME redirected) over random multi-file states and restart sequences. "
        "Non-trivial = at least one start had to rebuild an entry (a cache.dump happened); distinct by the damage."
        % ("every offset < 64 of the consulted files + 16 offsets incl. 1 and size-1" if tier == "quick" else
           "every byte offset (consulted files) / 250 offsets (never-read scorer files)",
           "all subsets deleted, 40% sample of the subsets emptied," if tier == "quick" else "all 3^8 mixed {intact, deleted, emptied} states",
           30 if tier == "quick" else 500))
    c["exhaustive"] = False
    c["trusted_base"] += [
        "DECODER HYPOTHESIS (explicit premise of every C20 theorem, not proved): pickle.load of a complete pickle "
        "returns the object, and pickle.load of the empty file or of a strict prefix of a complete pickle raises; "
        "observed through the code's own decoder cache.load (open + unpickle as lingpy/cache.py does it). "
        "Checked on every file of every damaged state of this run (bit 5), never contradicted",
        "the model cannot exhibit pickle or the file system: cache entries are abstract contents with enc/dec; "
        "proved is the fallback logic (try load / on any failure compile and load again) for every cache state",
        "translator harness/translate/settings_models.py (fail-closed ast): settings.py -> import sequence, "
        "data/models -> files present; any other import-time cache consumer in the package makes it raise",
        "reference objects: harness/comp/cache.py source_objects reads data/models/*/{converter,matrix,diacritics,"
        "vowels,tones} itself (utf-8-sig, NFC) - a second, independent reading of the file formats",
        "correspondence check: harness/comp/cache.py wraps cache.load/dump, compile_model/compile_dvt, Model.__init__, "
        "load_dvt from outside and re-executes lingpy/settings.py; event trace, values, and files afterwards are "
        "compared with Runtime/Cache.import_run inside Coq (vm_compute)",
        "not modelled: permissions, disk full, a cache path that is not a directory, concurrent starts, "
        "data files changing between starts, decodable-but-stale cache files (outside the property's fault model)"]
    run.assumptions += ["decoder hypothesis (see trusted_base)",
                        "data files under data/models are well formed (compile_model / compile_dvt do not raise on them)"]
    return run.finish()


def replay(path):
    rep = json.load(open(path))
    if "case" not in rep:
        print(json.dumps(rep, indent=1)[:3000])
        return 1
    run = report.Run(PROP + "-replay", "quick", 0)
    lab, info = setup_lab(run, "-replay")
    if lab is None:
        return 1
    try:
        case = comp.from_json(rep["case"])
        case["id"] = "replay"
        res = comp.run_case(lab, case)
        d = coqrun.rundir(PROP + "_replay")
        lit = comp.render(case, res)       # before comp.IMPORTS is read: rendering adds Definitions to it
        bad = coqrun.eval_cases(d, "replay", comp.IMPORTS, "cache_case", "cache_case_code", [lit])
        code = bad.get(0, 0)
        res.pop("_lit", None)
        print(json.dumps({"code": code, "failed": [comp.BITS[k] for k in range(8) if code >> k & 1],
                          "damage": [r["faults"] for r in case["rounds"]],
                          "starts": [[{"ok": s["ok"], "error": s["error"], "events": s["events"], "vals": s["vals"]}
                                      for s in r["starts"]] for r in res["rounds"]]}, default=str)[:5000])
        shutil.rmtree(d, ignore_errors=True)
        return 1 if code else 0
    finally:
        lab.close()
