"""C07 - a gain-loss scenario reproduces the presence/absence pattern it explains.
(C08 reuses this module with its own property bits.)"""
import json
import random

from ..comp import gainloss as gl
from ..lib import coqrun, driver, env, proofs, report

PROP = "C07"
PROP_BITS = (1, 6)            # replay checker / conflicting events, on implementation outputs
ALL_BITS = {"C07": (1, 6), "C08": (2, 3, 4)}


def gls_streams(tier, seed):
    rng = random.Random(seed)
    quick = tier == "quick"
    out = []
    # exhaustive small scope: all ordered tree shapes x all patterns over {1,0,-1} with a presence
    full = gl.config_grid([(1, 1), (2, 1), (1, 2), (3, 2), (70, 30)], [0, 1, 2, 9])
    small = gl.config_grid([(1, 1), (2, 1), (1, 2), (40, 25)], [1, 9], pushes=(True,))
    exh = []
    for n in (2, 3):
        exh += list(gl.exhaustive_gls_cases(n, full))
    if quick:
        c4 = list(gl.exhaustive_gls_cases(4, small))
        exh += c4
        c5 = list(gl.exhaustive_gls_cases(5, gl.config_grid([(1, 1), (2, 1), (1, 2), (3, 2), (70, 30), (40, 25), (5, 3)],
                                                            [0, 1, 2, 9])))
        exh += rng.sample(c5, 3500)
    else:
        exh += list(gl.exhaustive_gls_cases(4, full))
        exh += list(gl.exhaustive_gls_cases(5, small))
        c5 = list(gl.exhaustive_gls_cases(5, full))
        exh += rng.sample(c5, 30000)
    out.append(("gls_exhaustive", exh, "gls_case", "gls_case_code"))
    nrand = 2500 if quick else 40000
    out.append(("gls_random", [gl.gen_gls_case(rng, 3, 9 if quick else 11) for _ in range(nrand)],
                "gls_case", "gls_case_code"))
    # one unresolved node with >= 10 two-leaf clades: more than 1000 combinations of child scenarios
    out.append(("gls_wide", [gl.gen_gls_wide_case(rng) for _ in range(8 if quick else 60)],
                "gls_case", "gls_case_code"))
    return out


def glsr_streams(tier, seed):
    rng = random.Random(seed + 1)
    quick = tier == "quick"
    modes = [("w", (1, 1)), ("w", (2, 1)), ("w", (1, 2)), ("r", 1), ("r", 2), ("r", 3), ("r", -1), ("r", -2)]
    exh = []
    for n in (2, 3):
        exh += list(gl.exhaustive_glsr_cases(n, modes, gpls=(1, 2, 3), pushes=(True, False)))
    c4 = list(gl.exhaustive_glsr_cases(4, modes, gpls=(1, 2)))
    exh += rng.sample(c4, 2500) if quick else c4
    if not quick:
        c5 = list(gl.exhaustive_glsr_cases(5, modes[:2] + modes[4:6], gpls=(2,)))
        exh += rng.sample(c5, 15000)
    nrand = 2000 if quick else 25000
    return [("glsr_exhaustive", exh, "glsr_case", "glsr_case_code"),
            ("glsr_random", [gl.gen_glsr_case(rng, 3, 8 if quick else 9) for _ in range(nrand)],
             "glsr_case", "glsr_case_code")]


def td_streams(tier, seed):
    rng = random.Random(seed + 2)
    quick = tier == "quick"
    exh = []
    for n in (2, 3, 4):
        exh += list(gl.exhaustive_td_cases(n))
    c5 = list(gl.exhaustive_td_cases(5))
    exh += rng.sample(c5, 2500) if quick else c5
    nrand = 3000 if quick else 30000
    return [("topdown_exhaustive", exh, "td_case", "td_case_code"),
            ("topdown_random", [gl.gen_td_case(rng, 3, 9 if quick else 11) for _ in range(nrand)],
             "td_case", "td_case_code")]


def phybo_streams(tier, seed):
    rng = random.Random(seed + 3)
    n = 60 if tier == "quick" else 1000
    h = 40 if tier == "quick" else 600
    return [("phybo_get_GLS", [gl.gen_phybo_case(rng) for _ in range(n)], "phybo_case", "phybo_case_code"),
            ("phybo_history", [gl.gen_phybo_history_case(rng) for _ in range(h)], "phybo_case", "phybo_case_code")]


def phybo_weighted_streams(tier, seed):
    """C08: the weighted mode through PhyBo.get_GLS (plain three-mode runs, where the weighted call comes first,
    and histories of weighted calls on one object)."""
    rng = random.Random(seed + 5)
    n = 50 if tier == "quick" else 800
    h = 60 if tier == "quick" else 800
    return [("phybo_get_GLS", [gl.gen_phybo_case(rng) for _ in range(n)], "phybo_case", "phybo_case_code"),
            ("phybo_weighted_history", [gl.gen_phybo_weighted_history_case(rng) for _ in range(h)],
             "phybo_case", "phybo_case_code")]


def corpus_streams(kinds):
    import glob
    import os
    by_kind = {}
    for path in sorted(glob.glob(os.path.join(env.VERIF, "corpus", "gainloss", "*.json"))):
        c = gl.from_json(json.load(open(path)))
        by_kind.setdefault(c["kind"], []).append(c)
    return [("corpus_" + k, by_kind[k]) + gl.CASE_TYPES[k] for k in kinds if k in by_kind]


def brute_streams(tier, seed):
    """Thorough tier: the literal exhaustive enumeration of labellings against the dynamic programme
    (proved equal; run as a self-check of the checker) on trees with <= 6 leaves."""
    if tier == "quick":
        return []
    rng = random.Random(seed + 4)
    return [("gls_brute_force", [gl.gen_gls_case(rng, 2, 6) for _ in range(3000)], "gls_case", "gls_brute_code")]


def streams(tier, seed, prop):
    if prop == "C08":
        return (corpus_streams(["get_gls"]) + gls_streams(tier, seed) + phybo_weighted_streams(tier, seed)
                + brute_streams(tier, seed))
    return (corpus_streams(["get_gls", "glsr", "topdown"]) + gls_streams(tier, seed) + glsr_streams(tier, seed)
            + td_streams(tier, seed) + phybo_streams(tier, seed))


def main(tier, seed, prop=PROP):
    prop_bits = ALL_BITS[prop]
    run = report.Run(prop, tier, seed)
    pr = proofs.check_property(prop)
    proofs_ok = run.proofs(pr)
    env.use_repo()
    d = coqrun.rundir(prop)
    total_prop = 0
    try:
        for name, cases, ctype, cfn in streams(tier, seed, prop):
            st = driver.run_stream(run, gl, cases, d, name, ctype, cfn, prop_bits,
                                   corr_bits=(5,) if cfn == "gls_brute_code" else (0, 8, 9),
                                   shard=30 if ctype == "phybo_case" else (2 if name == "gls_wide" else 400))
            total_prop += st["prop_fail"] + st["impl_errors"]
    except coqrun.CoqError as e:
        run.violation({"kind": "model does not evaluate", "no_longer_checks": "GainLoss/GainLossExec.v",
                       "error": str(e)}, no_input=True)
    if not proofs_ok and not total_prop:
        run.violation({"kind": "proof obligation broken", "no_longer_checks": pr["broken"],
                       "log": pr["log"][-1500:]}, no_input=True)
    c = run.coverage
    c["rule"] = ("cases = (rooted tree, pattern over {1,0,-1} with a presence, weights, gpl, push_gains, missing_data): "
                 "exhaustive small scope (every ordered tree shape with <= 3 leaves x every pattern x 4 weight pairs x "
                 "gpl in {0,1,2,9} x push x missing_data; 4 and 5 leaves: %s) plus seeded random trees (3-%d leaves, "
                 "binary and multifurcating, occasional unary nodes, shuffled node ids and taxa order). "
                 "Non-trivial = the returned scenario has at least two events; distinct by full input."
                 % ("reduced grid / sample" if tier == "quick" else "full grid for 4, reduced grid + sample for 5",
                    9 if tier == "quick" else 11))
    c["exhaustive"] = False
    c["trusted_base"] += [
        "correspondence check: harness/comp/gainloss.py runs the anchored lingpy functions from /repo/src and compares, "
        "inside Coq by vm_compute, with the Gallina models (exact equality of the returned event list, order included)",
        "the rose tree given to the model is read from the cogent tree object through Children/Name after LoadTree",
        "modelled, not verified: get_gls, PhyBo._get_GLS, PhyBo._get_GLS_top_down, PhyloNode.lowestCommonAncestor"]
    return run.finish()


def replay(path, prop=PROP):
    rep = json.load(open(path))
    env.use_repo()
    case = gl.from_json(rep["case"])
    res = gl.run_impl(case)
    d = coqrun.rundir(prop + "_replay")
    ctype, cfn = gl.CASE_TYPES[case["kind"]]
    bad = coqrun.eval_cases(d, "replay", gl.IMPORTS, ctype, cfn, [gl.render(case, res)])
    code = bad.get(0, 0)
    print(json.dumps({"impl": gl.jsonable(case, res)["impl"], "code": code,
                      "failed": [gl.BITS[k] for k in range(16) if code >> k & 1]}, indent=1))
    return 1 if bad else 0
