"""C05 - flat clustering returns the partition its linkage rule defines."""
import itertools
import json
import random

from ..comp import flat
from ..lib import coqrun, driver, env, proofs, report

PROP = "C05"
PROP_BITS = (1, 2, 3)       # partition / terminal / linkage clause, evaluated on implementation output


def streams(tier, seed):
    rng = random.Random(seed)
    nrand = 1500 if tier == "quick" else 40000
    maxn = 7 if tier == "quick" else 10
    rand = [flat.gen_case(rng, maxn) for _ in range(nrand)]
    exh = list(flat.exhaustive_cases(4 if tier == "quick" else 5))
    if tier == "quick":
        exh = [c for i, c in enumerate(exh) if c["n"] <= 3 or i % 7 == seed % 7]
    return [("flat_exhaustive", exh), ("flat_random", rand), ("flat_deep", list(flat.deep_cases()))]


def main(tier, seed, prop=PROP, prop_bits=PROP_BITS):
    run = report.Run(prop, tier, seed)
    pr = proofs.check_property(prop)
    proofs_ok = run.proofs(pr)
    env.use_repo()
    d = coqrun.rundir(prop)
    total_prop = total_corr = 0
    try:
        for name, cases in streams(tier, seed):
            st = driver.run_stream(run, flat, cases, d, name, "flat_case", "flat_case_code", prop_bits,
                                   search=flat.threshold_search)
            total_prop += st["prop_fail"] + st["impl_errors"]
            total_corr += st["corr_fail"]
    except coqrun.CoqError as e:
        run.violation({"kind": "model does not evaluate", "no_longer_checks": "Cluster/FlatQ.v", "error": str(e)},
                      no_input=True)
    if not proofs_ok and not total_prop:
        run.violation({"kind": "proof obligation broken", "no_longer_checks": pr["broken"], "log": pr["log"][-1500:]},
                      no_input=True)
    c = run.coverage
    c["rule"] = ("cases = (method, symmetric grid matrix, thresholds t1<=t2): an exhaustive small scope "
                 "(all matrices over {0,1/2,1}, n<=%s, 3 linkages, threshold pairs) plus seeded random matrices "
                 "(n<=%s; tie-heavy, 0/1, grid; thresholds equal to entries or decimal). Non-trivial = at least one "
                 "merge happened and at least two clusters remain at one threshold; distinct by full input."
                 % ("3 (+1/7 of n=4)" if tier == "quick" else "5", 7 if tier == "quick" else 10))
    c["exhaustive"] = False
    c["trusted_base"] += [
        "correspondence check: harness/comp/flat.py runs lingpy.algorithm.clustering.flat_cluster from /repo/src and "
        "compares, inside Coq by vm_compute, with Cluster/FlatQ.flat_cluster (dict order, members order, revert output)",
        "exactness-grid argument (DESIGN 2.1): matrix entries are multiples of 1/8, decimal thresholds reach the model as decimals",
        "modelled, not verified: _flat_upgma/_flat_single_linkage/_flat_complete_linkage, flat_cluster wrappers, 'ward' squaring"]
    run.assumptions += ["float comparisons on the grid coincide with exact rational comparisons",
                        "theorems are generic in the ordered carrier: they need only a total preorder"]
    return run.finish()


def replay(path):
    rep = json.load(open(path))
    env.use_repo()
    case = flat.from_json(rep["case"])
    res = flat.run_impl(case)
    d = coqrun.rundir(PROP + "_replay")
    bad = coqrun.eval_cases(d, "replay", flat.IMPORTS, "flat_case", "flat_case_code", [flat.render(case, res)])
    print(json.dumps({"impl": res, "code": bad.get(0, 0),
                      "failed": [flat.BITS[k] for k in range(8) if bad.get(0, 0) >> k & 1]}, indent=1))
    return 1 if bad else 0
