"""C11 - iterative refinement never lowers an alignment's sum-of-pairs score."""
from ..comp import multiple as mc
from . import C04

PROP = "C11"
PROP_BITS = (3, 4, 5, 6)    # monotone / rollback / early-exit clauses on the implementation's observations;
                            # 6 = a score value differs from the documented column score


def main(tier, seed):
    mc.SCORER_LIMIT = 200       # the definitional score check (bit 6) is evaluated for C11 only
    return C04.main(tier, seed, prop=PROP, prop_bits=PROP_BITS, view=mc.C11View)


def replay(path):
    mc.SCORER_LIMIT = 200
    return C04.replay(path, prop=PROP)
