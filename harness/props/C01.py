"""C01 - pairwise alignment never alters, drops or reorders the input segments."""
import json
import random

from ..comp import align, malign, pairwise_ipa
from ..lib import coqrun, driver, env, proofs, report

PROP = "C01"
PROP_BITS = (1,)


IPA_ERRORS = []


def streams(tier, seed):
    rng = random.Random(seed)
    nrand = 2500 if tier == "quick" else 60000
    maxlen = 6 if tier == "quick" else 9
    rand = [align.gen_case(rng, maxlen) for _ in range(nrand)]
    exh = list(align.exhaustive_cases(2 if tier == "quick" else 3))
    mal = [malign.gen_case(rng, maxlen) for _ in range(nrand // 2)]
    env.use_repo()
    ipa = []
    IPA_ERRORS.clear()
    pairwise_ipa.GLUE_ERRORS.clear()
    for _ in range(150 if tier == "quick" else 4000):
        h = pairwise_ipa.gen_history(rng)
        try:
            ipa.extend(pairwise_ipa.run_history(h))
        except Exception as e:   # a later align() call on the same object raised
            import traceback
            IPA_ERRORS.append((h, "%s: %s" % (type(e).__name__, e), traceback.format_exc()[-1200:]))
    return [("pairwise_ipa_histories", pairwise_ipa, "mcase", "mcase_code", ipa),
            ("align_exhaustive", align, "align_case", "align_case_code", exh),
            ("align_random", align, "align_case", "align_case_code", rand),
            ("malign_random", malign, "mcase", "mcase_code", mal)]


def main(tier, seed, prop=PROP, prop_bits=PROP_BITS):
    run = report.Run(prop, tier, seed)
    pr = proofs.check_property(prop)
    proofs_ok = run.proofs(pr)
    env.use_repo()
    d = coqrun.rundir(prop)
    total_prop = 0
    try:
        all_streams = streams(tier, seed)
        for h, err, tb in IPA_ERRORS[:3]:
            run.violation({"stream": "pairwise_ipa_histories", "kind": "Pairwise.align raised on a valid history of "
                           "calls (valid non-empty sequences, supported modes)", "error": err, "traceback": tb,
                           "history": h}, no_input=False)
        total_prop += len(IPA_ERRORS)
        # Pairwise.align vs calign.align_pairs with the requested parameters: for C01 this is the tie between the
        # IPA-level entry point and the modelled core (the alignment may still be valid)
        for e in pairwise_ipa.GLUE_ERRORS[:3]:
            run.violation(dict(e, stream="pairwise_ipa_histories", kind="Pairwise.align does not return what "
                               "calign.align_pairs returns for the requested parameters (documented defaults for "
                               "omitted keywords)", no_longer_checks="correspondence Pairwise.align / calign.align_pairs"),
                          no_input=True)
        for name, comp, ctype, cfn, cases in all_streams:
            st = driver.run_stream(run, comp, cases, d, name, ctype, cfn, prop_bits)
            total_prop += st["prop_fail"] + st["impl_errors"]
    except coqrun.CoqError as e:
        run.violation({"kind": "model does not evaluate", "no_longer_checks": "Align/Calign.v", "error": str(e)},
                      no_input=True)
    if not proofs_ok and not total_prop:
        run.violation({"kind": "proof obligation broken", "no_longer_checks": pr["broken"], "log": pr["log"][-1500:]},
                      no_input=True)
    c = run.coverage
    c["rule"] = ("cases = (function, mode, primary/secondary, sequences over a 2-4 letter alphabet, prosodic strings, "
                 "position weights, gop, scale, factor, scorer, restricted characters) on the exactness grid: an exhaustive "
                 "small scope (all sequence pairs over {a,b} up to length %d x 4 modes x primary/secondary x 4 parameter "
                 "points through the eight _calign functions) + seeded random cases through the _calign/_talign functions "
                 "and align_pair dispatchers + seeded random cases through nw_align/sw_align/we_align/edit_dist "
                 "(pairwise.py wrappers and _malign directly). Non-trivial = the sequences differ or the alignment has a "
                 "gap; distinct by full input." % (2 if tier == "quick" else 3))
    c["exhaustive"] = False
    c["trusted_base"] += [
        "correspondence check: harness/comp/align.py and malign.py run lingpy.algorithm.cython._calign/_talign/_malign and "
        "lingpy.align.pairwise from /repo/src; model (Align/Calign.v, Align/Malign.v) evaluated by vm_compute inside Coq and "
        "compared there with the implementation's rows, slices and score (exact rationals)",
        "exactness-grid argument (DESIGN 2.1): scores, weights, gop, scale, factor are small dyadic rationals, so the float run "
        "is exact",
        "modelled, not verified: the 8 _calign functions + align_pair, the 4 _talign functions + align_pair, _malign "
        "nw_align/sw_align/we_align/edit_dist/restricted_edit_dist; theorems: C01_calign, C01_talign, C01_nw_align, "
        "C01_sw_align, C01_we_align, C01_pairwise_ipa_level; Pairwise.align is tied to calign.align_pairs by an exact "
        "implementation-to-implementation comparison (same code path, requested parameters, documented defaults)"]
    run.assumptions += ["alphabet does not contain the gap symbol '-' (the Python encodes gaps as '-')",
                        "float comparisons on the grid coincide with exact rational comparisons"]
    return run.finish()


def replay(path):
    rep = json.load(open(path))
    env.use_repo()
    case = align.from_json(rep["case"])
    res = align.run_impl(case)
    d = coqrun.rundir(PROP + "_replay")
    bad = coqrun.eval_cases(d, "replay", align.IMPORTS, "align_case", "align_case_code", [align.render(case, res)])
    print(json.dumps({"impl": align.jsonable(case, res)["impl"], "code": bad.get(0, 0)}, indent=1))
    return 1 if bad else 0
