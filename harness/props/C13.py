"""C13 - saving a wordlist and loading it again loses nothing."""
import glob
import json
import os
import random

from ..comp import serialize as ser
from ..lib import coqrun, driver, env, proofs, report
from ..translate import namespace_rc

PROP = "C13"
# checker bits evaluated on what the implementation wrote / loaded
PROP_BITS = (1, 2, 3, 4, 5, 6, 7)


def sizes(tier):
    if tier == "quick":
        return {"wordlist": 140, "lexstat": 11, "alignments": 11, "reader": 220, "blocks": 60}
    return {"wordlist": 6000, "lexstat": 500, "alignments": 250, "reader": 10000, "blocks": 3000}


def corpus_cases():
    out = {"ser": [], "rd": [], "blk": []}
    for p in sorted(glob.glob(os.path.join(env.VERIF, "corpus", "serialize", "*.json"))):
        c = json.load(open(p, encoding="utf8"))
        if c["stream"] in out:           # "known" witnesses are replayed by known_witnesses()
            out[c["stream"]].append(c["case"])
    return out


RESCORE = ("get-scorer-row-order",
           "LexStat.get_scorer fills the language-internal part of the scorer by iterating over the characters in the order "
           "they were first met in the rows (list(self.freqs[t])) and writes matrix[a][b] = matrix[b][a] for (a, b) and "
           "again for (b, a): the last write wins, so the scorer depends on the row order; the TSV file groups the rows by "
           "concept, hence the seeded get_scorer(force=True) gives another cscorer on the loaded object (e.g. "
           "[2.P.C, 2.R.C] -60.00 on the saved, -3.33 on the loaded object)")


def rescoring_stream(run, d, name, steps):
    """The seeded get_scorer(force=True) repeated on the saved and on the loaded LexStat object (bit 6).  On /repo up
    to 5eb2d66 this fails for a genuine reason (RESCORE; patch sent to the lead).  It is a VIOLATION once
    known_findings.json lists the signature as fixed, a KNOWN-FINDING while it lists it as known, and is only
    recorded in the evidence (candidate_findings) otherwise.  Every other bit of these cases is enforced as usual."""
    kf = report.known_findings(PROP)
    status = {e.get("signature"): e.get("status") for e in kf}.get(RESCORE[0])
    bits = PROP_BITS if status == "fixed" else tuple(b for b in PROP_BITS if b != 6)
    st = driver.run_stream(run, ser.SER, steps, d, name + "_rescoring", "ser_case", "ser_case_code", bits, shard=40,
                           shrink=False)
    hits = [i for i, v in st["bad"].items() if v >> 6 & 1]
    if hits and status != "fixed":
        if status == "known":
            run.known_finding("%s: %s" % RESCORE)
        else:
            run.coverage.setdefault("candidate_findings", []).append(
                {"signature": RESCORE[0], "what": RESCORE[1], "cases": len(hits), "example": steps[hits[0]]["case"]["data"]})
    return st["prop_fail"] + st["impl_errors"]


def consensus_column_witness(run, case, entry):
    """F14: align(); get_consensus(); save; load - the 'consensus' column of the words of an aligned cognate set is a
    list of segments before and the blank-joined string after.  Recorded way = exactly that, every other cell intact."""
    from lingpy import Alignments
    data = {int(k): [list(c) if isinstance(c, list) else c for c in row] for k, row in case["data"].items()}
    obj = Alignments(data, ref="cogid", _interactive=False)
    obj.align(method="progressive")
    obj.get_consensus()
    path = ser.fresh("k")
    obj.output("tsv", filename=path, prettify=False, ignore="all")
    try:
        loaded = Alignments(path + ".tsv", ref="cogid", _interactive=False)
        a, b = ser.observe(obj), ser.observe(loaded)
    finally:
        os.remove(path + ".tsv")
    rows_b = dict(b[2])
    ci = a[1].index("consensus") if "consensus" in a[1] else None
    recorded = gone = a[1] == b[1] and ci is not None and set(dict(a[2])) == set(rows_b)
    lists = 0
    for k, cells in (a[2] if recorded else []):
        for j, (x, y) in enumerate(zip(cells, rows_b[k])):
            if j == ci and x[0] == "list":
                lists += 1
                recorded = recorded and y == ("str", " ".join(x[1]))
                gone = gone and y == x
            else:
                recorded = recorded and x == y
                gone = gone and x == y
    if recorded and lists and entry is not None:
        run.known_finding("%s consensus-column-type: %s" % (entry.get("id", ""), entry.get("what", "")))
        return "still fails as recorded"
    if gone and lists:
        return "no longer fails"
    run.violation({"stream": "known_witness", "signature": "consensus-column-type", "kind": "the witness of a known "
                   "finding fails in another way than recorded (or is not listed in known_findings.json)",
                   "saved": a, "loaded": b}, no_input=False)
    return "fails differently"


def known_witnesses(run, d):
    """F12 / F13 (known_findings.json, status 'known'): replay the recorded witness (corpus/serialize/known_*.json) on
    the implementation.  While it still fails in the recorded way - the file cannot be loaded, and the faithful model
    predicts exactly that (theorems C13_dst_hash_name_refuted / C13_scorer_single_symbol_refuted) - print one
    KNOWN-FINDING line; a failure of another shape, or a witness without an entry in known_findings.json, is a VIOLATION."""
    entries = {e.get("signature"): e for e in report.known_findings(PROP) if e.get("status") == "known"}
    out = {}
    for p in sorted(glob.glob(os.path.join(env.VERIF, "corpus", "serialize", "known_*.json"))):
        w = json.load(open(p, encoding="utf8"))
        sig, case = w["signature"], w["case"]
        if sig == "consensus-column-type":
            out[sig] = consensus_column_witness(run, case, entries.get(sig))
            continue
        res = ser.blk_run(case)
        bad = coqrun.eval_cases(d, "known_" + sig.replace("-", "_"), ser.IMPORTS, "blk_case", "blk_case_code",
                                [ser.BLK.render(case, res)])
        code = bad.get(0, 0)
        err = res.get("error", "")
        if sig == "dst-hash-taxon":
            recorded = res["dst_load"] is None and "IndexError" in err and res["sc_load"] is not None
            gone = res["dst_load"] is not None
        else:
            recorded = res["sc_load"] is None and "scorer: FileNotFoundError" in err and res["dst_load"] is not None
            gone = res["sc_load"] is not None
        out[sig] = "still fails as recorded" if recorded and not code else ("no longer fails" if gone and not code else "fails differently")
        if recorded and not code and sig in entries:
            e = entries[sig]
            run.known_finding("%s %s: %s" % (e.get("id", ""), sig, e.get("what", "")))
        elif gone and not code:
            pass                     # repaired: nothing to report (the generated streams check the round trip)
        else:
            run.violation({"stream": "known_witness", "signature": sig, "kind": "the witness of a known finding fails in "
                           "another way than recorded (or is not listed in known_findings.json)", "code": code,
                           "failed": [ser.BITS[k] for k in range(8) if code >> k & 1], "case": ser.BLK.jsonable(case, res)},
                          no_input=False)
    run.coverage["known_witnesses"] = out


def main(tier, seed):
    run = report.Run(PROP, tier, seed)
    pr = proofs.check_property(PROP, gen=[namespace_rc.generate])
    proofs_ok = run.proofs(pr)
    env.use_repo()
    ser.quiet()
    d = coqrun.rundir(PROP)
    rng = random.Random(seed)
    n = sizes(tier)
    corp = corpus_cases()
    total_prop = total_corr = 0
    skipped = []

    def on_error(case, kind, e):
        if kind == "unsupported":
            skipped.append(str(e))
        else:
            # building / saving a generated object raised: outside what the generators promise
            run.violation({"stream": "save", "kind": "implementation raised while building or saving a generated object",
                           "error": "%s: %s" % (type(e).__name__, e), "case": case}, no_input=False)

    try:
        gens = [("ser_corpus", [ser.from_json(c) for c in corp["ser"]]),
                ("ser_wordlist", [ser.gen_wordlist(rng) for _ in range(n["wordlist"])]),
                ("ser_lexstat", [ser.gen_lexstat(rng) for _ in range(n["lexstat"])]),
                ("ser_alignments", [ser.gen_alignments(rng) for _ in range(n["alignments"])])]
        for name, cases in gens:
            if not cases:
                continue
            steps = ser.expand(cases, on_error)
            resc = [s_ for s_ in steps if s_.get("rescoring")]
            steps = [s_ for s_ in steps if not s_.get("rescoring")]
            st = driver.run_stream(run, ser.SER, steps, d, name, "ser_case", "ser_case_code", PROP_BITS, shard=40,
                                   shrink=False)
            total_prop += st["prop_fail"] + st["impl_errors"]
            total_corr += st["corr_fail"]
            if resc:
                total_prop += rescoring_stream(run, d, name, resc)
            ms = ser.msa_steps(steps)
            if ms:
                st = driver.run_stream(run, ser.MSA, ms, d, name.replace("ser_", "msa_"), "msa_case", "msa_case_code",
                                       PROP_BITS, shard=40, shrink=False)
                total_prop += st["prop_fail"] + st["impl_errors"]
                total_corr += st["corr_fail"]
        rd = corp["rd"] + [ser.gen_textfile(rng) for _ in range(n["reader"])]
        st = driver.run_stream(run, ser.RD, rd, d, "reader", "rd_case", "rd_case_code", PROP_BITS, shard=60)
        total_prop += st["prop_fail"] + st["impl_errors"]
        total_corr += st["corr_fail"]
        bl = corp["blk"] + [ser.gen_block(rng) for _ in range(n["blocks"])]
        st = driver.run_stream(run, ser.BLK, bl, d, "blocks", "blk_case", "blk_case_code", PROP_BITS, shard=60,
                               shrink=False)
        total_prop += st["prop_fail"] + st["impl_errors"]
        total_corr += st["corr_fail"]
        known_witnesses(run, d)
    except coqrun.CoqError as e:
        run.violation({"kind": "model does not evaluate", "no_longer_checks": "Wordlist/SerializeExec.v",
                       "error": str(e)}, no_input=True)
    finally:
        ser.cleanup()
    if not proofs_ok and not total_prop:
        run.violation({"kind": "proof obligation broken", "no_longer_checks": pr["broken"], "log": pr["log"][-1500:]},
                      no_input=True)
    c = run.coverage
    c["skipped_unsupported"] = len(skipped)
    c["rule"] = (
        "save/load cases = one step (object, prettify, written lines, loaded object) of a history save -> load -> "
        "analyse -> save on seeded random Wordlist / LexStat (derived columns; ignore='all' or [] with @-lines and scorer "
        "blocks; clustering sca/edit-dist/turchin) / Alignments (align(); msa blocks when ignore=[]) objects, 80% inside "
        "the property's quantifier, 20% with None/float cells, blanks at the ends, TAB/LF inside, plus corpus/serialize; "
        "reader cases = hand-assembled TSV text (padding, comments, @-lines, blocks, header case, id column variants, "
        "broken rows); msa cases = the <msa> section of every Alignments step written with ignore=[] (swap-checked "
        "alignments with a planted metathesis, planted LOCAL marks); block cases = <dst>/<scorer> blocks with k/32 ties, short decimals and arbitrary doubles. "
        "Non-trivial = object inside the quantifier with >= 2 rows and at least one int/list cell; reader: file loads "
        "with >= 2 rows; blocks: >= 2 taxa and the file loads. Distinct by full input.")
    c["exhaustive"] = False
    c["trusted_base"] += [
        "translator harness/translate/namespace_rc.py (wordlist.rc -> coq/gen/NamespaceRc.v, class expressions recognised "
        "by AST shape, fail-closed)",
        "correspondence check harness/comp/serialize.py: written file compared as text with Serialize.write (the meta/block "
        "section is taken from the implementation's text and only scanned), the loaded object with Serialize.read of the "
        "written lines, LexStat.pairs with Serialize.pairs, derived column types with Serialize.derived_columns, inside Coq",
        "Unicode: NFC normalisation of the file is the identity on text assembled from NFC cells with TAB/space/LF "
        "separators (not modelled); str.lower/upper modelled on ASCII only; CR never generated; int()/float() on "
        "non-ASCII digits, exponent notation, inf/nan not modelled (never generated)",
        "floats: Fraction(x) of the double that is written; '{:.4f}' is the correctly rounded (half-even) decimal of that "
        "exact value; a double read back is identified by its repr() (<= 15 significant digits)",
        "value types: basictypes.lists/ints count as lists of their item type; an empty list has no item type",
        "modelled, not verified: wl2qlc, read_qlc, QLCParser.__init__ conversion loop, LexStat derived columns and pairs, "
        "matrix2dst, read_dst, scorer2str, read_scorer, msa2str(wordlist=True), the <msa> tag parsing, _list2msa, "
        "Alignments.add_alignments (get_etymdict order, normalize_alignment); not modelled: @json/@tree lines, "
        "<json>/<csv>/<tre> blocks, MERGE/COMPLEX lines, string ids of msa rows; align()/cluster() results are compared "
        "between the saved and the loaded object only"]
    run.assumptions += ["strings are NFC, CR-free; column names ASCII",
                        "float list items print as plain decimals (no exponent notation)"]
    return run.finish()


def replay(path):
    rep = json.load(open(path, encoding="utf8"))
    env.use_repo()
    ser.quiet()
    d = coqrun.rundir(PROP + "_replay")
    stream = rep.get("stream", "")
    try:
        if stream.startswith("ser"):
            case = ser.from_json(rep["case"]["case"])
            steps = ser.expand([case])
            lits = [ser.SER.render(s, s["step"]) for s in steps]
            bad = coqrun.eval_cases(d, "replay", ser.IMPORTS, "ser_case", "ser_case_code", lits)
        elif stream == "reader":
            case = {"text": rep["case"]["text"], "loader": rep["case"]["loader"]}
            bad = coqrun.eval_cases(d, "replay", ser.IMPORTS, "rd_case", "rd_case_code",
                                    [ser.RD.render(case, ser.rd_run(case))])
        else:
            case = {k: rep["case"][k] for k in ("taxa", "dst", "chars", "scorer")}
            bad = coqrun.eval_cases(d, "replay", ser.IMPORTS, "blk_case", "blk_case_code",
                                    [ser.BLK.render(case, ser.blk_run(case))])
    finally:
        ser.cleanup()
    print(json.dumps({"codes": bad, "failed": sorted({ser.BITS[k] for v in bad.values() for k in range(8) if v >> k & 1})},
                     indent=1))
    return 1 if bad else 0
