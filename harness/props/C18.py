"""C18 - reproducible results: same data and random seed give the same output whatever the
string-hash seed; repeating a deterministic analysis gives the same result; the
language-specific scorer is symmetric."""
import json
import os
import random
import shutil
import subprocess
import time
from concurrent.futures import ThreadPoolExecutor

from ..comp import determinism as D
from ..lib import coqrun, driver, env, proofs, report

PROP = "C18"
PROP_BITS = (1, 2, 3)
CORR_BITS = (0, 5)
WORKER = os.path.join(env.VERIF, "harness", "comp", "determinism.py")
CORPUS = os.path.join(env.VERIF, "corpus", "determinism")


def plan(tier, seed):
    rng = random.Random(seed)
    quick = tier == "quick"
    datasets = [D.ksl_dataset(rng, env.REPO, nlang=5 if quick else 6, nconc=12 if quick else 25)]
    for i in range(6 if quick else 24):
        datasets.append(D.gen_dataset(rng, "gen_%d" % i, big=(not quick and i % 6 == 5)))
    if os.path.isdir(CORPUS):
        for fn in sorted(os.listdir(CORPUS)):
            if fn.endswith(".json"):
                datasets.append(json.load(open(os.path.join(CORPUS, fn), encoding="utf8")))
    nseeds = 4 if quick else 32
    hashseeds = [0]
    while len(hashseeds) < nseeds:
        h = rng.randrange(1, 4294967295)
        if h not in hashseeds:
            hashseeds.append(h)
    return datasets, hashseeds, {"seed": rng.randrange(1, 10 ** 6), "runs": 40 if quick else 120, "full": True}


def scratch_dir(label):
    """Per-process data directory (concurrent runs of this check, e.g. against different VERIF_REPOs, must not
    remove each other's datasets); directories of processes that no longer exist are removed."""
    base = os.path.join(env.BUILD, "c18")
    os.makedirs(base, exist_ok=True)
    for name in os.listdir(base):
        pid = name.rsplit(".p", 1)[-1]
        if not (pid.isdigit() and os.path.exists("/proc/%s" % pid)) or int(pid) == os.getpid():
            shutil.rmtree(os.path.join(base, name), ignore_errors=True)
    return os.path.join(base, "%s.p%d" % (label, os.getpid()))


def run_workers(ddir, datasets, hashseeds, spec):
    shutil.rmtree(ddir, ignore_errors=True)
    os.makedirs(ddir)
    paths = [[ds["name"], D.write_dataset(ds, ddir)] for ds in datasets]
    spec = dict(spec, datasets=paths)
    specp = os.path.join(ddir, "spec.json")
    with open(specp, "w", encoding="utf8") as f:
        json.dump(spec, f, ensure_ascii=False)
    cache = env.fresh_cache()      # initially empty: workers must see the current data files
    # fill it ONCE before the parallel workers start: several interpreters compiling the sound-class models
    # into the same empty cache at the same time read each other's half-written pickles (that is C20's subject)
    warm = subprocess.run(["timeout", "600", env.PY, "-c", "import lingpy"], env=env.subprocess_env(0, cache),
                          capture_output=True, text=True, cwd=ddir)
    if warm.returncode != 0:
        return {h: {"worker_error": "import lingpy failed: " + (warm.stderr or warm.stdout)[-1500:]}
                for h in hashseeds}, dict(paths)

    def work(h):
        outp = os.path.join(ddir, "out_%s.json" % h)
        p = subprocess.run(["timeout", "900", env.PY, WORKER, "--worker", specp, outp],
                           env=env.subprocess_env(h, cache), capture_output=True, text=True, cwd=ddir)
        if p.returncode != 0 or not os.path.exists(outp):
            err = open(outp + ".err", encoding="utf8").read() if os.path.exists(outp + ".err") else ""
            return h, {"worker_error": "rc=%s %s %s" % (p.returncode, (p.stderr or p.stdout)[-1500:], err[-2500:])}
        return h, json.load(open(outp, encoding="utf8"))

    with ThreadPoolExecutor(max_workers=max(1, min(env.JOBS, 6))) as ex:
        return dict(ex.map(work, hashseeds)), dict(paths)


def first_diff(a, b, path=""):
    if type(a) != type(b):
        return path, a, b
    if isinstance(a, dict):
        for k in sorted(set(a) | set(b)):
            if k not in a or k not in b:
                return path + "/" + k, a.get(k), b.get(k)
            d = first_diff(a[k], b[k], path + "/" + k)
            if d:
                return d
        return None
    if isinstance(a, list):
        if len(a) != len(b):
            return path + "/len", len(a), len(b)
        for i, (x, y) in enumerate(zip(a, b)):
            d = first_diff(x, y, "%s[%d]" % (path, i))
            if d:
                return d
        return None
    return None if a == b else (path, a, b)


LINK_SIGNATURE = {"function": "clustering.link_clustering", "taxa": "strings"}


def link_policy():
    """What a hash-seed dependence of link_clustering called directly with STRING taxa means is decided by
    known_findings.json: an entry of property C18 whose signature contains LINK_SIGNATURE with status "fixed"
    (the repair is in /repo: a difference is a VIOLATION with a failing input), status "known" (KNOWN-FINDING
    line), or no entry (recorded in the evidence only: cognate detection passes integer nodes, which is
    deterministic, so the text of C18 is not violated by the direct call)."""
    for e in report.known_findings(PROP):
        sig = e.get("signature") or {}
        if all(sig.get(k) == v for k, v in LINK_SIGNATURE.items()):
            return e.get("status")
    return None


def end_to_end(run, outs, paths, datasets, hashseeds, spec):
    """(b) the seeded pipeline in every subprocess must give identical outputs; (c) repetitions
    inside each subprocess; the scorer must be symmetric.  Returns number of failing inputs."""
    fails = 0
    byname = {d["name"]: d for d in datasets}
    stats = {"pipelines": 0, "fields_compared": 0, "repetitions_checked": 0}
    h0 = hashseeds[0]
    for h in hashseeds:
        if "worker_error" in outs[h]:
            run.violation({"kind": "worker subprocess failed", "hashseed": h, "error": outs[h]["worker_error"],
                           "no_longer_checks": "end-to-end pipeline"}, no_input=True)
            return 1, stats
    for name in paths:
        ref = outs[h0]["datasets"][name]
        reported = fails >= 3                      # at most three end-to-end reports per run
        for h in hashseeds:
            o = outs[h]["datasets"][name]
            stats["pipelines"] += 1
            base = {"dataset": byname[name], "random_seed": spec["seed"], "runs": spec["runs"]}
            if "error" in o:
                fails += 1
                run.violation(dict(base, kind="the pipeline raised", hashseed=h, error=o["error"],
                                   traceback=o["traceback"]))
                reported = True
                break
            for pre, what in (("", "LexStat.get_scorer"), ("partial_", "Partial.get_partial_scorer")):
                e = o["e2e"]
                if e.get(pre + "cscorer_asym") and not reported:
                    fails += 1
                    a, b = e[pre + "cscorer_asym"][0]
                    run.violation(dict(base, kind="the language-specific scorer (%s) is not symmetric" % what, hashseed=h,
                                       cells=[[e[pre + "chars"][x], e[pre + "chars"][y]] for x, y in e[pre + "cscorer_asym"]],
                                       values=[e[pre + "cscorer"][a][b], e[pre + "cscorer"][b][a]]))
                    reported = True
            for v in o["e2e"].get("scorer_variants", []):
                if v["asymmetric"] and not reported:
                    fails += 1
                    run.violation(dict(base, kind="the language-specific scorer is not symmetric (%s with non-default "
                                       "keywords)" % v["class"], hashseed=h, keywords=v["keywords"],
                                       cells_and_values=v["asymmetric"]))
                    reported = True
            if o["repeat"] and not reported:
                fails += 1
                r = o["repeat"][0]
                d = first_diff(r.get("first"), r.get("second"))
                run.violation(dict(base, kind="repeating an analysis on the same object changed its result",
                                   hashseed=h, analysis=r["analysis"], args=r.get("args"),
                                   first_difference=d and {"at": d[0], "first": d[1], "second": d[2]}))
                reported = True
            stats["repetitions_checked"] += o.get("repeat_checked", 0)
            if h != h0 and "error" not in ref and o.get("aux") != ref.get("aux"):
                stats["link_clustering_string_taxa_differ"] = stats.get("link_clustering_string_taxa_differ", 0) + 1
                d = first_diff(ref.get("aux"), o.get("aux"))
                policy = link_policy()
                if policy == "fixed" and not reported:
                    fails += 1
                    run.violation(dict(base, kind="clustering.link_clustering with string taxa: outputs differ between "
                                       "interpreter runs with different PYTHONHASHSEED", hashseeds=[h0, h],
                                       output="aux" + d[0], value_a=d[1], value_b=d[2],
                                       call="link_clustering(median distance, wordlist distances (ref=scaid), wl.cols, ...)"))
                    reported = True
                elif policy == "known" and not stats.get("_link_known"):
                    stats["_link_known"] = 1
                    run.known_finding("clustering.link_clustering with string taxa depends on PYTHONHASHSEED "
                                      "(dataset %s, hash seeds %s/%s, %s)" % (name, h0, h, d[0]))
            if h != h0 and "error" not in ref:
                stats["fields_compared"] += len(o["e2e"])
                d = first_diff(ref["e2e"], o["e2e"])
                if d and not reported:
                    fails += 1
                    run.violation(dict(base, kind="outputs differ between interpreter runs with different PYTHONHASHSEED",
                                       hashseeds=[h0, h], output=d[0], value_a=d[1], value_b=d[2]))
                    reported = True
    return fails, stats


def kernel_cases(outs, paths, hashseeds, scorer_seeds):
    cases = {st.name: [] for st in D.STREAMS}
    for name in paths:
        for h in hashseeds:
            o = outs[h]["datasets"][name]
            if "error" in o:
                continue
            k = o["kernels"]
            mk = lambda obs: {"dataset": name, "hashseed": h, "path": paths[name], "obs": obs}
            cases["wl"].append(mk(k["wl"]))
            cases["lex"].append(mk(k["lex"]))
            for r in k["renum"]:
                cases["renum"].append(mk(r))
            if h == hashseeds[0]:                   # no set order is observed here: one interpreter suffices
                for r in k.get("dst", []):
                    cases["dst"].append(mk(r))
            if h in hashseeds[:scorer_seeds]:      # the matrices are large literals: fewer hash seeds
                cases["scorer"].append(mk(k["scorer"]))
            if h == hashseeds[0] and "scorer_partial" in k:
                cases["scorer"].append(dict(mk(k["scorer_partial"]), dataset=name + "_partial"))
            if h == hashseeds[0]:
                for vi, sv in enumerate(k.get("scorer_variants", [])):
                    cases["scorer"].append(dict(mk(sv), dataset="%s_variant%d" % (name, vi)))
    return cases


def main(tier, seed):
    run = report.Run(PROP, tier, seed)
    pr = proofs.check_property(PROP)
    proofs_ok = run.proofs(pr)
    t0 = time.time()
    datasets, hashseeds, spec = plan(tier, seed)
    ddir = scratch_dir("%s-%d" % (tier, seed))
    outs, paths = run_workers(ddir, datasets, hashseeds, spec)
    fails, stats = end_to_end(run, outs, paths, datasets, hashseeds, spec)
    t_e2e = time.time() - t0
    corr = 0
    if not any("worker_error" in outs[h] for h in hashseeds):
        d = coqrun.rundir(PROP)
        cases = kernel_cases(outs, paths, hashseeds, 2 if tier == "quick" else 4)
        try:
            for st in D.STREAMS:
                r = driver.run_stream(run, st, cases[st.name], d, st.name, st.case_type, st.code_fn, PROP_BITS,
                                      corr_bits=CORR_BITS, shrink=False, stream_label="kernel_" + st.name,
                                      shard=4 if st.name == "scorer" else 8 if st.name in ("lex", "dst") else 16)
                fails += r["prop_fail"] + r["impl_errors"]
                corr += r["corr_fail"]
        except coqrun.CoqError as e:
            run.violation({"kind": "model does not evaluate", "no_longer_checks": "Runtime/DeterminismExec.v",
                           "error": str(e)}, no_input=True)
    if not proofs_ok and not fails:
        run.violation({"kind": "proof obligation broken", "no_longer_checks": pr["broken"], "log": pr["log"][-1500:]},
                      no_input=True)
    c = run.coverage
    c["evaluations"] += stats["pipelines"]
    c["distinct_nontrivial"] += len(paths) * (len(hashseeds) - 1)
    c["end_to_end"] = dict(stats, hashseeds=hashseeds, datasets=len(paths), wall_s=round(t_e2e, 1),
                           random_seed=spec["seed"], runs=spec["runs"])
    c["rule"] = ("kernel streams: one case per (dataset, PYTHONHASHSEED) and kernel (wordlist index, LexStat index and "
                 "pairs, renumber x2, scorer matrices), the set iteration orders being the ones observed in that "
                 "interpreter; non-trivial = names collide under case folding (wl), duplicates or >10 characters (lex), "
                 "always (renumber, scorer); distinct by (dataset, hash seed). End to end: one seeded pipeline per "
                 "(dataset, hash seed), counted as non-trivial when compared field by field with the hash-seed-0 run "
                 "(%d datasets x %d further hash seeds)." % (len(paths), len(hashseeds) - 1))
    c["exhaustive"] = False
    c["trusted_base"] += [
        "the model is parameterised over, and cannot exhibit, CPython's hash-table iteration order (every set is a "
        "duplicate-free list in a universally quantified order) and the random module's algorithm (a stream argument)",
        "str.lower is a function argument of the theorems; the executable instance is a table computed by Python",
        "harness/comp/determinism.py: re-creates each set with the same construction as the kernel to observe its "
        "iteration order; names floats by bit pattern for the symmetry check; compares pipeline outputs structurally",
        "modelled, not verified: parser.py unique_sorted/_dict/_idx/_array, wordlist get_dict/get_list, lexstat "
        "freqs/chars/rchars/duplicates/pairs, _get_matrices concept order, ops.renumber, scorer assembly write pattern",
        "not modelled: the alignment, distance and clustering computations inside the pipeline (covered by the "
        "end-to-end comparison across hash seeds only), numpy, MCL and link-clustering internals"]
    run.assumptions += ["set iteration order within one interpreter run is a function of the construction sequence "
                        "(the harness rebuilds each set the way the kernel does)",
                        "hash seeds explored: 0 plus %d drawn from VERIF_SEED" % (len(hashseeds) - 1)]
    return run.finish()


def replay(path):
    rep = json.load(open(path, encoding="utf8"))
    if "dataset" in rep and isinstance(rep["dataset"], dict):      # end-to-end failing input
        ds = rep["dataset"]
        hs = rep.get("hashseeds") or [0, rep.get("hashseed", 0)]
        hs = [int(h) for h in hs]
        if len(set(hs)) == 1:
            hs = [hs[0]]
        spec = {"seed": rep["random_seed"], "runs": rep["runs"], "full": True}
        ddir = scratch_dir("replay")
        outs, paths = run_workers(ddir, [ds], hs, spec)

        class R:                                                   # collect instead of reporting
            def __init__(self):
                self.v = []

            def violation(self, r, no_input=False):
                self.v.append(r)
        r = R()
        fails, _ = end_to_end(r, outs, paths, [ds], hs, spec)
        print(json.dumps({"failing": fails, "reports": [{k: v for k, v in x.items() if k != "dataset"} for x in r.v]},
                         indent=1, ensure_ascii=False, default=str)[:4000])
        return 1 if fails else 0
    if "case" in rep:                                              # kernel case: re-evaluate the recorded observation
        c = rep["case"]
        st = [s for s in D.STREAMS if s.name == c["kernel"]][0]
        if c["kernel"] == "scorer":
            print("scorer kernel cases are replayed through the end-to-end path; asymmetric cells:",
                  c.get("asymmetric_cells"))
            return 1
        d = coqrun.rundir(PROP + "_replay")
        case = {"dataset": c["dataset"], "hashseed": c["hashseed"], "path": c["path"], "obs": c["observation"]}
        bad = coqrun.eval_cases(d, "replay", st.IMPORTS, st.case_type, st.code_fn, [st.render(case, case["obs"])])
        code = bad.get(0, 0)
        print(json.dumps({"code": code, "failed": [st.BITS.get(k, "bit %d" % k) for k in range(8) if code >> k & 1]},
                         indent=1))
        return 1 if code else 0
    print(json.dumps(rep, indent=1)[:2000])
    return 1
