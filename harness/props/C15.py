"""C15 - tree distances depend on topology only, not on how the tree is written."""
import glob
import json
import os
import random

from ..comp import treedist
from ..lib import coqrun, driver, env, proofs, report

PROP = "C15"
PROP_BITS = (1, 2, 3, 4, 5, 6)


def corpus_cases():
    out = []
    for p in sorted(glob.glob(os.path.join(env.VERIF, "corpus", "treedist", "*.json"))):
        for c in json.load(open(p))["cases"]:
            out.append(treedist.from_json(c))
    return out


def streams(tier, seed):
    rng = random.Random(seed)
    quick = tier == "quick"
    out = [("td_corpus", corpus_cases()), ("td_exhaustive4", list(treedist.exhaustive_pairs(4, rng)))]
    if quick:
        out.append(("td_exhaustive5", list(treedist.exhaustive_pairs(5, rng, stride=(seed % 97, 97),
                                                                     taxa=treedist.MIXED))))
    else:
        for k in range(4):                         # all 236^2 pairs, in four streams
            out.append(("td_exhaustive5_%d" % k, list(treedist.exhaustive_pairs(5, rng, stride=(k, 4),
                                                                                taxa=treedist.MIXED))))
    out.append(("td_orderings", list(treedist.ordering_cases(rng, 12 if quick else 80, cap=100 if quick else 720))))
    out.append(("td_random", [treedist.gen_case(rng) for _ in range(1000 if quick else 12000)]))
    return out


def _failing_taxa(run, limit=3):
    """taxon lists (4-6 names) of the cases on which model and implementation disagreed"""
    out = []
    for path, no_input in run.violations:
        try:
            case = json.load(open(path)).get("case")
        except Exception:
            case = None
        if not case:
            continue
        taxa = []
        for k in ("a", "b"):
            for x in treedist.leaves(treedist._tup(case[k])):
                if x not in taxa:
                    taxa.append(x)
        taxa = taxa[:6]
        if len(taxa) >= 4 and taxa not in out:
            out.append(taxa)
        if len(out) >= limit:
            break
    return out


def main(tier, seed):
    run = report.Run(PROP, tier, seed)
    pr = proofs.check_property(PROP)
    proofs_ok = run.proofs(pr)
    env.use_repo()
    d = coqrun.rundir(PROP)
    total_prop = total_corr = 0
    rng_h = random.Random(seed + 1)
    try:
        for name, cases in streams(tier, seed):
            if not cases:
                continue
            st = driver.run_stream(run, treedist, cases, d, name, "td_case", "td_case_code", PROP_BITS, shard=150)
            total_prop += st["prop_fail"] + st["impl_errors"]
            total_corr += st["corr_fail"]
        if total_corr and not total_prop:
            # the model no longer describes the implementation but no checker rejected anything yet:
            # look harder for a failing input, on the taxa of the disagreeing cases
            for k, taxa in enumerate(_failing_taxa(run)):
                cases = list(treedist.exhaustive_pairs(4, rng_h, taxa=taxa))
                cases += list(treedist.exhaustive_pairs(min(5, len(taxa)), rng_h, limit=400, taxa=taxa))
                st = driver.run_stream(run, treedist, cases, d, "td_search%d" % k, "td_case", "td_case_code",
                                       PROP_BITS, shard=150)
                total_prop += st["prop_fail"] + st["impl_errors"]
                if total_prop:
                    break
    except coqrun.CoqError as e:
        run.violation({"kind": "model does not evaluate", "no_longer_checks": "TreeDist/TreeDistExec.v",
                       "error": str(e)}, no_input=True)
    if not proofs_ok and not total_prop:
        run.violation({"kind": "proof obligation broken", "no_longer_checks": pr["broken"],
                       "log": pr["log"][-1500:]}, no_input=True)
    c = run.coverage
    c["rule"] = ("case = (tree a, tree b, re-ordered copies a', b', Newick texts).  Streams: every ordered pair of the 26 "
                 "rooted topologies on 4 taxa (every child ordering of every topology occurs as a' or b'); %s of the "
                 "236^2 pairs on 5 taxa (mixed names); for random trees on 4-6 taxa every child ordering of a (capped at %d per tree); "
                 "seeded random pairs on 4-9 taxa (binary and multifurcating; identical, neighbouring, random, star, "
                 "other-taxa and fewer-taxa partners; with and without branch lengths, also on the root; plain, "
                 "white-space-laden and semicolon-less texts; seven name alphabets).  Non-trivial = same taxon set of size "
                 ">= 4, no unary node, both trees have a non-trivial bipartition and a numeric rf came back; distinct by "
                 "full input." % ("1/97" if tier == "quick" else "all", 100 if tier == "quick" else 720))
    c["exhaustive"] = False
    c["trusted_base"] += [
        "correspondence check: harness/comp/treedist.py runs lingpy.basic.tree.Tree (cogent parser, str, taxa, tip names "
        "of every internal node), _TreeDist.get_bipartition and Tree.get_distance('grf'|'rf') from /repo/src and compares, "
        "inside Coq by vm_compute, with TreeDist/Newick.load, print, leaves, clades, Bipart.get_bipartition, RF.grf_both",
        "distances: the returned float r is replaced by the fraction p/q (q <= 64) with float(p)/float(q) == r (checked in "
        "Python); the model value is compared with p/q exactly",
        "branch lengths are opaque texts with repr(float(text)) == text; float parsing/printing is not modelled",
        "modelled, not verified: the Python string methods (split, strip, replace, find), re.finditer counts, frozenset "
        "semantics (lists compared as sets), dict insertion order; cogent's TreeBuilder naming (names must be distinct "
        "and different from 'edge'), quotes/comments in Newick texts are outside the model"]
    run.assumptions += ["leaf names are clean (printable, none of ( ) , : ; ' \" [ ] _ / and no blank), distinct, not 'edge'",
                        "every internal node has at least two children; at least four taxa",
                        "both trees have a non-trivial bipartition (otherwise lingpy divides by zero)"]
    return run.finish()


def replay(path):
    rep = json.load(open(path))
    env.use_repo()
    case = treedist.from_json(rep["case"])
    res = treedist.run_impl(case)
    d = coqrun.rundir(PROP + "_replay")
    bad = coqrun.eval_cases(d, "replay", treedist.IMPORTS, "td_case", "td_case_code", [treedist.render(case, res)])
    code = bad.get(0, 0)
    print(json.dumps({"impl": treedist.jsonable(case, res)["impl"], "code": code,
                      "failed": [treedist.BITS[k] for k in range(8) if code >> k & 1]}, indent=1))
    return 1 if code else 0
