"""C15 - tree distances depend on topology only, not on how the tree is written."""
import glob
import json
import os
import random

from ..comp import treedist
from ..lib import coqrun, driver, env, proofs, report

PROP = "C15"
PROP_BITS = (1, 2, 3, 4, 5, 6)


def corpus_cases():
    out = []
    for p in sorted(glob.glob(os.path.join(env.VERIF, "corpus", "treedist", "regressions*.json"))):
        for c in json.load(open(p))["cases"]:
            out.append(treedist.from_json(c))
    return out


def streams(tier, seed):
    rng = random.Random(seed)
    quick = tier == "quick"
    out = [("td_corpus", corpus_cases()), ("td_exhaustive4", list(treedist.exhaustive_pairs(4, rng)))]
    if quick:
        out.append(("td_exhaustive5", list(treedist.exhaustive_pairs(5, rng, stride=(seed % 97, 97),
                                                                     taxa=treedist.MIXED))))
    else:
        for k in range(4):                         # all 236^2 pairs, in four streams
            out.append(("td_exhaustive5_%d" % k, list(treedist.exhaustive_pairs(5, rng, stride=(k, 4),
                                                                                taxa=treedist.MIXED))))
    out.append(("td_orderings", list(treedist.ordering_cases(rng, 12 if quick else 80, cap=100 if quick else 720))))
    out.append(("td_random", [treedist.gen_case(rng) for _ in range(1000 if quick else 12000)]))
    return out


OBJ = treedist.OBJ
OB_BITS = (1, 2, 3, 4, 5, 6, 7)


def object_streams(tier, seed):
    rng = random.Random(seed + 15)
    n = 250 if tier == "quick" else 4000
    return [("td_objects", [treedist.gen_object_case(rng, history=False) for _ in range(n)]),
            ("td_histories", [treedist.gen_object_case(rng, history=True) for _ in range(n)])]


def known_witnesses(run, d, quiet=False):
    """Known findings of C15 (known_findings.json, status 'known') about taxon names outside the clean alphabet.
    Each witness (corpus/treedist/known_*.json) is run with the name guard of its class lifted.  Still failing in the
    recorded way + listed -> one KNOWN-FINDING line, and the generated object streams keep that name class out of the
    affected clauses.  No longer failing -> the guard is lifted for the generated streams (the class is then checked
    like any other name).  Failing differently, or failing without an entry in known_findings.json -> VIOLATION."""
    entries = {e.get("signature"): e for e in report.known_findings(PROP) if e.get("status") == "known"}
    out = {}
    OBJ.lift_q = OBJ.lift_s = OBJ.lift_b = False
    OBJ.inner_labels = False
    for p in sorted(glob.glob(os.path.join(env.VERIF, "corpus", "treedist", "known_*.json"))):
        w = json.load(open(p, encoding="utf8"))
        sig, case = w["signature"], OBJ.from_json(w["case"])
        if w.get("only_if_listed") and not any(e.get("signature") == sig for e in report.known_findings(PROP)):
            out[sig] = "not listed: this name class stays outside the distance clauses (notes/design/C15.md)"
            continue
        saved = (OBJ.lift_q, OBJ.lift_s, OBJ.lift_b)
        OBJ.lift_q, OBJ.lift_s, OBJ.lift_b = w["lifts"]["lift_q"], w["lifts"]["lift_s"], w["lifts"]["lift_b"]
        try:
            res = OBJ.run_impl(case)
            bad = coqrun.eval_cases(d, "known_" + sig.replace("-", "_"), OBJ.IMPORTS, "ob_case", "ob_case_code",
                                    [OBJ.render(case, res)])
        finally:
            OBJ.lift_q, OBJ.lift_s, OBJ.lift_b = saved
        code = bad.get(0, 0)
        bits = [k for k in range(16) if code >> k & 1]
        recorded = any(k in bits for k in w["expect_bits"]) and all(k in w["allowed_bits"] for k in bits)
        if not code:
            out[sig] = "no longer fails: name class checked like any other"
            if sig == "quoted-name-position":
                OBJ.lift_q = True
            elif sig == "blank-name-roundtrip":
                OBJ.lift_b = True
            elif sig == "inner-node-labels":
                OBJ.inner_labels = True
        elif recorded and sig in entries:
            out[sig] = "still fails as recorded"
            e = entries[sig]
            if not quiet:
                run.known_finding("%s %s: %s" % (e.get("id", ""), sig, e.get("what", w["what"])))
        else:
            out[sig] = "fails differently / not listed"
            if not quiet:
                run.violation({"stream": "known_witness", "signature": sig, "kind": "the witness of a name-class finding fails "
                           "and is not listed in known_findings.json with status 'known' (or fails in another way than "
                           "recorded)", "what": w["what"], "code": code, "failed": [OBJ.BITS.get(k, k) for k in bits],
                           "case": OBJ.jsonable(case, res)}, no_input=False)
    OBJ.lift_s = False              # names with , : ; ( ) never enter the distance clauses of the generated streams
    run.coverage["known_witnesses"] = out


def _failing_taxa(run, limit=3):
    """taxon lists (4-6 names) of the cases on which model and implementation disagreed"""
    out = []
    for path, no_input in run.violations:
        try:
            case = json.load(open(path)).get("case")
        except Exception:
            case = None
        if not case or "a" not in case:
            continue
        taxa = []
        for k in ("a", "b"):
            for x in treedist.leaves(treedist._tup(case[k])):
                if x not in taxa:
                    taxa.append(x)
        taxa = taxa[:6]
        if len(taxa) >= 4 and taxa not in out:
            out.append(taxa)
        if len(out) >= limit:
            break
    return out


def main(tier, seed):
    run = report.Run(PROP, tier, seed)
    pr = proofs.check_property(PROP)
    proofs_ok = run.proofs(pr)
    env.use_repo()
    d = coqrun.rundir(PROP)
    total_prop = total_corr = 0
    rng_h = random.Random(seed + 1)
    try:
        for name, cases in streams(tier, seed):
            if not cases:
                continue
            st = driver.run_stream(run, treedist, cases, d, name, "td_case", "td_case_code", PROP_BITS, shard=150)
            total_prop += st["prop_fail"] + st["impl_errors"]
            total_corr += st["corr_fail"]
        rng_s = random.Random(seed + 77)
        sc = [treedist.gen_scanner_case(rng_s) for _ in range(1500 if tier == "quick" else 20000)]
        st = driver.run_stream(run, treedist.SCAN, sc, d, "td_scanner", "sc_case", "sc_case_code", (), shard=500)
        total_corr += st["corr_fail"]
        known_witnesses(run, d)
        for name, cases in object_streams(tier, seed):
            st = driver.run_stream(run, OBJ, cases, d, name, "ob_case", "ob_case_code", OB_BITS, shard=150)
            total_prop += st["prop_fail"] + st["impl_errors"]
        if total_corr and not total_prop:
            # the model no longer describes the implementation but no checker rejected anything yet:
            # look harder for a failing input, on the taxa of the disagreeing cases
            for k, taxa in enumerate(_failing_taxa(run)):
                cases = list(treedist.exhaustive_pairs(4, rng_h, taxa=taxa))
                cases += list(treedist.exhaustive_pairs(min(5, len(taxa)), rng_h, limit=400, taxa=taxa))
                st = driver.run_stream(run, treedist, cases, d, "td_search%d" % k, "td_case", "td_case_code",
                                       PROP_BITS, shard=150)
                total_prop += st["prop_fail"] + st["impl_errors"]
                if total_prop:
                    break
    except coqrun.CoqError as e:
        run.violation({"kind": "model does not evaluate", "no_longer_checks": "TreeDist/TreeDistExec.v",
                       "error": str(e)}, no_input=True)
    if not proofs_ok and not total_prop:
        run.violation({"kind": "proof obligation broken", "no_longer_checks": pr["broken"],
                       "log": pr["log"][-1500:]}, no_input=True)
    c = run.coverage
    c["rule"] = ("case = (tree a, tree b, re-ordered copies a', b', Newick texts).  Streams: every ordered pair of the 26 "
                 "rooted topologies on 4 taxa (every child ordering of every topology occurs as a' or b'); %s of the "
                 "236^2 pairs on 5 taxa (mixed names); for random trees on 4-6 taxa every child ordering of a (capped at %d per tree); "
                 "seeded random pairs on 4-9 taxa (binary and multifurcating; identical, neighbouring, random, star, "
                 "other-taxa and fewer-taxa partners; with and without branch lengths, also on the root; plain, "
                 "white-space-laden and semicolon-less texts; eight name alphabets incl. underscore names, quoted sources).  Object streams: Tree objects with "
                 "odd-but-legal names (blanks, quoted labels with _ [ ] quotes , : ; parentheses), all five Newick writers "
                 "re-parsed, and histories on one object (use, then swap/rename tips, reverse children, move/remove a tip, "
                 "use again) checked against the reference values of the tree the object should now be; raw texts "
                 "(printed trees with quoted/blank names, damaged texts, random strings over ab'_ :();,-x) through "
                 "get_bipartition against the scanner model.  Non-trivial = same taxon set of size "
                 ">= 4, no unary node, both trees have a non-trivial bipartition and a numeric rf came back; distinct by "
                 "full input." % ("1/97" if tier == "quick" else "all", 100 if tier == "quick" else 720))
    c["exhaustive"] = False
    c["trusted_base"] += [
        "correspondence check: harness/comp/treedist.py runs lingpy.basic.tree.Tree (cogent parser, str, taxa, tip names "
        "of every internal node), _TreeDist.get_bipartition and Tree.get_distance('grf'|'rf') from /repo/src and compares, "
        "inside Coq by vm_compute, with TreeDist/Newick.load, print, leaves, clades, Bipart.get_bipartition, RF.grf_both",
        "distances: the returned float r is replaced by the fraction p/q (q <= 64) with float(p)/float(q) == r (checked in "
        "Python); the model value is compared with p/q exactly",
        "branch lengths are opaque texts with repr(float(text)) == text; float parsing/printing is not modelled",
        "modelled, not verified: the Python string methods (split, strip, replace, find), re.finditer counts, frozenset "
        "semantics (lists compared as sets), dict insertion order; cogent's TreeBuilder naming (names must be distinct "
        "and different from 'edge'), quotes/comments in Newick texts are outside the model"]
    run.assumptions += ["leaf names are clean (printable, none of ( ) , : ; ' \" [ ] _ / and no blank), distinct, not 'edge'",
                        "every internal node has at least two children; at least four taxa",
                        "both trees have a non-trivial bipartition (otherwise lingpy divides by zero)"]
    return run.finish()


def replay(path):
    rep = json.load(open(path))
    env.use_repo()
    if "a0" in rep.get("case", {}):
        d = coqrun.rundir(PROP + "_replay")
        if rep.get("stream") != "known_witness":
            known_witnesses(report.Run(PROP, "replay", 0), d, quiet=True)      # sets the name-class guards
        else:
            OBJ.lift_q = OBJ.lift_s = OBJ.lift_b = True
        case = OBJ.from_json(rep["case"])
        res = OBJ.run_impl(case)
        bad = coqrun.eval_cases(d, "replay", OBJ.IMPORTS, "ob_case", "ob_case_code", [OBJ.render(case, res)])
        code = bad.get(0, 0)
        print(json.dumps({"impl": OBJ.jsonable(case, res)["impl"], "expected": OBJ.jsonable(case, res)["expected"],
                          "code": code, "failed": [OBJ.BITS[k] for k in range(8) if code >> k & 1]}, indent=1))
        return 1 if code else 0
    case = treedist.from_json(rep["case"])
    res = treedist.run_impl(case)
    d = coqrun.rundir(PROP + "_replay")
    bad = coqrun.eval_cases(d, "replay", treedist.IMPORTS, "td_case", "td_case_code", [treedist.render(case, res)])
    code = bad.get(0, 0)
    print(json.dumps({"impl": treedist.jsonable(case, res)["impl"], "code": code,
                      "failed": [treedist.BITS[k] for k in range(8) if code >> k & 1]}, indent=1))
    return 1 if code else 0
