"""C16 - partial cognates: one id per morpheme; word-level ids derived exactly."""
import glob
import json
import os
import random

from ..comp import partial
from ..lib import coqrun, driver, env, proofs, report
from ..translate import partial_rc

PROP = "C16"
PROP_BITS = (1, 2, 3, 5, 6)      # clauses evaluated by verified checkers on implementation outputs
CORR_BITS = (0, 4, 7, 8, 9)            # model vs implementation (partial ids; strict/loose ids; loaded source cells)
CORPUS = os.path.join(env.VERIF, "corpus", "partial")


def corpus_cases():
    pc, dc = [], []
    for p in sorted(glob.glob(os.path.join(CORPUS, "*.json"))):
        c = json.load(open(p))
        c = c.get("case", c)
        if c.get("stream") == "derive":
            dc.append(partial.d_from_json(c))
        else:
            pc.append(partial.from_json(c))
    return pc, dc


def streams(tier, seed):
    rng = random.Random(seed)
    quick = tier == "quick"
    n_stub, n_real, n_der = (900, 500, 400) if quick else (12000, 6000, 4000)
    exh = list(partial.exhaustive_cases())
    if quick:
        exh = [c for i, c in enumerate(exh) if i % 2 == seed % 2]
    stub = [partial.gen_case(rng, "stub", big=not quick and i % 4 == 0) for i in range(n_stub)]
    real = [partial.gen_case(rng, "real", big=not quick and i % 4 == 0) for i in range(n_real)]
    der = [partial.d_gen_case(rng, big=not quick) for _ in range(n_der)]
    pc, dc = corpus_cases()
    return [("partial_corpus", partial, pc, "partial_case", "partial_case_code"),
            ("derive_corpus", partial.derive, dc, "derive_case", "derive_case_code"),
            ("partial_exhaustive", partial, exh, "partial_case", "partial_case_code"),
            ("partial_stub", partial, stub, "partial_case", "partial_case_code"),
            ("partial_real", partial, real, "partial_case", "partial_case_code"),
            ("derive_random", partial.derive, der, "derive_case", "derive_case_code")]


def main(tier, seed):
    run = report.Run(PROP, tier, seed)
    pr = proofs.check_property(PROP, gen=[partial_rc.generate])
    proofs_ok = run.proofs(pr)
    if not proofs_ok:
        # a broken obligation must not keep the case evaluation from running: build what the cases need
        proofs.make("theories/Cognates/PartialExec.vo")
    env.use_repo()
    d = coqrun.rundir(PROP)
    total_prop = 0
    excluded = compared = 0
    try:
        for name, comp, cases, ctype, cfn in streams(tier, seed):
            if not cases:
                continue
            st = driver.run_stream(run, comp, cases, d, name, ctype, cfn, PROP_BITS, corr_bits=CORR_BITS, shard=150,
                                   max_report=1 if tier == "quick" else 3)
            total_prop += st["prop_fail"] + st["impl_errors"]
            dist = run.coverage["streams"][name]["distribution"]
            excluded += dist.get("tie_excluded_from_equality", 0)
            compared += dist.get("cmp=2", 0) + dist.get("cmp=1", 0)
    except coqrun.CoqError as e:
        run.violation({"kind": "model does not evaluate", "no_longer_checks": "Cognates/PartialExec.v",
                       "error": str(e)}, no_input=True)
    # the documented defaults the model is given for omitted keywords, against the source
    try:
        src = partial.source_defaults()
        diffs = {k: [src.get(k), v] for k, v in partial.DOC_DEFAULTS.items() if src.get(k) != v}
        run.coverage["defaults_check"] = {"source": src, "differences": diffs}
    except Exception as e:      # a rewritten kw dict is not an alarm; the omission cases test the behaviour
        diffs = {}
        run.coverage["defaults_check"] = "not readable: %s" % e
    if diffs and not run.violations:
        run.violation({"kind": "a documented default of partial_cluster / add_cognate_ids changed in the source",
                       "no_longer_checks": "documented defaults %s (source value, documented value)" % diffs},
                      no_input=True)
    if not proofs_ok and not total_prop:
        run.violation({"kind": "proof obligation broken", "no_longer_checks": pr["broken"], "log": pr["log"][-1500:]},
                      no_input=True)
    c = run.coverage
    c["rule"] = (
        "cases = (wordlist, matrix construction imap on/off, linkage, threshold, post-processing on/off). Wordlists: "
        "1-3 concepts x 2-4 languages (thorough: up to 4 x 5), missing cells, synonyms, 1-4 morphemes per word drawn "
        "from a pool of 1-4 morphemes per concept, a morpheme repeated inside a word with probability 0.3, 20%% of the "
        "wordlists with irregular separators (leading/trailing/double/triple '+'). Streams: partial_exhaustive = every "
        "pair of words over {ta, ku} with 1-2 morphemes x 2 stub seeds x 3 linkages x imap {off,on,omitted} x post {off,on,omitted} (quick: one half, "
        "chosen by the seed); partial_stub = aligner replaced by a deterministic grid-valued function of its arguments "
        "(all 4 linkages incl. ward; some cases with ZeroDivisionError); partial_real = real aligner (method 'sca'), "
        "every call recorded and replayed into the model as exact rationals (single, complete, upgma); derive_random = "
        "add_cognate_ids strict/loose on random source id lists (empty lists, ids shared between concepts). "
        "In about 40%% of the random cases (and in 5 of 9 keyword patterns of the exhaustive stream) one or more of the "
        "optional keywords post_processing, imap_mode, threshold, method, ref, idtype are OMITTED from the call, so the "
        "library's own defaults are exercised while the model holds the documented defaults (on, on, 0.45, 'sca', "
        "'partial_cognate_sets', 'strict'). "
        "35%% of the random partial cases are HISTORIES: 1-2 earlier partial_cluster calls on the same Partial object "
        "(copies of the last call with post_processing / imap_mode / threshold / linkage varied, or unchanged, each "
        "writing its own column), every call compared with the model for its own parameters; every second exhaustive "
        "case is preceded by the same call with post-processing flipped. 30%% of the partial cases are written to a TSV "
        "file and loaded with Wordlist before Partial(wl); in half of the cases the segment cells are tuples, "
        "lingpy.basictypes.lists objects, or lists objects built with other content and edited in place (insert of a "
        "'+', extend, item assignment, del) into the intended tokens. Half of the derive cases read their source ids "
        "from a file column (COGIDS, PARTIALIDS, PARTIAL_COGNATE_SETS and aliases) whose cells have irregular blanks "
        "(doubled, tripled, leading, trailing, blank-only for the empty list); the model is given the ids as written. "
        "About 14%% of the random partial cases use cluster_method='mcl' or an external_function supplied by the "
        "harness (a deterministic pseudo-random partition with non-contiguous labels; 'wild' labels up to 3n only with "
        "post-processing): what the routine returned per matrix is recorded, checked against its contract by a verified "
        "checker and replayed into the generic model partial_cluster_any (looked up by the model's own matrix). File "
        "derive cases also carry every source cell as written and as loaded and are compared with the converter model "
        "(class of the column in the translated wordlist.rc + x.split()/int()). "
        "Non-trivial (partial) = the run returned and in some concept at least two morphemes share an id while at "
        "least two ids occur; (derive) = some concept has a loose component with more than one word and at least two "
        "components. Distinct by full input. Ids of the real stream are compared with the model only when the float "
        "expressions of average linkage and of the column-mean comparison, recomputed by the harness on the recorded "
        "matrix, decide as the exact values do: %d case(s) excluded from the equality comparison (checkers still run), "
        "%d compared exactly." % (excluded, compared))
    c["exhaustive"] = False
    c["tie_excluded_from_equality"] = excluded
    c["trusted_base"] += [
        "correspondence check: harness/comp/partial.py runs lingpy.compare.partial.Partial (partial_cluster, "
        "add_cognate_ids) from /repo/src with calign.align_pair recorded or substituted from outside, and compares, "
        "inside Coq by vm_compute, with Cognates/Partial.partial_cluster / strict_ids / loose_ids (exact ids per concept "
        "and word)",
        "the harness' encoding of what the aligner sees of a token (class string, weight, prosodic symbol) as an "
        "integer code, and of the wordlist layout (sorted(rows), get_list(row=c, flat=True)) as the model's input",
        "exactness-grid argument (DESIGN 2.1) for the stub stream: distances are multiples of 1/8, decimal thresholds "
        "reach the model as decimals",
        "modelled, not verified: _get_slices, _get_partial_matrices (both constructions), partial_cluster, "
        "add_cognate_ids; flat clustering through Cluster/Flat.v; networkx replaced by Cognates/Components.v",
        "clustering routines mcl / external_function: oracles with the contract 'every position gets an id in 1..n' "
        "(explicit premise of the theorems, verified checker on every recorded result); infomap not runnable (no igraph)",
        "translator harness/translate/partial_rc.py (wordlist.rc -> coq/gen/PartialRc.v, reusing the parser of namespace_rc.py) and the converter "
        "semantics of Wordlist/Serialize.v (C13) for the id-list columns; the TSV reader itself is exercised, not modelled",
        "not modelled: method='lexstat', split_on_tones=True"]
    run.assumptions += [
        "the aligner is an arbitrary function of the two slices it is given (a universally quantified oracle in "
        "every theorem); the keys of the words of a concept are distinct",
        "float comparisons on the grid coincide with exact rational comparisons"]
    return run.finish()


def replay(path):
    rep = json.load(open(path))
    env.use_repo()
    c = rep["case"]
    d = coqrun.rundir(PROP + "_replay")
    if c.get("stream") == "derive":
        comp, ctype, cfn = partial.derive, "derive_case", "derive_case_code"
    else:
        comp, ctype, cfn = partial, "partial_case", "partial_case_code"
    case = comp.from_json(c)
    res = comp.run_impl(case)
    bad = coqrun.eval_cases(d, "replay", comp.IMPORTS, ctype, cfn, [comp.render(case, res)])
    code = bad.get(0, 0)
    shown = {k: v for k, v in res.items() if k not in ("view", "table")}
    print(json.dumps({"impl": shown, "code": code,
                      "failed": [partial.BITS[k] for k in range(16) if code >> k & 1 and k in partial.BITS]}, indent=1, default=str))
    return 1 if bad else 0
