"""C10 - raising the threshold only merges clusters (flat clustering, streams of C05) and cognate
sets (LexStat.cluster at two thresholds, streams of C06)."""
import json

from . import C05, C06
from ..comp import flat
from ..lib import coqrun, driver, env, proofs, report

PROP = "C10"
FLAT_BITS = (4,)        # flat_case_code: refinement of the two flat_cluster outputs
LEX_BITS = (5, 6)       # lex_case_code: refinement of the two id columns; 6: the word distances used by the two
                        # calls differ (the premise "same method / scoring function" is broken by the code itself)
LEX_COUNTS = {"quick": 200, "thorough": 3000}


def main(tier, seed):
    run = report.Run(PROP, tier, seed)
    pr = proofs.check_property(PROP)
    proofs_ok = run.proofs(pr)
    env.use_repo()
    d = coqrun.rundir(PROP)
    total_prop = 0
    try:
        for name, cases in C05.streams(tier, seed):
            st = driver.run_stream(run, flat, cases, d, name, "flat_case", "flat_case_code", FLAT_BITS,
                                   search=flat.threshold_search)
            total_prop += st["prop_fail"] + st["impl_errors"]
    except coqrun.CoqError as e:
        run.violation({"kind": "model does not evaluate", "no_longer_checks": "Cluster/FlatQ.v", "error": str(e)},
                      no_input=True)
    # cognate clause: the lexstat streams with their own checker bit
    total_prop += C06.main(tier, seed, prop=PROP, prop_bits=LEX_BITS, run=run, n=LEX_COUNTS[tier])
    if not proofs_ok and not total_prop:
        run.violation({"kind": "proof obligation broken", "no_longer_checks": pr["broken"], "log": pr["log"][-1500:]},
                      no_input=True)
    c = run.coverage
    c["rule"] = ("flat part: cases = (method, symmetric grid matrix, thresholds t1<=t2) as in C05 (exhaustive small scope "
                 "+ seeded random); non-trivial = at least one merge happened and at least two clusters remain at one "
                 "threshold.  cognate part: cases = (small wordlist, method in turchin/edit-dist/sca/lexstat(fixed scorer)/"
                 "stub-oracle, linkage, thresholds t1<=t2) as in C06; non-trivial = some concept with >=3 words is split "
                 "into more than one but fewer than its number of words sets at one threshold.  Distinct by full input.")
    c["exhaustive"] = False
    c["trusted_base"] += [
        "flat part: correspondence of Cluster/FlatQ.flat_cluster with lingpy.algorithm.clustering.flat_cluster as in C05 "
        "(exactness-grid argument, DESIGN 2.1)"]
    run.assumptions += ["theorems are generic in the ordered carrier: they need only transitivity of <=, so they cover "
                        "the float order as well as the rational one"]
    return run.finish()


def replay(path):
    rep = json.load(open(path))
    if "rows" in rep.get("case", {}):
        return C06.replay(path)
    return C05.replay(path)
