"""C10 - raising the threshold only merges clusters (flat clustering part; the cognate part
is added by the lexstat component)."""
from . import C05

PROP = "C10"


def main(tier, seed):
    return C05.main(tier, seed, prop=PROP, prop_bits=(4,))


def replay(path):
    return C05.replay(path)
