"""C02 - the reported alignment score is the score of the returned alignment."""
import glob
import json
import os
import random
from fractions import Fraction as F

from ..comp import align, pairwise_ipa
from ..lib import coqrun, driver, env, proofs, report

PROP = "C02"
PROP_BITS = (2,)
F8_WHAT = ("F8 secondary_semi_globalign charges leading gaps in overlap mode (boundary rows hold cumulative scaled "
           "penalties): returned score = re-scoring with charged leading gaps, not with free terminal gaps")


def corpus_cases():
    out = []
    for p in sorted(glob.glob(os.path.join(env.VERIF, "corpus", "align", "*.json"))):
        out.append(align.from_json(json.load(open(p))))
    return out


def effective_secondary(case):
    if case["fn"] in (0, 6):
        return case["sec"]
    if case["fn"] in (1, 4):
        return bool(set(case["r"]) & set(case["proA"] + case["proB"]))
    return False


def known(case, res, code):
    """Signature of known finding F8 (see known_findings.json): overlap mode, secondary twin, the returned
    alignment starts with a gap column, and the score equals the re-scoring under the faithful scheme
    (bit 4 clear).  Anything else that fails bit 2 is a violation."""
    o = res["out"]
    if (case["mode"] == "overlap" and effective_secondary(case) and not (code >> 4 & 1)
            and o["kind"] == "global" and (o["almA"][0] is None or o["almB"][0] is None)):
        return F8_WHAT
    return None


def streams(tier, seed):
    rng = random.Random(seed)
    nrand = 3000 if tier == "quick" else 80000
    maxlen = 6 if tier == "quick" else 9
    rand = [align.gen_case(rng, maxlen) for _ in range(nrand)]
    exh = list(align.exhaustive_cases(2 if tier == "quick" else 3))
    return [("corpus", corpus_cases()), ("align_exhaustive", exh), ("align_random", rand)]


def main(tier, seed):
    run = report.Run(PROP, tier, seed)
    pr = proofs.check_property(PROP)
    proofs_ok = run.proofs(pr)
    env.use_repo()
    d = coqrun.rundir(PROP)
    total_prop = 0
    try:
        for name, cases in streams(tier, seed):
            st = driver.run_stream(run, align, cases, d, name, "align_case", "align_case_code", PROP_BITS,
                                   known=known)
            total_prop += st["prop_fail"] + st["impl_errors"]
    except coqrun.CoqError as e:
        run.violation({"kind": "model does not evaluate", "no_longer_checks": "Align/Calign.v, Align/LibScore.v",
                       "error": str(e)}, no_input=True)
    # the IPA-level entry point: Pairwise.align must hand exactly the requested parameters (documented defaults for
    # the keywords left out) to calign.align_pairs, whose score is what the streams above re-score
    st, errs, raised = pairwise_ipa.glue_histories(random.Random(seed + 7), 120 if tier == "quick" else 3000)
    run.coverage.setdefault("streams", {})["pairwise_glue"] = st
    for e in errs[:3]:
        run.violation(dict(e, stream="pairwise_glue", kind="Pairwise.align does not return what calign.align_pairs "
                           "returns for the requested parameters (documented defaults for omitted keywords)"),
                      no_input=not e["score_differs"])
    total_prop += sum(1 for e in errs if e["score_differs"])
    if not proofs_ok and not total_prop:
        run.violation({"kind": "proof obligation broken", "no_longer_checks": pr["broken"], "log": pr["log"][-1500:]},
                      no_input=True)
    c = run.coverage
    c["rule"] = ("cases as for C01 (functions of _calign/_talign and the align_pair dispatchers on the exactness grid; "
                 "exhaustive small scope + seeded random + corpus incl. the Coq witness of known finding F8). For every "
                 "implementation output in global/overlap/local mode the verified re-scoring function libscore (Coq, "
                 "evaluated by vm_compute) is applied to the RETURNED columns and compared with the RETURNED score as exact "
                 "rationals; the returned distance is compared with 1-2*sim/(selfA+selfB). Non-trivial = sequences differ "
                 "or the alignment has a gap; distinct by full input.")
    c["exhaustive"] = False
    c["trusted_base"] += [
        "correspondence check as C01 (model Align/Calign.v vs _calign/_talign, rows and scores as exact rationals)",
        "exactness-grid argument (DESIGN 2.1)",
        "modelled, not verified: the _calign/_talign functions; LibScore.sc_from is the declarative scheme the theorems "
        "relate the model's score to; dialign is excluded by the property",
        "known finding F8 is matched by signature (overlap, secondary twin, leading gap column, faithful re-scoring agrees)"]
    run.assumptions += ["float comparisons on the grid coincide with exact rational comparisons",
                        "selfA + selfB != 0 when a distance is requested (the Python divides by zero otherwise)"]
    return run.finish()


def replay(path):
    rep = json.load(open(path))
    env.use_repo()
    case = align.from_json(rep["case"])
    res = align.run_impl(case)
    d = coqrun.rundir(PROP + "_replay")
    bad = coqrun.eval_cases(d, "replay", align.IMPORTS, "align_case", "align_case_code", [align.render(case, res)])
    code = bad.get(0, 0)
    k = known(case, res, code) if code >> 2 & 1 else None
    print(json.dumps({"impl": align.jsonable(case, res)["impl"], "code": code, "known_finding": k}, indent=1))
    return 1 if (code & 0b101) and not k else 0
