"""C14 - segmentation and sound-class conversion keep every symbol and position."""
import json
import os
import random

from ..comp import seq
from ..lib import coqrun, driver, env, proofs, report
from ..translate import prosody, sc_tables

PROP = "C14"
PROP_BITS = (1, 2, 3, 4, 5)
CASE_TYPE = "seq_case"
CODE_FN = "seq_case_code"


def corpus_cases():
    d = os.path.join(env.VERIF, "corpus", "seq")
    out = []
    if os.path.isdir(d):
        for fn in sorted(os.listdir(d)):
            if fn.endswith(".json"):
                data = json.load(open(os.path.join(d, fn), encoding="utf8"))
                for c in (data if isinstance(data, list) else [data]):
                    out.append(seq.from_json(c))
    return out


def streams(tier, seed):
    rng = random.Random(seed)
    quick = tier == "quick"
    ipa_exh = list(seq.ipa_exhaustive(3 if quick else 4))
    if quick:
        # all strings of length <= 3 over the 17 representatives, plus a seeded sample of length 4
        ipa_exh += list(seq.ipa_custom_random(rng, 1000, 4, 4))
    yield "corpus", corpus_cases(), 500
    yield "ipa_exhaustive", ipa_exh, 1500
    yield "ipa_custom_random", list(seq.ipa_custom_random(rng, 1500 if quick else 20000, 5, 12)), 1500
    yield "ipa_default_random", list(seq.ipa_default_random(rng, 1500 if quick else 20000, 14)), 1000
    yield "t2c_exhaustive", list(seq.t2c_exhaustive(3 if quick else 4)), 1500
    yield "t2c_models_random", list(seq.t2c_random(rng, 1500 if quick else 30000, 10)), 500
    # all lists over 0..9 up to length 3 (5), then over the 7 values the chain distinguishes
    # (0, three consonant levels, 7, 8, 9) up to length 4 (7)
    pros_exh = list(seq.pros_exhaustive(3 if quick else 4)) + \
        list(seq.pros_exhaustive(4 if quick else 6, seq.REDUCED, 4 if quick else 5))
    yield "pros_exhaustive", pros_exh, 2500
    yield "pros_random", list(seq.pros_random(rng, 2000 if quick else 40000, 16)), 2000
    yield "prostok_random", list(seq.prostok_random(rng, 800 if quick else 15000, 10)), 500
    # histories of calls in ONE process: all segmentations of a string in varied order, then random words
    yield "prosseq_exhaustive", list(seq.prosseq_exhaustive(rng, "aits", 3, 4 if quick else None)) + \
        ([] if quick else list(seq.prosseq_exhaustive(rng, "ait", 4, 6))), 500
    yield "prosseq_random", list(seq.prosseq_random(rng, 400 if quick else 12000, 7)), 500
    # the composed chain: string -> tokens -> classes -> aligned classes -> class2tokens (+ prosody)
    yield "pipe_words", list(seq.pipe_words()), 500
    yield "pipe_random", list(seq.pipe_random(rng, 700 if quick else 20000, 12)), 500
    yield "c2t_exhaustive", list(seq.c2t_exhaustive(3, 4 if quick else 5)), 2500
    yield "c2t_random", list(seq.c2t_random(rng, 1500 if quick else 30000, 10)), 2000


def main(tier, seed, prop=PROP, prop_bits=PROP_BITS):
    run = report.Run(prop, tier, seed)
    pr = proofs.check_property(prop, gen=[prosody.generate, sc_tables.generate])
    proofs_ok = run.proofs(pr)
    env.use_repo()
    total_prop = total_corr = 0
    try:
        seq.setup()
        d = coqrun.rundir(prop)
        for name, cases, shard in streams(tier, seed):
            if not cases:
                continue
            shard = max(60, min(shard, -(-len(cases) // (2 * env.JOBS))))      # at least 2 shards per job
            st = driver.run_stream(run, seq, cases, d, name, CASE_TYPE, CODE_FN, prop_bits, shard=shard)
            total_prop += st["prop_fail"] + st["impl_errors"]
            total_corr += st["corr_fail"]
    except coqrun.CoqError as e:
        run.violation({"kind": "model does not evaluate", "no_longer_checks": "Seq/SeqExec.v (seq_case_code)",
                       "error": str(e)}, no_input=True)
    if not proofs_ok and not total_prop:
        run.violation({"kind": "proof obligation broken", "no_longer_checks": pr["broken"], "log": pr["log"][-1500:]},
                      no_input=True)
    c = run.coverage
    c["rule"] = (
        "cases: ipa = (keyword strings, input string, outputs of ipa2tokens for every merge_vowels x merge_geminates "
        "x semi_diacritics setting); t2c = (converter, token list, cldf, token2class per token, tokens2class); "
        "pros = (sonority list, _output mode, prosodic_string, prosodic_weights); prostok = (token list, art model, "
        "sonority profile, prosodic string); prosseq = a history of calls in one process (tokens2class, sonority, "
        "prosodic_string, prosodic_weights on several segmentations of the same characters and cldf settings, order "
        "varied; pipe = the composed chain string -> ipa2tokens -> tokens2class (every shipped model) -> gaps "
        "inserted by the harness -> class2tokens, plus prosodic_string / prosodic_weights of the tokens, every stage fed "
        "with the implementation's own previous output; every segmentation of every string of length 2-3 over 4 characters); c2t = (tokens, aligned class string, prefix/suffix, class2tokens global "
        "and local).  Exhaustive small scopes: all strings of length <= %s over 17 representative characters (one per "
        "character class and overlap of classes), all tokens of length <= %s over 7 characters against 3 small "
        "converters, all sonority lists over 0..9 of length <= %s (and over {0,1,2,3,7,8,9} up to length %s), all class strings over {K,-,X} of length <= %s "
        "against <= 3 tokens; the rest seeded random (all %d loadable shipped models).  Non-trivial: ipa = some "
        "token has more than one character; t2c = a token is resolved through a fallback branch and the call returns; "
        "pros/prostok = length >= 2 and the call returns; pipe = every stage returns, a token has several characters and a gap is re-inserted; prosseq = at least two different segmentations of the same "
        "characters and every call returns; c2t = at least one gap inserted into a non-empty token list; "
        "distinct by full input." % ((("3 (+ sample of 4)", 3, 3, 4, 4) if tier == "quick" else (4, 4, 4, 6, 5)) +
                                     (len(seq._state.get("models", {})),)))
    c["exhaustive"] = False
    c["trusted_base"] += [
        "correspondence check: harness/comp/seq.py runs ipa2tokens, token2class, tokens2class, prosodic_string, "
        "prosodic_weights, class2tokens from /repo/src and compares the full outputs, inside Coq by vm_compute, with "
        "the models in coq/theories/Seq (characters as code points)",
        "translators (fail-closed, rerun on every check): harness/translate/prosody.py (loop body of prosodic_string "
        "and the transform dictionaries), harness/translate/sc_tables.py (converter files, read with lingpy's reader "
        "and an independent reader that must agree)",
        "modelled, not verified: the Python functions named above; Python str/list primitives (+=, insert, slicing, "
        "split, substring test, int()) as rendered in the models",
        "aliasing is observed on the implementation side: every list argument is one Python object that is passed to all "
        "calls of a case and compared afterwards with the case's own copy (bit 5); class2tokens is called twice "
        "(global and local) on the same objects",
        "not modelled: Unicode normalisation of user input, asjp2tokens, clean_sequence, non-str inputs"]
    run.assumptions += ["prosodic weights are compared exactly via repr(): no arithmetic is performed on them",
                        "tokens2class reads rcParams['stress'] / rcParams['diacritics'] (the arguments are overridden)"]
    return run.finish()


def replay(path):
    rep = json.load(open(path, encoding="utf8"))
    env.use_repo()
    seq.setup()
    case = seq.from_json(rep["case"])
    res = seq.run_impl(case)
    d = coqrun.rundir(PROP + "_replay")
    bad = coqrun.eval_cases(d, "replay", seq.IMPORTS, CASE_TYPE, CODE_FN, [seq.render(case, res)])
    code = bad.get(0, 0)
    print(json.dumps({"impl": res, "code": code,
                      "failed": [seq.BITS[k] for k in range(8) if code >> k & 1]}, indent=1, ensure_ascii=False,
                     default=str))
    return 1 if bad else 0
