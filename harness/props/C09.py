"""C09 - UPGMA and Neighbor-Joining recover the tree behind tree-like distances."""
import glob
import json
import os
import random

from ..comp import treebuild as tb
from ..lib import coqrun, driver, env, proofs, report

PROP = "C09"
PROP_BITS = (1, 2, 3, 4, 5)   # structure / ultrametric / clades / splits / path sums, on implementation outputs
CORR_BITS = (0, 6)            # model vs implementation; premise of the partial NJ theorem on the model's own run


def corpus_cases():
    out = []
    for p in sorted(glob.glob(os.path.join(env.VERIF, "corpus", "treebuild", "*.json"))):
        out.append(tb.from_json(json.load(open(p))["case"]))
    return out


def streams(tier, seed):
    rng = random.Random(seed)
    nrand = 1000 if tier == "quick" else 30000
    maxn = 9 if tier == "quick" else 12
    rand = [tb.gen_case(rng, maxn) for _ in range(nrand)]
    rand += [tb.gen_big_case(rng) for _ in range(24 if tier == "quick" else 600)]
    exh = list(tb.exhaustive_cases(4))
    if tier == "quick":
        exh = [c for i, c in enumerate(exh) if c["n"] <= 3 or (i // 2) % 4 == seed % 4]
    return [("treebuild_corpus", corpus_cases()), ("treebuild_exhaustive", exh), ("treebuild_random", rand)]


def main(tier, seed):
    run = report.Run(PROP, tier, seed)
    pr = proofs.check_property(PROP)
    proofs_ok = run.proofs(pr)
    env.use_repo()
    d = coqrun.rundir(PROP)
    total_prop = 0
    rejected = certified = 0
    try:
        for name, cases in streams(tier, seed):
            if not cases:
                continue
            st = driver.run_stream(run, tb, cases, d, name, "tb_case", "tb_case_code", PROP_BITS,
                                   corr_bits=CORR_BITS, shard=150)
            total_prop += st["prop_fail"] + st["impl_errors"]
            dist = run.coverage["streams"][name]["distribution"]
            rejected += dist.get("nj_rejected_by_margin_filter", 0)
            certified += dist.get("nj_certified", 0)
    except coqrun.CoqError as e:
        run.violation({"kind": "model does not evaluate", "no_longer_checks": "Cluster/TreeBuildExec.v",
                       "error": str(e)}, no_input=True)
    if not proofs_ok and not total_prop:
        run.violation({"kind": "proof obligation broken", "no_longer_checks": pr["broken"], "log": pr["log"][-1500:]},
                      no_input=True)
    c = run.coverage
    c["rule"] = ("cases = (builder, symmetric grid matrix): an exhaustive small scope (all matrices over {1/2,1,3/2}, "
                 "n<=%s, both builders) plus seeded random cases, n<=%d: ultrametric matrices of random trees with "
                 "strictly increasing heights, additive matrices of random trees with positive branch lengths, "
                 "tie-heavy arbitrary symmetric matrices, additive trees with long cherries and short inner edges, and cases "
                 "with 13-16 taxa and a sibling pair named (1,x).  Non-trivial = n>=3 (at least two merges); distinct by full "
                 "input.  NJ tree matrices are compared with the model only on margin-certified cases "
                 "(%d certified, %d rejected by the filter; rejected cases still pass through every checker)."
                 % ("3 (+1/4 of n=4)" if tier == "quick" else "4", 9 if tier == "quick" else 12, certified, rejected))
    c["exhaustive"] = False
    c["nj_margin_filter"] = {"certified": certified, "rejected": rejected}
    c["trusted_base"] += [
        "correspondence check: harness/comp/treebuild.py calls lingpy.algorithm.clustering.upgma/neighbor from /repo/src, "
        "records the tree matrix filled by _cluster._upgma/_neighbor (wrapping the function object), parses the two "
        "Newick strings (parser in the harness), also runs _cluster._tree2nwk on the recorded tree matrix and reads the "
        "tree objects of clustering.matrix2tree / LoadTree(treestring=...) (children, Name, Length, getTipNames, taxa, "
        "str(tree)), and compares inside Coq by vm_compute with Cluster/Upgma.upgma_rows, "
        "Cluster/Neighbor.nj_rows and Cluster/Nwk.nwk",
        "exactness-grid argument (DESIGN 2.1): distances are multiples of 1/8 (1/16 for tree heights); UPGMA quotient "
        "comparisons coincide with exact ones; NJ decisions are compared only where N-2 is a power of two or the exact "
        "criterion has a unique minimum with margin >= 1e-9 (filter harness/comp/treebuild.nj_certified); lengths are "
        "compared within 2^-30 (exactly on ultrametric inputs)",
        "modelled, not verified: _upgma, _neighbor, the tree-matrix -> Newick loop, the '{:.2f}' rendering of lengths "
        "(Cluster/Fmt2.fmt2: correct rounding to two decimals, ties to even; printed lengths are compared with it "
        "exactly); not modelled: check_taxon_names, non-square input, lingpy's Newick parser (observed only)"]
    run.assumptions += ["float comparisons on the grid coincide with exact rational comparisons (UPGMA) / on the "
                        "margin-certified stream (NJ)",
                        "none of the C09 theorems has an unproved premise: the cherry-picking lemma "
                        "(C09_nj_cherry_picking) and the topology clause (C09_nj_recovers) are proved"]
    return run.finish()


def replay(path):
    rep = json.load(open(path))
    env.use_repo()
    case = tb.from_json(rep["case"])
    res = tb.run_impl(case)
    d = coqrun.rundir(PROP + "_replay")
    bad = coqrun.eval_cases(d, "replay", tb.IMPORTS, "tb_case", "tb_case_code", [tb.render(case, res)])
    print(json.dumps({"impl": tb.jsonable(case, res)["impl"], "code": bad.get(0, 0),
                      "failed": [tb.BITS[k] for k in range(8) if bad.get(0, 0) >> k & 1]}, indent=1))
    return 1 if bad else 0
