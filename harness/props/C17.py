"""C17 - shared-cognate distances and presence/absence patterns match the rows.
Shares the wordlist component, its streams and its case code with C12; the checkers of C17 are bits 7 and 8."""
from . import C12

PROP = "C17"
PROP_BITS = (7, 8)          # distances / paps


def main(tier, seed):
    return C12.main(tier, seed, prop=PROP, prop_bits=PROP_BITS)


def replay(path):
    return C12.replay(path, prop=PROP)
