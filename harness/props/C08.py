"""C08 - the weighted gain-loss scenario has minimum weight (shares the gain-loss component with C07)."""
from . import C07

PROP = "C08"


def main(tier, seed):
    return C07.main(tier, seed, prop=PROP)


def replay(path):
    return C07.replay(path, prop=PROP)
