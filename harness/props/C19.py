"""C19 - analyses do not modify the data the caller passed in."""
import glob
import json
import os
import random
import shutil

from ..comp import heap
from ..lib import coqrun, driver, env, proofs, report

PROP = "C19"
HIST_BITS = (2,)          # frame: a step changed another object (a concrete failing history)
HIST_CORR = (0, 1)       # model mismatch / sharing observed where the model has none (no damage shown yet)
PURE_BITS = (3, 4)       # matrix unchanged / same answer, evaluated on the implementation's outputs


def corpus_cases():
    hist, pure = [], []
    for p in sorted(glob.glob(os.path.join(env.VERIF, "corpus", "heap", "*.json"))):
        comp, case, _, _ = heap.from_json(json.load(open(p)))
        (hist if comp is heap.HIST else pure).append(case)
    return hist, pure


def exhaustive_pure():
    """Every clustering / tree function on a fixed set of small matrices (all functions x
    list / numpy where supported)."""
    from fractions import Fraction as F
    mats = [
        [[F(0), F(3, 4), F(7, 8)], [F(3, 4), F(0), F(5, 4)], [F(7, 8), F(5, 4), F(0)]],
        [[F(0), F(1, 4), F(1), F(1)], [F(1, 4), F(0), F(1), F(3, 4)], [F(1), F(1), F(0), F(1, 2)],
         [F(1), F(3, 4), F(1, 2), F(0)]],
        [[F(0), F(1, 2), F(1, 2), F(1, 2)], [F(1, 2), F(0), F(1, 2), F(1, 2)], [F(1, 2), F(1, 2), F(0), F(1, 2)],
         [F(1, 2), F(1, 2), F(1, 2), F(0)]],
    ]
    # the same matrices with the lower half left at zero (upper-triangular input) and a non-symmetric one
    mats = mats + [[[x if j >= i else F(0) for j, x in enumerate(r)] for i, r in enumerate(m)] for m in mats[:2]]
    mats.append([[F(0), F(3, 4), F(1, 2)], [F(0), F(0), F(5, 4)], [F(7, 8), F(1, 4), F(0)]])
    for m in mats:
        n = len(m)
        for thr in (F(1, 2), F(3, 4)):
            for fun in sorted(set(heap.PURE_FUNS + heap.LOW_FUNS)):
                variants = [{}]
                if fun == "flat":
                    variants = [{"method": x} for x in ("upgma", "single", "complete", "ward")]
                elif fun == "fuzzy":
                    variants = [{"method": x} for x in ("upgma", "single", "complete")]
                elif fun == "matrix2groups":
                    variants = [{"method": x} for x in ("upgma", "single", "complete", "mcl", "ward")]
                elif fun == "low_flat":
                    variants = [{"method": x} for x in ("upgma", "single", "complete", "ward")]
                elif fun in ("low_upgma", "low_neighbor"):
                    variants = [{"distances": True}, {"distances": False}]
                elif fun == "matrix2tree":
                    variants = [{"method": x} for x in ("upgma", "neighbor")]
                elif fun in ("upgma", "neighbor"):
                    variants = [{"distances": True}, {"distances": False}]
                for v in variants:
                    for np_ in ([False, True] if fun in heap.NUMPY_OK else [False]):
                        c = {"fun": fun, "n": n, "kind": "fixed", "matrix": m, "thr": thr, "numpy": np_}
                        c.update(v)
                        yield c


def streams(tier, seed):
    rng = random.Random(seed)
    nh = 260 if tier == "quick" else 2500
    npure = 500 if tier == "quick" else 6000
    steps = 12 if tier == "quick" else 20
    hist = [heap.gen_case(rng, steps) for _ in range(nh)]
    pure = [heap.gen_pure(rng, 6 if tier == "quick" else 9) for _ in range(npure)]
    ch, cp = corpus_cases()
    return [("corpus_hist", heap.HIST, ch, "heap_case", "heap_case_code", HIST_BITS, HIST_CORR, 100),
            ("corpus_pure", heap.PURE, cp, "pure_case", "pure_case_code", PURE_BITS, (0,), 300),
            ("pure_fixed", heap.PURE, list(exhaustive_pure()), "pure_case", "pure_case_code", PURE_BITS, (0,), 300),
            ("hist_random", heap.HIST, hist, "heap_case", "heap_case_code", HIST_BITS, HIST_CORR, 70),
            ("pure_random", heap.PURE, pure, "pure_case", "pure_case_code", PURE_BITS, (0,), 300)]


def main(tier, seed):
    run = report.Run(PROP, tier, seed)
    pr = proofs.check_property(PROP)
    proofs_ok = run.proofs(pr)
    env.use_repo()
    # a private run directory: coqrun.rundir() empties the directory it returns, so two runs of
    # the same property (e.g. a thorough run and somebody's quick run) must not share one
    d = coqrun.rundir("%s_%s_%d_%d" % (PROP, tier, seed, os.getpid()))
    total_prop = 0
    try:
        for name, comp, cases, ctype, cfn, bits, cbits, shard in streams(tier, seed):
            if not cases:
                continue
            st = driver.run_stream(run, comp, cases, d, name, ctype, cfn, bits, corr_bits=cbits, shard=shard)
            total_prop += st["prop_fail"] + st["impl_errors"]
    except coqrun.CoqError as e:
        run.violation({"kind": "model does not evaluate", "no_longer_checks": "Wordlist/HeapExec.v", "error": str(e)},
                      no_input=True)
    if not proofs_ok and not total_prop:
        run.violation({"kind": "proof obligation broken", "no_longer_checks": pr["broken"], "log": pr["log"][-1500:]},
                      no_input=True)
    c = run.coverage
    c["rule"] = (
        "history cases = seeded sequences (%s steps) of: a caller's dictionary, construction of QLCParser / Wordlist / "
        "LexStat / Alignments from a dictionary or from another object, add_entries (string, multi-column and "
        "dictionary sources, override / confirm answers, failing user functions), cell assignment, LexStat.cluster, "
        "Alignments.align, renumber, and the caller's own list operations on the dictionary (incl. ones that leave it "
        "malformed); all objects are observed after every step.  Non-trivial = an object was built from another one "
        "and a later successful step changed an object.  Purity cases = (function, symmetric grid matrix, threshold, "
        "list or numpy) called twice on the same matrix object; non-trivial = returned a value on a non-zero matrix; "
        "distinct by full input." % ("4-12" if tier == "quick" else "4-20"))
    c["exhaustive"] = False
    dist = c.get("streams", {}).get("hist_random", {}).get("distribution", {})
    c["observations"] = {
        "histories_with_nested_list_cells_shared_between_objects": dist.get("nested_list_cells_shared_between_objects", 0),
        "histories_with_meta_values_shared_between_objects": dist.get("meta_values_shared_between_objects", 0),
        "note": "rows are copied one level deep: nested lists (token lists) and _meta values are the same Python "
                "objects in source and copy.  Cells are modelled as immutable values; an in-place change of a nested "
                "list through one object would change the interned content of the other object and fail the frame check."}
    c["trusted_base"] += [
        "correspondence check: harness/comp/heap.py drives lingpy objects from /repo/src and compares, inside Coq by "
        "vm_compute, every snapshot (header names, columns, rows, cell values interned by deep equality, identity of "
        "header objects and row lists) with Wordlist/Heap.run_macro",
        "the effect of an analysis (LexStat/Alignments construction, cluster, align, renumber) on its OWN object is "
        "read off the implementation and replayed in the model as column additions / cell assignments; the model "
        "predicts everything else (other objects, sharing, raising of the basic operations)",
        "user functions of add_entries reach the model as the finite table of the calls the implementation made",
        "clustering/tree functions other than flat_cluster have no result model here: purity and equality of the two "
        "answers are checked on the implementation's outputs by the verified checkers only",
        "Python object identity observed with id() while all objects are alive",
        "modelled, not verified: QLCParser.__init__, _add_entries, __setitem__, flat_cluster('ward') wrapper"]
    shutil.rmtree(d, ignore_errors=True)
    run.assumptions += ["cells and column names are immutable values (no operation of the family mutates a nested list in "
                        "place; the frame checker would notice)",
                        "column names are lower-case and outside the alias lists of wordlist.rc"]
    return run.finish()


def replay(path):
    rep = json.load(open(path))
    if "case" not in rep:
        print(json.dumps(rep, indent=1)[:3000])
        return 1
    env.use_repo()
    comp, case, ctype, cfn = heap.from_json(rep["case"])
    res = comp.run_impl(case)
    d = coqrun.rundir("%s_replay_%d" % (PROP, os.getpid()))
    bad = coqrun.eval_cases(d, "replay", heap.IMPORTS, ctype, cfn, [comp.render(case, res)])
    code = bad.get(0, 0)
    shutil.rmtree(d, ignore_errors=True)
    print(json.dumps({"impl": comp.jsonable(case, res).get("impl"), "code": code,
                      "failed": [heap.BITS[k] for k in range(8) if code >> k & 1]}, indent=1, default=str)[:20000])
    return 1 if bad else 0
