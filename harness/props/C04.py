"""C04 - a multiple alignment is rectangular, lossless and order-preserving."""
import glob
import json
import os
import random

from ..comp import multiple as mc
from ..lib import coqrun, driver, env, proofs, report

PROP = "C04"
PROP_BITS = (2,)            # msa_okb / alignments_okb reject the implementation's state
CORR_BITS = (0, 1)          # model/implementation disagree; an oracle value violates its contract


def sizes(tier):
    if tier == "quick":
        return dict(replay=260, stub=220, alm=100, almh=140, fuzzy=120, sop=220, max_n=7, max_len=8, max_calls=4)
    return dict(replay=3000, stub=2500, alm=1500, almh=2000, fuzzy=1500, sop=6000, max_n=10, max_len=10, max_calls=6)


def corpus_cases(kind):
    out = []
    for p in sorted(glob.glob(os.path.join(env.VERIF, "corpus", "multiple", "*.json"))):
        c = json.load(open(p))
        if c.get("kind", "msa") == kind:
            out.append(mc.from_json(c["case"]))
    return out


def streams(tier, seed, view=mc):
    z = sizes(tier)
    rng = random.Random(seed)
    replay = [mc.gen_case(rng, z["max_n"], z["max_len"], z["max_calls"]) for _ in range(z["replay"])]
    rng2 = random.Random(seed + 1)
    stub = [mc.gen_case(rng2, z["max_n"], z["max_len"], z["max_calls"], stub=True) for _ in range(z["stub"])]
    rng3 = random.Random(seed + 2)
    alm = [mc.gen_alm_case(rng3) for _ in range(z["alm"])]
    rng4 = random.Random(seed + 3)
    almh = [mc.gen_almh_case(rng4) for _ in range(z["almh"])]
    exh = list(mc.exhaustive_cases())
    if tier == "quick":
        exh = [c for i, c in enumerate(exh) if i % 24 == seed % 24]
    out = [("msa_corpus", view, corpus_cases("msa"), "list msa_case", "msa_cases_code"),
           ("msa_replay", view, replay, "list msa_case", "msa_cases_code"),
           ("msa_stub", view, stub, "list msa_case", "msa_cases_code")]
    if view is not mc:      # C11: the score functions themselves against the documented column score
        rng5 = random.Random(seed + 4)
        out += [("score_functions", mc.SopView, [mc.gen_sop_case(rng5) for _ in range(z["sop"])],
                 "sop_case", "sop_case_code")]
    if view is mc:          # the exhaustive prog_align scope and the Alignments clause belong to C04 only
        out += [("msa_exhaustive", view, exh, "list msa_case", "msa_cases_code"),
                ("alm_corpus", mc.AlmView, corpus_cases("alm"), "alm_case", "alm_case_code"),
                ("alignments", mc.AlmView, alm, "alm_case", "alm_case_code"),
                ("almh_corpus", mc.AlmHView, corpus_cases("almh"), "almh_case", "almh_case_code"),
                ("alignments_history", mc.AlmHView, almh, "almh_case", "almh_case_code"),
                ("fuzzy_corpus", mc.FuzzyView, corpus_cases("fuzzy"), "fuzzy_case", "fuzzy_case_code"),
                ("alignments_fuzzy", mc.FuzzyView, [mc.gen_fuzzy_case(random.Random(seed + 5 + k)) for k in range(z["fuzzy"])],
                 "fuzzy_case", "fuzzy_case_code")]
    return out


def main(tier, seed, prop=PROP, prop_bits=PROP_BITS, view=mc):
    run = report.Run(prop, tier, seed)
    pr = proofs.check_property(prop)
    proofs_ok = run.proofs(pr)
    env.use_repo()
    d = coqrun.rundir(prop)
    total_prop = 0
    try:
        for name, comp, cases, ctype, cfn in streams(tier, seed, view):
            if not cases:
                continue
            st = driver.run_stream(run, comp, cases, d, name, ctype, cfn, prop_bits, corr_bits=CORR_BITS, shard=40)
            total_prop += st["prop_fail"] + st["impl_errors"]
    except coqrun.CoqError as e:
        run.violation({"kind": "model does not evaluate", "no_longer_checks": "Msa/MsaExec.v", "error": str(e)},
                      no_input=True)
    if not proofs_ok and not total_prop:
        run.violation({"kind": "proof obligation broken", "no_longer_checks": pr["broken"], "log": pr["log"][-1500:]},
                      no_input=True)
    fill_coverage(run, tier)
    return run.finish()


def fill_coverage(run, tier):
    z = sizes(tier)
    c = run.coverage
    c["rule"] = (
        "cases = (list of 2..%d token sequences of length 1..%d incl. exact duplicates, same-class/different-token "
        "variants and very unequal lengths; method progressive|library; guide tree upgma|neighbor|random custom tree; "
        "mode global|overlap|dialign; sound-class or plain-token scoring incl. random score dictionaries; a seeded "
        "history of 0..%d calls of iterate_similar_gap_sites / iterate_clusters / iterate_orphans / "
        "iterate_all_sequences / swap_check with random parameters), once with the real profile aligner recorded and "
        "replayed, once with the aligner replaced by a random valid alignment (incl. a sub-stream with negative token scores "
        "where the score grows with the gap weight); an exhaustive small scope (5 tiny sequence sets x EVERY guide tree x "
        "EVERY sequence of valid answers of the profile aligner during prog_align: 2012 cases, quick runs 1/24 of them "
        "chosen by the seed); plus random wordlists with arbitrary "
        "cognate-set structure for Alignments.align; (C11 only) a direct stream on the score functions: random gappy "
        "matrices and column pairs, integer scores, gap weights from {0, 1/8, 1/4, 1/2, 3/4, 1, 3/2}, comparing "
        "calign/talign.score_profile and Multiple.sum_of_pairs with the documented column score within 2^-30, and inside "
        "the histories every end-of-pass call with a recorded scoring dictionary (<= 200 entries) is decided with the "
        "documented score as well (model value = measured value, model score after >= before); and wordlists with two or three differently partitioning cognate-id "
        "columns (optionally carrying an alignment column with stale gaps) under histories of add_alignments(ref, override) "
        "/ align(ref) calls over all refs in any order, checked after every call for the ref of that call.  Compared after EVERY call.  Non-trivial (C04) = at least two "
        "unique class strings and a gap in the final alignment; (C11) = at least one end-of-pass refinement call whose "
        "candidate differs from the alignment before it; (Alignments) = a multi-member set with a gap and a word "
        "outside any set; distinct by full input." % (z["max_n"], z["max_len"] + 3, z["max_calls"]))
    c["exhaustive"] = False
    outcomes = {}
    for name, st in c.get("streams", {}).items():
        for k, v in st.get("distribution", {}).items():
            if k.startswith("call:"):
                o = k.split(":")[2]
                outcomes[o] = outcomes.get(o, 0) + v
    c["refinement_call_outcomes"] = outcomes
    c["trusted_base"] += [
        "correspondence check: harness/comp/multiple.py runs lingpy.align.multiple.Multiple (and "
        "lingpy.align.sca.Alignments) from /repo/src and compares _alm_matrix and alm_matrix after every call, inside "
        "Coq by vm_compute, with the model Msa/Profile.v + Merge.v + Refine.v (Alignments: Msa/Alignments.v)",
        "oracles (explicit theorem premises, checked on every recorded value by verified checkers): the pairwise "
        "profile aligner calign/talign.align_profile incl. consensus/prosody/weights (contract oracle_valid, checker "
        "pa_table_okb), the guide tree (contract valid_merge_order, checker valid_merge_orderb), tokens2class "
        "(contract config_ok, checker config_okb), for refinement the index sets of iterate_clusters/iterate_orphans "
        "(no contract needed) and sum_of_pairs (an arbitrary function; measured with the implementation's own "
        "function object and passed as exact rationals)",
        "modelled, not verified: transpose, the gap-insertion loop of _align_profile/_talign_profile, "
        "_merge_alignments, the class-string grouping of _set_model, _update_alignments, _reduce_gap_sites, _split, "
        "_join, _iter, _similar_gap_sites, the early exits of the four iterate_* methods; Alignments: grouping by "
        "cognate id, write-back by word id",
        "not modelled: the numeric kernels (inside the oracles), swap detection itself (swap_check only reads the "
        "alignment: modelled as the identity and compared), split_on_tones=True of fuzzy Alignments, "
        "unique_seqs=False, mode='local'"]
    run.assumptions += [
        "Python exceptions are modelled as None; theorems are partial-correctness statements about calls that return",
        "the token <-> integer and 'i.j' <-> (i-1, j-1) encodings of the harness are bijections ('-' and 'X' are never "
        "generated as segments)"]


def replay(path, prop=PROP):
    rep = json.load(open(path))
    env.use_repo()
    case = mc.from_json(rep["case"])
    d = coqrun.rundir(prop + "_replay")
    if "fwords" in case:
        comp, ctype, cfn = mc.FuzzyView, "fuzzy_case", "fuzzy_case_code"
    elif "mats" in case and "cols" in case:
        comp, ctype, cfn = mc.SopView, "sop_case", "sop_case_code"
    elif "words" in case and "nref" in case:
        comp, ctype, cfn = mc.AlmHView, "almh_case", "almh_case_code"
    elif "words" in case:
        comp, ctype, cfn = mc.AlmView, "alm_case", "alm_case_code"
    else:
        comp, ctype, cfn = mc, "list msa_case", "msa_cases_code"
    res = comp.run_impl(case)
    bad = coqrun.eval_cases(d, "replay", comp.IMPORTS, ctype, cfn, [comp.render(case, res)])
    code = bad.get(0, 0)
    print(json.dumps({"impl": res, "code": code,
                      "failed": [comp.BITS.get(k, "bit %d" % k) for k in range(8) if code >> k & 1]}, indent=1))
    return 1 if code else 0
