"""C06 - cognate detection is per-concept clustering of pairwise word distances."""
import glob
import json
import os
import random

from ..comp import lexcluster as lx
from ..lib import coqrun, driver, env, proofs, report

PROP = "C06"
PROP_BITS = (1, 2, 3, 4, 6)  # totality / concept-disjointness / per-concept clustering outcome / turchin classes /
                             # contract of the replayed sca distance
COUNTS = {"quick": 420, "thorough": 5000}


def corpus_cases():
    out = []
    for p in sorted(glob.glob(os.path.join(env.VERIF, "corpus", "lexcluster", "*.json"))):
        out.append(lx.from_json(json.load(open(p))["case"]))
    return out


def streams(tier, seed, n=None):
    rng = random.Random(seed)
    n = n or COUNTS[tier]
    per = {"turchin": 0.25, "edit-dist": 0.3, "stub": 0.2, "sca": 0.15, "lexstat": 0.1}
    corpus = corpus_cases()
    out = [("lex_corpus", [c for c in corpus if "calls" not in c]),
           ("lex_corpus_history", [c for c in corpus if "calls" in c])]
    mod = 121 if tier == "quick" else 5          # the small scope: a seeded 1/121 sample, or 1/5 (moduli coprime to the 12 method x linkage x threshold-pair combinations)
    out.append(("lex_small_scope", [c for i, c in enumerate(lx.exhaustive_cases()) if i % mod == seed % mod]))
    for m, share in per.items():
        out.append(("lex_" + m.replace("-", ""), [lx.gen_case(rng, methods=[m]) for _ in range(int(n * share))]))
    # call histories on one LexStat object (same / different refs, override, thresholds equal to two decimals)
    out.append(("lex_history", [lx.gen_history(rng) for _ in range(max(60, n // 4))]))
    return out


def main(tier, seed, prop=PROP, prop_bits=PROP_BITS, run=None, n=None):
    """With run=None: the C06 check.  With a report.Run of another property (C10): only runs the
    streams, with that property's checker bits, and returns the number of failing inputs."""
    own = run is None
    if own:
        run = report.Run(prop, tier, seed)
        pr = proofs.check_property(prop)
        proofs_ok = run.proofs(pr)
    env.use_repo()
    d = coqrun.rundir(prop + "_lex")
    total_prop = 0
    try:
        for name, cases in streams(tier, seed, n):
            if not cases:
                continue
            # one minimised failing input per stream; once two are reported, later ones are not shrunk
            ctype, cfn = lx.case_type(cases[0])
            st = driver.run_stream(run, lx, cases, d, name, ctype, cfn, prop_bits, shard=40,
                                   max_report=1, shrink=len(run.violations) < 2)
            total_prop += st["prop_fail"] + st["impl_errors"]
    except coqrun.CoqError as e:
        run.violation({"kind": "model does not evaluate", "no_longer_checks": "Cognates/LexClusterExec.v",
                       "error": str(e)}, no_input=True)
    c = run.coverage
    c["trusted_base"] += [
        "correspondence check: harness/comp/lexcluster.py builds a LexStat from a dictionary, runs LexStat.cluster "
        "from /repo/src at two thresholds and compares the id column, inside Coq by vm_compute, with "
        "Cognates/LexClusterExec.lexq (exact equality of all ids)",
        "turchin: the sound-class string of every word (tokens2class with the dolgo model) is an input of the model "
        "(sound-class conversion belongs to C14); edit-dist: tokens are coded injectively as numbers",
        "sca / lexstat / stub: the values returned by the word-distance function are recorded by rebinding "
        "LexStat._distance_method from the harness and replayed as exact rationals (oracle replay); 'stub' substitutes "
        "deterministic grid values (multiples of 1/8) for the distance function",
        "oracle contract (harness-side): every sca distance used by cluster() equals (1e-9) the distance "
        "LexStat.align_pairs(method='sca') reports for the pair; call histories: the column observed after each of 2-4 "
        "cluster() calls on one object is compared with the model at that call's threshold",
        "float vs exact: single and complete linkage only compare distances (floats compared as the rationals they "
        "are); average linkage on non-grid distances (edit-dist, sca, lexstat) is compared with the model only when a "
        "lockstep float/exact run certifies that every decision coincides (else only the structural checkers run)",
        "modelled, not verified: LexStat.cluster loop, _get_matrices, squareform, combinations2, get_list(row, flat), "
        "pairwise.turchin, _malign.edit_dist"]
    run.assumptions += ["row keys are distinct positive integers; every word has at least one token (LexStat rejects others)",
                        "rounding of k/m quotients (edit-dist) is monotone and injective on the small quotients that occur"]
    if not own:
        return total_prop
    if not proofs_ok and not total_prop:
        run.violation({"kind": "proof obligation broken", "no_longer_checks": pr["broken"], "log": pr["log"][-1500:]},
                      no_input=True)
    c["rule"] = ("small scope (1 concept x 3 languages, cells empty/1/2 words from a pool of 3, + 1 word of another "
                 "concept; turchin and edit-dist x 3 linkages x 2 threshold pairs; 26352 cases, of which a seeded 1/%d is "
                 "run) + random cases = (wordlist of 1-5 languages x 1-5 concepts with synonyms, missing cells, duplicate and "
                 "near-duplicate words, unordered non-contiguous keys; method in turchin/edit-dist/sca/lexstat(fixed "
                 "scorer)/stub-oracle; linkage; two thresholds incl. thresholds equal to occurring distances). "
                 "Non-trivial = some concept with >=3 words is split into more than one but fewer than its number of "
                 "words sets at one threshold; distinct by full input." % (121 if tier == "quick" else 5))
    c["exhaustive"] = False
    return run.finish()


def replay(path):
    rep = json.load(open(path))
    env.use_repo()
    case = lx.from_json(rep["case"])
    res = lx.run_impl(case)
    d = coqrun.rundir(PROP + "_replay")
    ctype, cfn = lx.case_type(case)
    bad = coqrun.eval_cases(d, "replay", lx.IMPORTS, ctype, cfn, [lx.render(case, res)])
    print(json.dumps({"impl": res, "code": bad.get(0, 0),
                      "failed": [lx.BITS[k] for k in range(8) if bad.get(0, 0) >> k & 1]}, indent=1))
    return 1 if bad else 0
