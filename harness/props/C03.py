"""C03 - with linear gap costs alignment is exact: optimal score, Levenshtein distance.
Scores only: a changed tie rule (different optimal alignment, same score) does not disturb C03."""
import json
import random
from fractions import Fraction as F

from ..comp import align, malign
from ..lib import coqrun, driver, env, proofs, report
from ..translate import scorers

PROP = "C03"
PROP_BITS = (3,)
CORR_BITS = (5,)


def linear(case):
    c = dict(case)
    c["scale"] = F(1)
    c["omit"] = [k for k in c.get("omit", ()) if k != "scale"]   # pw_align's default scale is 0.5: pass it
    return c


def streams(tier, seed):
    rng = random.Random(seed)
    nrand = 2500 if tier == "quick" else 60000
    maxlen = 4 if tier == "quick" else 4
    rand = [linear(align.gen_case(rng, maxlen)) for _ in range(nrand)]
    rand += [linear(align.gen_case(rng, 8)) for _ in range(nrand // 5)]      # longer: correspondence only
    exh = [linear(c) for c in align.exhaustive_cases(2 if tier == "quick" else 3)]
    mal = [malign.gen_case(rng, 4) for _ in range(nrand // 2)] + [malign.gen_case(rng, 7) for _ in range(nrand // 5)]
    return [("align_exhaustive_scale1", align, "align_case", "align_case_code", exh),
            ("align_random_scale1", align, "align_case", "align_case_code", rand),
            ("malign_random", malign, "mcase", "mcase_code", mal)]


def self_distance_search(run, tier, seed):
    """Failing-input search for the self-distance clause on the real (non-grid) scorers: words over each
    shipped model's inventory, all four modes, through Pairwise.  This is testing, not proof (the theorem
    C03_self_distance_zero_shipped covers global/overlap/local; dialign has no theorem)."""
    import logging
    from lingpy.settings import rcParams
    from lingpy.align.pairwise import Pairwise
    rng = random.Random(seed + 7)
    n_words = 40 if tier == "quick" else 600
    fails, n, dist = 0, 0, {}
    for name in ("sca", "dolgo", "asjp", "cv", "jaeger"):
        model = rcParams[name]
        keys = sorted(k for k, v in model.converter.items() if len(k) <= 2 and k.strip() and k not in "-+_#◦·"
                      and v not in "0_+" and (v, v) in [(v, v)] and model.scorer[v, v] != -22.5)
        for _ in range(n_words):
            w = [rng.choice(keys) for _ in range(rng.randint(1, 7))]
            for mode in ("global", "overlap", "local", "dialign"):
                try:
                    pw = Pairwise(" ".join(w), " ".join(w))
                    pw.align(distance=True, model=model, mode=mode)
                    d = pw.alignments[0][2]
                except ZeroDivisionError:
                    dist["zero_self_score"] = dist.get("zero_self_score", 0) + 1
                    continue
                n += 1
                dist[name + "/" + mode] = dist.get(name + "/" + mode, 0) + 1
                if abs(d) > 1e-9:
                    fails += 1
                    if fails <= 3:
                        run.violation({"stream": "self_distance_real_scorers", "kind": "a word aligned with itself has "
                                       "non-zero normalised distance", "model": name, "mode": mode, "tokens": w,
                                       "distance": d, "alignment": [list(x) if isinstance(x, list) else x
                                                                    for x in pw.alignments[0][:2]]}, no_input=False)
    c = run.coverage
    c["evaluations"] += n
    c.setdefault("streams", {})["self_distance_real_scorers"] = {"cases": n, "failures": fails, "distribution": dist}
    return fails


def main(tier, seed):
    run = report.Run(PROP, tier, seed)
    pr = proofs.check_property(PROP, gen=[scorers.generate])
    proofs_ok = run.proofs(pr)
    env.use_repo()
    d = coqrun.rundir(PROP)
    total_prop = 0
    try:
        for name, comp, ctype, cfn, cases in streams(tier, seed):
            st = driver.run_stream(run, comp, cases, d, name, ctype, cfn, PROP_BITS, corr_bits=CORR_BITS,
                                   shard=150)
            total_prop += st["prop_fail"] + st["impl_errors"]
    except coqrun.CoqError as e:
        run.violation({"kind": "model does not evaluate", "no_longer_checks": "Align/Calign.v, Align/Malign.v",
                       "error": str(e)}, no_input=True)
    total_prop += self_distance_search(run, tier, seed)
    # IPA-level entry point: Pairwise.align must pass the requested parameters (documented defaults for keywords left
    # out) to calign.align_pairs, whose optimality at scale = 1 the streams above check
    from ..comp import pairwise_ipa
    st, errs, raised = pairwise_ipa.glue_histories(random.Random(seed + 11), 120 if tier == "quick" else 3000)
    run.coverage.setdefault("streams", {})["pairwise_glue"] = st
    for e in errs[:3]:
        hit = e["score_differs"] and e["scale_is_1"]
        run.violation(dict(e, stream="pairwise_glue", kind="Pairwise.align does not return what calign.align_pairs "
                           "returns for the requested parameters (documented defaults for omitted keywords)"),
                      no_input=not hit)
    total_prop += sum(1 for e in errs if e["score_differs"] and e["scale_is_1"])
    if not proofs_ok and not total_prop:
        run.violation({"kind": "proof obligation broken", "no_longer_checks": pr["broken"], "log": pr["log"][-1500:]},
                      no_input=True)
    c = run.coverage
    c["rule"] = ("cases as for C01 with scale = 1 (functions of _calign/_talign, dispatchers) plus nw_align / sw_align / "
                 "we_align / edit_dist through pairwise.py and _malign. On every implementation output with sequences of "
                 "length <= 4 (local <= 3) the returned score is compared, as an exact rational, with the maximum of the "
                 "library score over ALL move lists (all slice pairs for local mode) enumerated inside Coq; edit_dist with "
                 "the minimum edit-script cost (lengths <= 5) and the bounds. Correspondence compares SCORES only. "
                 "Non-trivial = sequences differ or the alignment has a gap; distinct by full input.")
    c["exhaustive"] = False
    c["trusted_base"] += [
        "correspondence check (scores only): model Align/Calign.v, Align/Malign.v vs _calign/_talign/_malign",
        "exactness-grid argument (DESIGN 2.1)",
        "modelled, not verified: the aligners; the brute-force enumerator all_moves is unverified search support (the "
        "theorems quantify over all move lists by induction, not over the enumerator)"]
    run.assumptions += ["float comparisons on the grid coincide with exact rational comparisons",
                        "local-mode optimality of sw_align/we_align: gap <= 0"]
    return run.finish()


def replay(path):
    rep = json.load(open(path))
    env.use_repo()
    comp = malign if "kind" in rep["case"] and rep["case"].get("kind") in malign.KINDS else align
    case = comp.from_json(rep["case"])
    res = comp.run_impl(case)
    d = coqrun.rundir(PROP + "_replay")
    ctype, cfn = ("mcase", "mcase_code") if comp is malign else ("align_case", "align_case_code")
    bad = coqrun.eval_cases(d, "replay", comp.IMPORTS, ctype, cfn, [comp.render(case, res)])
    code = bad.get(0, 0)
    print(json.dumps({"code": code}, indent=1))
    return 1 if code & 0b101000 else 0
