"""C12 - all views of a wordlist describe the same rows.  (Also the driver of C17, which shares the component.)"""
import glob
import itertools
import json
import logging
import os
import random

from ..comp import wordlist as W
from ..lib import coqrun, driver, env, proofs, report
from ..translate import wordlist_rc

PROP = "C12"
PROP_BITS = (1, 2, 3, 4, 5, 6)      # array / views / etymdict / rows-cols-len / alias / renumber
SHARD = 65


NAMES_CASE = (["Ab", "aB"], ["x", "X"])
NAMES_NFD = (["Gua\u0303a", "Gu\u00e3a"], ["e\u0301", "\u00e9"])     # decomposed vs composed spelling


def small_scope(max_rows, names=NAMES_CASE):
    """Exhaustive: every wordlist with up to max_rows rows over two languages that collide under case
    folding, two such concepts and two cognate ids; non-contiguous ids in non-sorted insertion order."""
    (langs, concepts), cogs, ids = names, [1, 2], [7, 2, 40]
    slots = list(itertools.product(concepts, langs, cogs))
    q = {"entries": ["", "COGID"], "refs": ["cogid"], "items": ["taxa", "GLOSS", "cogid"],
         "iter": ["doculect", "concept", "cogid"], "dst": [("cogid", False), ("cogid", True)],
         "paps": [("cogid", -1), ("cogid", 0)], "attrs": ["taxa", "CONCEPTS", "cogid", "language"],
         "kws": [("taxon", langs[0]), ("GLOSS", concepts[1])]}
    for n in range(1, max_rows + 1):
        for combo in itertools.product(slots, repeat=n):
            rows = [[ids[i], [l, c, g]] for i, (c, l, g) in enumerate(combo)]
            yield {"source": "dict", "kind": "small-scope", "cols": ["doculect", "concept", "cogid"],
                   "header": ["language", "CONCEPT", "cogid"], "rows": rows, "q0": q, "ops": [], "qs": []}


def corpus_cases():
    out = []
    for p in sorted(glob.glob(os.path.join(env.VERIF, "corpus", "wordlist", "*.json"))):
        out.append(W.from_json(json.load(open(p))["case"]))
    return out


def streams(tier, seed):
    rng = random.Random(seed)
    nrand = 260 if tier == "quick" else 10000
    rand = [W.gen_case(rng, size=4) for _ in range(nrand)]
    files = [W.gen_case(rng, size=3, source="file") for _ in range(40 if tier == "quick" else 600)]
    small = list(small_scope(2 if tier == "quick" else 3)) + list(small_scope(2 if tier == "quick" else 3, NAMES_NFD))
    if tier == "quick":
        three = list(small_scope(3))[72:]
        small += [c for i, c in enumerate(three) if i % 16 == seed % 16]
    return [("wordlist_corpus", corpus_cases()), ("wordlist_small_scope", small),
            ("wordlist_files", files), ("wordlist_random", rand)]


def main(tier, seed, prop=PROP, prop_bits=PROP_BITS):
    run = report.Run(prop, tier, seed)
    pr = proofs.check_property(prop, gen=[wordlist_rc.generate])
    proofs_ok = run.proofs(pr)
    env.use_repo()
    logging.disable(logging.CRITICAL)
    d = coqrun.rundir(prop)
    total_prop = total_corr = 0
    try:
        for name, cases in streams(tier, seed):
            if not cases:
                continue
            st = driver.run_stream(run, W, cases, d, name, W.CASE_TYPE, W.CODE_FN, prop_bits, shard=SHARD)
            total_prop += st["prop_fail"] + st["impl_errors"]
            total_corr += st["corr_fail"]
    except coqrun.CoqError as e:
        run.violation({"kind": "model does not evaluate", "no_longer_checks": "Wordlist/WordlistCheck.v",
                       "error": str(e)[-1500:]}, no_input=True)
    finally:
        logging.disable(logging.NOTSET)
    if not proofs_ok and not total_prop:
        run.violation({"kind": "proof obligation broken", "no_longer_checks": pr["broken"], "log": pr["log"][-1500:]},
                      no_input=True)
    c = run.coverage
    c["rule"] = ("case = (header spelling, rows as a dictionary or a written file, history of add_entries/renumber "
                 "steps, queries); every accessor's full return value is observed before and after the history. "
                 "Streams: corpus; exhaustive small scope (all wordlists with <= %s rows over 2 case-colliding "
                 "languages x 2 case-colliding concepts x 2 cognate ids%s, and the same over names that differ by "
                 "unicode normalisation form only); seeded random wordlists (1-4 languages, 1-4 "
                 "concepts, 0-3 words per cell, non-contiguous ids, synonyms, empty cells, Latin-1 names, names that are not NFC-normal, names equal "
                 "under case folding, list-valued cognate ids, aliases in lower/upper case, malformed inputs the "
                 "constructor rejects); written files. Non-trivial = at least two languages or two concepts and a "
                 "synonym or an empty cell; distinct by full input."
                 % ("2" if tier == "quick" else "3", ", plus 1/16 of the 3-row ones" if tier == "quick" else ""))
    c["exhaustive"] = False
    c["trusted_base"] += [
        "correspondence check: harness/comp/wordlist.py runs lingpy.basic.wordlist.Wordlist from /repo/src and compares, "
        "inside Coq by vm_compute, rows/cols/_array/_idx/_dict/len/iter_rows/get_list/get_dict/get_entries/get_etymdict/"
        "wl[id,column]/get_distances/get_paps (and the converter of renumber) with the model, before and after the history",
        "coding of Python values as cells (ints as themselves, each distinct string one code; harness/comp/wordlist.py Codes) and "
        "the sort key ranks (lower(x), x) computed by the harness with Python's str.lower and string order",
        "distances: a returned float x is decoded to the rational p/q (q <= number of concepts) nearest to it and accepted "
        "only if recomputing 1 - (q-p)/q in floats gives exactly x (decode_dst); the model works in exact Q",
        "translator harness/translate/wordlist_rc.py (wordlist.rc -> gen/WordlistRc.v), independent parser, fail-closed",
        "modelled, not verified: QLCParser.__init__ (dictionary input), QLCParserWithRowsAndCols.__init__, add_entries "
        "(single source column), the accessors, ops.renumber, ops.get_score (swadesh), ops.wl2dst, Wordlist.get_paps",
        "not modelled: read_qlc and the type conversion of file input (tested through the file stream only), modify_ref, "
        "multi-source add_entries, the interactive override question, numpy"]
    run.assumptions += ["ids of the source dictionary are distinct (Python dict keys); concept and language cells are "
                        "non-empty strings; column names are ASCII",
                        "the sort key separates different names (lower(x), x): the case folding itself is a parameter"]
    return run.finish()


def replay(path, prop=PROP):
    rep = json.load(open(path))
    env.use_repo()
    logging.disable(logging.CRITICAL)
    wordlist_rc.generate()
    case = W.from_json(rep["case"])
    res = W.run_impl(case)
    d = coqrun.rundir(prop + "_replay")
    bad = coqrun.eval_cases(d, "replay", W.IMPORTS, W.CASE_TYPE, W.CODE_FN, [W.render(case, res)])
    code = bad.get(0, 0)
    print(json.dumps({"impl": res, "code": code, "failed": [W.BITS[k] for k in range(16) if code >> k & 1]},
                     indent=1, ensure_ascii=False, default=str))
    return 1 if bad else 0
