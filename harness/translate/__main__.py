"""Run every translator (harness/translate/<name>.py with a generate() function): /repo -> coq/gen/*.v.
Used by setup.sh; each check also calls the translators it depends on (fail-closed) on every run."""
import importlib
import os
import pkgutil
import sys

HERE = os.path.dirname(os.path.abspath(__file__))
sys.path.insert(0, os.path.dirname(os.path.dirname(HERE)))


def main():
    rc = 0
    for m in sorted(pkgutil.iter_modules([HERE]), key=lambda m: m.name):
        if m.name.startswith("_"):
            continue
        mod = importlib.import_module("harness.translate." + m.name)
        if hasattr(mod, "generate"):
            try:
                mod.generate()
                print("translated:", m.name)
            except Exception as e:  # fail closed, but let the other translators run
                print("TRANSLATOR FAILED: %s: %s" % (m.name, e))
                rc = 1
    return rc


if __name__ == "__main__":
    sys.exit(main())
