"""Translator: the namespace / type-conversion table of lingpy (data/conf/wordlist.rc)
-> coq/gen/NamespaceRc.v, a Gallina list of (column name, converter class, aliases) in FILE ORDER.

The file is read the way lingpy.basic.parser.read_conf reads it (util.read_config_file: every line
stripped, empty lines and lines starting with '#' dropped, split on TAB into exactly name / class / aliases,
aliases split on ',').  The "later line wins" semantics of the dictionaries read_conf fills is NOT resolved
here: the Gallina model (Wordlist/Serialize.v: alias_of / class_of) resolves it, so the table stays a
literal transcription of the data file.

Each class expression (a Python expression that read_conf eval()s) is recognised by the SHAPE OF ITS AST
and mapped to a constructor of Serialize.conv.  Anything that is not recognised makes the translator raise
("cannot translate"): fail-closed, never guessed.
"""
import ast
import io
import os
import unicodedata

from ..lib import env

OUT = os.path.join(env.COQ, "gen", "NamespaceRc.v")


def _is_name(node, name):
    return isinstance(node, ast.Name) and node.id == name


def _split_call(node, var):
    """node is `var.split()` -> 'Ws'; `var.split(" ")` -> 'Sp'; else None."""
    if not (isinstance(node, ast.Call) and isinstance(node.func, ast.Attribute) and node.func.attr == "split"
            and _is_name(node.func.value, var) and not node.keywords):
        return None
    if len(node.args) == 0:
        return "Ws"
    if len(node.args) == 1 and isinstance(node.args[0], ast.Constant) and node.args[0].value == " ":
        return "Sp"
    return None


def classify(expr):
    """Python class expression of wordlist.rc -> name of a Serialize.conv constructor."""
    try:
        tree = ast.parse(expr.strip(), mode="eval").body
    except SyntaxError as e:
        raise ValueError("cannot translate class expression %r: %s" % (expr, e))
    if _is_name(tree, "str"):
        return "KStr"
    if _is_name(tree, "int"):
        return "KInt"
    if isinstance(tree, ast.Attribute) and _is_name(tree.value, "basictypes"):
        table = {"integer": "KInteger", "ints": "KBInts", "lists": "KBLists", "strings": "KBStrings",
                 "floats": "KBFloats"}
        if tree.attr in table:
            return table[tree.attr]
        raise ValueError("cannot translate class expression %r: unknown basictypes member" % expr)
    if isinstance(tree, ast.Lambda):
        a = tree.args
        if (len(a.args) != 1 or a.vararg or a.kwarg or a.kwonlyargs or a.defaults or a.posonlyargs):
            raise ValueError("cannot translate class expression %r: lambda signature" % expr)
        var = a.args[0].arg
        body = tree.body
        sp = _split_call(body, var)
        if sp:
            return "KSplit" + sp
        if isinstance(body, ast.ListComp) and len(body.generators) == 1:
            g = body.generators[0]
            if (isinstance(g.target, ast.Name) and not g.ifs and not g.is_async
                    and isinstance(body.elt, ast.Call) and len(body.elt.args) == 1 and not body.elt.keywords
                    and _is_name(body.elt.args[0], g.target.id) and isinstance(body.elt.func, ast.Name)
                    and g.target.id != var):
                sp = _split_call(g.iter, var)
                if sp and body.elt.func.id == "int":
                    return "KInts" + sp
                if sp and body.elt.func.id == "float":
                    return "KFloats" + sp
    raise ValueError("cannot translate class expression %r" % expr)


def read_lines(path):
    """util.read_config_file(path) as called by read_conf (no normalisation keyword): utf-8-sig, lines
    stripped of CR/LF then of blanks, empty and '#' lines dropped."""
    with io.open(path, "r", encoding="utf-8-sig") as fp:
        lines = [line.strip("\r\n").strip() for line in fp]
    return [l for l in lines if l and not l.startswith("#")]


def parse(path=None):
    path = path or os.path.join(env.SRC, "lingpy", "data", "conf", "wordlist.rc")
    rows = []
    for line in read_lines(path):
        parts = line.split("\t")
        if len(parts) != 3:
            # read_conf unpacks `for name, cls, alias in tmp` and would raise ValueError
            raise ValueError("cannot translate wordlist.rc line %r: %d TAB-separated fields" % (line, len(parts)))
        name, cls, alias = parts
        rows.append((name, classify(cls), alias.split(","), cls))
    # closure check: the parser tries, for one column, the classes of ALL keys aliased to it in turn; the
    # model uses one class per canonical name.  Make sure that is the same thing for this table.
    alias_d, class_d = {}, {}
    for name, k, aliases, _ in rows:
        for key in [name] + aliases:
            for kk in (key.lower(), key.upper()):
                alias_d[kk] = name
                class_d[kk] = k
    for key, name in alias_d.items():
        if class_d[key] != class_d.get(name, class_d[key]) or alias_d.get(name) != name:
            raise ValueError("cannot translate wordlist.rc: key %r is aliased to %r which has another class / is "
                             "itself re-aliased" % (key, name))
    return rows


def _str(s):
    s = str(s)
    return "[" + "; ".join(str(ord(c)) for c in s) + "]"


def generate():
    rows = parse()
    os.makedirs(os.path.dirname(OUT), exist_ok=True)
    out = ["(* GENERATED by harness/translate/namespace_rc.py from src/lingpy/data/conf/wordlist.rc - do not edit.",
           "   One entry per line of the file, in file order: (name, converter class, aliases). *)",
           "From Coq Require Import ZArith List.",
           "From LV Require Import Wordlist.SerializeStr Wordlist.Serialize.",
           "Import ListNotations.",
           "Local Open Scope Z_scope.",
           "",
           "Definition namespace_rc : list (str * conv * list str) := ["]
    ents = []
    for name, k, aliases, cls in rows:
        safe = cls.replace("(*", "( *").replace("*)", "* )")
        ents.append("  (* %s : %s *)\n  (%s, %s, [%s])" % (name, safe, _str(name), k,
                                                          "; ".join(_str(a) for a in aliases)))
    out.append(";\n".join(ents))
    out.append("].")
    text = "\n".join(out) + "\n"
    old = open(OUT, encoding="utf8").read() if os.path.exists(OUT) else None
    if old != text:
        with open(OUT, "w", encoding="utf8") as f:
            f.write(text)
    return OUT


if __name__ == "__main__":
    print(generate())
