"""Fail-closed translator for C20:  /repo/src/lingpy/settings.py + data/models/*  ->  coq/gen/SettingsModels.v

What is extracted
  * the module-level calls of settings.py that go through the cache, in evaluation order:
    load_dvt(...) and Model('<name>') -> `import_seq : list step`
  * for every directory under data/models the names of the files present -> `model_dirs : dirs`
What makes it raise (the check then reports `no longer checks`, never a pass)
  * a module-level statement or call in settings.py of a shape that is not understood
    (conditional evaluation, loops, comprehension, unknown callee, non-literal argument,
    Model(..., path=...), aliasing of Model / load_dvt)
  * any other module of the package that, at import time (module or class level, decorators,
    default arguments), calls Model / load_dvt / compile_model / compile_dvt or touches
    lingpy.cache: a cache consumer the model does not know about
  * model or file names that are not plain ASCII identifiers-with-dots
`extract()` returns the same information for the harness (plus how to reach each object from
a fresh interpreter)."""
import ast
import os
import re

from ..lib import env

OUT = os.path.join(env.COQ, "gen", "SettingsModels.v")
NAME_RE = re.compile(r"^[A-Za-z0-9_]+$")
FILE_RE = re.compile(r"^[A-Za-z0-9_.\-]+$")
CACHE_CALLEES = {"Model", "load_dvt", "compile_model", "compile_dvt"}
KNOWN_DVT_PATHS = {"", "el", "evolaemp"}


class Untranslatable(Exception):
    pass


def _fail(node, msg, fn):
    raise Untranslatable("%s:%s: %s" % (fn, getattr(node, "lineno", "?"), msg))


def _const_str(node, fn, what):
    if isinstance(node, ast.Constant) and isinstance(node.value, str):
        return node.value
    _fail(node, "%s is not a string literal" % what, fn)


CONDITIONAL = (ast.IfExp, ast.BoolOp, ast.ListComp, ast.SetComp, ast.DictComp, ast.GeneratorExp, ast.Lambda,
               ast.Dict, ast.NamedExpr, ast.Await, ast.Yield, ast.YieldFrom, ast.Starred)


def _calls_in_order(node, fn, steps, ctx):
    """Depth-first in field order = evaluation order for the node kinds admitted here."""
    if isinstance(node, CONDITIONAL):
        for sub in ast.walk(node):
            if isinstance(sub, ast.Call):
                _fail(sub, "a call inside %s (evaluation order / conditional evaluation not modelled)"
                      % type(node).__name__, fn)
        return
    if isinstance(node, ast.Call):
        f = node.func
        if isinstance(f, ast.Name) and f.id == "dict":
            if node.args:
                _fail(node, "dict(...) with positional arguments", fn)
            for kw in node.keywords:
                if kw.arg is None:
                    _fail(node, "dict(**...)", fn)
                _calls_in_order(kw.value, fn, steps, dict(ctx, key=kw.arg))
            return
        if isinstance(f, ast.Attribute) and isinstance(f.value, ast.Name) and f.value.id == "rcParams" \
                and f.attr == "update":
            for a in node.args:
                if not isinstance(a, ast.Name):
                    _fail(node, "rcParams.update(<not a name>)", fn)
            if node.keywords:
                _fail(node, "rcParams.update with keywords", fn)
            return
        if isinstance(f, ast.Name) and f.id == "load_dvt":
            path = ""
            if len(node.args) > 1 or any(k.arg != "path" for k in node.keywords):
                _fail(node, "load_dvt call of unknown shape", fn)
            if node.args:
                path = _const_str(node.args[0], fn, "load_dvt argument")
            for k in node.keywords:
                path = _const_str(k.value, fn, "load_dvt path")
            if path not in KNOWN_DVT_PATHS:
                _fail(node, "load_dvt with a custom directory %r" % path, fn)
            steps.append({"kind": "dvt", "arg": path, "line": node.lineno, "key": ctx.get("key"),
                          "targets": ctx.get("targets")})
            return
        if isinstance(f, ast.Name) and f.id == "Model":
            if len(node.args) != 1 or node.keywords:
                _fail(node, "Model(...) must have exactly one positional literal argument", fn)
            name = _const_str(node.args[0], fn, "Model argument")
            if not NAME_RE.match(name):
                _fail(node, "model name %r is not a plain identifier" % name, fn)
            steps.append({"kind": "model", "arg": name, "line": node.lineno, "key": ctx.get("key"),
                          "targets": ctx.get("targets")})
            return
        _fail(node, "module-level call of %s is not understood" % ast.dump(f)[:80], fn)
    for child in ast.iter_child_nodes(node):
        _calls_in_order(child, fn, steps, ctx)


def parse_settings(path):
    fn = os.path.relpath(path, env.REPO)
    tree = ast.parse(open(path, encoding="utf8").read())
    steps = []
    for st in tree.body:
        if isinstance(st, ast.Expr) and isinstance(st.value, ast.Constant):
            continue
        if isinstance(st, ast.ImportFrom):
            for a in st.names:
                if a.asname is not None and a.name in CACHE_CALLEES:
                    _fail(st, "%s imported under another name" % a.name, fn)
                if a.name in CACHE_CALLEES and st.module != "lingpy.data.model":
                    _fail(st, "%s imported from %s" % (a.name, st.module), fn)
            if st.module not in ("lingpy._settings", "lingpy.data.model"):
                _fail(st, "import from %s at module level of settings.py" % st.module, fn)
            continue
        if isinstance(st, ast.FunctionDef):
            if st.decorator_list:
                _fail(st, "decorated function", fn)
            for d in st.args.defaults + [k for k in st.args.kw_defaults if k is not None]:
                for sub in ast.walk(d):
                    if isinstance(sub, ast.Call):
                        _fail(sub, "call in a default argument", fn)
            continue
        if isinstance(st, ast.Assign):
            for t in st.targets:
                for sub in ast.walk(t):
                    if isinstance(sub, ast.Call):
                        _fail(sub, "call in an assignment target", fn)
            targets = None
            if len(st.targets) == 1:
                t = st.targets[0]
                if isinstance(t, ast.Name):
                    targets = [t.id]
                elif isinstance(t, ast.Tuple) and all(isinstance(e, ast.Name) for e in t.elts):
                    targets = [e.id for e in t.elts]
            _calls_in_order(st.value, fn, steps, {"targets": targets})
            continue
        if isinstance(st, ast.Expr):
            _calls_in_order(st.value, fn, steps, {})
            continue
        if isinstance(st, (ast.For, ast.If, ast.While, ast.Pass)):
            # control flow is admitted only when it cannot reach the cache: no call at all inside
            for sub in ast.walk(st):
                if isinstance(sub, (ast.Call, ast.Import, ast.ImportFrom, ast.FunctionDef, ast.ClassDef)):
                    _fail(sub, "call/import/definition inside a module-level %s" % type(st).__name__, fn)
            continue
        _fail(st, "module-level %s in settings.py" % type(st).__name__, fn)
    # names must not be rebound
    for st in tree.body:
        if isinstance(st, (ast.Assign, ast.FunctionDef, ast.ClassDef)):
            names = [st.name] if not isinstance(st, ast.Assign) else \
                [n.id for t in st.targets for n in ast.walk(t) if isinstance(n, ast.Name)]
            for n in names:
                if n in CACHE_CALLEES or n in ("dict", "rcParams"):
                    _fail(st, "%s is rebound in settings.py" % n, fn)
    if not steps:
        raise Untranslatable("%s: no load_dvt / Model call found at module level" % fn)
    return steps


class _ImportTimeScan(ast.NodeVisitor):
    """Visits what runs when a module is imported: everything except function bodies.
    Names bound (anywhere in the module, under any alias) to lingpy.cache or to one of
    Model / load_dvt / compile_model / compile_dvt are collected first."""

    def __init__(self, fn, tree):
        self.fn, self.hits = fn, []
        self.cache_mods, self.callees = {"cache"}, set(CACHE_CALLEES)
        for n in ast.walk(tree):
            if isinstance(n, ast.ImportFrom):
                for a in n.names:
                    bound = a.asname or a.name
                    if a.name == "cache" and (n.module or "").split(".")[0] in ("lingpy", ""):
                        self.cache_mods.add(bound)
                    if (n.module or "").endswith("cache") and a.name in ("load", "dump", "path", "DIR"):
                        self.callees.add(bound)
                    if a.name in CACHE_CALLEES:
                        self.callees.add(bound)
            elif isinstance(n, ast.Import):
                for a in n.names:
                    if a.name == "lingpy.cache" and a.asname:
                        self.cache_mods.add(a.asname)

    def _function(self, node):
        for d in node.decorator_list:
            self.visit(d)
        for d in node.args.defaults + [k for k in node.args.kw_defaults if k is not None]:
            self.visit(d)

    visit_FunctionDef = _function
    visit_AsyncFunctionDef = _function

    def visit_Lambda(self, node):
        for d in node.args.defaults + [k for k in node.args.kw_defaults if k is not None]:
            self.visit(d)

    def visit_Call(self, node):
        f = node.func
        if isinstance(f, ast.Name) and f.id in self.callees:
            self.hits.append((node.lineno, f.id))
        if isinstance(f, ast.Attribute) and f.attr in CACHE_CALLEES:
            self.hits.append((node.lineno, f.attr))
        self.generic_visit(node)

    def visit_Attribute(self, node):
        v = node.value
        is_cache = (isinstance(v, ast.Name) and v.id in self.cache_mods) or \
                   (isinstance(v, ast.Attribute) and v.attr == "cache")
        if is_cache and node.attr in ("load", "dump", "path", "DIR"):
            self.hits.append((node.lineno, "cache." + node.attr))
        self.generic_visit(node)


def scan_other_modules(src):
    root = os.path.join(src, "lingpy")
    bad = []
    for dp, dn, fns in os.walk(root):
        # only packages: a directory without __init__.py (data/models/asjp/asjp.py is a stand-alone
        # script) is not reachable by `import lingpy...`
        dn[:] = sorted(d for d in dn if d != "__pycache__" and os.path.exists(os.path.join(dp, d, "__init__.py")))
        for f in sorted(fns):
            if not f.endswith(".py"):
                continue
            p = os.path.join(dp, f)
            rel = os.path.relpath(p, root)
            if rel == "settings.py":
                continue
            try:
                tree = ast.parse(open(p, encoding="utf8").read())
            except SyntaxError as e:
                raise Untranslatable("%s does not parse: %s" % (rel, e))
            sc = _ImportTimeScan(rel, tree)
            sc.visit(tree)
            bad += ["%s:%d %s" % (rel, ln, what) for ln, what in sc.hits]
    if bad:
        raise Untranslatable("cache consumer at import time outside settings.py: " + "; ".join(bad[:6]))


def list_dirs(src):
    root = os.path.join(src, "lingpy", "data", "models")
    out = []
    for d in sorted(os.listdir(root)):
        p = os.path.join(root, d)
        if not os.path.isdir(p):
            continue
        if not NAME_RE.match(d):
            raise Untranslatable("data/models/%s: directory name is not a plain identifier" % d)
        files = sorted(f for f in os.listdir(p) if os.path.isfile(os.path.join(p, f)))
        for f in files:
            if not FILE_RE.match(f):
                raise Untranslatable("data/models/%s/%s: file name not representable" % (d, f))
        out.append((d, files))
    return out


def _is_call_to(node, names):
    return isinstance(node, ast.Call) and isinstance(node.func, ast.Name) and node.func.id in names


def parse_rc(path):
    """The run-time switch rc(schema=...): inside `def rc`, `for key in keywords: if key == "schema":
    if keywords[key] in [<literals>]: <assignments> elif ...`.  Returns [{"names": [...], "steps": [...]}]
    in branch order; raises when a load_dvt / Model call of rc (or of any other function of settings.py)
    is not inside such a branch or has another shape."""
    fn = os.path.relpath(path, env.REPO)
    tree = ast.parse(open(path, encoding="utf8").read())
    branches, extracted = [], 0
    total = sum(1 for f in tree.body if isinstance(f, (ast.FunctionDef, ast.ClassDef))
                for n in ast.walk(f) if _is_call_to(n, ("load_dvt", "Model", "compile_model", "compile_dvt")))
    for f in tree.body:
        if not (isinstance(f, ast.FunctionDef) and f.name == "rc"):
            continue
        for loop in [n for n in f.body if isinstance(n, ast.For)]:
            if not (isinstance(loop.iter, ast.Name) and loop.iter.id == "keywords" and isinstance(loop.target, ast.Name)):
                continue
            kv = loop.target.id
            for st in loop.body:
                if not (isinstance(st, ast.If) and isinstance(st.test, ast.Compare) and len(st.test.ops) == 1
                        and isinstance(st.test.ops[0], ast.Eq) and isinstance(st.test.left, ast.Name)
                        and st.test.left.id == kv and isinstance(st.test.comparators[0], ast.Constant)
                        and st.test.comparators[0].value == "schema"):
                    continue
                if st.orelse or len(st.body) != 1 or not isinstance(st.body[0], ast.If):
                    _fail(st, "the schema switch of rc() is not a single if/elif chain", fn)
                node = st.body[0]
                while node is not None:
                    tst = node.test
                    ok = (isinstance(tst, ast.Compare) and len(tst.ops) == 1 and isinstance(tst.ops[0], ast.In)
                          and isinstance(tst.left, ast.Subscript) and isinstance(tst.left.value, ast.Name)
                          and tst.left.value.id == "keywords" and isinstance(tst.left.slice, ast.Name)
                          and tst.left.slice.id == kv and isinstance(tst.comparators[0], (ast.List, ast.Tuple)))
                    if not ok:
                        _fail(node, "schema branch test is not `keywords[key] in [<literals>]`", fn)
                    names = [_const_str(e, fn, "schema name") for e in tst.comparators[0].elts]
                    steps = []
                    for b in node.body:
                        if not isinstance(b, ast.Assign) or len(b.targets) != 1:
                            _fail(b, "statement in a schema branch is not a simple assignment", fn)
                        calls = [n for n in ast.walk(b) if isinstance(n, ast.Call)]
                        if not calls:
                            continue
                        if len(calls) != 1 or calls[0] is not b.value:
                            _fail(b, "call in a schema branch is not the whole right-hand side", fn)
                        c, tgt = b.value, b.targets[0]
                        if _is_call_to(c, ("load_dvt",)):
                            if c.args or len(c.keywords) != 1 or c.keywords[0].arg != "path":
                                _fail(c, "load_dvt call of unknown shape", fn)
                            arg = _const_str(c.keywords[0].value, fn, "load_dvt path")
                            if arg not in KNOWN_DVT_PATHS:
                                _fail(c, "load_dvt with a custom directory", fn)
                            steps.append({"kind": "dvt", "arg": arg, "line": c.lineno, "key": None})
                        elif _is_call_to(c, ("Model",)):
                            if len(c.args) != 1 or c.keywords:
                                _fail(c, "Model(...) must have exactly one positional literal argument", fn)
                            arg = _const_str(c.args[0], fn, "Model argument")
                            if not NAME_RE.match(arg):
                                _fail(c, "model name is not a plain identifier", fn)
                            if not (isinstance(tgt, ast.Subscript) and isinstance(tgt.value, ast.Name)
                                    and tgt.value.id == "rcParams_" and isinstance(tgt.slice, ast.Constant)):
                                _fail(b, "Model(...) is not stored as rcParams_['<key>']", fn)
                            steps.append({"kind": "model", "arg": arg, "line": c.lineno, "key": tgt.slice.value})
                        else:
                            _fail(c, "call of %s in a schema branch" % ast.dump(c.func)[:60], fn)
                        extracted += 1
                    branches.append({"names": names, "steps": steps})
                    if len(node.orelse) == 1 and isinstance(node.orelse[0], ast.If):
                        node = node.orelse[0]
                    elif node.orelse:
                        _fail(node, "schema switch has an else branch", fn)
                    else:
                        node = None
    if extracted != total:
        raise Untranslatable("%s: %d of %d load_dvt/Model calls inside functions are outside the schema switch of rc()"
                             % (fn, total - extracted, total))
    return branches


def extract(src=None):
    src = src or env.SRC
    steps = parse_settings(os.path.join(src, "lingpy", "settings.py"))
    schemas = parse_rc(os.path.join(src, "lingpy", "settings.py"))
    scan_other_modules(src)
    dirs = list_dirs(src)
    return {"steps": steps, "dirs": dirs, "schemas": schemas}


def _s(x):
    assert all(32 <= ord(c) < 127 and c != '"' for c in x), x
    return '"%s"' % x


def render(info):
    seq = "; ".join(("LoadDvt %s" if s["kind"] == "dvt" else "NewModel %s") % _s(s["arg"]) for s in info["steps"])
    dirs = ";\n  ".join("(%s, [%s])" % (_s(d), "; ".join(_s(f) for f in fs)) for d, fs in info["dirs"])
    return ("(* GENERATED by harness/translate/settings_models.py from src/lingpy/settings.py and\n"
            "   src/lingpy/data/models/ - do not edit; regenerated on every run of ./check C20 *)\n"
            "From Coq Require Import String List.\n"
            "From LV Require Import Runtime.Cache.\n"
            "Import ListNotations.\n"
            "Local Open Scope string_scope.\n\n"
            "(* the module-level calls of settings.py that go through the cache, in evaluation order\n"
            "   (source lines: %s) *)\n"
            "Definition import_seq : list step :=\n  [%s].\n\n"
            "(* data/models: directory -> files present *)\n"
            "Definition model_dirs : dirs :=\n [%s].\n\n"
            "(* rc(schema=v): the if/elif chain of settings.rc - accepted spellings -> calls, in order *)\n"
            "Definition schema_seqs : list (list string * list step) :=\n [%s].\n"
            % (", ".join(str(s["line"]) for s in info["steps"]), seq, dirs,
               ";\n  ".join("([%s], [%s])" % ("; ".join(_s(n) for n in b["names"]),
                                              "; ".join(("LoadDvt %s" if s["kind"] == "dvt" else "NewModel %s") % _s(s["arg"])
                                                        for s in b["steps"])) for b in info["schemas"])))


def generate():
    info = extract()
    text = render(info)
    os.makedirs(os.path.dirname(OUT), exist_ok=True)
    old = open(OUT).read() if os.path.exists(OUT) else None
    if old != text:
        tmp = OUT + ".tmp%d" % os.getpid()
        with open(tmp, "w") as f:
            f.write(text)
        os.replace(tmp, OUT)
    return info
