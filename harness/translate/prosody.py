"""Fail-closed translator (C14):  the body of the main loop of prosodic_string
(src/lingpy/sequence/sound_classes.py, `for i in range(1, len(sstring) - 1)`) and the two
default `transform` dictionaries of prosodic_weights  ->  coq/gen/ProsodyStep.v,
coq/gen/ProsodyWeights.v.

The loop body is a pure if/elif chain over three integers a, b, c, the flag `first` and the
last emitted symbol.  Supported syntax (anything else raises CannotTranslate, which the
check reports as a broken tie - never guessed):

    a, b, c = sstring[i - 1], sstring[i], sstring[i + 1]          (must be the first statement)
    if / elif / else, nested
    comparisons and chained comparisons over a, b, c and integer literals
    and / or / not,  the name `first`
    pstring[-1] == 'S'  /  pstring[-1] != 'S'                      (as a whole if-condition)
    pstring += 'S'            first = True / False
    pstring = pstring[:-1] + pstring[-1].replace('L', 'M') + 'B'   (any three 1-char literals)
    raise ValueError(...)

The Gallina term uses the vocabulary of coq/theories/Seq/ProsodyBase.v; the theorems about it
(Seq/ProsodyProofs.v: the raise branch is unreachable for all integers, exactly one symbol is
emitted per step, ...) are re-checked against the regenerated term on every run.
"""
import ast
import os
from fractions import Fraction

from ..lib import env


class CannotTranslate(Exception):
    pass


def _fail(node, why):
    line = getattr(node, "lineno", "?")
    raise CannotTranslate("prosody translator: cannot translate line %s: %s" % (line, why))


def _src():
    path = os.path.join(env.SRC, "lingpy", "sequence", "sound_classes.py")
    return path, open(path, encoding="utf8").read()


def _function(tree, name):
    fns = [n for n in tree.body if isinstance(n, ast.FunctionDef) and n.name == name]
    if len(fns) != 1:
        raise CannotTranslate("prosody translator: expected exactly one top-level def %s" % name)
    return fns[0]


def _dump(node):
    """ast.dump without the Load/Store context (a loop target is a Store, a parsed name a Load)."""
    return ast.dump(node).replace("ctx=Store()", "ctx=Load()")


def _same(node, text, mode="exec"):
    want = ast.parse(text, mode=mode).body
    if mode == "exec":
        want = want[0]
    return _dump(node) == _dump(want)


# ---------------------------------------------------------------------------
# conditions

_OPS = {ast.Eq: "(%s =? %s)", ast.NotEq: "(negb (%s =? %s))", ast.Lt: "(%s <? %s)", ast.LtE: "(%s <=? %s)",
        ast.Gt: "(%(b)s <? %(a)s)", ast.GtE: "(%(b)s <=? %(a)s)"}


def _operand(n):
    if isinstance(n, ast.Name) and n.id in ("a", "b", "c"):
        return n.id
    if isinstance(n, ast.Constant) and type(n.value) is int:
        return "(%d)" % n.value
    if isinstance(n, ast.UnaryOp) and isinstance(n.op, ast.USub) and isinstance(n.operand, ast.Constant) \
            and type(n.operand.value) is int:
        return "(-%d)" % n.operand.value
    _fail(n, "operand is not a, b, c or an integer literal: " + ast.dump(n))


def _cmp(op, x, y, node):
    t = _OPS.get(type(op))
    if t is None:
        _fail(node, "comparison operator " + type(op).__name__)
    if "%(" in t:
        return t % {"a": x, "b": y}
    return t % (x, y)


def _is_last(n):
    return _same(n, "pstring[-1]", "eval") if isinstance(n, ast.Subscript) else False


def _char(n):
    if isinstance(n, ast.Constant) and isinstance(n.value, str) and len(n.value) == 1:
        return ord(n.value)
    _fail(n, "expected a one-character string literal")


def _cond(n):
    """Gallina bool expression for a condition that does not look at pstring."""
    if isinstance(n, ast.BoolOp):
        op = " && " if isinstance(n.op, ast.And) else " || " if isinstance(n.op, ast.Or) else None
        if op is None:
            _fail(n, "boolean operator")
        return "(" + op.join(_cond(v) for v in n.values) + ")"
    if isinstance(n, ast.UnaryOp) and isinstance(n.op, ast.Not):
        return "(negb %s)" % _cond(n.operand)
    if isinstance(n, ast.Name) and n.id == "first":
        return "(ps_first st)"
    if isinstance(n, ast.Compare):
        if _is_last(n.left) or any(_is_last(c) for c in n.comparators):
            _fail(n, "pstring[-1] is only supported as a whole if-condition")
        parts, left = [], _operand(n.left)
        for op, right in zip(n.ops, n.comparators):
            r = _operand(right)
            parts.append(_cmp(op, left, r, n))
            left = r
        return parts[0] if len(parts) == 1 else "(" + " && ".join(parts) + ")"
    _fail(n, "condition " + ast.dump(n)[:80])


def _last_cond(n):
    """pstring[-1] ==/!= 'S' as a whole condition -> expression over `last`, else None."""
    if isinstance(n, ast.Compare) and len(n.ops) == 1 and _is_last(n.left):
        ch = _char(n.comparators[0])
        if isinstance(n.ops[0], ast.Eq):
            return "(last =? %d)" % ch
        if isinstance(n.ops[0], ast.NotEq):
            return "(negb (last =? %d))" % ch
        _fail(n, "only == and != on pstring[-1]")
    return None


# ---------------------------------------------------------------------------
# statements

def _block(stmts, ind):
    pad = "  " * ind
    if not stmts:
        return pad + "POk st"
    s, rest = stmts[0], stmts[1:]
    if isinstance(s, ast.AugAssign) and isinstance(s.op, ast.Add) and isinstance(s.target, ast.Name) \
            and s.target.id == "pstring":
        return pad + "let st := p_append st %d in\n" % _char(s.value) + _block(rest, ind)
    if isinstance(s, ast.Assign) and len(s.targets) == 1 and isinstance(s.targets[0], ast.Name):
        name = s.targets[0].id
        if name == "first" and isinstance(s.value, ast.Constant) and type(s.value.value) is bool:
            return pad + "let st := p_set_first st %s in\n" % ("true" if s.value.value else "false") + \
                _block(rest, ind)
        if name == "pstring":
            v = s.value
            # pstring[:-1] + pstring[-1].replace(X, Y) + Z
            ok = (isinstance(v, ast.BinOp) and isinstance(v.op, ast.Add) and isinstance(v.left, ast.BinOp)
                  and isinstance(v.left.op, ast.Add) and _same(v.left.left, "pstring[:-1]", "eval")
                  and isinstance(v.left.right, ast.Call) and isinstance(v.left.right.func, ast.Attribute)
                  and v.left.right.func.attr == "replace" and _is_last(v.left.right.func.value)
                  and len(v.left.right.args) == 2 and not v.left.right.keywords)
            if not ok:
                _fail(s, "assignment to pstring is not the pstring[:-1] + pstring[-1].replace(..) + 'S' idiom")
            old, new = (_char(x) for x in v.left.right.args)
            app = _char(v.right)
            return (pad + "match p_repl_last_append st %d %d %d with\n" % (old, new, app) +
                    pad + "| None => PIndex\n" + pad + "| Some st =>\n" + _block(rest, ind + 1) + "\n" + pad + "end")
        _fail(s, "assignment to " + name)
    if isinstance(s, ast.If):
        lc = _last_cond(s.test)
        if lc is not None:
            return (pad + "match p_last st with\n" + pad + "| None => PIndex\n" + pad + "| Some last =>\n" +
                    pad + "  if %s then\n" % lc + _block(list(s.body) + rest, ind + 2) + "\n" +
                    pad + "  else\n" + _block(list(s.orelse) + rest, ind + 2) + "\n" + pad + "end")
        return (pad + "if %s then\n" % _cond(s.test) + _block(list(s.body) + rest, ind + 1) + "\n" +
                pad + "else\n" + _block(list(s.orelse) + rest, ind + 1))
    if isinstance(s, ast.Raise):
        e = s.exc
        if isinstance(e, ast.Call) and isinstance(e.func, ast.Name) and e.func.id == "ValueError":
            return pad + "PRaise"
        _fail(s, "raise of something other than ValueError(...)")
    _fail(s, "statement " + type(s).__name__)


def translate_step(tree):
    fn = _function(tree, "prosodic_string")
    loops = [n for n in fn.body if isinstance(n, ast.For) and _same(n.target, "i", "eval")]
    if len(loops) != 1:
        raise CannotTranslate("prosody translator: expected exactly one top-level `for i in ...` loop in "
                              "prosodic_string")
    loop = loops[0]
    if not (_same(loop.target, "i", "eval") and _same(loop.iter, "range(1, len(sstring) - 1)", "eval")
            and not loop.orelse):
        _fail(loop, "loop header is not `for i in range(1, len(sstring) - 1)`")
    if not loop.body or not _same(loop.body[0], "a, b, c = sstring[i - 1], sstring[i], sstring[i + 1]"):
        _fail(loop, "first statement is not `a, b, c = sstring[i - 1], sstring[i], sstring[i + 1]`")
    # the two initialisations must be the statements right before the loop
    k = fn.body.index(loop)
    before = fn.body[max(0, k - 2):k]
    if not (len(before) == 2 and _same(before[0], "pstring = ''") and _same(before[1], "first = True")):
        _fail(loop, "the loop is not preceded by `pstring = ''; first = True`")
    body = _block(loop.body[1:], 1)
    return ("Definition prosody_step (a b c : Z) (st : pstate) : presult :=\n" + body + ".\n",
            loop.lineno, loop.end_lineno)


# ---------------------------------------------------------------------------
# prosodic_weights: the two literal dictionaries

def _num(n):
    if isinstance(n, ast.Constant) and type(n.value) in (int, float):
        return Fraction(repr(n.value))
    _fail(n, "weight is not a numeric literal")


def _table(d):
    if not isinstance(d, ast.Dict):
        _fail(d, "transform is not a dict literal")
    out = {}
    for k, v in zip(d.keys, d.values):
        out[_char(k)] = _num(v)            # later duplicates win, as in Python
    return sorted(out.items())


def translate_weights(tree):
    fn = _function(tree, "prosodic_weights")
    ifs = [n for n in fn.body if isinstance(n, ast.If)]
    rets = [n for n in fn.body if isinstance(n, ast.Return)]
    if len(ifs) != 1 or len(rets) != 1 or fn.body[-1] is not rets[0] or fn.body[-2] is not ifs[0]:
        raise CannotTranslate("prosody translator: unexpected shape of prosodic_weights")
    top = ifs[0]
    if not (_same(top.test, "_transform", "eval") and len(top.body) == 1
            and _same(top.body[0], "transform = _transform") and len(top.orelse) == 1
            and isinstance(top.orelse[0], ast.If)):
        _fail(top, "expected `if _transform: transform = _transform` / elif / else")
    mid = top.orelse[0]
    if not (_same(mid.test, "'T' in prostring", "eval") and len(mid.body) == 1 and len(mid.orelse) == 1):
        _fail(mid, "expected `elif 'T' in prostring:` with one assignment, and an else with one assignment")
    tabs = []
    for s in (mid.body[0], mid.orelse[0]):
        if not (isinstance(s, ast.Assign) and len(s.targets) == 1 and _same(s.targets[0], "transform", "eval")):
            _fail(s, "expected `transform = {...}`")
        tabs.append(_table(s.value))
    if not _same(rets[0], "return [transform[i] for i in prostring]"):
        _fail(rets[0], "expected `return [transform[i] for i in prostring]`")
    return tabs


def _write(path, text):
    os.makedirs(os.path.dirname(path), exist_ok=True)
    old = open(path, encoding="utf8").read() if os.path.exists(path) else None
    if old != text:
        with open(path, "w", encoding="utf8") as f:
            f.write(text)


def generate():
    path, text = _src()
    tree = ast.parse(text)
    step, l0, l1 = translate_step(tree)
    head = ("(* GENERATED by harness/translate/prosody.py from %s - do not edit.\n"
            "   Loop body of prosodic_string. *)\n"
            "From Coq Require Import ZArith List Bool.\nFrom LV Require Import Seq.ProsodyBase.\n"
            "Import ListNotations.\nLocal Open Scope Z_scope.\n\n" % os.path.relpath(path, env.REPO))
    _write(os.path.join(env.COQ, "gen", "ProsodyStep.v"), head + step)
    tonal, plain = translate_weights(tree)

    def lit(tab):
        return "[" + ";\n   ".join("(%d%%Z, (%d#%d)%%Q)" % (k, v.numerator, v.denominator) for k, v in tab) + "]"
    w = ("(* GENERATED by harness/translate/prosody.py from %s - do not edit.\n"
         "   The default transform dictionaries of prosodic_weights (keys: code points). *)\n"
         "From Coq Require Import ZArith QArith List.\nImport ListNotations.\n\n"
         "Definition pw_tonal : list (Z * Q) :=\n  %s.\n\nDefinition pw_plain : list (Z * Q) :=\n  %s.\n"
         % (os.path.relpath(path, env.REPO), lit(tonal), lit(plain)))
    _write(os.path.join(env.COQ, "gen", "ProsodyWeights.v"), w)
    return {"loop_lines": (l0, l1)}


if __name__ == "__main__":
    print(generate())
