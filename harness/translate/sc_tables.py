"""Fail-closed translator (C14): the shipped sound-class converters
src/lingpy/data/models/*/converter  ->  coq/gen/ScTables.v  (association lists of code-point
lists), plus the string constants of ipa2tokens (nasals, nasal_char, nogos, null glyph).

Every converter file is read twice: with the package's own reader
(lingpy.data.derive._import_sound_classes, what Model(...) compiles and caches) and with the
independent re-implementation below; both must agree (same table, or both reject the file as
"multiply defined") or the translator raises.  Models whose converter the package itself rejects
cannot be loaded by lingpy at all; they are listed in sc_unloadable and carry no table.

The finite obligations over the tables (no class is '-', 'X' or empty; every class of an 'art'
model is a plain integer literal) are theorems of coq/theories/Seq/Token2ClassProofs.v, proved
by vm_compute over the generated tables and therefore re-checked against the files on every run.
"""
import ast
import logging
import os
import re
import unicodedata

from ..lib import env


class CannotTranslate(Exception):
    pass


def read_converter(path):
    """Independent reading of a converter file: 'K : v1, v2, ...' per line, NFC-normalised,
    later lines with the same class replace earlier ones, a value given to two different
    classes makes the file invalid (returns None)."""
    with open(path, encoding="utf-8-sig") as f:
        lines = [unicodedata.normalize("NFC", ln.rstrip("\r\n")) for ln in f.read().split("\n")]
    if lines and lines[-1] == "":
        lines.pop()
    classes = {}
    for ln in lines:
        parts = ln.split(" : ")
        if len(parts) != 2:
            raise CannotTranslate("sc_tables: %s: line %r is not 'class : values'" % (path, ln[:40]))
        classes[parts[0]] = parts[1].split(", ")
    table, clash = {}, False
    for cls, values in classes.items():
        for v in values:
            if v in table and table[v] != cls:
                clash = True
            table[v] = cls
    return None if clash else table


def _cps(s):
    return "[" + "; ".join(str(ord(c)) for c in s) + "]"


def art_models(settings_text):
    names = set(re.findall(r"(?:\bart\s*=|\[\s*'art'\s*\]\s*=)\s*Model\(\s*'(\w+)'\s*\)", settings_text))
    if not names:
        raise CannotTranslate("sc_tables: no Model('..') assigned to rcParams['art'] found in settings.py")
    return sorted(names)


def ipa_constants():
    path = os.path.join(env.SRC, "lingpy", "sequence", "sound_classes.py")
    tree = ast.parse(open(path, encoding="utf8").read())
    fn = [n for n in tree.body if isinstance(n, ast.FunctionDef) and n.name == "ipa2tokens"]
    if len(fn) != 1:
        raise CannotTranslate("sc_tables: def ipa2tokens not found")
    consts = {}
    for n in ast.walk(fn[0]):
        if isinstance(n, ast.Assign) and len(n.targets) == 1 and isinstance(n.targets[0], ast.Name) \
                and n.targets[0].id in ("nasals", "nasal_char", "nogos"):
            if not (isinstance(n.value, ast.Constant) and isinstance(n.value.value, str)):
                raise CannotTranslate("sc_tables: %s is not a string literal" % n.targets[0].id)
            if n.targets[0].id in consts:
                raise CannotTranslate("sc_tables: %s assigned twice" % n.targets[0].id)
            consts[n.targets[0].id] = n.value.value
        # out = ['∅' + char]
        if isinstance(n, ast.BinOp) and isinstance(n.op, ast.Add) and isinstance(n.left, ast.Constant) \
                and isinstance(n.left.value, str) and isinstance(n.right, ast.Name) and n.right.id == "char":
            if "glyph" in consts:
                raise CannotTranslate("sc_tables: two '<literal> + char' expressions in ipa2tokens")
            consts["glyph"] = n.left.value
    for k in ("nasals", "nasal_char", "nogos", "glyph"):
        if k not in consts:
            raise CannotTranslate("sc_tables: constant %s not found in ipa2tokens" % k)
    return consts


def tables():
    """-> (dict name -> table, list of unloadable names, list of art model names)"""
    env.use_repo()
    from lingpy.data import derive
    root = os.path.join(env.SRC, "lingpy", "data", "models")
    good, bad = {}, []
    for name in sorted(os.listdir(root)):
        path = os.path.join(root, name, "converter")
        if not os.path.isfile(path):
            continue
        if not re.fullmatch(r"[A-Za-z_][A-Za-z0-9_]*", name):
            raise CannotTranslate("sc_tables: model name %r is not an identifier" % name)
        mine = read_converter(path)
        logging.disable(logging.CRITICAL)       # the reader logs every table row at INFO level
        try:
            theirs = derive._import_sound_classes(path)
        except ValueError as e:
            if "multiply defined" not in str(e):
                raise CannotTranslate("sc_tables: %s: %s" % (name, e))
            theirs = None
        finally:
            logging.disable(logging.NOTSET)
        if (mine is None) != (theirs is None) or (mine is not None and dict(mine) != dict(theirs)):
            raise CannotTranslate("sc_tables: %s: the package reader and the independent reader disagree" % name)
        if mine is None:
            bad.append(name)
        else:
            good[name] = mine
    arts = art_models(open(os.path.join(env.SRC, "lingpy", "settings.py"), encoding="utf8").read())
    for a in arts:
        if a not in good:
            raise CannotTranslate("sc_tables: art model %s has no loadable converter" % a)
    if not good:
        raise CannotTranslate("sc_tables: no converter found")
    return good, bad, arts


def generate():
    good, bad, arts = tables()
    consts = ipa_constants()
    out = ["(* GENERATED by harness/translate/sc_tables.py from src/lingpy/data/models/*/converter and",
           "   src/lingpy/sequence/sound_classes.py - do not edit. *)",
           "From Coq Require Import ZArith List String.", "Import ListNotations.", "Local Open Scope Z_scope.", ""]
    for name, tab in good.items():
        rows = ["(%s, %s)" % (_cps(k), _cps(v)) for k, v in sorted(tab.items())]
        out.append("Definition sc_%s : list (list Z * list Z) :=\n  [%s]." % (name, ";\n   ".join(rows)))
        out.append("")
    out.append("Definition sc_all : list (string * list (list Z * list Z)) :=\n  [%s]." %
               ";\n   ".join('("%s"%%string, sc_%s)' % (n, n) for n in good))
    out.append("")
    out.append("Definition sc_art_models : list (list (list Z * list Z)) := [%s]." %
               "; ".join("sc_" + a for a in arts))
    out.append("Definition sc_unloadable : list string := [%s]." % "; ".join('"%s"%%string' % b for b in bad))
    out.append("")
    out.append("Definition src_nasals : list Z := %s." % _cps(consts["nasals"]))
    out.append("Definition src_nasal_char : list Z := %s." % _cps(consts["nasal_char"]))
    out.append("Definition src_nogos : list Z := %s." % _cps(consts["nogos"]))
    out.append("Definition src_glyph : list Z := %s." % _cps(consts["glyph"]))
    text = "\n".join(out) + "\n"
    path = os.path.join(env.COQ, "gen", "ScTables.v")
    os.makedirs(os.path.dirname(path), exist_ok=True)
    old = open(path, encoding="utf8").read() if os.path.exists(path) else None
    if old != text:
        with open(path, "w", encoding="utf8") as f:
            f.write(text)
    return {"models": sorted(good), "unloadable": bad, "art": arts}


if __name__ == "__main__":
    print(generate())
