"""Regenerates /verif/MANIFEST.json from the table below (run by hand after editing)."""
import json
import os

HERE = os.path.dirname(os.path.dirname(os.path.abspath(__file__)))

CHECKS = {}      # id -> dict(text, note, technique, design)
NOT_APPLICABLE = {}


def claim(pid, text, note, technique, design):
    CHECKS[pid] = dict(text=text, note=note, technique=technique, design=design)


COMMON_NOTE = ("Trusted: Coq 8.16.1 kernel; the hand-written Gallina model is tied to /repo by a correspondence check "
               "(model evaluated by vm_compute inside Coq on the same inputs as the Python implementation, outputs "
               "compared inside Coq); exactness-grid argument for floats; Python harness (generators, rendering). "
               "Theorems closed under the global context unless the evidence lists stdlib axioms.")

claim("C05",
      "Machine-checked proof (Coq) over a Gallina model of the three recursive agglomerators and the flat_cluster "
      "wrappers: partition, distinct keys, terminal condition (no two clusters within threshold) for every total "
      "preorder and linkage; single linkage = connected components; complete linkage diameter bound. Model tied to "
      "the code by exhaustive small-scope + random correspondence; verified boolean checkers also run on the "
      "implementation's own outputs. Clause 'coincides with the textbook procedure on tie-free matrices' is "
      "covered through the terminal/refinement theorems only (partial).",
      COMMON_NOTE, "Coq proof over executable model + in-Coq correspondence check against the implementation",
      "DESIGN.md 5/C05")
claim("C10",
      "Machine-checked proof (Coq): the merge step's choice is threshold-free, hence the run at t1 is a prefix of "
      "the run at t2>=t1 and every t1-cluster lies inside a t2-cluster (all linkages, all matrices, ties included). "
      "Correspondence as C05, run at threshold pairs; refinement checker on implementation outputs.",
      COMMON_NOTE, "Coq proof over executable model + in-Coq correspondence check against the implementation",
      "DESIGN.md 5/C10")


def build():
    props = [json.loads(l) for l in open(os.path.join(HERE, "properties.jsonl"))]
    checks = []
    for p in props:
        pid = p["id"]
        if pid in CHECKS:
            c = CHECKS[pid]
            checks.append({
                "property_id": pid,
                "quick_cmd": "./check %s quick" % pid,
                "thorough_cmd": "./check %s thorough" % pid,
                "evidence_file": "/verif/evidence/%s.json" % pid,
                "replay_cmd_template": "./check %s --replay {path}" % pid,
                "engine": "coq-model",
                "level_claimed": {"category": "proof", "text": c["text"], "design_ref": c["design"]},
                "level_note": c["note"],
                "technique": c["technique"],
            })
        elif pid not in NOT_APPLICABLE:
            NOT_APPLICABLE[pid] = "not yet built in this revision of /verif (work in progress; see DESIGN.md section 8)"
    man = {
        "version": 1,
        "setup_cmd": "./setup.sh",
        "hooks": {"guard": "LINGPY_VERIF", "enable": "no source hooks are needed: all observation is done by "
                  "wrapping Python function objects from the harness process",
                  "baseline_off_cmd": "cd /repo && /venv/bin/python -m pytest -ra -q -p no:cacheprovider --timeout=900 "
                                      "--continue-on-collection-errors",
                  "source_commits": [], "add_only": True},
        "engines": [{"name": "coq-model", "path": "/verif/coq", "serves_properties": sorted(CHECKS),
                     "kind_free_text": "Coq 8.16.1 development: executable Gallina models + theorems (Props/Cxx.v); "
                                       "harness/ runs the implementation and compares with the model inside Coq"}],
        "checks": checks,
        "not_applicable": [{"property_id": k, "reason": v} for k, v in sorted(NOT_APPLICABLE.items())],
        "notes": "See DESIGN.md. known_findings.json lists recorded findings and fixed defects.",
    }
    with open(os.path.join(HERE, "MANIFEST.json"), "w") as f:
        json.dump(man, f, indent=1)
    return man


if __name__ == "__main__":
    m = build()
    print("claimed:", [c["property_id"] for c in m["checks"]])
