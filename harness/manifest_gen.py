"""Regenerates /verif/MANIFEST.json from harness/claims/Cxx.json (one file per claimed property)
and harness/claims/not_applicable.json (id -> reason).  Run:  /venv/bin/python harness/manifest_gen.py"""
import glob
import json
import os

HERE = os.path.dirname(os.path.dirname(os.path.abspath(__file__)))

COMMON_NOTE = ("Trusted: Coq 8.16.1 kernel; the hand-written Gallina model is tied to /repo by a correspondence check "
               "(model evaluated by vm_compute inside Coq on the same inputs as the Python implementation, outputs "
               "compared inside Coq); exactness-grid argument for floats; Python harness (generators, rendering). "
               "Theorems closed under the global context unless the evidence lists stdlib axioms.")


def build():
    props = [json.loads(l) for l in open(os.path.join(HERE, "properties.jsonl"))]
    claims = {}
    for p in sorted(glob.glob(os.path.join(HERE, "harness", "claims", "C*.json"))):
        c = json.load(open(p))
        claims[c["property_id"]] = c
    na_path = os.path.join(HERE, "harness", "claims", "not_applicable.json")
    na = json.load(open(na_path)) if os.path.exists(na_path) else {}
    checks = []
    for p in props:
        pid = p["id"]
        if pid in claims:
            c = claims[pid]
            checks.append({
                "property_id": pid,
                "quick_cmd": "./check %s quick" % pid,
                "thorough_cmd": "./check %s thorough" % pid,
                "evidence_file": "/verif/evidence/%s.json" % pid,
                "replay_cmd_template": "./check %s --replay {path}" % pid,
                "engine": "coq-model",
                "level_claimed": {"category": "proof", "text": c["text"],
                                  "design_ref": c.get("design_ref", "DESIGN.md 5/" + pid)},
                "level_note": c.get("note") or COMMON_NOTE,
                "technique": c.get("technique", "Coq proof over executable model + in-Coq correspondence check "
                                                "against the implementation"),
            })
        elif pid not in na:
            na[pid] = "not yet built in this revision of /verif (work in progress; see DESIGN.md section 8)"
    man = {
        "version": 1,
        "setup_cmd": "./setup.sh",
        "hooks": {"guard": "LINGPY_VERIF", "enable": "no source hooks are needed: all observation is done by "
                  "wrapping Python function objects from the harness process",
                  "baseline_off_cmd": "cd /repo && /venv/bin/python -m pytest -ra -q -p no:cacheprovider --timeout=900 "
                                      "--continue-on-collection-errors",
                  "source_commits": [], "add_only": True},
        "engines": [{"name": "coq-model", "path": "/verif/coq", "serves_properties": sorted(claims),
                     "kind_free_text": "Coq 8.16.1 development: executable Gallina models + theorems (Props/Cxx.v); "
                                       "harness/ runs the implementation and compares with the model inside Coq"}],
        "checks": checks,
        "not_applicable": [{"property_id": k, "reason": v} for k, v in sorted(na.items()) if k not in claims],
        "notes": "See DESIGN.md. known_findings.json lists recorded findings and fixed defects.",
    }
    with open(os.path.join(HERE, "MANIFEST.json"), "w") as f:
        json.dump(man, f, indent=1)
    return man


if __name__ == "__main__":
    m = build()
    print("claimed:", [c["property_id"] for c in m["checks"]])
