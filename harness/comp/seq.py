"""Component: segmentation and sound-class conversion (ipa2tokens, token2class/tokens2class,
prosodic_string, prosodic_weights, class2tokens).  Generators, implementation runner, Gallina
case rendering.  Used by C14.

Characters reach Coq as Z code points (ord); nothing is rendered as a Coq string literal."""
import itertools
import os
import random
from fractions import Fraction

from ..lib import env

IMPORTS_HEAD = ("From LV Require Import Common.Cases Seq.SeqCommon Seq.Ipa2Tokens Seq.Token2Class "
                "Seq.ProsodyBase Seq.Prosody Seq.ProsodyW Seq.ClassTokens Seq.SeqExec.\n"
                "From LVGen Require Import ScTables.\n")
IMPORTS = None            # set by setup(): IMPORTS_HEAD + definitions of the rcParams keyword strings

BITS = {0: "correspondence: model output differs from implementation output",
        1: "ipa2tokens: tokens do not concatenate to the input (breaks removed, null glyph rule), an empty "
           "token, or an exception on an input with a non-break character",
        2: "tokens2class: not one class per token, a class outside the model's alphabet / '0', a gap class, "
           "or an exception other than the all-unknown ValueError",
        3: "prosodic_string / sonority / prosodic_weights: not one element per token (also within a history of calls "
           "in one process on different segmentations of the same characters), or an exception",
        4: "class2tokens: removing the gaps does not give back the tokens, or the gap pattern differs from "
           "the class string",
        5: "an argument list was modified by the call (the caller's list differs from the copy taken before), or a "
           "second call on the same list object returned something else"}

ERR = {IndexError: "IndexErr", ValueError: "ValueErr", KeyError: "KeyErr"}

# ---------------------------------------------------------------------------
# keyword-string settings for ipa2tokens

# one representative per character class, overlapping classes included (the code tests the classes in
# the order break, combiner, stress, [merge], semi-diacritic, diacritic, vowel, tone, consonant)
CUSTOM = {
    "breaks": ".x", "combiners": "kq", "stress": "sy", "diacritics": "dyuwq◦", "semis": "muz+",
    "vowels": "vwz", "tones": "tx",
}
CUSTOM_ALPHA = ".xkqsydmuvwztc_+◦"
# '.': break   'x': break+tone   'k': combiner   'q': combiner+diacritic   's': stress
# 'y': stress+diacritic   'd': diacritic   'm': semi-diacritic   'u': semi+diacritic   'v': vowel
# 'w': vowel+diacritic   'z': semi+vowel   't': tone   'c': consonant   '_': consonant in nogos
# '+': semi-diacritic in nogos   '◦': diacritic in nogos

_state = {}


def setup():
    """Call after env.use_repo().  Reads the rcParams keyword strings and builds file-fresh model
    objects (the converter is read from data/models/<name>/converter with lingpy's own reader,
    not from the pickle cache, so a stale cache of another run cannot disturb this check)."""
    global IMPORTS
    import logging
    from lingpy.settings import rcParams
    from lingpy.data.model import Model
    from lingpy.data import derive
    from ..translate import sc_tables
    rc = {k: rcParams[k] for k in ("breaks", "combiners", "stress", "diacritics", "vowels", "tones",
                                    "nasal_placeholder", "merge_vowels")}
    _state["rc"] = rc
    models = {}
    root = os.path.join(env.SRC, "lingpy", "data", "models")
    logging.disable(logging.CRITICAL)
    try:
        for name in sorted(os.listdir(root)):
            p = os.path.join(root, name, "converter")
            if not os.path.isfile(p):
                continue
            try:
                conv = derive._import_sound_classes(p)
            except ValueError:
                continue              # lingpy cannot load this model at all (multiply defined values)
            m = Model.__new__(Model)
            m.name = name
            m.converter = conv
            m.info = {k: "unknown" for k in ("description", "compiler", "source", "date", "vowels", "tones")}
            models[name] = m
    finally:
        logging.disable(logging.NOTSET)
    _state["models"] = models
    # rcParams keys that hold a sound-class model (the names accepted as a string-valued model argument)
    _state["rc_names"] = {}
    for k in sorted(rcParams):
        v = rcParams[k]
        if isinstance(v, Model) and v.name in models:
            _state["rc_names"].setdefault(v.name, []).append(k)
    _state["art_names"] = [a for a in sc_tables.art_models(
        open(os.path.join(env.SRC, "lingpy", "settings.py"), encoding="utf8").read()) if a in models]
    defs = ["Local Open Scope Z_scope.",
            "Definition rc_ks : kwstrings := mk_ks %s %s %s %s [] %s %s %s." % (
                cps(rc["breaks"]), cps(rc["combiners"]), cps(rc["stress"]), cps(rc["diacritics"]),
                cps(rc["vowels"]), cps(rc["tones"]), cps(rc["nasal_placeholder"])),
            "Definition custom_ks : kwstrings := mk_ks %s %s %s %s %s %s %s %s." % (
                cps(CUSTOM["breaks"]), cps(CUSTOM["combiners"]), cps(CUSTOM["stress"]), cps(CUSTOM["diacritics"]),
                cps(CUSTOM["semis"]), cps(CUSTOM["vowels"]), cps(CUSTOM["tones"]), cps(rc["nasal_placeholder"])),
            "Definition custom_pipe_ks : kwstrings := mk_ks %s %s %s %s %s %s %s %s." % (
                cps(CUSTOM["breaks"] + "-"), cps(CUSTOM["combiners"]), cps(CUSTOM["stress"]), cps(CUSTOM["diacritics"]),
                cps(CUSTOM["semis"]), cps(CUSTOM["vowels"]), cps(CUSTOM["tones"]), cps(rc["nasal_placeholder"])),
            "Definition rc_stress : list char := %s." % cps(rc["stress"]),
            "Definition rc_diacs : list char := %s." % cps(rc["diacritics"])]
    defs += ["Definition small_conv_%d : list (token * token) := %s." % (i, table(c))
             for i, c in enumerate(SMALL_CONV)]
    IMPORTS = IMPORTS_HEAD + "\n".join(defs) + "\n"
    from ..lib import coqrun
    if "-noglob" not in coqrun.COQC:          # the case files are throw-away: no .glob files
        coqrun.COQC.append("-noglob")
    return _state


# ---------------------------------------------------------------------------
# rendering

def cps(s):
    return "[" + "; ".join(str(ord(c)) for c in s) + "]"


def toks(l):
    return "[" + "; ".join(cps(t) for t in l) + "]"


def b(x):
    return "true" if x else "false"


def res(r, f):
    """r = ("ok", value) | ("IndexErr",) ..."""
    return "(Ok %s)" % f(r[1]) if r[0] == "ok" else r[0]


def zs(l):
    return "[" + "; ".join("(%d)" % x for x in l) + "]"


def qs(l):
    return "[" + "; ".join("(%d#%d)%%Q" % (x.numerator, x.denominator) for x in l) + "]"


def table(d):
    return "[" + "; ".join("(%s, %s)" % (cps(k), cps(v)) for k, v in d.items()) + "]"


def table_ref(model):
    if isinstance(model, str):
        return "sc_" + model
    for i, c in enumerate(SMALL_CONV):
        if model == c:
            return "small_conv_%d" % i
    return table(model)


def guarded(fn):
    try:
        return ("ok", fn())
    except (IndexError, ValueError, KeyError) as e:
        for t, name in ERR.items():
            if isinstance(e, t):
                return (name,)
        raise


MODES = {"True": True, "cv": "cv", "CcV": "CcV", "False": False}
COQ_MODE = {"True": "OTrue", "cv": "OCv", "CcV": "OCcV", "False": "OFalse"}


def _model(case):
    m = case["model"]
    return _state["models"][m] if isinstance(m, str) else dict(m)


def _frac(x):
    return Fraction(repr(float(x)))


def run_impl(case):
    from lingpy.sequence import sound_classes as sc
    from lingpy.settings import rcParams
    kind = case["kind"]
    if kind == "ipa":
        outs = []
        for mv, mg, semi, ex in case["runs"]:
            kwds = dict(merge_vowels=mv, merge_geminates=mg, expand_nasals=ex)
            if case["ks"] == "custom":
                kwds.update(breaks=CUSTOM["breaks"], combiners=CUSTOM["combiners"], stress=CUSTOM["stress"],
                            diacritics=CUSTOM["diacritics"], vowels=CUSTOM["vowels"], tones=CUSTOM["tones"],
                            semi_diacritics=CUSTOM["semis"] if semi else "")
            else:                       # the defaults: every keyword string comes from rcParams
                assert not semi
            outs.append(guarded(lambda: [str(t) for t in sc.ipa2tokens(case["s"], **kwds)]))
        return {"outs": outs}
    if kind == "t2c":
        model = _model(case)
        arg = list(case["toks"])            # ONE list object for all calls; compared with the case afterwards
        key = case.get("by_name")
        if key:
            # the string-valued model argument: token2class / tokens2class look the name up in rcParams
            # (rebound to the file-fresh model for the duration of the call, restored afterwards)
            saved = rcParams[key]
            rcParams[key] = model
            model_arg = key
        else:
            model_arg = model
        try:
            single = [guarded(lambda t=t: str(sc.token2class(t, model_arg, cldf=case["cldf"]))) for t in case["toks"]]
            out = guarded(lambda: [str(c) for c in sc.tokens2class(arg, model_arg, cldf=case["cldf"])])
        finally:
            if key:
                rcParams[key] = saved
        return {"single": single, "out": out, "after": [str(t) for t in arg]}
    if kind == "pros":
        arg = list(case["l"])
        out = guarded(lambda: str(sc.prosodic_string(arg, _output=MODES[case["mode"]])))
        weights = None
        if out[0] == "ok":
            user = {k: float(Fraction(v)) for k, v in (case["user"] or {}).items()}
            weights = guarded(lambda: [_frac(x) for x in sc.prosodic_weights(out[1], _transform=user)])
        return {"out": out, "weights": weights, "after": [int(x) for x in arg]}
    if kind == "prostok":
        art = _state["models"][case["art"]]
        saved = rcParams["art"]
        rcParams["art"] = art
        arg = list(case["toks"])
        try:
            cls = guarded(lambda: [str(c) for c in sc.tokens2class(arg, art, cldf=False)])
            son = guarded(lambda: [int(t) for t in sc.tokens2class(arg, rcParams["art"], cldf=False)])
            out = guarded(lambda: str(sc.prosodic_string(arg)))
        finally:
            rcParams["art"] = saved
        return {"cls": cls, "son": son, "out": out, "after": [str(t) for t in arg]}
    if kind == "prosseq":
        # a HISTORY of calls in this one process: different segmentations of the same characters,
        # the same tokens with different cldf settings, in the order the case gives
        # the module is re-executed first, so that module-level state left by EARLIER cases cannot leak in:
        # the case is a self-contained history, its replay reproduces in a fresh process and the shrinker
        # (which re-runs sub-histories in this process) stays honest
        import importlib
        importlib.reload(sc)
        art = _state["models"][case["art"]]
        saved = rcParams["art"]
        rcParams["art"] = art
        steps = []
        try:
            for cldf, tk in case["steps"]:
                arg = list(tk)
                cls = guarded(lambda: [str(c) for c in sc.tokens2class(arg, art, cldf=cldf)])
                son = guarded(lambda: [int(t) for t in sc.tokens2class(arg, rcParams["art"], cldf=cldf)])
                out = guarded(lambda: str(sc.prosodic_string(arg, cldf=cldf)))
                weights = None
                if out[0] == "ok":
                    weights = guarded(lambda: [_frac(x) for x in sc.prosodic_weights(out[1])])
                steps.append({"cls": cls, "son": son, "out": out, "weights": weights,
                              "after": [str(t) for t in arg]})
        finally:
            rcParams["art"] = saved
        return {"steps": steps}
    if kind == "pipe":
        # the whole chain, every stage fed with the implementation's OWN previous output
        mv, mg, semi, ex = case["flags"]
        kwds = dict(merge_vowels=mv, merge_geminates=mg, expand_nasals=ex)
        if case["ks"] == "custom":
            kwds.update(breaks=CUSTOM["breaks"] + "-", combiners=CUSTOM["combiners"], stress=CUSTOM["stress"],
                        diacritics=CUSTOM["diacritics"], vowels=CUSTOM["vowels"], tones=CUSTOM["tones"],
                        semi_diacritics=CUSTOM["semis"] if semi else "")
        tk = guarded(lambda: [str(t) for t in sc.ipa2tokens(case["s"], **kwds)])
        res_ = {"toks": tk, "single": [], "cls": ("ValueErr",), "aligned": [], "out": [], "pro": ("ValueErr",),
                "weights": None}
        if tk[0] != "ok":
            return res_
        model = _state["models"][case["model"]]
        art = _state["models"][case["art"]]
        tokens = list(tk[1])
        res_["single"] = [guarded(lambda t=t: str(sc.token2class(t, model, cldf=case["cldf"]))) for t in tokens]
        cls = guarded(lambda: [str(c) for c in sc.tokens2class(tokens, model, cldf=case["cldf"])])
        res_["cls"] = cls
        if cls[0] == "ok":
            g = random.Random(case["gapseed"])
            aligned = list(cls[1])
            for _ in range(g.randint(0, 4)):
                aligned.insert(g.randrange(len(aligned) + 1), g.choice(["-", "-", "X"]))
            arg = "".join(aligned) if (case["gapseed"] % 2 and all(len(c) == 1 for c in aligned)) else list(aligned)
            res_["aligned"] = aligned
            res_["out"] = [str(t) for t in sc.class2tokens(tokens, arg, gap_char=case["gap"])]
        saved = rcParams["art"]
        rcParams["art"] = art
        try:
            pro = guarded(lambda: str(sc.prosodic_string(tokens)))
        finally:
            rcParams["art"] = saved
        res_["pro"] = pro
        if pro[0] == "ok":
            res_["weights"] = guarded(lambda: [_frac(x) for x in sc.prosodic_weights(pro[1])])
        res_["after"] = [str(t) for t in tokens]
        return res_
    if kind == "c2t":
        cl = case["classes"]
        # the SAME token / class-string objects go into every call (a history of two global and two
        # local calls); every result is copied at once, the arguments are read back at the end
        tokens = list(case["tokens"])
        arg = "".join(cl) if case.get("as_str") else list(cl)
        pre, suf = list(case["pre"]), list(case["suf"])
        out = [str(t) for t in sc.class2tokens(tokens, arg, gap_char=case["gap"])]
        outl = [str(t) for t in sc.class2tokens(tokens, (pre, arg, suf), gap_char=case["gap"], local=True)]
        out2 = [str(t) for t in sc.class2tokens(tokens, arg, gap_char=case["gap"])]
        outl2 = [str(t) for t in sc.class2tokens(tokens, (pre, arg, suf), gap_char=case["gap"], local=True)]
        return {"out": out, "outl": outl, "out2": out2, "outl2": outl2,
                "after": [str(t) for t in tokens], "classes_after": [str(c) for c in arg]}
    raise AssertionError(kind)


def render(case, r):
    kind = case["kind"]
    if kind == "ipa":
        groups = {}
        for fl, o in zip(case["runs"], r["outs"]):
            groups.setdefault(res(o, toks), []).append("mk_fl %s %s %s %s" % tuple(b(x) for x in fl))
        runs = ["(mk_run [%s] %s)" % ("; ".join(fls), o) for o, fls in groups.items()]
        return "(CIpa %s %s [%s])" % ("custom_ks" if case["ks"] == "custom" else "rc_ks", cps(case["s"]),
                                     "; ".join(runs))
    if kind == "t2c":
        tbl = table_ref(case["model"])
        return "(CT2C %s rc_stress rc_diacs %s %s [%s] %s %s)" % (
            tbl, b(case["cldf"]), toks(case["toks"]), "; ".join(res(s, cps) for s in r["single"]),
            res(r["out"], toks), toks(r["after"]))
    if kind == "pros":
        user = case["user"] or {}
        w = r["weights"]
        return "(CPros %s %s %s [%s] %s %s)" % (
            COQ_MODE[case["mode"]], zs(case["l"]), res(r["out"], cps),
            "; ".join("(%d, (%d#%d)%%Q)" % (ord(k), Fraction(v).numerator, Fraction(v).denominator)
                      for k, v in user.items()),
            "KeyErr" if w is None else res(w, qs), zs(r["after"]))
    if kind == "prostok":
        return "(CProsTok sc_%s rc_stress rc_diacs %s %s %s %s %s)" % (
            case["art"], toks(case["toks"]), res(r["cls"], toks), res(r["son"], zs), res(r["out"], cps),
            toks(r["after"]))
    if kind == "prosseq":
        steps = ["(mk_pstep %s %s %s %s %s %s %s)" % (
            b(cldf), toks(tk), res(q["cls"], toks), res(q["son"], zs), res(q["out"], cps),
            "KeyErr" if q["weights"] is None else res(q["weights"], qs), toks(q["after"]))
            for (cldf, tk), q in zip(case["steps"], r["steps"])]
        return "(CProsSeq sc_%s rc_stress rc_diacs [%s])" % (case["art"], "; ".join(steps))
    if kind == "pipe":
        ks = "custom_pipe_ks" if case["ks"] == "custom" else "rc_ks"
        w = r["weights"]
        return ("(CPipe (mk_pipe %s (mk_fl %s %s %s %s) %s sc_%s sc_%s rc_stress rc_diacs %s %s %s [%s] %s %s %s %s %s))"
                % (ks, b(case["flags"][0]), b(case["flags"][1]), b(case["flags"][2]), b(case["flags"][3]),
                   cps(case["s"]), case["model"], case["art"], b(case["cldf"]), cps(case["gap"]),
                   res(r["toks"], toks), "; ".join(res(x, cps) for x in r["single"]), res(r["cls"], toks),
                   toks(r["aligned"]), toks(r["out"]), res(r["pro"], cps),
                   "KeyErr" if w is None else res(w, qs)))
    if kind == "c2t":
        return "(CC2T %s %s %s %s %s %s %s %s %s %s %s)" % (
            cps(case["gap"]), toks(case["tokens"]), toks(case["classes"]), toks(r["out"]),
            toks(case["pre"]), toks(case["suf"]), toks(r["outl"]), toks(r["out2"]), toks(r["outl2"]),
            toks(r["after"]), toks(r["classes_after"]))
    raise AssertionError(kind)


# ---------------------------------------------------------------------------
# generators

RUNS8 = [(mv, mg, semi, False) for mv in (True, False) for mg in (True, False) for semi in (True, False)]
RUNS_DEFAULT = [(mv, mg, False, False) for mv in (True, False) for mg in (True, False)]


def ipa_exhaustive(maxlen, alpha=CUSTOM_ALPHA):
    for n in range(0, maxlen + 1):
        for tup in itertools.product(alpha, repeat=n):
            yield {"kind": "ipa", "ks": "custom", "s": "".join(tup), "runs": RUNS8}


def ipa_custom_random(rng, n, minlen, maxlen):
    for _ in range(n):
        ln = rng.randint(minlen, maxlen)
        alpha = CUSTOM_ALPHA if rng.random() < 0.6 else rng.sample(CUSTOM_ALPHA, rng.randint(2, 6))
        yield {"kind": "ipa", "ks": "custom", "s": "".join(rng.choice(alpha) for _ in range(ln)), "runs": RUNS8}


WORDS = ["t͡sɔyɡə", "ˈtʰɔxtər", "faːtər", "çiːna",
         "ma²¹lo⁵µ", "d͜zɑ̃", "kʷʰa.a", "͡ab", "-͜aˈ",
         "ˌʰpaːː", "ppʰaːa", "ãñ", "õ̃m", "s+t_r◦a"]


def ipa_default_random(rng, n, maxlen):
    rc = _state["rc"]
    cons = "ptkbdgmnszxhlrjwʃʒŋʔθɸ"
    pools = [cons, cons, rc["vowels"], rc["vowels"], rc["diacritics"][:12] + "ːʰʲʷ̃",
             rc["tones"], rc["stress"], rc["combiners"], rc["breaks"], "_+◦∼∅#", "ãũẽĩõ̃"]
    for i in range(n):
        if i < len(WORDS):
            s = WORDS[i]
        elif rng.random() < 0.2:
            s = list(rng.choice(WORDS))
            for _ in range(rng.randint(1, 3)):
                s.insert(rng.randrange(len(s) + 1), rng.choice(rng.choice(pools)))
            s = "".join(s)
        else:
            s = "".join(rng.choice(rng.choice(pools)) for _ in range(rng.randint(1, maxlen)))
        s = s.replace(" ", "")
        runs = list(RUNS_DEFAULT)
        if rng.random() < 0.5:                       # expand_nasals=True: correspondence (+ non-empty tokens)
            runs += [(mv, mg, False, True) for mv, mg, _, _ in RUNS_DEFAULT]
        yield {"kind": "ipa", "ks": "rc", "s": s, "runs": runs}


# a small converter with one key per branch of the fallback chain; "'" is a stress mark and ":" / "!"
# are diacritics in rcParams
SMALL_CONV = [
    {"a": "A", "b": "B", "ab": "C", "'a": "S", ":b": "D", "?": "Q"},
    {"a": "A", "'": "T", ":": "E", "ba": "F", "a/b": "G", "": "Z"},
    {"b": "0", "a": "V", "/": "W", "n'": "H"},
]
T2C_ALPHA = "abn':/ˈ"


def t2c_exhaustive(maxlen):
    for conv in SMALL_CONV:
        for cldf in (False, True):
            for n in range(0, maxlen + 1):
                for tup in itertools.product(T2C_ALPHA, repeat=n):
                    t = "".join(tup)
                    yield {"kind": "t2c", "model": dict(conv), "cldf": cldf, "toks": [t]}
                    if n <= 2:
                        yield {"kind": "t2c", "model": dict(conv), "cldf": cldf, "toks": ["a", t, "n"]}
            yield {"kind": "t2c", "model": dict(conv), "cldf": cldf, "toks": []}


def random_token(rng, model):
    rc = _state["rc"]
    keys = _state["keys"].setdefault(id(model), sorted(model.converter))
    k = rng.choice(keys)
    c = rng.random()
    if c < 0.45:
        return k
    if c < 0.55:
        return rng.choice(rc["stress"]) + k
    if c < 0.65:
        return rng.choice(rc["diacritics"][:20] + "ʰⁿ") + k
    if c < 0.72:
        return k + rng.choice(rc["diacritics"][:20] + "ːʰ")
    if c < 0.80:
        return rng.choice("?%$€") + rng.choice(["", k])
    if c < 0.88:
        return rng.choice(["", k, "?"]) + "/" + rng.choice(["", k, "%", k + "/" + k])
    if c < 0.92:
        return rng.choice(rc["stress"]) + rng.choice("?%") + k
    if c < 0.95:
        return rng.choice(rc["stress"] + rc["diacritics"][:5])
    if c < 0.97:
        return ""
    return rng.choice(rc["tones"]) + rng.choice(rc["tones"])


def t2c_random(rng, n, maxlen):
    _state.setdefault("keys", {})
    names = sorted(_state["models"])
    for i in range(n):
        name = names[i % len(names)]
        model = _state["models"][name]
        ln = rng.randint(0, maxlen) if rng.random() < 0.9 else 1
        ts = [random_token(rng, model) for _ in range(ln)]
        if rng.random() < 0.08:
            ts = [rng.choice("?%$") for _ in range(ln)]          # only unknown sounds
        case = {"kind": "t2c", "model": name, "cldf": rng.random() < 0.6, "toks": ts}
        keys = _state["rc_names"].get(name)
        if keys and rng.random() < 0.5:
            case["by_name"] = rng.choice(keys)          # pass the model as its rcParams name
        yield case


def prostok_random(rng, n, maxlen):
    _state.setdefault("keys", {})
    for i in range(n):
        art = _state["art_names"][i % len(_state["art_names"])]
        model = _state["models"][art]
        ln = rng.randint(0, maxlen) if rng.random() < 0.9 else 1
        ts = [random_token(rng, model) for _ in range(ln)]
        if rng.random() < 0.05:
            ts = [rng.choice("?%$") for _ in range(ln)]
        yield {"kind": "prostok", "art": art, "toks": ts}


REDUCED = (0, 1, 2, 3, 7, 8, 9)     # unknown, three consonant levels, vowel, tone, word break


def segmentations(s):
    """all ways to cut the string s into consecutive non-empty tokens"""
    n = len(s)
    for mask in range(1 << max(0, n - 1)):
        out, cur = [], s[:1]
        for i in range(1, n):
            if mask >> (i - 1) & 1:
                out.append(cur)
                cur = s[i]
            else:
                cur += s[i]
        out.append(cur)
        yield out if n else []


def merge_runs(s, pred):
    """one token per character, but adjacent characters x, y with pred(x, y) share a token
    (what merge_vowels / merge_geminates do to a word)"""
    out = []
    for ch in s:
        if out and pred(out[-1][-1], ch):
            out[-1] += ch
        else:
            out.append(ch)
    return out


def prosseq_exhaustive(rng, alpha="aits", maxlen=3, orders=None):
    """every string over alpha up to maxlen x every order (or `orders` seeded orders) of ALL its
    segmentations, called one after the other in one process"""
    art = _state["art_names"][0]
    for n in range(2, maxlen + 1):
        for tup in itertools.product(alpha, repeat=n):
            segs = list(segmentations("".join(tup)))
            perms = list(itertools.permutations(range(len(segs))))
            if orders is not None and len(perms) > orders:
                perms = rng.sample(perms, orders)
            for perm in perms:
                yield {"kind": "prosseq", "art": art, "steps": [[False, segs[i]] for i in perm]}


def prosseq_random(rng, n, maxlen):
    rc = _state["rc"]
    _state.setdefault("keys", {})
    for i in range(n):
        art = _state["art_names"][i % len(_state["art_names"])]
        model = _state["models"][art]
        singles = _state["keys"].setdefault(("single", art), sorted(k for k in model.converter if len(k) == 1))
        vowels = [c for c in singles if c in rc["vowels"]] or singles
        ln = rng.randint(2, maxlen)
        s = ""
        while len(s) < ln:
            c = rng.random()
            if s and c < 0.2:
                s += s[-1]                                       # geminate
            elif c < 0.55:
                s += rng.choice(vowels)
            elif c < 0.92:
                s += rng.choice(singles)
            elif c < 0.96:
                s += rng.choice(rc["stress"] + rc["diacritics"][:6] + "ʰː")
            else:
                s += rng.choice("?%")
        isv = lambda x, y: x in rc["vowels"] and y in rc["vowels"]
        cand = [list(s), merge_runs(s, isv), merge_runs(s, lambda x, y: x == y),
                merge_runs(s, lambda x, y: isv(x, y) or x == y), [s]]
        allsegs = list(segmentations(s)) if len(s) <= 8 else cand
        cand += [rng.choice(allsegs) for _ in range(rng.randint(0, 3))]
        segs = []
        for c_ in cand:
            if c_ not in segs:
                segs.append(c_)
        rng.shuffle(segs)
        steps = [[rng.random() < 0.25, sg] for sg in segs]
        for _ in range(rng.randint(0, 2)):                       # the same tokens again, other cldf setting
            j = rng.randrange(len(steps))
            steps.insert(rng.randrange(len(steps) + 1), [not steps[j][0] if rng.random() < 0.5 else steps[j][0],
                                                         list(steps[j][1])])
        yield {"kind": "prosseq", "art": art, "steps": steps}


def pipe_random(rng, n, maxlen):
    """string -> tokens -> classes -> aligned classes -> class2tokens, + prosodic string / weights"""
    names = sorted(_state["models"])
    base = list(ipa_default_random(rng, n, maxlen))
    for i, c in enumerate(base):
        yield {"kind": "pipe", "ks": "rc", "flags": [rng.random() < 0.6, rng.random() < 0.6, False, False],
               "s": c["s"], "model": names[i % len(names)], "art": _state["art_names"][i % len(_state["art_names"])],
               "cldf": rng.random() < 0.6, "gap": "-", "gapseed": rng.randrange(10 ** 6)}


def pipe_words():
    for i, w in enumerate(WORDS + ["faːtər.muːtər", "ˈaɪ̯nə", "ko²¹-ta⁵"]):
        for name in sorted(_state["models"]):
            yield {"kind": "pipe", "ks": "rc", "flags": [True, True, False, False], "s": w, "model": name,
                   "art": _state["art_names"][0], "cldf": True, "gap": "-", "gapseed": 7 * i + 1}


def pros_exhaustive(maxlen, values=range(0, 10), minlen=0):
    for n in range(minlen, maxlen + 1):
        for tup in itertools.product(values, repeat=n):
            yield {"kind": "pros", "mode": "True", "l": list(tup), "user": None}


USER_TABLES = [
    {c: str(Fraction(i + 1, 4)) for i, c in enumerate("ABCLMNXYZT_")},
    {c: str(Fraction(i, 2)) for i, c in enumerate("ABCXYZ")},                 # partial: KeyError possible
]


def pros_random(rng, n, maxlen):
    for _ in range(n):
        ln = rng.randint(0, maxlen)
        c = rng.random()
        if c < 0.6:
            vals = list(range(1, 10))
        elif c < 0.8:
            vals = [1, 2, 3, 4, 5, 6, 7, 7, 7, 8]
        elif c < 0.92:
            vals = list(range(0, 10))
        else:
            vals = [-3, 0, 1, 5, 7, 8, 9, 10, 12, 100]
        l = [rng.choice(vals) for _ in range(ln)]
        mode = rng.choice(["True", "True", "True", "cv", "CcV", "False"])
        user = rng.choice([None, None, None, None, USER_TABLES[0], USER_TABLES[1]]) if mode == "True" else None
        yield {"kind": "pros", "mode": mode, "l": l, "user": user}


def c2t_exhaustive(maxtok, maxcls):
    for nt in range(0, maxtok + 1):
        tokens = ["t%d" % i for i in range(nt)]
        for nc in range(0, maxcls + 1):
            for tup in itertools.product(["K", "-", "X"], repeat=nc):
                yield {"kind": "c2t", "gap": "-", "tokens": tokens, "classes": list(tup), "as_str": True,
                       "pre": [], "suf": []}
                if nt >= 2 and nc <= 3:
                    for p in range(0, 3):
                        for s in range(0, 3):
                            yield {"kind": "c2t", "gap": "-", "tokens": tokens, "classes": list(tup),
                                   "as_str": False, "pre": ["K"] * p, "suf": ["K"] * s}


def c2t_random(rng, n, maxlen):
    for _ in range(n):
        nt = rng.randint(0, maxlen)
        alpha = ["a", "b", "t͡s", "ɔy", "kʰ", "a", "a"]
        tokens = [rng.choice(alpha) for _ in range(nt)]
        p = rng.randint(0, 2) if rng.random() < 0.5 else 0
        s = rng.randint(0, 2) if rng.random() < 0.5 else 0
        if rng.random() < 0.1:
            p, s = rng.randint(0, nt + 1), rng.randint(0, nt + 1)
        c = rng.random()
        ncls = max(0, nt - p - s) if c < 0.4 else nt if c < 0.8 else rng.randint(0, maxlen)
        gapsyms = ["-", "-", "X"] + (["", "-X"] if rng.random() < 0.15 else [])
        as_str = rng.random() < 0.5 and "" not in gapsyms
        classes = [rng.choice("KAPTS") for _ in range(ncls)]
        for _ in range(rng.randint(0, 4)):
            classes.insert(rng.randrange(len(classes) + 1), rng.choice(gapsyms))
        if as_str:
            classes = [c for c in classes if len(c) == 1]
        gap = "-" if rng.random() < 0.8 else rng.choice(["+", "gap", "∅"])
        yield {"kind": "c2t", "gap": gap, "tokens": tokens, "classes": classes, "as_str": as_str,
               "pre": ["K"] * p, "suf": ["K"] * s}


# ---------------------------------------------------------------------------
# bookkeeping

def nontrivial(case, r):
    kind = case["kind"]
    if kind == "ipa":
        # some run merged characters into a multi-character token (or added the null glyph)
        return any(o[0] == "ok" and any(len(t) > 1 for t in o[1]) for o in r["outs"])
    if kind == "t2c":
        # a token was resolved through a fallback branch (not a direct key), and the call returned
        m = _model(case)
        conv = m.converter if hasattr(m, "converter") else m
        return r["out"][0] == "ok" and any(t not in conv for t in case["toks"])
    if kind == "pros":
        return r["out"][0] == "ok" and len(case["l"]) >= 2
    if kind == "prostok":
        return r["out"][0] == "ok" and len(case["toks"]) >= 2
    if kind == "prosseq":
        # at least two different segmentations of the same characters, every call returned
        segs = {tuple(tk) for _, tk in case["steps"]}
        return len(segs) >= 2 and len({"".join(sg) for sg in segs}) == 1 and \
            all(q["out"][0] == "ok" for q in r["steps"])
    if kind == "pipe":
        # every stage returned, some token has several characters and a gap was re-inserted
        return r["toks"][0] == "ok" and r["cls"][0] == "ok" and any(len(t) > 1 for t in r["toks"][1]) \
            and len(r["out"]) > len(r["toks"][1])
    if kind == "c2t":
        return len(r["out"]) > len(case["tokens"]) and len(case["tokens"]) > 0
    return False


def jsonable(case, r=None):
    c = dict(case)
    if r is not None:
        c["impl"] = r
    return c


def from_json(c):
    case = dict(c)
    case.pop("impl", None)
    if case["kind"] == "ipa":
        case["runs"] = [tuple(x) for x in case["runs"]]
    if case["kind"] == "prosseq":
        case["steps"] = [[bool(c), list(tk)] for c, tk in case["steps"]]
    return case


def _drops(seq):
    for i in range(len(seq)):
        yield seq[:i] + seq[i + 1:]


def shrink(case):
    kind = case["kind"]
    if kind == "ipa":
        if len(case["runs"]) > 1:
            for run in case["runs"]:
                yield dict(case, runs=[run])
        for s in _drops(case["s"]):
            yield dict(case, s=s)
    elif kind in ("t2c", "prostok"):
        for t in _drops(case["toks"]):
            yield dict(case, toks=t)
        for i, t in enumerate(case["toks"]):
            for t2 in _drops(t):
                yield dict(case, toks=case["toks"][:i] + [t2] + case["toks"][i + 1:])
    elif kind == "prosseq":
        if len(case["steps"]) > 1:
            for st in _drops(case["steps"]):
                yield dict(case, steps=st)
    elif kind == "pipe":
        for s_ in _drops(case["s"]):
            yield dict(case, s=s_)
    elif kind == "pros":
        for l in _drops(case["l"]):
            yield dict(case, l=l)
        if case["user"]:
            yield dict(case, user=None)
    elif kind == "c2t":
        for t in _drops(case["tokens"]):
            yield dict(case, tokens=t)
        for c in _drops(case["classes"]):
            yield dict(case, classes=c)
        if case["pre"] or case["suf"]:
            yield dict(case, pre=[], suf=[])


def classify(case, r):
    kind = case["kind"]
    out = ["kind=" + kind]
    if kind == "ipa":
        out.append("len=%d" % min(len(case["s"]), 9))
        out.append("ks=" + case["ks"])
        if any(o[0] != "ok" for o in r["outs"]):
            out.append("ipa_error")
        if any(o[0] == "ok" and o[1] and o[1][0].startswith("∅") for o in r["outs"]):
            out.append("ipa_null_glyph")
    elif kind == "t2c":
        out.append("model=" + (case["model"] if isinstance(case["model"], str) else "small"))
        if case.get("by_name"):
            out.append("model_given_by_name")
        out.append("t2c_" + r["out"][0])
    elif kind == "pros":
        out.append("mode=" + case["mode"])
        out.append("pros_" + r["out"][0])
        if 9 in case["l"]:
            out.append("pros_split")
    elif kind == "prostok":
        out.append("prostok_" + r["out"][0])
    elif kind == "prosseq":
        out.append("history_len=%d" % min(len(case["steps"]), 9))
        if any(q["out"][0] != "ok" for q in r["steps"]):
            out.append("history_with_error")
    elif kind == "pipe":
        out.append("pipe_model=" + case["model"])
        out.append("pipe_toks_" + r["toks"][0])
        out.append("pipe_cls_" + r["cls"][0])
    elif kind == "c2t":
        out.append("c2t_gaps=%d" % min(4, len(r["out"]) - len(case["tokens"])))
    return out


def _decode(text):
    """Make the printed model value readable: innermost code-point lists become quoted strings."""
    import re
    text = re.sub(r"\s+", " ", text)

    def chars(m):
        try:
            if any(int(x) < 32 for x in m.group(1).split(";")):
                return m.group(0)
            return repr("".join(chr(int(x)) for x in m.group(1).split(";")))
        except (ValueError, OverflowError):
            return m.group(0)
    return re.sub(r"\[(\d+(?:; \d+)*)\]", chars, text)


def model_expr(case, r, rundir):
    """What the Gallina model computes for this case (for the replay file)."""
    from ..lib import coqrun
    kind = case["kind"]
    st = "(memc rc_stress) (memc rc_diacs)"
    if kind == "ipa":
        ks = "custom_ks" if case["ks"] == "custom" else "rc_ks"
        fl = "; ".join("mk_fl %s %s %s %s" % tuple(b(x) for x in f) for f in case["runs"])
        expr = "map (fun f => ipa2tokens (kw_of_run %s f) %s) [%s]" % (ks, cps(case["s"]), fl)
    elif kind == "t2c":
        tbl = table_ref(case["model"])
        expr = "tokens2class (assoc_find %s) %s %s %s" % (tbl, st, b(case["cldf"]), toks(case["toks"]))
    elif kind == "pros":
        expr = "prosodic_string %s %s" % (COQ_MODE[case["mode"]], zs(case["l"]))
    elif kind == "prosseq":
        expr = "[%s]" % "; ".join(
            "prosodic_string_tokens (assoc_find sc_%s) %s %s OTrue %s" % (case["art"], st, b(c), toks(tk))
            for c, tk in case["steps"])
    elif kind == "pipe":
        ks = "custom_pipe_ks" if case["ks"] == "custom" else "rc_ks"
        expr = "ipa2tokens (kw_of_run %s (mk_fl %s %s %s %s)) %s" % (
            ks, b(case["flags"][0]), b(case["flags"][1]), b(case["flags"][2]), b(case["flags"][3]), cps(case["s"]))
    elif kind == "prostok":
        expr = "(sonority (assoc_find sc_%s) %s false %s, prosodic_string_tokens (assoc_find sc_%s) %s false OTrue %s)" % (
            case["art"], st, toks(case["toks"]), case["art"], st, toks(case["toks"]))
    else:
        expr = "(class2tokens %s %s %s, class2tokens_local %s %s %s %s %s)" % (
            cps(case["gap"]), toks(case["tokens"]), toks(case["classes"]),
            cps(case["gap"]), toks(case["tokens"]), toks(case["pre"]), toks(case["classes"]), toks(case["suf"]))
    try:
        return _decode(coqrun.eval_expr(rundir, "replay_model", IMPORTS, expr))
    except Exception as e:          # never let the replay decoration hide the finding
        return "model evaluation failed: %s" % e
